import NRFacts.Generated
