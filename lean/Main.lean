import NR.Driver
open NR.Driver

partial def loop (h : IO.FS.Stream) (out : IO.FS.Stream) (st : State) : IO Unit := do
  let line ← h.getLine
  if line.isEmpty then return ()
  let l := line.trimAscii.toString
  let (st', o) := step st l
  out.putStrLn o
  loop h out st'

def main : IO Unit := do
  let stdin ← IO.getStdin
  let stdout ← IO.getStdout
  loop stdin stdout {}
