/-
  C02, window lookup — for windows as `SetWindows` accepts them (sorted, non-overlapping, on minute
  boundaries, after the epoch) the minute-slot table of common/rangecheck.go answers, for EVERY
  arrival time (not only whole minutes), exactly what the specification used by NR.Spec and
  NR.WaitEst says: inside a window → the arrival; before or between windows → the next opening;
  after the last window → the arrival; and the lookup never indexes out of range. The table as it was
  GIVEN guarded its two neighbour accesses with the minute index instead of the interval index
  (`i-1 >= 0`, `i+1 < len(intervals)`): E26 — three zero-length windows in the second minute of the epoch
  index out of range (machine-checked counterexample below, reproduced on the Go, repaired in /repo); a
  first window that does not start on a minute boundary did the same (the stop API rejects such windows
  before building the table).
-/
import NR.RangeCheck
import NR.Proofs.RangeCheck
namespace NR.Props.C02W
open NR.RangeCheck

theorem c02_check_spec (ws : List Iv) (t : Rat) (hwf : WF ws) (ht : 0 ≤ t) :
    check ws t = some
      (ws.any (fun w => decide (w.1 ≤ t ∧ t < w.2)),
       if ws.any (fun w => decide (w.1 ≤ t ∧ t < w.2)) then -1
       else match ws.find? (fun w => decide (t < w.1)) with
         | some w => w.1
         | none => -1) :=
  NR.Proofs.RangeCheck.check_spec ws t hwf ht

theorem c02_window_lookup (ws : List Iv) (a : Rat) (hwf : WF ws) (ha : 0 ≤ a) :
    toEarliestStart ws a = some (earliestStart ws a) :=
  NR.Proofs.RangeCheck.window_lookup ws a hwf ha

/-- Whatever `SetWindows` accepts is well formed — so the two theorems above cover every stop of every
model the API lets one build. -/
theorem c02_accepted_windows_wf (ws : List Iv) (h : accepts ws = true) : WF ws :=
  NR.Proofs.RangeCheck.accepts_wf ws h

/-- E26, the table as given: `SetWindows` accepts three zero-length windows at 00:01:00, building the
slot of minute 1 reads `intervals[3]`. The windows satisfy `WF`, so the theorem above was false of the
given code. -/
theorem c02_given_guard_counterexample :
    WF [(60, 60), (60, 60), (60, 60)] ∧ checkOld [(60, 60), (60, 60), (60, 60)] 70 = none ∧
    check [(60, 60), (60, 60), (60, 60)] 70 = some (false, -1) := by
  refine ⟨⟨by decide, ?_, by decide +kernel⟩, by decide +kernel, by decide +kernel⟩
  intro w hw
  simp at hw
  subst hw
  exact ⟨by decide +kernel, by decide +kernel, ⟨1, by decide +kernel⟩, ⟨1, by decide +kernel⟩⟩

/-- The given table, a first window starting at 00:01:30: building the slot of minute 1 reads `intervals[-1]`. -/
theorem c02_given_unaligned_first_window_panics : checkOld [(90, 240)] 70 = none := by decide +kernel

/-! Non-vacuity. -/
example : WF [(120, 240), (300, 300), (600, 720), (720, 900)] := by
  refine ⟨by decide, ?_, by decide +kernel⟩
  intro w hw
  simp at hw
  rcases hw with rfl | rfl | rfl | rfl
  · exact ⟨by decide +kernel, by decide +kernel, ⟨2, by decide +kernel⟩, ⟨4, by decide +kernel⟩⟩
  · exact ⟨by decide +kernel, by decide +kernel, ⟨5, by decide +kernel⟩, ⟨5, by decide +kernel⟩⟩
  · exact ⟨by decide +kernel, by decide +kernel, ⟨10, by decide +kernel⟩, ⟨12, by decide +kernel⟩⟩
  · exact ⟨by decide +kernel, by decide +kernel, ⟨12, by decide +kernel⟩, ⟨15, by decide +kernel⟩⟩
example : accepts [(120, 240), (300, 300), (600, 720), (720, 900)] = true := by decide +kernel
example : toEarliestStart [(120, 240), (300, 300), (600, 720), (720, 900)] 250 = some 300 := by decide +kernel

end NR.Props.C02W

#print axioms NR.Props.C02W.c02_check_spec
#print axioms NR.Props.C02W.c02_window_lookup
#print axioms NR.Props.C02W.c02_accepted_windows_wf
#print axioms NR.Props.C02W.c02_given_guard_counterexample
#print axioms NR.Props.C02W.c02_given_unaligned_first_window_panics
