/-
  C02, window lookup — for windows as `SetWindows` accepts them (sorted, non-overlapping, on minute
  boundaries, after the epoch) the minute-slot table of common/rangecheck.go answers, for EVERY
  arrival time (not only whole minutes), exactly what the specification used by NR.Spec and
  NR.WaitEst says: inside a window → the arrival; before or between windows → the next opening;
  after the last window → the arrival. In particular the two mis-indexed guards of `toSlotInfo`
  (`i-1 >= 0`, `i+1 < len(intervals)` test the minute, not the interval index) are harmless for such
  windows, and the lookup never indexes out of range. For a first window that does NOT start on a
  minute boundary the table construction does index out of range (counterexample below; the stop API
  rejects such windows before building the table).
-/
import NR.RangeCheck
import NR.Proofs.RangeCheck
namespace NR.Props.C02W
open NR.RangeCheck

theorem c02_check_spec (ws : List Iv) (t : Rat) (hwf : WF ws) (ht : 0 ≤ t) :
    check ws t = some
      (ws.any (fun w => decide (w.1 ≤ t ∧ t < w.2)),
       if ws.any (fun w => decide (w.1 ≤ t ∧ t < w.2)) then -1
       else match ws.find? (fun w => decide (t < w.1)) with
         | some w => w.1
         | none => -1) :=
  NR.Proofs.RangeCheck.check_spec ws t hwf ht

theorem c02_window_lookup (ws : List Iv) (a : Rat) (hwf : WF ws) (ha : 0 ≤ a) :
    toEarliestStart ws a = some (earliestStart ws a) :=
  NR.Proofs.RangeCheck.window_lookup ws a hwf ha

/-- A first window starting at 00:01:30: building the slot of minute 1 reads `intervals[-1]`. -/
theorem c02_unaligned_first_window_panics : check [(90, 240)] 70 = none := by decide +kernel

/-! Non-vacuity. -/
example : WF [(120, 240), (300, 300), (600, 720), (720, 900)] := by
  refine ⟨by decide, ?_, by decide +kernel⟩
  intro w hw
  simp at hw
  rcases hw with rfl | rfl | rfl | rfl
  · exact ⟨by decide +kernel, by decide +kernel, ⟨2, by decide +kernel⟩, ⟨4, by decide +kernel⟩⟩
  · exact ⟨by decide +kernel, by decide +kernel, ⟨5, by decide +kernel⟩, ⟨5, by decide +kernel⟩⟩
  · exact ⟨by decide +kernel, by decide +kernel, ⟨10, by decide +kernel⟩, ⟨12, by decide +kernel⟩⟩
  · exact ⟨by decide +kernel, by decide +kernel, ⟨12, by decide +kernel⟩, ⟨15, by decide +kernel⟩⟩
example : toEarliestStart [(120, 240), (300, 300), (600, 720), (720, 900)] 250 = some 300 := by decide +kernel

end NR.Props.C02W

#print axioms NR.Props.C02W.c02_check_spec
#print axioms NR.Props.C02W.c02_window_lookup
#print axioms NR.Props.C02W.c02_unaligned_first_window_panics
