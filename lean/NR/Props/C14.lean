/-
  C14 — parallel solving has no data races.  What Lean decides (PARTIAL by nature): the lockset
  discipline of the protocol — every pair of conflicting accesses to a shared variable of the
  parallel solver from different goroutines holds a common mutex or is a pair of atomic operations
  (FactThms/ParFacts, re-decided on every run over the access table regenerated from the source), plus
  the generic fact below that a discipline-respecting access table has no unordered conflicting pair.
  Memory accesses outside the protocol (inside a run, on its private copy of the solution; lazily
  initialised caches in the shared model) are covered by C11's independence theorem and by race
  detector runs over generated feature mixes (`parrace`), which validate the table and find
  replays: found and repaired E5 (shared random source), E6 (shared best / start stack),
  the cached default time value.
-/
import NR.FactThms.ParFacts
namespace NR.Props.C14
open NR.FactThms.ParFacts

/-- In a table that satisfies the discipline, two accesses to one variable from different closures,
at least one a plain write, share a lock. -/
theorem c14_conflicting_accesses_share_a_lock (rows : List (List String)) (h : lockDiscipline rows = true)
    (a b : List String) (ha : a ∈ rows) (hb : b ∈ rows)
    (hv : var a = var b) (hc : closure a ≠ closure b) (hw : kind a = "w") :
    ∃ l, l ∈ locks a ∧ l ∈ locks b := by
  have h1 := (List.all_eq_true.mp h) a ha
  have h2 := (List.all_eq_true.mp h1) b hb
  simp only [compatible, Bool.or_eq_true, Bool.and_eq_true, decide_eq_true_eq, List.any_eq_true, List.contains_eq_mem] at h2
  rcases h2 with (((h2 | h2) | h2) | h2) | h2
  · exact absurd hv h2
  · exact absurd h2 hc
  · rw [hw] at h2; exact absurd h2.1 (by decide)
  · rw [hw] at h2; exact absurd h2.1 (by decide)
  · obtain ⟨l, hl, hl'⟩ := h2
    exact ⟨l, hl, by simpa using hl'⟩

/-- … instantiated with the table the source has now. -/
theorem c14_protocol_discipline :
    lockDiscipline NR.Facts.parallelSharedAccesses = true := parallel_solver_lock_discipline

end NR.Props.C14

#print axioms NR.Props.C14.c14_conflicting_accesses_share_a_lock
#print axioms NR.Props.C14.c14_protocol_discipline
