/-
  C10 — the position generator of the best-move search under DISALLOWED SUCCESSORS (successor constraint, model API;
  `generate` in solution_move_stops_generator.go, as repaired: E41).

  `c10_generator_enumerates_exactly_the_allowed_placements`: for every unit (stops in the order tried), every target route
  and every relation of disallowed successors, the generator yields exactly the ascending placements in which no unit
  stop directly follows a stop it must not follow and no unit stop but the last is directly followed by a stop that must
  not follow it (the last stop's successor is left to the constraint's estimate — repaired too: E40). Tied to the code by
  the `gend` lines of the apibm stream (the code's own enumeration through its public test entry point, ~9500 per run).
  `c10_e41_counterexample`: as given, the generator dropped every placement of a unit whose consecutive stops must not be
  neighbours.
-/
import NR.Gen
import NR.Proofs.GenDis
namespace NR.Props.C10D
open NR.Gen

theorem c10_generator_enumerates_exactly_the_allowed_placements (dis : Nat → Nat → Bool) (src tgt c : List Nat) :
    c ∈ genDis dis src tgt ↔ IsAllowedDis dis src tgt c :=
  NR.Proofs.GenDis.mem_genDis_iff dis src tgt c

/-- unit {0, 1} (0 before 1), route 9, 2, 10; stop 1 must not directly follow stop 0 -/
def exDis : Nat → Nat → Bool := fun a b => a == 0 && b == 1

/-- E41: the placement "0 in front of 2, 1 behind 2" is allowed (and is what the repaired generator yields); as given the
generator yielded nothing. -/
theorem c10_e41_counterexample :
    genDis exDis [0, 1] [9, 2, 10] = [[1, 2]] ∧ genDisGiven exDis [0, 1] [9, 2, 10] = [] ∧
    IsPlacement 2 2 [1, 2] := by
  refine ⟨by decide, by decide, ?_⟩
  unfold IsPlacement
  refine ⟨rfl, by decide, ?_⟩
  intro x hx
  simp at hx
  rcases hx with h | h <;> subst h <;> decide

end NR.Props.C10D

#print axioms NR.Props.C10D.c10_generator_enumerates_exactly_the_allowed_placements
#print axioms NR.Props.C10D.c10_e41_counterexample
