/-
  C01 — capacity, stop count, distance, compatibility in every reachable solution.
  * constraints WITH an exact check (capacity per resource, distance limit: `Maximum`; any
    constraint registered AtEachStop/AtEachVehicle): `c01_exact_checks_hold` — projection of the
    engine invariant over every admissible history (`EngineThms.run_inv`), for an arbitrary check;
  * constraints WITHOUT an exact check (maximum stops, attributes): `c01_max_stops`,
    `c01_attributes` — the estimate gates every insertion, removals cannot violate them;
  * no-mix: estimate-gated too, plus the stop-data updater turns a violation into an engine
    error; NOT proved here (its predicate is not closed under arbitrary removals) — decided by the
    Spec oracle on every observation of the real code (partial; DESIGN §5 C01).
-/
import NR.Engine
import NR.Gate
import NR.Props.EngineThms
namespace NR.Props.C01
open NR.Engine NR.Gate

set_option linter.unusedSectionVars false
variable {S σ τ : Type} [DecidableEq S]

/-- Every exact check (capacity levels within [0, cap], cumulative distance ≤ limit, …) holds at
every stop of every route of every state reached by any admissible history. -/
theorem c01_exact_checks_hold (m : Model S σ τ) (st : MState S σ τ) (ops : List (Op S))
    (hinv : MInv m st) (hadm : AdmissibleRun m st ops)
    (v : Nat) (hv : v < (run m st ops).routes.length) (hv' : v < m.inits.length) :
    AllOk m.eng (m.inits[v]) ((run m st ops).routes[v]) :=
  ((NR.Props.EngineThms.run_inv m st ops hinv hadm).2.2.1 v hv hv').2

/-- The maximum-stops estimate is exact: it rejects an insertion iff the new route is too long. -/
theorem c01_max_stops_estimate_exact (r ins : List S) (max : Nat) :
    maxStopsViolated r.length ins.length max = false ↔ (r ++ ins).length ≤ max := by
  simp [maxStopsViolated, List.length_append]

/-- Maximum stops in every reachable route: insertions are gated by the estimate, removals only
shorten. -/
theorem c01_max_stops (max : Nat) (r₀ r : List S) (h₀ : r₀.length ≤ max)
    (h : Reach (fun r ins => maxStopsViolated r.length ins.length max) r₀ r) : r.length ≤ max := by
  induction h with
  | refl => exact h₀
  | step r' r'' _ s ih =>
    cases s with
    | insert _ ins hsub hperm hgate =>
      have := hperm.length_eq
      rw [List.length_append] at this
      simp [maxStopsViolated] at hgate
      omega
    | remove _ hsub => exact Nat.le_trans hsub.length_le ih
    | stay => exact ih

/-- Compatibility in every reachable route: an insertion is admitted only if every stop of the
unit is compatible with the vehicle; removals keep the remaining stops compatible. -/
theorem c01_attributes (attrs : S → List String) (vehAttrs : List String) (r₀ r : List S)
    (h₀ : ∀ s ∈ r₀, stopCompatible (attrs s) vehAttrs = true)
    (h : Reach (fun _ ins => attrsViolated (ins.map attrs) vehAttrs) r₀ r) :
    ∀ s ∈ r, stopCompatible (attrs s) vehAttrs = true := by
  induction h with
  | refl => exact h₀
  | step r' r'' _ st ih =>
    cases st with
    | insert _ ins hsub hperm hgate =>
      intro s hs
      have hs' := hperm.mem_iff.mp hs
      rcases List.mem_append.mp hs' with h1 | h1
      · exact ih s h1
      · simp only [attrsViolated, Bool.not_eq_false', List.all_map, List.all_eq_true] at hgate
        exact hgate s h1
    | remove _ hsub => intro s hs; exact ih s (hsub.subset hs)
    | stay => exact ih

/-! Non-vacuity -/
example : maxStopsViolated 2 1 3 = false ∧ maxStopsViolated 3 1 3 = true := by decide
example : attrsViolated [["a"], []] ["a", "b"] = false ∧ attrsViolated [["c"]] ["a"] = true := by decide

end NR.Props.C01

#print axioms NR.Props.C01.c01_exact_checks_hold
#print axioms NR.Props.C01.c01_max_stops_estimate_exact
#print axioms NR.Props.C01.c01_max_stops
#print axioms NR.Props.C01.c01_attributes
