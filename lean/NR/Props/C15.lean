/-
  C15 — solving respects its iteration budget and deadline and always closes the channel.
  Budget: for EVERY arrival order of the workers at the shared counter, each run is granted at most
  what it asked for and the grants sum to exactly min(budget, total demand) — so the total number of
  iterations performed (≤ Σ grants) never exceeds the requested maximum; the total granted does not
  depend on the order, the individual slices do (see C13).
  Shutdown: once the context is done (deadline, caller's cancellation, budget exhausted — the
  `Iterated` handler cancels) the dispatcher / workers / collector system cannot deadlock as long as
  the consumer drains the result channel, every step decreases a measure, and it can only stop
  with the result channel closed. "Shortly after" in wall-clock terms is NOT expressible here:
  it is measured by the harness (partial).
-/
import NR.Par
import NR.Proofs.Par
namespace NR.Props.C15
open NR.Par

theorem c15_grant_le_request (left : Int) (reqs : List Nat) :
    List.Forall₂ (fun g r => g ≤ r) (grants left reqs) reqs :=
  NR.Proofs.Par.grants_le_request left reqs

theorem c15_grants_sum (budget : Nat) (reqs : List Nat) :
    sumNat (grants budget reqs) = min budget (sumNat reqs) :=
  NR.Proofs.Par.grants_sum budget reqs

/-- Hence never more than the budget … -/
theorem c15_grants_le_budget (budget : Nat) (reqs : List Nat) : sumNat (grants budget reqs) ≤ budget := by
  rw [c15_grants_sum]; exact Nat.min_le_left _ _

/-- … and the total does not depend on the order in which the workers reach the counter. -/
theorem c15_total_grant_order_independent (budget : Nat) (reqs reqs' : List Nat) (h : reqs.Perm reqs') :
    sumNat (grants budget reqs) = sumNat (grants budget reqs') :=
  NR.Proofs.Par.grants_sum_perm budget reqs reqs' h

theorem c15_step_preserves_inv (s s' : Sh) (h : ShInv s) (st : Step s s') : ShInv s' :=
  NR.Proofs.Par.step_inv s s' h st

theorem c15_measure_decreases (s s' : Sh) (h : ShInv s) (st : Step s s') : measure s' < measure s :=
  NR.Proofs.Par.step_measure s s' h st

/-- No deadlock: while the result channel is open some component can move. -/
theorem c15_progress (s : Sh) (h : ShInv s) (hopen : s.resultClosed = false) : ∃ s', Step s s' :=
  NR.Proofs.Par.progress s h hopen

/-- Therefore every maximal run from a reachable state is finite (at most `measure s` steps) and
ends with the result channel closed. -/
theorem c15_closes (s : Sh) (h : ShInv s) :
    ∃ n, n ≤ measure s ∧ ∀ (path : List Sh), NR.Proofs.Par.IsRun s path → path.length ≤ n :=
  NR.Proofs.Par.run_bounded s h

/-! Non-vacuity: two workers mid-flight, dispatcher blocked on the semaphore. -/
example : ShInv ⟨.blockedOnSemaphore, 2, 3, 1, false, false⟩ := by
  simp [ShInv]

end NR.Props.C15

#print axioms NR.Props.C15.c15_grant_le_request
#print axioms NR.Props.C15.c15_grants_sum
#print axioms NR.Props.C15.c15_grants_le_budget
#print axioms NR.Props.C15.c15_total_grant_order_independent
#print axioms NR.Props.C15.c15_step_preserves_inv
#print axioms NR.Props.C15.c15_measure_decreases
#print axioms NR.Props.C15.c15_progress
#print axioms NR.Props.C15.c15_closes
