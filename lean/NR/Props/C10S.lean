/-
  C10, order generator — for a multi-stop unit the search tries EVERY order of the unit's stops that
  the unit's DAG allows (and only those), each once, whatever random order the levels of the
  enumeration use; the sample cut-off keeps a prefix. This is what makes "the best move is a cheapest
  accepted insertion" quantify over all orders (for units whose number of orders does not exceed
  `SequenceSampleSize`). The generator as found (E24) is kept with a machine-checked counterexample:
  for a stop with two predecessors, one of them direct, it produces NO order at all for one of the two
  random orders of the first level.
-/
import NR.Seq
import NR.Proofs.Seq
namespace NR.Props.C10S
open NR.Seq

/-- Every generated sequence is a valid order of the unit. -/
theorem c10_orders_sound (arcs : List Arc) (stops : List Nat) (ord : List Nat → List Nat)
    (hwf : WF arcs stops) (hord : ∀ seq, (ord seq).Perm stops) (seq : List Nat)
    (h : seq ∈ orders arcs ord stops.length) : Valid arcs stops seq :=
  NR.Proofs.Seq.orders_sound arcs stops ord hwf hord seq h

/-- Every valid order of the unit is generated. -/
theorem c10_orders_complete (arcs : List Arc) (stops : List Nat) (ord : List Nat → List Nat)
    (hwf : WF arcs stops) (hord : ∀ seq, (ord seq).Perm stops) (seq : List Nat)
    (h : Valid arcs stops seq) : seq ∈ orders arcs ord stops.length :=
  NR.Proofs.Seq.orders_complete arcs stops ord hwf hord seq h

/-- … exactly once. -/
theorem c10_orders_nodup (arcs : List Arc) (stops : List Nat) (ord : List Nat → List Nat)
    (hwf : WF arcs stops) (hord : ∀ seq, (ord seq).Perm stops) :
    (orders arcs ord stops.length).Nodup :=
  NR.Proofs.Seq.orders_nodup arcs stops ord hwf hord

/-- The set of orders does not depend on the random orders of the levels. -/
theorem c10_orders_independent_of_random_order (arcs : List Arc) (stops : List Nat) (ord ord' : List Nat → List Nat)
    (hwf : WF arcs stops) (hord : ∀ seq, (ord seq).Perm stops) (hord' : ∀ seq, (ord' seq).Perm stops) :
    (orders arcs ord stops.length).Perm (orders arcs ord' stops.length) :=
  NR.Proofs.Seq.orders_perm arcs stops ord ord' hwf hord hord'

/-- The sample is a prefix of the enumeration, and all of it when the cap is large enough. -/
theorem c10_sample (arcs : List Arc) (ord : List Nat → List Nat) (k cap : Nat) :
    sample arcs ord k cap <+: orders arcs ord k ∧
    ((orders arcs ord k).length ≤ cap → sample arcs ord k cap = orders arcs ord k) :=
  NR.Proofs.Seq.sample_prefix arcs ord k cap

/-! E24: stops a=0, b=1, c=2; a → b direct, c → b. The only valid order is c, a, b. -/
def veeArcs : List Arc := [⟨0, 1, true⟩, ⟨2, 1, false⟩]

theorem c10_e24_counterexample :
    WF veeArcs [0, 1, 2] ∧ Valid veeArcs [0, 1, 2] [2, 0, 1] ∧
    genStale veeArcs (fun _ => [0, 2, 1]) 3 [] none = [] ∧
    genStale veeArcs (fun _ => [2, 0, 1]) 3 [] none = [[2, 0, 1]] ∧
    orders veeArcs (fun _ => [0, 2, 1]) 3 = [[2, 0, 1]] :=
  NR.Proofs.Seq.e24_counterexample

/-! Non-vacuity: a diamond has exactly two orders. -/
example : orders [⟨0, 1, false⟩, ⟨0, 2, false⟩, ⟨1, 3, false⟩, ⟨2, 3, false⟩] (fun _ => [0, 1, 2, 3]) 4 =
    [[0, 1, 2, 3], [0, 2, 1, 3]] := by decide

end NR.Props.C10S

#print axioms NR.Props.C10S.c10_orders_sound
#print axioms NR.Props.C10S.c10_orders_complete
#print axioms NR.Props.C10S.c10_orders_nodup
#print axioms NR.Props.C10S.c10_orders_independent_of_random_order
#print axioms NR.Props.C10S.c10_sample
#print axioms NR.Props.C10S.c10_e24_counterexample
