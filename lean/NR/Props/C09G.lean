/-
  C09, the hypothetical-route iterator — `solutionStopGenerator` yields exactly the stops of the route
  AS IT WOULD BE after the move, from the requested start to the requested end, for every route, every
  number of inserted stops, every placement (several stops into one gap, gaps anywhere up to directly
  before the last stop) and all four (startAtFirst, endAtLast) modes. Every estimate walks this list,
  so the abstraction "the estimate reads the values along the new route" used by NR.Estimate and
  NR.WaitEst is justified by this theorem.
-/
import NR.StopGen
import NR.Proofs.StopGen
namespace NR.Props.C09G
open NR.StopGen

theorem c09_iterator_yields_the_new_route (route : List Nat) (ins : Ins) (startAtFirst endAtLast : Bool)
    (hwf : WF route ins) :
    generate route (positions route ins) startAtFirst endAtLast = expected route ins startAtFirst endAtLast :=
  NR.Proofs.StopGen.generate_eq_expected route ins startAtFirst endAtLast hwf

/-- In the full mode the iterator yields the whole new route. -/
theorem c09_iterator_full (route : List Nat) (ins : Ins) (hwf : WF route ins) :
    generate route (positions route ins) true true = splice route ins :=
  NR.Proofs.StopGen.generate_full route ins hwf

/-! Non-vacuity. -/
example : WF [1, 2, 3, 4, 5, 6] [(3, 10), (3, 11), (5, 12)] := by
  unfold WF; refine ⟨by decide, by decide, by decide, by decide, ?_, by decide⟩
  intro p hp; simp at hp; rcases hp with rfl | rfl | rfl <;> decide
example : generate [1, 2, 3, 4, 5, 6] (positions [1, 2, 3, 4, 5, 6] [(3, 10), (3, 11), (5, 12)]) false false =
    [3, 10, 11, 4, 5, 12, 6] := by decide

end NR.Props.C09G

#print axioms NR.Props.C09G.c09_iterator_yields_the_new_route
#print axioms NR.Props.C09G.c09_iterator_full
