/-
  C09, temporal part — the waiting-time estimates are EXACT: they reject a move iff the exact check
  (`DoesStopHaveViolations` of the same constraint at every stop of the new route from the insertion
  point on) fails, GIVEN that what is stored for the stops behind the early exit is what the engine
  computes (the cache invariant, C04) — for every walk, every window set, every travel matrix (no
  triangle inequality) and duration groups. The estimates before the repairs of E8 and E23 are kept
  with machine-checked counterexamples.
-/
import NR.WaitEst
import NR.Proofs.WaitEst
namespace NR.Props.C09W
open NR.WaitEst

/-- `maximumWaitVehicle`: estimate = negation of the exact check. -/
theorem c09_wait_vehicle_exact (max lastAcc : Rat) (timeDep : Bool) (pe acc : Rat) (cnt : Nat) (walk : List Item)
    (h : Behind (StoredAcc lastAcc) cnt walk) :
    estVehicle max lastAcc timeDep pe acc cnt walk = !exactVehicleOK max pe acc walk :=
  NR.Proofs.WaitEst.wait_vehicle_exact max lastAcc timeDep pe acc cnt walk h

/-- `maximumWaitStop`: estimate = negation of the exact check. -/
theorem c09_wait_stop_exact (timeDep : Bool) (pe : Rat) (cnt : Nat) (walk : List Item)
    (h : Behind StoredWaits cnt walk) :
    estStop timeDep pe cnt walk = !exactStopOK pe walk :=
  NR.Proofs.WaitEst.wait_stop_exact timeDep pe cnt walk h

/-- With time-dependent travel durations nothing is assumed about the stored values. -/
theorem c09_wait_vehicle_exact_timedep (max lastAcc pe acc : Rat) (cnt : Nat) (walk : List Item) :
    estVehicle max lastAcc true pe acc cnt walk = !exactVehicleOK max pe acc walk :=
  NR.Proofs.WaitEst.wait_vehicle_exact_timedep max lastAcc pe acc cnt walk

/-! E8 (repaired by a74c12e): route start —(100)→ B —(100)→ C, B opens at 150 (waits 50), C opens at
400 (waits 150): stored accumulated wait 200 = the limit. Insert X before B with a window opening at
60: on a non-metric matrix (start→X 10, X→B 40) B is still reached at 100, but X has waited 50. -/
def e8Walk : List Item :=
  [{ travel := 10, windows := [(60, 1000)], dur := 0, planned := false },
   { travel := 40, windows := [(150, 1000)], dur := 0, planned := true, cArr := 100, cEnd := 150, cPrevAcc := 0 },
   { travel := 100, windows := [(400, 1000)], dur := 0, planned := true, cArr := 250, cEnd := 400, cPrevAcc := 50 }]

theorem c09_e8_counterexample :
    Behind (StoredAcc 200) 1 e8Walk ∧
    estVehicleE8 200 false 0 0 1 e8Walk = false ∧ exactVehicleOK 200 0 0 e8Walk = false ∧
    estVehicle 200 200 false 0 0 1 e8Walk = true :=
  NR.Proofs.WaitEst.e8_counterexample

/-! E23 (repaired by c57f88e): A and B share a duration group (surcharge 600 when entered from
outside). Route A, B, C; X is inserted between A and B at zero detour: B is reached at its stored
arrival 840 but now pays the surcharge (dur 600 instead of 0), so C is reached at 1560 instead of 960
and has to wait for its second window (opens 3000). -/
def e23Walk : List Item :=
  [{ travel := 0, windows := [], dur := 0, planned := false, maxWait := 100000 },
   { travel := 120, windows := [], dur := 600, planned := true, maxWait := 100000, cArr := 840, cEnd := 840, cPrevAcc := 0 },
   { travel := 120, windows := [(900, 1020), (3000, 4200)], dur := 0, planned := true, maxWait := 100, cArr := 960, cEnd := 960, cPrevAcc := 0 }]

theorem c09_e23_counterexample :
    Behind (StoredAcc 0) 1 e23Walk ∧
    estVehicleE23 1000 0 false 720 0 1 e23Walk = false ∧ exactVehicleOK 1000 720 0 e23Walk = false ∧
    estVehicle 1000 0 false 720 0 1 e23Walk = true ∧
    estStop false 720 1 e23Walk = true ∧ exactStopOK 720 e23Walk = false :=
  NR.Proofs.WaitEst.e23_counterexample

/-! Non-vacuity: an insertion the estimate admits through the early exit. -/
def okWalk : List Item :=
  [{ travel := 10, windows := [], dur := 0, planned := false, maxWait := 10 },
   { travel := 40, windows := [(150, 1000)], dur := 0, planned := true, maxWait := 60, cArr := 100, cEnd := 150, cPrevAcc := 0 },
   { travel := 100, windows := [(400, 1000)], dur := 0, planned := true, maxWait := 200, cArr := 250, cEnd := 400, cPrevAcc := 50 }]

example : Behind (StoredAcc 200) 1 okWalk ∧ Behind StoredWaits 1 okWalk ∧
    estVehicle 200 200 false 50 0 1 okWalk = false ∧ exactVehicleOK 200 50 0 okWalk = true ∧
    estStop false 50 1 okWalk = false ∧ exactStopOK 50 okWalk = true := by
  refine ⟨?_, ?_, ?_, ?_, ?_, ?_⟩ <;> decide +kernel

end NR.Props.C09W

#print axioms NR.Props.C09W.c09_wait_vehicle_exact
#print axioms NR.Props.C09W.c09_wait_stop_exact
#print axioms NR.Props.C09W.c09_wait_vehicle_exact_timedep
#print axioms NR.Props.C09W.c09_e8_counterexample
#print axioms NR.Props.C09W.c09_e23_counterexample
