/-
  Engine theorems shared by C01, C02, C04, C05, C07, C19 (DESIGN §3.6): one preservation theorem
  for the invariant over arbitrary histories, and the all-or-nothing theorem for every operation.
  Generic in the cached value type, the step function and the exact checks.
-/
import NR.Engine
import NR.Proofs.Engine
namespace NR.Props.EngineThms
open NR.Engine

variable {S σ τ : Type} [DecidableEq S]

/-- A pass that returns no violation establishes cache consistency and every exact check on
what it walked. -/
theorem prop_complete (e : Eng S σ) (prev : σ) (l : List S) (vals vals' : S → σ)
    (hnd : l.Nodup) (h : prop e prev l vals = (vals', true)) :
    Consistent e prev l vals' ∧ AllOk e prev l :=
  NR.Proofs.Engine.prop_complete e prev l vals vals' hnd h

/-- A pass writes nowhere else. -/
theorem prop_frame (e : Eng S σ) (prev : σ) (l : List S) (vals vals' : S → σ) (b : Bool)
    (h : prop e prev l vals = (vals', b)) : ∀ t, t ∉ l → vals' t = vals t :=
  NR.Proofs.Engine.prop_frame e prev l vals vals' b h

/-- An operation that succeeds leaves the vehicle consistent, with every exact check passed on
the *whole* new route. -/
theorem change_ok (e : Eng S σ) (init : σ) (pre old new : List S) (vals : S → σ)
    (st' : VState S σ) (d : Bool)
    (hinv : Inv e init ⟨pre ++ old, vals⟩) (hnd : (pre ++ new).Nodup)
    (h : change e init pre old new vals = (st', true, d)) :
    st'.route = pre ++ new ∧ Inv e init st' :=
  NR.Proofs.Engine.change_ok e init pre old new vals st' d hinv hnd h

/-- All-or-nothing: an operation that is rejected (by whatever exact check, at whatever stop)
leaves the route and the cached value of every stop on it exactly as they were, the rollback pass
always completes, and the invariant still holds. -/
theorem change_fail (e : Eng S σ) (init : σ) (pre old new : List S) (vals : S → σ)
    (st' : VState S σ) (d : Bool)
    (hinv : Inv e init ⟨pre ++ old, vals⟩) (hnd : (pre ++ new).Nodup)
    (h : change e init pre old new vals = (st', false, d)) :
    d = true ∧ st'.route = pre ++ old ∧ (∀ s ∈ pre ++ old, st'.vals s = vals s) ∧ Inv e init st' :=
  NR.Proofs.Engine.change_fail e init pre old new vals st' d hinv hnd h

/-- Both outcomes leave every stop that is neither on the old nor on the new route untouched. -/
theorem change_frame (e : Eng S σ) (init : σ) (pre old new : List S) (vals : S → σ)
    (st' : VState S σ) (r d : Bool)
    (h : change e init pre old new vals = (st', r, d)) :
    ∀ t, t ∉ old → t ∉ new → st'.vals t = vals t :=
  NR.Proofs.Engine.change_frame e init pre old new vals st' r d h

/-- One operation preserves the solution invariant (several vehicles, scores). -/
theorem applyOp_inv (m : Model S σ τ) (st : MState S σ τ) (op : Op S)
    (hinv : MInv m st) (hadm : Admissible st op) : MInv m (applyOp m st op).1 :=
  NR.Proofs.Engine.applyOp_inv m st op hinv hadm

/-- A rejected operation leaves everything observable unchanged: routes, cached values of all
planned stops, score. -/
theorem applyOp_fail_obs (m : Model S σ τ) (st : MState S σ τ) (op : Op S)
    (hinv : MInv m st) (hadm : Admissible st op) (hres : (applyOp m st op).2 = false) :
    mobs (applyOp m st op).1 = mobs st :=
  NR.Proofs.Engine.applyOp_fail_obs m st op hinv hadm hres

/-- Every state reached by any admissible history satisfies the invariant: cached values equal
the forward propagation of the current routes (history independence), every exact check holds
on every route, the score is the objective of the current routes. -/
theorem run_inv (m : Model S σ τ) (st : MState S σ τ) (ops : List (Op S))
    (hinv : MInv m st) (hadm : AdmissibleRun m st ops) : MInv m (run m st ops) :=
  NR.Proofs.Engine.run_inv m st ops hinv hadm

/-- History independence, spelled out: two admissible histories that end with the same routes end
with the same observable solution. -/
theorem run_history_independent (m : Model S σ τ) (st₁ st₂ : MState S σ τ) (ops₁ ops₂ : List (Op S))
    (h₁ : MInv m st₁) (h₂ : MInv m st₂) (a₁ : AdmissibleRun m st₁ ops₁) (a₂ : AdmissibleRun m st₂ ops₂)
    (hr : (run m st₁ ops₁).routes = (run m st₂ ops₂).routes) :
    mobs (run m st₁ ops₁) = mobs (run m st₂ ops₂) :=
  NR.Proofs.Engine.run_history_independent m st₁ st₂ ops₁ ops₂ h₁ h₂ a₁ a₂ hr

/-! Non-vacuity: a two-vehicle model over `Nat` stops, value = running sum, check = `≤ 10`;
the start state satisfies the invariant, one insertion is accepted and one is rejected. -/
def exModel : Model Nat Nat Nat :=
  { eng := { step := fun p s => p + s, ok := fun v _ => decide (v ≤ 10) },
    inits := [0, 0],
    scoreOf := fun o => (o.map (fun r => (r.map (·.2)).foldl max 0)).foldl (· + ·) 0 }

def exStart : MState Nat Nat Nat := { routes := [[], []], vals := fun _ => 0, score := 0 }

example : MInv exModel exStart := NR.Proofs.Engine.exStart_inv
example : Admissible exStart ⟨0, 0, [3, 4]⟩ := NR.Proofs.Engine.exOp_adm
example : (applyOp exModel exStart ⟨0, 0, [3, 4]⟩).2 = true := NR.Proofs.Engine.exOp_ok
example : (applyOp exModel (applyOp exModel exStart ⟨0, 0, [3, 4]⟩).1 ⟨0, 1, [9, 4]⟩).2 = false :=
  NR.Proofs.Engine.exOp_rejected

end NR.Props.EngineThms

#print axioms NR.Props.EngineThms.prop_complete
#print axioms NR.Props.EngineThms.prop_frame
#print axioms NR.Props.EngineThms.change_ok
#print axioms NR.Props.EngineThms.change_fail
#print axioms NR.Props.EngineThms.change_frame
#print axioms NR.Props.EngineThms.applyOp_inv
#print axioms NR.Props.EngineThms.applyOp_fail_obs
#print axioms NR.Props.EngineThms.run_inv
#print axioms NR.Props.EngineThms.run_history_independent
