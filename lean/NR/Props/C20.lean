/-
  C20 — the JSON output is a faithful projection of the solution.
  Arithmetic of the projection (for every route and every objective): the derived
  `route_waiting_duration` equals the sum of the stops' waiting durations whenever the legs chain
  (which the schedule theorem C04 provides) — in whole seconds; cumulative distances are prefix sums
  ending in the route total; `base × factor = value` for every term with a non-zero factor.
  "Every stop exactly once" follows the bookkeeping: proved from the collections invariant (C08) on
  the sub-alphabet where it holds — FALSE in general: a half planned group (finding E2) is listed as
  unplanned by `toSolutionOutputStops`… with its planned members on routes, or — listed as planned —
  its unplanned members appear nowhere (`c20_counterexample_missing_stop`).
  That the Go formatter IS this projection is the tie: the `fmt` stream compares every field of the
  parsed JSON with the Solution object and with the input.
-/
import NR.Format
import NR.Coll
import NR.Props.C08
namespace NR.Props.C20
open NR.Format

theorem foldl_add_shift (l : List Int) (a : Int) : l.foldl (· + ·) a = a + l.foldl (· + ·) 0 := by
  induction l generalizing a with
  | nil => simp
  | cons x xs ih => simp only [List.foldl_cons]; rw [ih (a + x), ih (0 + x)]; omega

/-- Route duration = travel + waiting + service, hence the formatter's derived waiting equals the
sum of the per-stop waiting durations. -/
theorem c20_route_waiting_is_sum_of_stop_waiting (t0 : Int) (ls : List Leg) (h : Chained t0 ls) :
    routeWaiting t0 ls = sumWaiting ls := by
  induction ls generalizing t0 with
  | nil => simp [routeWaiting, lastFinish, sumTravel, sumStops, sumWaiting]
  | cons l rest ih =>
    obtain ⟨h1, h2, h3, h4⟩ := h
    have ih' := ih l.finish h4
    simp only [routeWaiting, sumTravel, sumStops, sumWaiting, List.map_cons, List.foldl_cons] at ih' ⊢
    rw [foldl_add_shift _ (0 + l.travel), foldl_add_shift _ (0 + (l.finish - l.start)),
      foldl_add_shift _ (0 + (l.start - l.arrival))]
    have hl : lastFinish t0 (l :: rest) = lastFinish l.finish rest := by
      cases rest with
      | nil => simp [lastFinish]
      | cons r rs =>
        have hne : ((r :: rs).getLast?).isSome = true := by simp
        obtain ⟨z, hz⟩ := Option.isSome_iff_exists.mp hne
        simp [lastFinish, List.getLast?_cons_cons, hz]
    rw [hl]
    omega

/-- The derived waiting is never negative. -/
theorem c20_route_waiting_nonneg (t0 : Int) (ls : List Leg) (h : Chained t0 ls) : 0 ≤ routeWaiting t0 ls := by
  rw [c20_route_waiting_is_sum_of_stop_waiting t0 ls h]
  induction ls generalizing t0 with
  | nil => simp [sumWaiting]
  | cons l rest ih =>
    obtain ⟨_, h2, _, h4⟩ := h
    have := ih l.finish h4
    simp only [sumWaiting, List.map_cons, List.foldl_cons] at this ⊢
    rw [foldl_add_shift]; omega

/-- Cumulative distances are running sums and end in the total. -/
theorem c20_prefix_sums_last (acc : Int) (xs : List Int) (h : xs ≠ []) :
    (prefixSums acc xs).getLast? = some (xs.foldl (· + ·) acc) := by
  induction xs generalizing acc with
  | nil => exact absurd rfl h
  | cons x rest ih =>
    cases rest with
    | nil => simp [prefixSums]
    | cons y ys =>
      have := ih (acc + x) (by simp)
      simp only [prefixSums, List.foldl_cons] at this ⊢
      rw [List.getLast?_cons_cons]
      exact this

/-- `base × factor = value` for every term the formatter writes with a non-zero factor. -/
theorem c20_base_times_factor (factor value : Rat) (h : factor ≠ 0) :
    (termOf factor value).base * (termOf factor value).factor = (termOf factor value).value := by
  simp only [termOf]
  exact Rat.div_mul_cancel h

/-- Every stops-unit that is a root or a member of a plan-all unit is either on a route or its root
is listed as unplanned — never both, never neither — in every state the sub-alphabet reaches. -/
theorem c20_exactly_once_partial (U : NR.Coll.Units) (ops : List NR.Coll.COp)
    (hU : NR.Coll.WFUnits U = true) (hops : ∀ op ∈ ops, NR.Coll.GoodOp U op = true)
    (hne : ∀ p undo, NR.Coll.COp.execUnits p [] undo ∉ ops) :
    NR.Coll.BooksOK U (NR.Coll.runOps U (NR.Coll.start U) ops) = true :=
  NR.Props.C08.c08_partial U ops hU hops hne

/-- Finding E2 at the output: after un-planning ONE member of a planned group, the group is listed
as unplanned while its other member is still on a route — that stop is printed on its route AND in
`unplanned`; had the group stayed listed as planned, the un-planned member would be printed nowhere. -/
theorem c20_counterexample_missing_stop :
    let s := NR.Coll.runOps NR.Props.C08.exAll (NR.Coll.start NR.Props.C08.exAll)
      [.execUnits 0 [(1, true), (2, true)] [], .unplanStops 1 true]
    s.onRoute = [2] ∧ s.unplanned.contains 0 = true := by
  decide

/-! Non-vacuity -/
example : Chained 100 [⟨10, 110, 120, 150⟩, ⟨5, 155, 155, 160⟩] := by simp [Chained]
example : routeWaiting 100 [⟨10, 110, 120, 150⟩, ⟨5, 155, 155, 160⟩] = 10 := by decide

end NR.Props.C20

#print axioms NR.Props.C20.c20_route_waiting_is_sum_of_stop_waiting
#print axioms NR.Props.C20.c20_route_waiting_nonneg
#print axioms NR.Props.C20.c20_prefix_sums_last
#print axioms NR.Props.C20.c20_base_times_factor
#print axioms NR.Props.C20.c20_exactly_once_partial
#print axioms NR.Props.C20.c20_counterexample_missing_stop
