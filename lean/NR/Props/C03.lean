/-
  C03 — stops are planned exactly once; plan units stay whole, ordered and together.
  * exactly once: the engine invariant keeps all routes duplicate-free and pairwise disjoint
    (`c03_no_stop_twice`);
  * direct pairs: every placement the move generator yields keeps direct pairs of the target route
    adjacent and places a direct pair of the unit in one gap (`c03_generate_respects_direct`); the
    single-stop search path had no such guard (finding E3, repaired: KNOWN_FINDINGS `fixed: property=C03`);
  * groups whole: on the sub-alphabet of root operations a plan-all unit is never half planned
    (`c03_groups_whole_partial`); FALSE in general: un-planning a member, which the solver's un-plan
    operators do, tears a group apart (`c03_counterexample_member_unplan`, finding E2).
-/
import NR.Engine
import NR.Gen
import NR.Coll
import NR.Props.EngineThms
import NR.Props.C08
import NR.Props.C10
namespace NR.Props.C03
open NR.Engine

variable {S σ τ : Type} [DecidableEq S]

theorem c03_no_stop_twice (m : Model S σ τ) (st : MState S σ τ) (ops : List (Op S))
    (hinv : MInv m st) (hadm : AdmissibleRun m st ops) :
    ((run m st ops).routes.flatten).Nodup :=
  (NR.Props.EngineThms.run_inv m st ops hinv hadm).2.1

theorem c03_generate_respects_direct (n m : Nat) (splitBad mustSame : Nat → Bool) (c : List Nat)
    (h : c ∈ NR.Gen.generate n m splitBad mustSame) :
    (∀ x ∈ c, splitBad x = false) ∧
    (∀ j, j + 1 < c.length → mustSame (j + 1) = true → c.getD j 0 = c.getD (j + 1) 0) :=
  ((NR.Props.C10.c10_generate_complete n m splitBad mustSame c).mp h).2

theorem c03_groups_whole_partial (U : NR.Coll.Units) (ops : List NR.Coll.COp)
    (hU : NR.Coll.WFUnits U = true) (hops : ∀ op ∈ ops, NR.Coll.GoodOp U op = true)
    (hne : ∀ p undo, NR.Coll.COp.execUnits p [] undo ∉ ops) :
    NR.Coll.BooksOK U (NR.Coll.runOps U (NR.Coll.start U) ops) = true :=
  NR.Props.C08.c08_partial U ops hU hops hne

theorem c03_counterexample_member_unplan :
    NR.Coll.WFUnits NR.Props.C08.exAll = true ∧
    NR.Coll.BooksOK NR.Props.C08.exAll (NR.Coll.runOps NR.Props.C08.exAll (NR.Coll.start NR.Props.C08.exAll)
      [.execUnits 0 [(1, true), (2, true)] [], .unplanStops 1 true]) = false :=
  NR.Props.C08.c08_counterexample_member_unplan

end NR.Props.C03

#print axioms NR.Props.C03.c03_no_stop_twice
#print axioms NR.Props.C03.c03_generate_respects_direct
#print axioms NR.Props.C03.c03_groups_whole_partial
#print axioms NR.Props.C03.c03_counterexample_member_unplan
