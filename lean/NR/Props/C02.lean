/-
  C02 — time windows, shift end, duration and wait limits in every reachable solution.
  Every temporal constraint the factory registers has an exact check at stop level
  (`Latest.DoesStopHaveViolations` — exact whenever `SatisfiesTriangleInequality` is false, which
  is a regenerated fact about JSON-built models —, `maximumWaitStop`, `maximumWaitVehicle`) or at
  the vehicle's end stop (latest end = min(end time, start + max duration)); un-planning runs the
  same pass (`isFeasible(_, true)`), so the property is the engine invariant's `AllOk` clause for
  whatever these checks are — with NO assumption on the travel matrix (no triangle inequality, no
  FIFO): `ok` and `step` are arbitrary.
-/
import NR.Engine
import NR.Props.EngineThms
namespace NR.Props.C02
open NR.Engine

variable {S σ τ : Type} [DecidableEq S]

/-- After ANY admissible history — insertions, removals (which can increase waiting), rejected
attempts — every temporal check holds at every stop of every route. -/
theorem c02_temporal_checks_hold (m : Model S σ τ) (st : MState S σ τ) (ops : List (Op S))
    (hinv : MInv m st) (hadm : AdmissibleRun m st ops)
    (v : Nat) (hv : v < (run m st ops).routes.length) (hv' : v < m.inits.length) :
    AllOk m.eng (m.inits[v]) ((run m st ops).routes[v]) :=
  ((NR.Props.EngineThms.run_inv m st ops hinv hadm).2.2.1 v hv hv').2

/-- A removal that would violate a temporal check (waiting grows, non-metric matrix) is rolled
back: the observable solution is unchanged. -/
theorem c02_infeasible_removal_rolled_back (m : Model S σ τ) (st : MState S σ τ) (op : Op S)
    (hinv : MInv m st) (hadm : Admissible st op) (hres : (applyOp m st op).2 = false) :
    mobs (applyOp m st op).1 = mobs st :=
  NR.Props.EngineThms.applyOp_fail_obs m st op hinv hadm hres

end NR.Props.C02

#print axioms NR.Props.C02.c02_temporal_checks_hold
#print axioms NR.Props.C02.c02_infeasible_removal_rolled_back
