/-
  C03 / C08 / C19 on the initial solution — NR.Init (`addInitialSolution`, one vehicle, scripted constraints).
  The theorems hold for EVERY configuration (any initial stops, any unit / group structure, any fixed flags, any script)
  of the code as it is (`AsIs`: all switches on). The counterexample theorems show what each repair (E36, E37) and the
  root-level fixed test of the repair loop are needed for: the same statements are false with the switch off.
-/
import NR.Init
import NR.Proofs.Init
import NR.Proofs.InitPos
namespace NR.Props.C03I
open NR.Init

/-- the code as it is -/
def AsIs (c : Cfg) : Prop :=
  c.skipRejected = true ∧ c.detachMembers = true ∧ c.coverCheck = true ∧ c.rootFixedAtAttach = true ∧ c.rootFixedWalk = true

/-- the route `addInitialSolution` leaves on the vehicle -/
def finalRoute (c : Cfg) : List Nat := routeOf c (run c).att

/-- C03 (units whole): two stops of the same root unit are both on the route or both off it — for a root that is NOT a
one-of unit (`ho`; of a one-of root one alternative is on the route and the others are not:
`c03_initial_units_whole_oneof_counterexample`; what holds of one-of roots is `c03_initial_oneof_at_most_one` and
`c03_initial_oneof_whole_alternative` below). -/
theorem c03_initial_units_whole (c : Cfg) (h : AsIs c) (hok : (run c).err = false)
    (s s' : Nat) (hs : s ∈ c.stops) (hs' : s' ∈ c.stops) (hr : root c s = root c s') (ho : root c s ∉ c.oneOf) :
    s ∈ finalRoute c ↔ s' ∈ finalRoute c :=
  NR.Proofs.Init.units_whole c h.1 h.2.1 h.2.2.1 hok s s' hs hs' hr ho

/-- C03 (one-of): of a one-of root at most ONE alternative (member stops-unit) is attached when a solution is returned. -/
theorem c03_initial_oneof_at_most_one (c : Cfg) (h : AsIs c) (hok : (run c).err = false) (r : Nat) (hr : r ∈ c.oneOf) :
    ∀ u u', u ∈ (run c).att → u' ∈ (run c).att → c.rootOf u = r → c.rootOf u' = r → u = u' :=
  NR.Proofs.Init.oneof_at_most_one c h.1 h.2.1 h.2.2.1 hok r hr

/-- … in terms of the route: two stops of a one-of root that are both on the route are stops of the same alternative. -/
theorem c03_initial_oneof_route_one_alternative (c : Cfg) (h : AsIs c) (hok : (run c).err = false)
    (s s' : Nat) (hr : root c s ∈ c.oneOf) (hrr : root c s = root c s') (hs : s ∈ finalRoute c) (hs' : s' ∈ finalRoute c) :
    c.unitOf s = c.unitOf s' :=
  NR.Proofs.Init.oneof_route_one_unit c h.1 h.2.1 h.2.2.1 hok s s' hr hrr hs hs'

/-- C03 (alternatives whole): two initial stops of the same stops-unit are both on the route or both off it, whatever
the root (one-of or not). -/
theorem c03_initial_oneof_whole_alternative (c : Cfg) (s s' : Nat) (hs : s ∈ c.L) (hs' : s' ∈ c.L)
    (hu : c.unitOf s = c.unitOf s') : s ∈ finalRoute c ↔ s' ∈ finalRoute c :=
  NR.Proofs.Init.unit_whole_L c (run c).att s s' hs hs' hu

/-- … and for two stops of the MODEL when a solution is returned (`Model.Lock` lists a stops-unit whole or not at all). -/
theorem c03_initial_oneof_whole_alternative_stops (c : Cfg) (hok : (run c).err = false)
    (s s' : Nat) (hs : s ∈ c.stops) (hs' : s' ∈ c.stops) (hu : c.unitOf s = c.unitOf s') :
    s ∈ finalRoute c ↔ s' ∈ finalRoute c :=
  NR.Proofs.Init.unit_whole c hok s s' hs hs' hu

/-- C08 (filing = routes): a root unit is filed as planned / fixed exactly when one of its stops (hence, by the theorem
above, all of them) is on the route. -/
theorem c08_initial_filed_iff_on_route (c : Cfg) (h : AsIs c) (hL : ∀ s ∈ c.L, s ∈ c.stops)
    (hok : (run c).err = false) (r : Nat) :
    r ∈ filed (run c) ↔ ∃ s ∈ c.stops, root c s = r ∧ s ∈ finalRoute c :=
  NR.Proofs.Init.filed_iff c h.1 h.2.1 h.2.2.1 hL hok r

/-- The hypothesis `hL` (every initial stop is a stop of the model) above is needed: with an initial stop that is
not in `c.stops` the root is filed and no stop OF THE MODEL is on the route (`Cfg` does not tie `L` to `stops`). -/
theorem c08_needs_initial_stops_in_model :
    AsIs NR.Proofs.Init.cxFiled ∧ (run NR.Proofs.Init.cxFiled).err = false ∧ 0 ∈ filed (run NR.Proofs.Init.cxFiled) ∧
      ¬ ∃ s ∈ NR.Proofs.Init.cxFiled.stops, root NR.Proofs.Init.cxFiled s = 0 ∧ s ∈ finalRoute NR.Proofs.Init.cxFiled := by
  unfold AsIs; decide

/-- the same with the witness taken among the initial stops: holds with no extra hypothesis -/
theorem c08_initial_filed_iff_on_route_L (c : Cfg) (h : AsIs c) (hok : (run c).err = false) (r : Nat) :
    r ∈ filed (run c) ↔ ∃ s ∈ c.L, root c s = r ∧ s ∈ finalRoute c :=
  NR.Proofs.Init.filed_iff_L c h.1 h.2.1 h.2.2.1 hok r

/-- C03 (fixed stops stay): a fixed initial stop is on the route whenever a solution is returned. -/
theorem c03_initial_fixed_stay (c : Cfg) (h : AsIs c) (hok : (run c).err = false)
    (s : Nat) (hs : s ∈ c.stops) (hl : s ∈ c.L) (hf : s ∈ c.fixedStops) : s ∈ finalRoute c :=
  NR.Proofs.Init.fixed_stay c h.1 h.2.1 h.2.2.1 h.2.2.2.1 h.2.2.2.2 hok s hs hl hf

/-- C19 / C02 (the returned route passes every scripted exact check, temporal ones included). -/
theorem c19_initial_route_feasible (c : Cfg) (hok : (run c).err = false) : fullViol c (finalRoute c) = none :=
  NR.Proofs.Init.final_feasible c hok

/-- C03 (order): the route keeps the order of the initial stops. -/
theorem c03_initial_order_kept (c : Cfg) : (finalRoute c).Sublist c.L :=
  NR.Proofs.Init.route_sublist c

/-! ### non-vacuity and counterexamples -/

/-- group {0,1} (root 10), stop 2 alone; stop 1 is rejected by an at-each-stop check -/
def exE36 (fixedCode : Bool) : Cfg :=
  { L := [0, 1, 2], stops := [0, 1, 2], unitOf := id, rootOf := fun u => if u ≤ 1 then 10 else u, fixedStops := [],
    sc := { nt := [1] }, skipRejected := fixedCode, detachMembers := fixedCode }

theorem exE36_hypotheses : AsIs (exE36 true) ∧ (run (exE36 true)).err = false ∧ finalRoute (exE36 true) = [2] := by
  refine ⟨by unfold AsIs; decide, by decide⟩

/-- E36: as given, stop 0 stayed on the route although its group was rejected. -/
theorem c03_e36_counterexample :
    (run (exE36 false)).err = false ∧ 0 ∈ finalRoute (exE36 false) ∧ 1 ∉ finalRoute (exE36 false)
      ∧ 10 ∉ filed (run (exE36 false)) := by
  decide

/-- group {0,1}, only stop 0 among the initial stops -/
def exE37 (fixedCode : Bool) : Cfg :=
  { L := [0, 2], stops := [0, 1, 2], unitOf := id, rootOf := fun u => if u ≤ 1 then 10 else u, fixedStops := [],
    coverCheck := fixedCode }

/-- E37: as given, the group was filed as planned with stop 1 unplanned. -/
theorem c03_e37_counterexample :
    (run (exE37 false)).err = false ∧ 0 ∈ finalRoute (exE37 false) ∧ 1 ∉ finalRoute (exE37 false)
      ∧ 10 ∈ filed (run (exE37 false)) := by
  decide

theorem exE37_repaired : (run (exE37 true)).err = false ∧ finalRoute (exE37 true) = [2] ∧ filed (run (exE37 true)) = [2] := by
  decide

/-- group {0,1} with stop 0 fixed; stop 1 violates a temporal check (found in the repair loop) -/
def exWalk (rootLevel : Bool) : Cfg :=
  { L := [0, 1], stops := [0, 1], unitOf := id, rootOf := fun _ => 10, fixedStops := [0],
    sc := { t := [1] }, rootFixedWalk := rootLevel }

/-- The repair loop must ask the ROOT whether it is fixed (the seeded change C03-initial-repair-detaches-fixed-group-
member asked the stop's own unit): otherwise a fixed stop is taken off. With the root-level test the input is refused. -/
theorem c03_walk_counterexample :
    (run (exWalk false)).err = false ∧ 0 ∉ finalRoute (exWalk false) ∧ (run (exWalk true)).err = true := by
  decide

/-- one-of root 10 with the alternatives 0 and 1 (one stop each), both listed; stop 2 alone. `rejectFirst`: the
estimate rejects the first alternative. -/
def exOneOf (rejectFirst : Bool) : Cfg :=
  { L := [0, 1, 2], stops := [0, 1, 2], unitOf := id, rootOf := fun u => if u ≤ 1 then 10 else u, fixedStops := [],
    oneOf := [10], sc := { est := if rejectFirst then [0] else [] } }

/-- the first alternative is rejected: the root is marked, the second alternative is therefore skipped (E36), nothing
of the root is on the route, and a solution is returned -/
theorem exOneOf_first_rejected :
    AsIs (exOneOf true) ∧ (run (exOneOf true)).err = false ∧ 10 ∈ (run (exOneOf true)).bad ∧
      finalRoute (exOneOf true) = [2] ∧ filed (run (exOneOf true)) = [2] := by
  refine ⟨by unfold AsIs; decide, by decide⟩

/-- the first alternative is accepted and a second one is listed too: an error -/
theorem exOneOf_second_alternative_err : AsIs (exOneOf false) ∧ (run (exOneOf false)).err = true := by
  refine ⟨by unfold AsIs; decide, by decide⟩

/-- one-of root 10 with the alternatives 0 and 1, only the first among the initial stops (the cover check lets a one-of
root pass); stop 2 alone -/
def exOneOfPartial : Cfg :=
  { L := [0, 2], stops := [0, 1, 2], unitOf := id, rootOf := fun u => if u ≤ 1 then 10 else u, fixedStops := [],
    oneOf := [10] }

/-- `c03_initial_units_whole` needs `ho`: stops 0 and 1 have the same (one-of) root, 0 is on the route, 1 is not — and
the hypotheses of `c03_initial_oneof_at_most_one` are met with an alternative attached (non-vacuity). -/
theorem c03_initial_units_whole_oneof_counterexample :
    AsIs exOneOfPartial ∧ (run exOneOfPartial).err = false ∧ 10 ∈ exOneOfPartial.oneOf ∧
      root exOneOfPartial 0 = root exOneOfPartial 1 ∧ 0 ∈ finalRoute exOneOfPartial ∧ 1 ∉ finalRoute exOneOfPartial ∧
      (run exOneOfPartial).att = [2, 0] ∧ 10 ∈ filed (run exOneOfPartial) := by
  refine ⟨by unfold AsIs; decide, by decide⟩

/-! ### the stored positions (an observation, not a property violation: C16 allows `NewSolution` to return an error) -/

/-- `newMoveStops` never refuses the positions `addInitialSolution` computes while the stored stop positions are FRESH
(position `i + 1` for the stop at index `i` of the route, `length + 1` for the vehicle's last stop): for every
configuration, every set of attached units and every unit with a stop among the initial stops. -/
theorem init_fresh_positions_never_refuse (c : Cfg) (st : St) (u : Nat)
    (hfresh : NR.Proofs.InitPos.Fresh st (routeOf c st.att)) (hu : u ∉ st.att) (hl : ∃ s ∈ c.L, c.unitOf s = u) :
    moveRefused c st u (stopPositions c st.att u) = false :=
  NR.Proofs.InitPos.fresh_move_not_refused c st u hfresh hu hl

/-- pair {4,3} fixed, stop 3 rejected when stop 0 is in front of it; temporal rules that the repair loop would have settled -/
def exStale : Cfg :=
  { L := [1, 4, 0, 2, 3], stops := [0, 1, 2, 3, 4], unitOf := fun s => if s = 3 ∨ s = 4 then 10 else s, rootOf := id,
    fixedStops := [4, 3], sc := { ntAfter := [(0, 3)], tAfter := [(1, 3), (3, 4)] } }

/-- … and the refusal the code shows with STALE positions: stop 0 is rejected by the exact check (stop 3 behind it is
violated), the propagation of that check has shifted the stored position of stop 3 and nothing shifts it back; the next
unit (stop 2) would go between stops 4 and 3, whose stored positions are no longer adjacent — `NewSolution` returns
"stop positions are not allowed …" although the route 4, 3 was there to be had (corpus/init/stale-positions-…). -/
theorem init_stale_positions_refuse : (run exStale).err = true ∧ validate exStale = true := by
  decide

end NR.Props.C03I

#print axioms NR.Props.C03I.c03_initial_units_whole
#print axioms NR.Props.C03I.c03_initial_oneof_at_most_one
#print axioms NR.Props.C03I.c03_initial_oneof_route_one_alternative
#print axioms NR.Props.C03I.c03_initial_oneof_whole_alternative
#print axioms NR.Props.C03I.c03_initial_oneof_whole_alternative_stops
#print axioms NR.Props.C03I.exOneOf_first_rejected
#print axioms NR.Props.C03I.exOneOf_second_alternative_err
#print axioms NR.Props.C03I.c03_initial_units_whole_oneof_counterexample
#print axioms NR.Props.C03I.c08_initial_filed_iff_on_route
#print axioms NR.Props.C03I.c08_needs_initial_stops_in_model
#print axioms NR.Props.C03I.c08_initial_filed_iff_on_route_L
#print axioms NR.Props.C03I.c03_initial_fixed_stay
#print axioms NR.Props.C03I.c19_initial_route_feasible
#print axioms NR.Props.C03I.c03_initial_order_kept
#print axioms NR.Props.C03I.c03_e36_counterexample
#print axioms NR.Props.C03I.c03_e37_counterexample
#print axioms NR.Props.C03I.c03_walk_counterexample
#print axioms NR.Props.C03I.init_fresh_positions_never_refuse
#print axioms NR.Props.C03I.init_stale_positions_refuse
