/-
  C16 — no input can crash the library. What Lean carries is the index arithmetic behind the
  crashes found (E7, E12, E13-shape, E14): every index that can occur is within the table it
  indexes, for all numbers of stops, alternates, alternate copies, vehicles, vehicle types and plan
  units. The size and index EXPRESSIONS are facts regenerated from the source
  (FactThms/FrontFacts.lean re-proves the instantiations on every run). PARTIAL by nature:
  reflection-based decoding, validation (1178 lines), and Go runtime panics outside these tables
  are decided by the `crash` differential only (valid, malformed and API-built inputs; a panic is a
  violation whatever the model says).
-/
import NR.Front
import NR.Proofs.Front
namespace NR.Props.C16
open NR.Front

/-- Every documented matrix index is inside the documented dimension — for every vehicle, whether
or not it lists alternates (E14 used the model stop index instead). -/
theorem c16_layout_in_range (l : Layout) :
    (∀ s, s < l.nStops → l.stopIdx s < l.dim) ∧ (∀ a, a < l.nAlts → l.altIdx a < l.dim) ∧
    (∀ v, v < l.nVeh → l.vehStart v < l.dim ∧ l.vehEnd v < l.dim) := by
  refine ⟨?_, ?_, ?_⟩ <;> intro i hi <;> simp [Layout.dim, Layout.stopIdx, Layout.altIdx, Layout.vehStart, Layout.vehEnd] <;> omega

/-- The documented indices are pairwise distinct (no two locations share a matrix row). -/
theorem c16_layout_injective (l : Layout) (v w : Nat) (s a : Nat)
    (hs : s < l.nStops) (ha : a < l.nAlts) :
    l.stopIdx s ≠ l.altIdx a ∧ l.altIdx a ≠ l.vehStart v ∧ l.vehStart v ≠ l.vehEnd w ∧
    (v ≠ w → l.vehStart v ≠ l.vehStart w) := by
  simp [Layout.stopIdx, Layout.altIdx, Layout.vehStart, Layout.vehEnd]; omega

/-- The model-stop index of a vehicle's start equals its documented matrix row only when there
are exactly as many alternate copies as alternate stops (why E14 read wrong rows). -/
theorem c16_model_index_vs_layout (l : Layout) (m : ModelStops) (v : Nat)
    (h1 : m.nStops = l.nStops) :
    m.nStops + m.nCopies + 2 * v = l.vehStart v ↔ m.nCopies = l.nAlts := by
  simp [Layout.vehStart]; omega

/-- The per-vehicle duration tables cover every model stop, for every vehicle. -/
theorem c16_duration_tables_safe (m : ModelStops) (k : Nat) :
    TableSafe (durationTableSize m k) m.count := by
  rw [tableSafe_iff]; simp [durationTableSize, ModelStops.count]

/-- A table indexed by plan-unit index is safe iff it is sized by ALL plan units: sizing it by the
plan units of stops is unsafe as soon as one units-unit precedes a stops-unit (E12). -/
theorem c16_plan_unit_tables (nStopsUnits nUnitsUnits : Nat) :
    TableSafe (nStopsUnits + nUnitsUnits) (nStopsUnits + nUnitsUnits) ∧
    (0 < nUnitsUnits → ¬ TableSafe nStopsUnits (nStopsUnits + nUnitsUnits)) := by
  constructor
  · intro i hi; exact hi
  · intro h hs; rw [tableSafe_iff] at hs; omega

/-- A table indexed by vehicle index is safe iff sized by vehicles; sizing it by vehicle types is
unsafe as soon as two vehicles share a type (E7). -/
theorem c16_vehicle_tables (nVehicles nTypes : Nat) (hle : nTypes ≤ nVehicles) :
    TableSafe nVehicles nVehicles ∧ (nTypes < nVehicles → ¬ TableSafe nTypes nVehicles) := by
  constructor
  · intro i hi; exact hi
  · intro h hs; rw [tableSafe_iff] at hs; omega

/-- The list form of `duration_matrix`: an accepted id assignment gives EVERY vehicle a matrix (no vehicle is left to a
`speed` it may not have), and names no id that is not a vehicle. -/
theorem c16_accepted_matrix_ids_cover_every_vehicle (vehicles : List String) (mats : List (List String))
    (h : validateIds vehicles mats = true) : ∀ v ∈ vehicles, (matrixOf mats v).isSome = true :=
  NR.Proofs.Front.validateIds_covers vehicles mats h

theorem c16_accepted_matrix_ids_are_vehicles (vehicles : List String) (mats : List (List String))
    (hnd : vehicles.Nodup) (h : validateIds vehicles mats = true) : ∀ ids ∈ mats, ∀ id ∈ ids, id ∈ vehicles :=
  NR.Proofs.Front.validateIds_exact vehicles mats hnd h

/-- Counting the ids is not enough (the seeded change C16-matrix-ids-only-counted): a stale id passes, a vehicle is
left without a matrix. -/
theorem c16_counting_ids_is_not_enough :
    validateIdsG true ["v1", "v2"] [["v1"], ["v2-old"]] = true ∧ matrixOf [["v1"], ["v2-old"]] "v2" = none ∧
    validateIds ["v1", "v2"] [["v1"], ["v2-old"]] = false := by decide

/-! Non-vacuity -/
example : validateIds ["v1", "v2", "v3"] [["v2"], ["v3", "v1"]] = true := by decide

example : (⟨5, 2, 3⟩ : Layout).dim = 13 ∧ (⟨5, 2, 3⟩ : Layout).vehEnd 2 = 12 := by decide

end NR.Props.C16

#print axioms NR.Props.C16.c16_layout_in_range
#print axioms NR.Props.C16.c16_layout_injective
#print axioms NR.Props.C16.c16_model_index_vs_layout
#print axioms NR.Props.C16.c16_duration_tables_safe
#print axioms NR.Props.C16.c16_plan_unit_tables
#print axioms NR.Props.C16.c16_vehicle_tables
#print axioms NR.Props.C16.c16_accepted_matrix_ids_cover_every_vehicle
#print axioms NR.Props.C16.c16_accepted_matrix_ids_are_vehicles
#print axioms NR.Props.C16.c16_counting_ids_is_not_enough
