/-
  C01 (no mixing of items), C09 and C16 for the no-mix constraint — the clause that was only judged by the oracle so far.

  NR.Mix transcribes `noMixConstraintImpl` (model_constraint_no_mix.go): the updater `upd` (an ERROR, not a violation,
  when an item cannot be inserted or removed) and the estimate `est` on the move's stop positions. Tied to the code by
  the `mix st` lines (what is on board after every stop of every observed route) and the `mix est` lines (the estimate of
  every explicit and every swept placement), both exact.

    * `c09_no_mix_estimate_sound`: a move the estimate does not reject produces a route on which the updater succeeds
      at every stop (so `Execute` cannot fail with "cannot insert / remove stop …"), for every planned route, every unit
      (items summing to zero, non-empty names, positive quantities) and every placement;
    * `c09_no_mix_estimate_covers`: … and the unit's own running quantity never goes negative;
    * `c07_no_mix_unplan_safe`: on a route all of whose units are covered in that sense, removing ANY unit leaves a
      route on which the updater still succeeds and whose units are still covered — un-planning cannot fail;
    * `c01_spec_accepts_what_the_updaters_accept`: the specification's no-mix clause (NR.Spec.mixOK, one automaton over
      all resources) accepts exactly the routes on which every per-resource updater succeeds — so what the code
      maintains is what the oracle judges.

  The estimate AS GIVEN did not have the first property (E29, E30, E31: machine-checked counterexamples below, each
  reproduced on the real code and repaired there), and the statement needs non-empty item names (E32: the empty name is
  the stop data's "nothing on board"; `c09_empty_name_counterexample`, reproduced on the real code; names are now
  validated when the model is locked).
-/
import NR.Mix
import NR.Proofs.Mix
import NR.Proofs.MixSpec
namespace NR.Props.C01M
open NR NR.Mix NR.Proofs.Mix

theorem c09_no_mix_estimate_sound (old xs : List Item) (gaps : List Nat) (sts : List St)
    (hold : states init old = some sts)
    (hlen : gaps.length = xs.length)
    (hmono : gaps.Pairwise (· ≤ ·))
    (hrange : ∀ g ∈ gaps, g ≤ old.length)
    (hpos : ∀ x ∈ xs ++ old, ItemPos x)
    (hname : ∀ x ∈ xs ++ old, ∀ n q, (x = .ins n q ∨ x = .rem n q) → n ≠ "")
    (hbal : sumDelta xs = 0)
    (hest : est (positions sts xs gaps) = false) :
    (run init (newRoute old xs gaps 0)).isSome = true :=
  est_sound old xs gaps sts hold hlen hmono hrange hpos hname hbal hest

theorem c09_no_mix_estimate_covers (xs : List Item) (gaps : List Nat) (sts : List St)
    (hpos : ∀ x ∈ xs, ItemPos x) (hbal : sumDelta xs = 0)
    (hest : est (positions sts xs gaps) = false) : OwnCovered 0 xs :=
  est_covered xs gaps sts hpos hbal hest

theorem c07_no_mix_unplan_safe (r : List (Nat × Item)) (u : Nat)
    (hpos : ∀ p ∈ r, ItemPos p.2) (hcov : Covered r)
    (hrun : (run init (r.map (·.2))).isSome = true) :
    (run init ((r.filter (fun p => p.1 ≠ u)).map (·.2))).isSome = true ∧ Covered (r.filter (fun p => p.1 ≠ u)) :=
  unplan_safe r u hpos hcov hrun

theorem c01_spec_accepts_what_the_updaters_accept (inst : Spec.Inst) (route : List Spec.StopIx)
    (hwf : NR.Proofs.MixSpec.MixWF inst) :
    Spec.mixOK inst [] route = true ↔
      ∀ res, (run init (route.map (fun s => NR.Proofs.MixSpec.proj res (inst.stops.getD s {}).mix))).isSome = true :=
  NR.Proofs.MixSpec.mixOK_iff_updaters inst route hwf

/-! ### The estimate as it was given, and after each repair: accepted placements on which the updater fails -/

def stsOf (old : List Item) : List St := (states init old).getD []

/-- E29: two pickups and a drop-off of their sum around another unit's pickup and drop-off. -/
theorem c09_given_estimate_counterexample_E29 :
    estGiven (positions (stsOf [.ins "x" 1, .rem "x" 1]) [.ins "x" 1, .rem "x" 2, .ins "x" 1] [1, 2, 2]) = false ∧
    run init (newRoute [.ins "x" 1, .rem "x" 1] [.ins "x" 1, .rem "x" 2, .ins "x" 1] [1, 2, 2] 0) = Option.none := by
  decide +kernel

/-- E30 (after the repair of E29): the unit's first stop carries no item. -/
theorem c09_estimate_counterexample_E30 :
    estE29 (positions (stsOf [.ins "y" 1, .rem "y" 1]) [.none, .ins "x" 1, .rem "x" 1] [0, 1, 1]) = false ∧
    run init (newRoute [.ins "y" 1, .rem "y" 1] [.none, .ins "x" 1, .rem "x" 1] [0, 1, 1] 0) = Option.none := by
  decide +kernel

/-- E31 (after the repairs of E29 and E30): a drop-off takes what another unit picked up. -/
theorem c09_estimate_counterexample_E31 :
    estE30 (positions (stsOf [.ins "A" 3, .rem "A" 1, .rem "A" 2]) [.ins "A" 2, .rem "A" 4, .ins "A" 2] [1, 2, 3]) = false ∧
    run init (newRoute [.ins "A" 3, .rem "A" 1, .rem "A" 2] [.ins "A" 2, .rem "A" 4, .ins "A" 2] [1, 2, 3] 0) = Option.none ∧
    est (positions (stsOf [.ins "A" 3, .rem "A" 1, .rem "A" 2]) [.ins "A" 2, .rem "A" 4, .ins "A" 2] [1, 2, 3]) = true := by
  decide +kernel

/-- E32: an item whose name is the empty string (the stop data's "nothing on board"). -/
theorem c09_empty_name_counterexample :
    est (positions (stsOf [.ins "m" 1, .rem "m" 1, .none]) [.ins "" 1, .rem "" 1] [0, 3]) = false ∧
    run init (newRoute [.ins "m" 1, .rem "m" 1, .none] [.ins "" 1, .rem "" 1] [0, 3] 0) = Option.none := by
  decide +kernel

/-! Non-vacuity: a placement that meets every hypothesis of the soundness theorem. -/
example : est (positions (stsOf [.ins "A" 3, .rem "A" 1, .rem "A" 2]) [.ins "A" 2, .ins "A" 2, .rem "A" 4] [1, 2, 3]) = false ∧
    (run init (newRoute [.ins "A" 3, .rem "A" 1, .rem "A" 2] [.ins "A" 2, .ins "A" 2, .rem "A" 4] [1, 2, 3] 0)).isSome = true ∧
    states init [.ins "A" 3, .rem "A" 1, .rem "A" 2] = some (stsOf [.ins "A" 3, .rem "A" 1, .rem "A" 2]) := by
  decide +kernel

end NR.Props.C01M

#print axioms NR.Props.C01M.c09_no_mix_estimate_sound
#print axioms NR.Props.C01M.c09_no_mix_estimate_covers
#print axioms NR.Props.C01M.c07_no_mix_unplan_safe
#print axioms NR.Props.C01M.c01_spec_accepts_what_the_updaters_accept
#print axioms NR.Props.C01M.c09_given_estimate_counterexample_E29
#print axioms NR.Props.C01M.c09_estimate_counterexample_E30
#print axioms NR.Props.C01M.c09_estimate_counterexample_E31
#print axioms NR.Props.C01M.c09_empty_name_counterexample
