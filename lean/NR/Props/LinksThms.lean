/-
  Array level of C03 / C04 / C07: the `next` / `previous` / `inVehicle` arrays always represent the
  routes as lists, every stop on exactly one route or on none, and the rollback of a rejected move
  restores the arrays EXACTLY — for every route, every move (any number of stops, several into one
  gap), by induction over the assignments of `attach` / `detach` themselves (NR.Links transcribes them).
  `NR.Engine` works on routes as lists; these theorems are what justifies that abstraction.
-/
import NR.Links
import NR.Proofs.Links
namespace NR.Props.LinksThms
open NR.Links NR

/-- One `attach`: the stop becomes the successor of `after` on the route, everything else is untouched. -/
theorem attach_repr (a : Arr) (v : Int) (route off : List Nat) (s i : Nat)
    (h : Repr a v route off) (hs : s ∈ off) (hi : i + 1 < route.length) :
    Repr (attach a s (route.getD i 0)) v (insertAt route (i + 1) s) (off.filter (· ≠ s)) ∧
    SameOutside (attach a s (route.getD i 0)) a [s, route.getD i 0, route.getD (i + 1) 0] :=
  NR.Proofs.Links.attach_repr a v route off s i h hs hi

/-- One `detach` of a stop that is neither the first nor the last of its route. -/
theorem detach_repr (a : Arr) (v : Int) (route off : List Nat) (i : Nat)
    (h : Repr a v route off) (h0 : 0 < i) (hi : i + 1 < route.length) (hoff : off.Nodup) :
    Repr (detach a (route.getD i 0)) v (route.eraseIdx i) (route.getD i 0 :: off) :=
  NR.Proofs.Links.detach_repr a v route off i h h0 hi hoff

/-- `solutionMoveStopsImpl.attach` turns the route into the route after the move (the list the
hypothetical-route iterator yields, NR.StopGen.splice), and starts propagation at the stop before the
first inserted stop. -/
theorem attachMove_repr (a : Arr) (v : Int) (route off : List Nat) (ins : StopGen.Ins)
    (h : Repr a v route off) (hwf : StopGen.WF route ins) (hin : ∀ p ∈ ins, p.2 ∈ off) :
    Repr (attachMove a (StopGen.positions route ins)).1 v (StopGen.splice route ins)
      (off.filter (fun s => !(ins.map (·.2)).contains s)) ∧
    (attachMove a (StopGen.positions route ins)).2 = route.getD ((ins.headD (1, 0)).1 - 1) 0 :=
  NR.Proofs.Links.attachMove_repr a v route off ins h hwf hin

/-- The rollback of a rejected `Execute` (detach every stop of the move) restores all three arrays
at every index. -/
theorem rollback_restores (a : Arr) (v : Int) (route off : List Nat) (ins : StopGen.Ins)
    (h : Repr a v route off) (hwf : StopGen.WF route ins) (hin : ∀ p ∈ ins, p.2 ∈ off) (s : Nat) :
    let b := detachAll (attachMove a (StopGen.positions route ins)).1 (ins.map (·.2))
    b.next s = a.next s ∧ b.prev s = a.prev s ∧ b.inVeh s = a.inVeh s :=
  NR.Proofs.Links.rollback_restores a v route off ins h hwf hin s

/-- `IsPlanned` (next ≠ previous) is exactly "on the route". -/
theorem planned_iff (a : Arr) (v : Int) (route off : List Nat) (h : Repr a v route off) (s : Nat)
    (hs : s ∈ route ∨ s ∈ off) : isPlanned a s = true ↔ s ∈ route :=
  NR.Proofs.Links.planned_iff a v route off h s hs

/-- Following `next` from the first stop visits exactly the route. -/
theorem walk_eq (a : Arr) (v : Int) (route off : List Nat) (h : Repr a v route off) :
    walk a route.length (route.headD 0) = route :=
  NR.Proofs.Links.walk_eq a v route off h

end NR.Props.LinksThms

#print axioms NR.Props.LinksThms.attach_repr
#print axioms NR.Props.LinksThms.detach_repr
#print axioms NR.Props.LinksThms.attachMove_repr
#print axioms NR.Props.LinksThms.rollback_restores
#print axioms NR.Props.LinksThms.planned_iff
#print axioms NR.Props.LinksThms.walk_eq
