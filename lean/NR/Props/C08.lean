/-
  C08 — planned / unplanned / fixed bookkeeping always matches the routes.
  The full statement ("every interleaving of Execute, UnPlan on units and on their members,
  vehicle-level un-plan …") is FALSE of the code as modelled: two counterexamples below, each a
  listed finding replayed on the real code on every run. What is proved: the invariant holds along
  every history over the sub-alphabet `GoodOp` (operations on root units, plan-all units executed
  with exactly their members), whatever the feasibility bits are — since the repair of E16 INCLUDING group un-plans whose
  member un-plans are rejected in any pattern (the un-plan of a plan-all unit is all-or-nothing; before the repair the
  sub-alphabet had to exclude rejected nested un-plans).
-/
import NR.Coll
import NR.Proofs.Coll
namespace NR.Props.C08
open NR.Coll

/-- The start state satisfies the invariant. -/
theorem c08_start (U : Units) (h : WFUnits U = true) : BooksOK U (start U) = true :=
  NR.Proofs.Coll.start_ok U h

/-- PARTIAL: every state reached from the start state by operations of the sub-alphabet satisfies
the bookkeeping invariant — for all unit forests, all histories, all outcomes of the checks.
(`hne`: a plan-all unit without members is never executed — the factory only builds plan-all units
of at least two members; see `c08_counterexample_empty_all`.) -/
theorem c08_partial (U : Units) (ops : List COp)
    (hU : WFUnits U = true) (hops : ∀ op ∈ ops, GoodOp U op = true)
    (hne : ∀ p undo, COp.execUnits p [] undo ∉ ops) :
    BooksOK U (runOps U (start U) ops) = true :=
  NR.Proofs.Coll.reachable_ok U ops hU hops hne

theorem c08_partial_nonempty (U : Units) (ops : List COp)
    (hU : WFUnits U = true) (hops : ∀ op ∈ ops, GoodOp U op = true)
    (hne : ∀ u, kindOf U u ≠ .all []) :
    BooksOK U (runOps U (start U) ops) = true :=
  NR.Proofs.Coll.reachable_ok_of_nonemptyAll U ops hU hops hne

/-- A rejected operation of the sub-alphabet leaves the bookkeeping state as it was — as SETS: the
Go re-files a unit at the end of its collection, and order inside a collection is explicitly not
part of "exactly as they were" (`c08_rejected_reorders`). -/
theorem c08_rejected_unchanged (U : Units) (ops : List COp) (op : COp)
    (hU : WFUnits U = true) (hops : ∀ o ∈ ops, GoodOp U o = true) (hop : GoodOp U op = true)
    (hin : ∀ u ok, op = .execStops u ok → u < U.kind.length)
    (hrej : (step U (runOps U (start U) ops) op).2 = false) :
    NR.Proofs.Coll.CStateEquiv (step U (runOps U (start U) ops) op).1 (runOps U (start U) ops) :=
  NR.Proofs.Coll.rejected_unchanged U ops op hU hops hop hin hrej

def exOneOf : Units := { kind := [.oneOf [1, 2], .stops, .stops], parent := [none, some 0, some 0], fixed := [false, false, false] }
def exAll : Units := { kind := [.all [1, 2], .stops, .stops, .stops], parent := [none, some 0, some 0, none], fixed := [false, false, false, false] }

/-- Finding E4: the best move of a one-of unit is its member's stops-move; executing it never
moves the one-of parent out of the unplanned collection. -/
theorem c08_counterexample_oneof :
    WFUnits exOneOf = true ∧ BooksOK exOneOf (runOps exOneOf (start exOneOf) [.execStops 1 true]) = false := by
  decide

/-- Finding E2: un-planning ONE member of a planned plan-all unit (the solver's un-plan operators
do this) leaves the unit half planned and listed as unplanned. -/
theorem c08_counterexample_member_unplan :
    WFUnits exAll = true ∧
    BooksOK exAll (runOps exAll (start exAll)
      [.execUnits 0 [(1, true), (2, true)] [], .unplanStops 1 true]) = false := by
  decide

/-- Repaired (`fixed: property=C08` in KNOWN_FINDINGS.txt): `SolutionVehicle.Unplan` used to file
members of units-units on their own; with the repair a vehicle un-plan of a whole group keeps the
books right, accepted or rejected. -/
theorem c08_vehicle_unplan_example :
    BooksOK exAll (runOps exAll (start exAll)
      [.execUnits 0 [(1, true), (2, true)] [], .vehicleUnplan [1, 2] false]) = true ∧
    BooksOK exAll (runOps exAll (start exAll)
      [.execUnits 0 [(1, true), (2, true)] [], .vehicleUnplan [1, 2] true]) = true := by
  decide

def exEmptyAll : Units := { kind := [.all []], parent := [none], fixed := [false] }

/-- Why `hne` is needed: a plan-all unit with no members is filed as planned but is never planned. -/
theorem c08_counterexample_empty_all :
    WFUnits exEmptyAll = true ∧ GoodOp exEmptyAll (.execUnits 0 [] []) = true ∧
    BooksOK exEmptyAll (runOps exEmptyAll (start exEmptyAll) [.execUnits 0 [] []]) = false := by decide

/-- Why `c08_rejected_unchanged` is stated up to permutation. -/
theorem c08_rejected_reorders :
    GoodOp exAll (.execUnits 0 [(2, true), (1, false)] [true]) = true ∧
    step exAll (start exAll) (.execUnits 0 [(2, true), (1, false)] [true]) = ({ unplanned := [3, 0] }, false) ∧
    (start exAll).unplanned = [0, 3] := by decide

/-- a stop group whose first member holds a fixed stop, planned as `NewSolution` files it: the root in the fixed
collection, every member on the route -/
def exFixedAll : Units := { kind := [.all [1, 2], .stops, .stops], parent := [none, some 0, some 0], fixed := [false, true, false] }
def exFixedAllState : CState := { onRoute := [1, 2], fixedC := [0] }

/-- E44 (repaired): the un-plan of a member of a unit that is FIXED — through its own stops or through another member —
is refused and changes nothing, for every state and every verdict of the constraints. -/
theorem c08_member_of_fixed_unit_stays (U : Units) (s : CState) (u : Nat) (ok : Bool)
    (hf : isFixed U ((parentOf U u).getD u) = true) : unplanStops U s u ok = (s, false) := by
  simp [unplanStops, hf]

/-- E44 as it was: the member without a fixed stop was taken off the route and the fixed root was filed as unplanned
as well (the solver's un-plan operators did this; the thorough `sol` run showed it in a delivered solution). -/
theorem c08_counterexample_member_of_fixed_group :
    WFUnits exFixedAll = true ∧ BooksOK exFixedAll exFixedAllState = true ∧
    isFixed exFixedAll 0 = true ∧
    BooksOK exFixedAll (unplanStopsGiven exFixedAll exFixedAllState 2 true).1 = false ∧
    unplanStops exFixedAll exFixedAllState 2 true = (exFixedAllState, false) := by decide

/-! Non-vacuity: a history of the sub-alphabet with accepted and rejected steps. -/
example : (∀ op ∈ [COp.execUnits 0 [(2, true), (1, false)] [true], .execUnits 0 [(1, true), (2, true)] [],
                    .execStops 3 true, .unplanUnits 0 [true, true], .unplanStops 3 false],
            GoodOp exAll op = true) := by decide

end NR.Props.C08

#print axioms NR.Props.C08.c08_start
#print axioms NR.Props.C08.c08_partial
#print axioms NR.Props.C08.c08_partial_nonempty
#print axioms NR.Props.C08.c08_counterexample_empty_all
#print axioms NR.Props.C08.c08_rejected_reorders
#print axioms NR.Props.C08.c08_rejected_unchanged
#print axioms NR.Props.C08.c08_counterexample_oneof
#print axioms NR.Props.C08.c08_counterexample_member_unplan
#print axioms NR.Props.C08.c08_vehicle_unplan_example
#print axioms NR.Props.C08.c08_member_of_fixed_unit_stays
#print axioms NR.Props.C08.c08_counterexample_member_of_fixed_group
