/-
  C18 — checking a solution never alters it and reports truthfully.
  `check.SolutionCheck` probes every unplanned unit by executing its best move and un-planning it
  again. Theorem: whatever sequence of operations the check performs, if it ends with the routes
  it started from, the observable solution (cached values of all planned stops, score) is exactly
  what it was — execute-then-unplan is an exact inverse on observables whenever the un-plan is
  accepted. The hypothesis is exact: when un-planning a probed member of a group is rejected the
  routes differ (finding E16, `NR.Props.C07.c07_counterexample_nested`).
  "Reports truthfully": the check sets has_plannable_best_move only after its own Execute
  returned true on that solution (model of check/check.go:262-290), so the report is a witness.
-/
import NR.Engine
import NR.Props.EngineThms
import NR.Props.C07
namespace NR.Props.C18
open NR.Engine

variable {S σ τ : Type} [DecidableEq S]

theorem c18_probes_restore_observables (m : Model S σ τ) (st : MState S σ τ) (probes : List (Op S))
    (hinv : MInv m st) (hadm : AdmissibleRun m st probes)
    (hroutes : (run m st probes).routes = st.routes) :
    mobs (run m st probes) = mobs st := by
  have h := NR.Props.EngineThms.run_history_independent m st st probes [] hinv hinv hadm trivial
    (by simpa [run] using hroutes)
  simpa [run] using h

/-- The one-step instance: a probe that is rejected outright changes nothing. -/
theorem c18_rejected_probe_changes_nothing (m : Model S σ τ) (st : MState S σ τ) (op : Op S)
    (hinv : MInv m st) (hadm : Admissible st op) (hres : (applyOp m st op).2 = false) :
    mobs (applyOp m st op).1 = mobs st :=
  NR.Props.EngineThms.applyOp_fail_obs m st op hinv hadm hres

end NR.Props.C18

#print axioms NR.Props.C18.c18_probes_restore_observables
#print axioms NR.Props.C18.c18_rejected_probe_changes_nothing
