/-
  C16 / C03 — the factory's grouping of precedence relations into plan units (`allSequences`, `mergeUnits`,
  `toExistingUnit` in factory/plan_units.go; model NR.Units with the code's index bookkeeping).

  `c16_unit_indices_in_range`: after ANY list of relations, in any order, every index the stop ↦ unit table hands out is
  an index into the slice of units — the index expressions `units[inUnit[s]]` of the code cannot go out of range (the
  round-9 seeded change C16-merge-refreshes-only-the-units-behind made them do so for a join in front of a unit that
  grows later). `c16_unit_table_right`: the table says exactly which unit holds a stop, and the units are disjoint sets.
  `c16_no_empty_unit`: no plan unit without stops is built.
  `c03_units_are_the_components`: two stops end up in one plan unit exactly when the relations link them (in either
  direction, through any number of stops) — the outcome does not depend on the order in which the relations are listed.
  `c03_unit_stops_are_the_mentioned_stops`: exactly the stops named by a relation are put into such a unit.
  Tied to the code by the `units` stream: precedence-only inputs (forests / DAGs over a permutation of the stops, relations
  stated on either side), the relations in the factory's processing order, the plan units of the built model.
-/
import NR.Units
import NR.Proofs.Units
namespace NR.Props.C16U
open NR.Units

theorem c16_unit_indices_in_range (rels : List (Nat × Nat)) (s i : Nat)
    (h : look (run rels).inUnit s = some i) : i < (run rels).units.length :=
  run_index_in_range rels s i h

theorem c16_unit_table_right (rels : List (Nat × Nat)) : TableOK (run rels) ∧ Disjoint (run rels) :=
  inv_run rels

theorem c16_no_empty_unit (rels : List (Nat × Nat)) : ∀ u ∈ (run rels).units, u ≠ [] :=
  run_units_nonempty rels

theorem c03_units_are_the_components (rels : List (Nat × Nat)) (s t : Nat) :
    (∃ u ∈ (run rels).units, s ∈ u ∧ t ∈ u) ↔ (Conn rels s t ∨ (s = t ∧ ∃ r ∈ rels, r.1 = s ∨ r.2 = s)) :=
  run_same_unit_iff_conn rels s t

theorem c03_unit_stops_are_the_mentioned_stops (rels : List (Nat × Nat)) (s : Nat) :
    (∃ u ∈ (run rels).units, s ∈ u) ↔ ∃ r ∈ rels, r.1 = s ∨ r.2 = s :=
  run_mem_iff_mentioned rels s

/-- the order of relations of the seeded change's demonstration (stops a, c, e, b, f, d, g = 0, 2, 4, 1, 5, 3, 6):
three chains open, a join that removes the middle unit, then a relation on the unit that moved forward -/
theorem c16_units_example :
    (run [(0, 1), (2, 3), (4, 5), (1, 2), (5, 6)]).units = [[0, 1, 2, 3], [4, 5, 6]] ∧
    look (run [(0, 1), (2, 3), (4, 5), (1, 2)]).inUnit 5 = some 1 := by
  refine ⟨by decide, by decide⟩

end NR.Props.C16U

#print axioms NR.Props.C16U.c16_unit_indices_in_range
#print axioms NR.Props.C16U.c16_unit_table_right
#print axioms NR.Props.C16U.c16_no_empty_unit
#print axioms NR.Props.C16U.c03_units_are_the_components
#print axioms NR.Props.C16U.c03_unit_stops_are_the_mentioned_stops
#print axioms NR.Props.C16U.c16_units_example
