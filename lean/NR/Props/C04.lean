/-
  C04 — reported schedules equal an independent forward propagation; history independent.
  The incremental engine caches per-stop values and re-propagates from the first changed stop
  with early exit. Theorem: after any admissible history the cached value of every planned stop
  equals the value obtained by walking the current route from the vehicle's start (`Consistent`
  against `step`, i.e. against `specVals`), hence the observable solution is a function of the
  routes alone. That `step` instantiated with the input-derived instance IS `Spec.schedule` is the
  tie (NR.Spec evaluated on every observation of the real code), not a theorem.
-/
import NR.Engine
import NR.Props.EngineThms
namespace NR.Props.C04
open NR.Engine

variable {S σ τ : Type} [DecidableEq S]

theorem c04_cache_is_forward_propagation (m : Model S σ τ) (st : MState S σ τ) (ops : List (Op S))
    (hinv : MInv m st) (hadm : AdmissibleRun m st ops)
    (v : Nat) (hv : v < (run m st ops).routes.length) (hv' : v < m.inits.length) :
    Consistent m.eng (m.inits[v]) ((run m st ops).routes[v]) (run m st ops).vals :=
  ((NR.Props.EngineThms.run_inv m st ops hinv hadm).2.2.1 v hv hv').1

theorem c04_history_independent (m : Model S σ τ) (st₁ st₂ : MState S σ τ) (ops₁ ops₂ : List (Op S))
    (h₁ : MInv m st₁) (h₂ : MInv m st₂) (a₁ : AdmissibleRun m st₁ ops₁) (a₂ : AdmissibleRun m st₂ ops₂)
    (hr : (run m st₁ ops₁).routes = (run m st₂ ops₂).routes) :
    mobs (run m st₁ ops₁) = mobs (run m st₂ ops₂) :=
  NR.Props.EngineThms.run_history_independent m st₁ st₂ ops₁ ops₂ h₁ h₂ a₁ a₂ hr

end NR.Props.C04

#print axioms NR.Props.C04.c04_cache_is_forward_propagation
#print axioms NR.Props.C04.c04_history_independent
