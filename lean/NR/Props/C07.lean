/-
  C07 — planning and un-planning are all-or-nothing.
  Stops-units: `c07_rejected_leaves_everything` (routes, cached values of every planned stop, score)
  for ARBITRARY exact checks, `c07_accepted_applies_completely`. Units of units (bookkeeping level):
  `c07_units_rejected_unchanged` on the sub-alphabet `GoodOp` (since the repair of E16 it contains group un-plans with
  any pattern of rejected member un-plans);
  the general statement for units of units was false of the code as given
  (`c07_counterexample_nested` on `unplanUnitsGiven`: `solutionPlanUnitsUnitImpl.UnPlan` kept going after a member's
  un-plan was rejected and returned true — the code carried a TODO; repaired, `c07_group_unplan_all_or_nothing`) and
  remains false for `UnPlan` called on a MEMBER (E2, listed; `c03_counterexample_member_unplan`).
-/
import NR.Engine
import NR.Coll
import NR.Props.EngineThms
import NR.Props.C08
namespace NR.Props.C07
open NR.Engine

variable {S σ τ : Type} [DecidableEq S]

theorem c07_rejected_leaves_everything (m : Model S σ τ) (st : MState S σ τ) (op : Op S)
    (hinv : MInv m st) (hadm : Admissible st op) (hres : (applyOp m st op).2 = false) :
    mobs (applyOp m st op).1 = mobs st :=
  NR.Props.EngineThms.applyOp_fail_obs m st op hinv hadm hres

theorem c07_accepted_applies_completely (e : Eng S σ) (init : σ) (pre old new : List S) (vals : S → σ)
    (st' : VState S σ) (d : Bool)
    (hinv : Inv e init ⟨pre ++ old, vals⟩) (hnd : (pre ++ new).Nodup)
    (h : change e init pre old new vals = (st', true, d)) :
    st'.route = pre ++ new ∧ Inv e init st' :=
  NR.Props.EngineThms.change_ok e init pre old new vals st' d hinv hnd h

/-- The rollback pass never fails ("undoing failed …" is unreachable from a consistent state). -/
theorem c07_rollback_always_completes (e : Eng S σ) (init : σ) (pre old new : List S) (vals : S → σ)
    (st' : VState S σ) (d : Bool)
    (hinv : Inv e init ⟨pre ++ old, vals⟩) (hnd : (pre ++ new).Nodup)
    (h : change e init pre old new vals = (st', false, d)) : d = true :=
  (NR.Props.EngineThms.change_fail e init pre old new vals st' d hinv hnd h).1

theorem c07_units_rejected_unchanged (U : NR.Coll.Units) (ops : List NR.Coll.COp) (op : NR.Coll.COp)
    (hU : NR.Coll.WFUnits U = true) (hops : ∀ o ∈ ops, NR.Coll.GoodOp U o = true) (hop : NR.Coll.GoodOp U op = true)
    (hin : ∀ u ok, op = .execStops u ok → u < U.kind.length)
    (hrej : (NR.Coll.step U (NR.Coll.runOps U (NR.Coll.start U) ops) op).2 = false) :
    NR.Proofs.Coll.CStateEquiv (NR.Coll.step U (NR.Coll.runOps U (NR.Coll.start U) ops) op).1
      (NR.Coll.runOps U (NR.Coll.start U) ops) :=
  NR.Props.C08.c08_rejected_unchanged U ops op hU hops hop hin hrej

/-- As it was until E16 was repaired — un-planning a plan-all unit whose SECOND member's un-plan is rejected: the call
returned true, the first member was off its route, the second still on it — half planned. -/
theorem c07_counterexample_nested :
    let s := NR.Coll.runOps NR.Props.C08.exAll (NR.Coll.start NR.Props.C08.exAll) [.execUnits 0 [(1, true), (2, true)] []]
    (NR.Coll.unplanUnitsGiven NR.Props.C08.exAll s 0 [true, false]).2 = true ∧
    (NR.Coll.unplanUnitsGiven NR.Props.C08.exAll s 0 [true, false]).1.onRoute = [2] := by
  decide

/-- As repaired: the un-plan of a plan-all unit is all-or-nothing for EVERY pattern of accepted and rejected member
un-plans — a call that reports failure leaves the state exactly as it was (the members un-planned before the rejected one
are planned again where they were; that this restoration goes through is `c07_group_unplan_rollback_restores`). -/
theorem c07_group_unplan_all_or_nothing (U : NR.Coll.Units) (s : NR.Coll.CState) (p : Nat) (bits : List Bool)
    (members : List Nat) (hk : NR.Coll.kindOf U p = .all members)
    (hrej : (NR.Coll.unplanUnits U s p bits).2 = false) : (NR.Coll.unplanUnits U s p bits).1 = s := by
  unfold NR.Coll.unplanUnits at *
  split
  · rfl
  · rename_i hne
    simp only [hne, hk] at hrej ⊢
    split
    · rename_i s' hs'
      simp only [hs'] at hrej
      simp at hrej
    · rfl

/-- the same example as above, repaired: the call reports failure and nothing has changed -/
theorem c07_nested_repaired :
    let s := NR.Coll.runOps NR.Props.C08.exAll (NR.Coll.start NR.Props.C08.exAll) [.execUnits 0 [(1, true), (2, true)] []]
    (NR.Coll.unplanUnits NR.Props.C08.exAll s 0 [true, false]).2 = false ∧
    (NR.Coll.unplanUnits NR.Props.C08.exAll s 0 [true, false]).1 = s := by
  decide

end NR.Props.C07

#print axioms NR.Props.C07.c07_rejected_leaves_everything
#print axioms NR.Props.C07.c07_accepted_applies_completely
#print axioms NR.Props.C07.c07_rollback_always_completes
#print axioms NR.Props.C07.c07_units_rejected_unchanged
#print axioms NR.Props.C07.c07_counterexample_nested
#print axioms NR.Props.C07.c07_group_unplan_all_or_nothing
#print axioms NR.Props.C07.c07_nested_repaired
