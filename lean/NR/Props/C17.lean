/-
  C17 — time-dependent travel is non-negative, first-in-first-out and frame-consistent.
  Statements only; lemmas live in NR.Proofs.TimeDep.  All quantifiers range over every
  rational departure time (each float64 is one), every chain and every duration table.
-/
import NR.TimeDep
import NR.Proofs.TimeDep
namespace NR.Props.C17
open NR.TimeDep

/-- `ValueAtValue` never dereferences a nil element on a well-formed chain. -/
theorem c17_total (durs : Nat → Rat) (c : Chain) (v : Rat)
    (hc : WF c) (ha : Aligned c) (hv : 0 ≤ v) :
    ∃ d, valueAt durs (some c) v = some d :=
  NR.Proofs.TimeDep.valueAt_total durs c v hc ha hv

/-- Travel time is never negative. -/
theorem c17_nonneg (durs : Nat → Rat) (c : Chain) (v d : Rat)
    (hd : NonnegDurs durs) (hc : WF c) (ha : Aligned c) (hv : 0 ≤ v)
    (h : valueAt durs (some c) v = some d) : 0 ≤ d :=
  NR.Proofs.TimeDep.valueAt_nonneg durs c v d hd hc ha hv h

/-- First-in-first-out: leaving later never arrives earlier. -/
theorem c17_fifo (durs : Nat → Rat) (c : Chain) (v₁ v₂ d₁ d₂ : Rat)
    (hd : NonnegDurs durs) (hc : WF c) (ha : Aligned c) (hv : 0 ≤ v₁) (hle : v₁ ≤ v₂)
    (h₁ : valueAt durs (some c) v₁ = some d₁) (h₂ : valueAt durs (some c) v₂ = some d₂) :
    v₁ + d₁ ≤ v₂ + d₂ :=
  NR.Proofs.TimeDep.valueAt_fifo durs c v₁ v₂ d₁ d₂ hd hc ha hv hle h₁ h₂

/-- A trip that fits entirely inside one element (a frame, or a stretch of default between
frames) takes exactly that element's duration. -/
theorem c17_within_element (durs : Nat → Rat) (c : Chain) (v : Rat) (el : Elem)
    (hd : NonnegDurs durs) (hc : WF c) (ha : Aligned c) (hv : 0 ≤ v)
    (hmem : el ∈ c.elems) (h1 : el.start ≤ v) (h2 : v < el.stop)
    (hfit : v + durs el.expr ≤ el.stop) :
    valueAt durs (some c) v = some (durs el.expr) :=
  NR.Proofs.TimeDep.valueAt_within durs c v el hd hc ha hv hmem h1 h2 hfit

/-- After the last frame, and when no frame was ever set, the default applies. -/
theorem c17_default_after (durs : Nat → Rat) (c : Chain) (v : Rat)
    (hc : WF c) (ha : Aligned c) (hne : c.elems ≠ []) (h : c.lastStart ≤ v) :
    valueAt durs (some c) v = some (durs 0) :=
  NR.Proofs.TimeDep.valueAt_after durs c v hc ha hne h

theorem c17_default_noframes (durs : Nat → Rat) (v : Rat) :
    valueAt durs none v = some (durs 0) := rfl

/-- The first `SetExpression` yields a good chain. -/
theorem c17_set_first (s e : Rat) (x : Nat) (c' : Chain)
    (hx : x ≠ 0) (hlt : s < e) (h : setExpr none s e x = .ok c') : Good c' :=
  NR.Proofs.TimeDep.setExpr_first s e x c' hx hlt h

/-- `SetExpression` keeps the chain good when the new frame is disjoint from the existing
frames (adjacent and gapped layouts — the ones the property enumerates — are disjoint). -/
theorem c17_set_preserves (c : Chain) (s e : Rat) (x : Nat) (c' : Chain)
    (hc : Good c) (hx : x ≠ 0) (hlt : s < e)
    (hdis : ∀ el ∈ c.elems, el.expr ≠ 0 → e ≤ el.start ∨ el.stop ≤ s)
    (h : setExpr (some c) s e x = .ok c') : Good c' :=
  NR.Proofs.TimeDep.setExpr_preserves c s e x c' hc hx hlt hdis h

/-- … and a disjoint frame is never rejected as overlapping. -/
theorem c17_set_disjoint_not_overlap (c : Chain) (s e : Rat) (x : Nat)
    (hc : Good c) (hlt : s < e)
    (hdis : ∀ el ∈ c.elems, el.expr ≠ 0 → e ≤ el.start ∨ el.stop ≤ s) :
    (match setExpr (some c) s e x with | .overlap => False | _ => True) :=
  NR.Proofs.TimeDep.setExpr_disjoint_not_overlap c s e x hc hlt hdis

/-- "For any set of time frames": whatever `SetExpression` accepts keeps the chain good — no
disjointness hypothesis. (Before the repair recorded in KNOWN_FINDINGS.txt as `fixed: property=C17`
an interval starting in a gap and reaching into a later frame was accepted, the chain lost
well-formedness and first-in-first-out failed by minutes.) -/
theorem c17_set_accepts_only_good (c : Chain) (s e : Rat) (x : Nat) (c' : Chain)
    (hc : Good c) (hx : x ≠ 0) (hlt : s < e)
    (h : setExpr (some c) s e x = .ok c') : Good c' :=
  NR.Proofs.TimeDep.setExpr_accepts_only_good c s e x c' hc hx hlt h

/-- Hence every chain built from a list of non-empty frames is good, and the three claims hold
for it (corollary used by the `td` correspondence stream). -/
theorem c17_build_good (frames : List (Rat × Rat × Nat)) (c : Chain)
    (hne : ∀ f ∈ frames, f.1 < f.2.1 ∧ f.2.2 ≠ 0)
    (h : build none frames = .ok (some c)) : Good c :=
  NR.Proofs.TimeDep.build_good frames c hne h

/-! Non-vacuity: a concrete chain (two adjacent frames and a gapped one) meets every hypothesis. -/
example : Good exampleChain := NR.Proofs.TimeDep.exampleChain_good

end NR.Props.C17

#print axioms NR.Props.C17.c17_total
#print axioms NR.Props.C17.c17_nonneg
#print axioms NR.Props.C17.c17_fifo
#print axioms NR.Props.C17.c17_within_element
#print axioms NR.Props.C17.c17_default_after
#print axioms NR.Props.C17.c17_default_noframes
#print axioms NR.Props.C17.c17_set_first
#print axioms NR.Props.C17.c17_set_preserves
#print axioms NR.Props.C17.c17_set_disjoint_not_overlap
#print axioms NR.Props.C17.c17_set_accepts_only_good
#print axioms NR.Props.C17.c17_build_good
