/-
  C13 — deterministic parallel mode does not depend on thread scheduling.  FALSE of the protocol as
  modelled for two or more parallel runs, for two independent reasons, each with a machine-checked
  counterexample:
   (i)  budget slices are granted in arrival order: which run gets the short last slice depends on
        the schedule (`c13_budget_counterexample`), although the total does not (C15);
   (ii) within a cycle a run copies the shared best whenever the scheduler lets it start — before or
        after another run of the same cycle has reported (`c13_lag_counterexample`).
  Repaired (KNOWN_FINDINGS `fixed: property=C13`): the same lag ACROSS cycles and between consecutive
  runs with ONE parallel run (the collector had not yet processed the previous run's last result).
  What IS schedule independent (partial): within one cycle whose workers all start from the same
  solution, the collector's final best is the minimum of everything reported, for every arrival
  order of the messages (`c13_cycle_result_order_independent`); and the total iterations granted.
-/
import NR.Par
import NR.Proofs.Par
namespace NR.Props.C13
open NR.Par

theorem c13_cycle_result_order_independent (best : Rat) (xs ys : List Rat) (h : xs.Perm ys) :
    xs.foldl collect best = ys.foldl collect best :=
  NR.Proofs.Par.collect_fold_perm best xs ys h

theorem c13_budget_counterexample :
    grants 5 [3, 4] = [3, 2] ∧ grants 5 [4, 3] = [4, 1] := by decide

def exRun : RunFn := { run := fun s _ => [s - 1, s - 2] }

theorem c13_lag_counterexample :
    twoCycles exRun 10 100 true ≠ twoCycles exRun 10 100 false :=
  NR.Proofs.Par.lag_counterexample

/-- Deterministic mode: in every reachable state of dispatcher and workers, every running worker belongs to the cycle
that is being spawned — a run of cycle k+1 never starts while a run of cycle k is still going (the `waitGroup.Wait()` at
the end of every cycle; the harness checks the same on the code's `worker_copied` / `worker_done` hook events). -/
theorem c13_cycles_do_not_overlap (runs : Nat) (s : Cyc) (h : CReach runs false s) : NoOverlap s :=
  NR.Proofs.Par.reach_noOverlap runs s h

/-- Non-vacuity, and what goes wrong without the wait. -/
theorem c13_barrier_skipped_counterexample : ∃ s, CReach 1 true s ∧ ¬ NoOverlap s :=
  NR.Proofs.Par.skip_overlaps

end NR.Props.C13

#print axioms NR.Props.C13.c13_cycle_result_order_independent
#print axioms NR.Props.C13.c13_budget_counterexample
#print axioms NR.Props.C13.c13_lag_counterexample
#print axioms NR.Props.C13.c13_cycles_do_not_overlap
#print axioms NR.Props.C13.c13_barrier_skipped_counterexample
