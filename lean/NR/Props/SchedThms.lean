/-
  The engine theorems in the SPECIFICATION's vocabulary (C01, C02, C04, C05; DESIGN §3.6).

  NR.Sched is the concrete instance of the generic propagation engine for models built from the JSON schema: what
  `isFeasible` caches per stop (`step`) and which exact checks it runs (`ok`), transcribed from solution.go,
  model_vehicle_type.go and the built-in constraints, and tied to the code by the `eng` lines (every Execute / un-plan /
  vehicle un-plan of every history replayed by `NR.Engine.applyOp` over this instance: result and every cached value).
  The theorems below say that this instance IS the specification NR.Spec that judges the real code's observations:

    * walking a route with `step` yields `Spec.schedule`, `Spec.levels`, `Spec.distances` and the sum of waits;
    * the exact checks along a route hold iff `Spec.temporalOK = none` and the capacity and distance clauses of
      `Spec.staticOK` hold (windows as `SetWindows` accepts them, non-negative distances) — maximum stops, attributes
      and no-mix have no exact check and are not part of this statement;
    * hence every state reached by ANY admissible history of insertions, removals, vehicle un-plans and rejected
      attempts (EngineThms.run_inv) has, for every vehicle: cached times = `Spec.schedule` of its current route,
      cached levels = `Spec.levels`, `Spec.temporalOK = none`, no capacity / distance clause of `Spec.staticOK`,
      and score = `Spec.objective` of the current routes (every term but the unplanned penalty, which is a function
      of the collections — NR.Coll).
-/
import NR.Sched
import NR.Proofs.Sched
import NR.Proofs.Sched2
namespace NR.Props.SchedThms
open NR NR.Spec NR.Sched NR.Engine

theorem sched_times (inst : Inst) (vi : VehIx) (route : List StopIx) :
    (specVals (eng inst) (init inst vi) (nodes vi route)).map (·.t) =
      (schedule inst vi route).1 ++ [(schedule inst vi route).2] :=
  NR.Proofs.Sched.sched_times inst vi route

theorem sched_levels (inst : Inst) (vi : VehIx) (route : List StopIx) :
    ((specVals (eng inst) (init inst vi) (nodes vi route)).map (·.lv)).take route.length =
      levels inst (inst.vehicles.getD vi {}) (padTo inst.nres (inst.vehicles.getD vi {}).startLevel) route :=
  NR.Proofs.Sched.sched_levels inst vi route

theorem sched_dist (inst : Inst) (vi : VehIx) (route : List StopIx) :
    (valAfter (eng inst) (init inst vi) (nodes vi route)).dist =
      distances inst (inst.vehicles.getD vi {}) (inst.vehicles.getD vi {}).firstM route :=
  NR.Proofs.Sched.sched_dist inst vi route

theorem sched_wait (inst : Inst) (vi : VehIx) (route : List StopIx) :
    (valAfter (eng inst) (init inst vi) (nodes vi route)).wait =
      sumRat ((schedule inst vi route).1.map (fun t => t.start - t.arrival)) :=
  NR.Proofs.Sched.sched_wait inst vi route

/-- The exact checks of the engine are the specification's clauses. -/
theorem exact_checks_are_the_spec (inst : Inst) (vi : VehIx) (route : List StopIx) (hwf : InstWF inst) (hs : StartOK inst vi) :
    AllOk (eng inst) (init inst vi) (nodes vi route) ↔
      (staticExactOK inst vi route = true ∧ temporalOK inst vi route = none) :=
  NR.Proofs.Sched.allOk_iff inst vi route hwf hs

theorem staticExact_of_staticOK (inst : Inst) (vi : VehIx) (route : List StopIx)
    (h : staticOK inst vi route = none) : staticExactOK inst vi route = true :=
  NR.Proofs.Sched.staticExact_of_staticOK inst vi route h

theorem staticOK_clauses_of_exact (inst : Inst) (vi : VehIx) (route : List StopIx) (hs : StartOK inst vi)
    (h : staticExactOK inst vi route = true) :
    staticOK inst vi route ≠ some "capacity" ∧ staticOK inst vi route ≠ some "max-distance" :=
  NR.Proofs.Sched.staticOK_clauses_of_exact inst vi route hs h

theorem scoreOf_is_the_spec_objective (inst : Inst) (rs : List (List StopIx)) (hlen : rs.length = inst.vehicles.size) :
    scoreOf inst (specObs (model inst) ((List.range rs.length).map (fun v => nodes v (rs.getD v [])))) =
      { objective inst rs with unplanned := 0 } :=
  NR.Proofs.Sched.scoreOf_spec inst rs hlen

/-- The empty solution (what `NewSolution` starts from when no initial stops are given) satisfies the invariant. -/
theorem emptyState_inv (inst : Inst) (he : EmptyOK inst) : MInv (model inst) (emptyState inst) :=
  NR.Proofs.Sched.emptyState_inv inst he

/-- C01 / C02 / C04 for every reachable state, in the specification's terms. -/
theorem reachable_states_meet_the_spec (inst : Inst) (hwf : InstWF inst) (hs : ∀ vi, StartOK inst vi)
    (st : MState Node CV Terms) (ops : List (Op Node))
    (hinv : MInv (model inst) st) (hadm : AdmissibleRun (model inst) st ops)
    (hsh : Shaped (run (model inst) st ops).routes)
    (v : Nat) (r : List StopIx) (hv : (run (model inst) st ops).routes[v]? = some (nodes v r)) :
    (r.map (fun s => ((run (model inst) st ops).vals (.stop s)).t) = (schedule inst v r).1) ∧
    (((run (model inst) st ops).vals (.last v)).t = (schedule inst v r).2) ∧
    (r.map (fun s => ((run (model inst) st ops).vals (.stop s)).lv) =
        levels inst (inst.vehicles.getD v {}) (padTo inst.nres (inst.vehicles.getD v {}).startLevel) r) ∧
    temporalOK inst v r = none ∧
    staticOK inst v r ≠ some "capacity" ∧ staticOK inst v r ≠ some "max-distance" :=
  NR.Proofs.Sched.reachable_spec inst hwf hs st ops hinv hadm hsh v r hv

/-- C05 (all terms but the unplanned penalty) for every reachable state. -/
theorem reachable_score_is_the_spec_objective (inst : Inst) (st : MState Node CV Terms) (ops : List (Op Node))
    (hinv : MInv (model inst) st) (hadm : AdmissibleRun (model inst) st ops)
    (rs : List (List StopIx)) (hlen : rs.length = inst.vehicles.size)
    (hr : (run (model inst) st ops).routes = (List.range rs.length).map (fun v => nodes v (rs.getD v []))) :
    (run (model inst) st ops).score = { objective inst rs with unplanned := 0 } :=
  NR.Proofs.Sched.reachable_score inst st ops hinv hadm rs hlen hr

/-! Non-vacuity: a two-vehicle instance with windows, a duration group, a multiplier, capacities, a distance limit and
every objective factor; the empty state satisfies the invariant's hypotheses, an insertion is accepted and one is
rejected by an exact check (capacity). -/
def exM : Array (Array Rat) :=
  #[#[0,100,250,90,40,60],#[100,0,80,300,50,70],#[250,80,0,120,30,20],#[90,300,120,0,10,15],#[40,50,30,10,0,5],#[60,70,20,15,5,0]]

def exInst : Inst :=
  { stops := #[{ mIdx := 0, dur := 60, windows := [(1000,1200),(2000,2400)], maxWait := some 900, delta := [1], target := some 1100, early := 2, late := 3 },
               { mIdx := 1, dur := 30, dgroup := some 0, delta := [-1] },
               { mIdx := 2, dur := 45, dgroup := some 0, delta := [2], windows := [(500, 3000)] },
               { mIdx := 3, dur := 10, delta := [0] }],
    vehicles := #[{ start := 900, firstM := some 4, lastM := some 5, travel := 0, mult := 2, caps := [3], startLevel := [1],
                    maxDist := some 1000, latestEnd := some 5000, maxWait := some 2000, activation := 7, minStops := 3, minPenalty := 11 },
                  { start := 800, firstM := some 5, lastM := none, travel := 0, caps := [2], startLevel := [0] }],
    travels := #[.matrix exM], dist := exM, groupDur := #[100], nres := 1,
    fVehDur := 1, fTravel := 2, fActivation := 1, fMinStops := 1, fEarly := 1, fLate := 1, fBalance := 5 }

example : (applyOp (model exInst) (emptyState exInst) ⟨0, 0, nodes 0 [3, 2, 1]⟩).2 = true := by decide +kernel
example : (applyOp (model exInst) (emptyState exInst) ⟨0, 0, nodes 0 [0, 2, 1]⟩).2 = false := by decide +kernel
example : temporalOK exInst 0 [3, 2, 1] = none ∧ staticOK exInst 0 [3, 2, 1] = none ∧ staticOK exInst 0 [0, 2, 1] = some "capacity" := by
  decide +kernel

end NR.Props.SchedThms

#print axioms NR.Props.SchedThms.sched_times
#print axioms NR.Props.SchedThms.sched_levels
#print axioms NR.Props.SchedThms.sched_dist
#print axioms NR.Props.SchedThms.sched_wait
#print axioms NR.Props.SchedThms.exact_checks_are_the_spec
#print axioms NR.Props.SchedThms.staticExact_of_staticOK
#print axioms NR.Props.SchedThms.staticOK_clauses_of_exact
#print axioms NR.Props.SchedThms.scoreOf_is_the_spec_objective
#print axioms NR.Props.SchedThms.emptyState_inv
#print axioms NR.Props.SchedThms.reachable_states_meet_the_spec
#print axioms NR.Props.SchedThms.reachable_score_is_the_spec_objective
