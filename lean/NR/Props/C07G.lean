/-
  C07 for units of units: executing a move for a stop group (`solutionMoveUnitsImpl.Execute`) is all-or-nothing.

  NR.Group models it on the engine: the member moves are executed in order (`applyOp`); at the first member that is
  rejected — by whatever exact check, built-in or user-written, the engine is generic in them — the members executed so
  far are un-planned again (take the member's own stops off the route they are on), last executed first.

    * `c07_group_move_rejected_restores_everything`: the rollback ALWAYS goes through (the Go's error branch "failed to
      unplan" is unreachable) and routes, cached values of every planned stop and score are exactly what they were;
    * `c07_group_move_accepted_keeps_invariant`;
    * `c07_execution_order_rollback_counterexample`: undoing in execution order instead is NOT safe — members a (+10),
      b (−5) on a resource kept within [0, 10], a third member rejected: taking a off while b is there is refused, the
      unit stays half planned (this is the seeded change C07-group-rollback-in-execution-order; the same move rolls back
      completely last-in-first-out).

  The hypothesis `InsertionGroup` says each member move only inserts its own stops (which are on no route before) — what
  `bestMovePlanAllUnit` builds. Tied to the code by the `coll execUnits` lines (which members were planned / un-planned,
  resulting collections) and by the all-or-nothing clauses the harness evaluates around every group move, stale ones and
  ones that end with an error included.
-/
import NR.Group
import NR.Proofs.Group
namespace NR.Props.C07G
open NR.Engine NR.Group

variable {S σ τ : Type} [DecidableEq S]

theorem c07_group_move_accepted_keeps_invariant (m : Model S σ τ) (st st' : MState S σ τ) (mbs : List (Member S)) (u : Bool)
    (hinv : MInv m st) (hadm : InsertionGroup m st mbs)
    (h : execGroup m true st [] mbs = (st', true, u)) : MInv m st' :=
  NR.Proofs.Group.execGroup_ok m st st' mbs u hinv hadm h

theorem c07_group_move_rejected_restores_everything (m : Model S σ τ) (st st' : MState S σ τ) (mbs : List (Member S)) (u : Bool)
    (hinv : MInv m st) (hadm : InsertionGroup m st mbs)
    (h : execGroup m true st [] mbs = (st', false, u)) :
    u = true ∧ mobs st' = mobs st ∧ MInv m st' :=
  NR.Proofs.Group.execGroup_rejected m st st' mbs u hinv hadm h

open NR.Proofs.Group in
theorem c07_execution_order_rollback_counterexample :
    (execGroup trapModel false trapStart [] trapOps).2 = (false, false) ∧
    (execGroup trapModel false trapStart [] trapOps).1.routes = [[1, 2]] ∧
    (execGroup trapModel true trapStart [] trapOps).2 = (false, true) ∧
    (execGroup trapModel true trapStart [] trapOps).1.routes = [[]] ∧
    InsertionGroup trapModel trapStart trapOps :=
  NR.Proofs.Group.fifo_rollback_counterexample

/-! ### `UnPlan` of a unit of units (as repaired, E16): all-or-nothing too -/

/-- Un-planning a plan-all unit member by member and, at the first member whose un-plan is rejected — by whatever exact
check —, planning the members un-planned so far again where they were, last un-planned first: the rollback ALWAYS goes
through (the Go's error branch "failed undoing failed unplan" is unreachable) and routes, cached values of every planned
stop and score are exactly what they were. For every model, every state satisfying the engine invariant and EVERY list of
members (vehicle, own stops) — no hypothesis on them. -/
theorem c07_group_unplan_rollback_restores (m : Model S σ τ) (st st' : MState S σ τ) (mbs : List (Nat × List S)) (u : Bool)
    (hinv : MInv m st) (h : unplanGroup m st [] mbs = (st', false, u)) :
    u = true ∧ mobs st' = mobs st ∧ MInv m st' :=
  NR.Proofs.Group.unplanGroup_rejected m st st' mbs u hinv h

theorem c07_group_unplan_accepted_keeps_invariant (m : Model S σ τ) (st st' : MState S σ τ) (mbs : List (Nat × List S)) (u : Bool)
    (hinv : MInv m st) (h : unplanGroup m st [] mbs = (st', true, u)) : MInv m st' :=
  NR.Proofs.Group.unplanGroup_ok m st st' mbs u hinv h

/-- a resource kept within [0, 10]: stop 1 loads 10, stops 2 and 3 take 5 each off -/
def unplanTrap : Model Nat Int Unit :=
  { eng := { step := fun p s => p + (if s = 1 then 10 else if s = 2 then -5 else if s = 3 then -5 else 0),
             ok := fun v _ => decide (0 ≤ v ∧ v ≤ 10) },
    inits := [0], scoreOf := fun _ => () }

def unplanTrapState : MState Nat Int Unit :=
  (applyOp unplanTrap { routes := [[]], vals := fun _ => 0, score := () } ⟨0, 0, [1, 2, 3]⟩).1

/-- non-vacuity: the group {2, 1} on the route 1, 2, 3 — stop 2 comes off (levels 10, 5), taking stop 1 off as well would
leave stop 3 at −5: rejected, stop 2 goes back, the route is 1, 2, 3 again; the group {2, 3} is un-planned completely. -/
theorem c07_group_unplan_example :
    unplanTrapState.routes = [[1, 2, 3]] ∧
    (unplanGroup unplanTrap unplanTrapState [] [(0, [2]), (0, [1])]).2 = (false, true) ∧
    (unplanGroup unplanTrap unplanTrapState [] [(0, [2]), (0, [1])]).1.routes = [[1, 2, 3]] ∧
    (unplanGroup unplanTrap unplanTrapState [] [(0, [2]), (0, [3])]).2 = (true, true) ∧
    (unplanGroup unplanTrap unplanTrapState [] [(0, [2]), (0, [3])]).1.routes = [[1]] := by
  decide

end NR.Props.C07G

#print axioms NR.Props.C07G.c07_group_move_accepted_keeps_invariant
#print axioms NR.Props.C07G.c07_group_move_rejected_restores_everything
#print axioms NR.Props.C07G.c07_execution_order_rollback_counterexample
#print axioms NR.Props.C07G.c07_group_unplan_rollback_restores
#print axioms NR.Props.C07G.c07_group_unplan_accepted_keeps_invariant
#print axioms NR.Props.C07G.c07_group_unplan_example
