/-
  C19 — a user constraint's exact check is authoritative however optimistic its estimate.
  The engine theorems are generic in `ok`: instantiate it with "built-in checks ∧ user predicate".
  A stop-level predicate is a predicate of the route prefix up to and including the stop — that is
  what the cached value `σ` carries (the engine's contract: "invoked on every update of a planned
  solution stop"); vehicle-level predicates are stop-level predicates at the end stop.
  The estimate does not occur in the statements at all: it cannot matter.
-/
import NR.Engine
import NR.Props.EngineThms
namespace NR.Props.C19
open NR.Engine

variable {S σ τ : Type} [DecidableEq S]

/-- Conjoin a user predicate with the built-in checks. -/
def withUser (e : Eng S σ) (user : σ → S → Bool) : Eng S σ :=
  { step := e.step, ok := fun v s => e.ok v s && user v s }

/-- No reachable solution violates the user predicate, at any stop of any route. -/
theorem c19_user_check_holds (m : Model S σ τ) (user : σ → S → Bool) (st : MState S σ τ) (ops : List (Op S))
    (hinv : MInv { m with eng := withUser m.eng user } st)
    (hadm : AdmissibleRun { m with eng := withUser m.eng user } st ops)
    (v : Nat) (hv : v < (run { m with eng := withUser m.eng user } st ops).routes.length) (hv' : v < m.inits.length) :
    AllOk (withUser m.eng user) (m.inits[v]) ((run { m with eng := withUser m.eng user } st ops).routes[v]) :=
  ((NR.Props.EngineThms.run_inv { m with eng := withUser m.eng user } st ops hinv hadm).2.2.1 v hv hv').2

/-- `AllOk` of the conjunction gives the user predicate at every stop. -/
theorem c19_allOk_user (e : Eng S σ) (user : σ → S → Bool) (prev : σ) (l : List S)
    (h : AllOk (withUser e user) prev l) : AllOk { step := e.step, ok := user } prev l := by
  induction l generalizing prev with
  | nil => trivial
  | cons s rest ih =>
    obtain ⟨h1, h2⟩ := h
    simp only [withUser, Bool.and_eq_true] at h1
    exact ⟨h1.2, ih _ h2⟩

/-- A move or un-plan the user check rejects leaves the solution exactly as it was. -/
theorem c19_rejection_leaves_solution (m : Model S σ τ) (user : σ → S → Bool) (st : MState S σ τ) (op : Op S)
    (hinv : MInv { m with eng := withUser m.eng user } st) (hadm : Admissible st op)
    (hres : (applyOp { m with eng := withUser m.eng user } st op).2 = false) :
    mobs (applyOp { m with eng := withUser m.eng user } st op).1 = mobs st :=
  NR.Props.EngineThms.applyOp_fail_obs _ st op hinv hadm hres

end NR.Props.C19

#print axioms NR.Props.C19.c19_user_check_holds
#print axioms NR.Props.C19.c19_allOk_user
#print axioms NR.Props.C19.c19_rejection_leaves_solution
