/-
  C12 — same model, seed and options give the same result on every run.
  With ONE agent drawing from a seeded stream a run is a function of the seed. With the order
  generator in its own goroutine TWO agents drew from the solution's stream and the interleaving was
  a free variable: `c12_interleaving_counterexample` (same stream, two schedules, different draws
  for the consumer — a different tie-break, hence a different result). The repaired code
  (KNOWN_FINDINGS `fixed: property=C12`) generates all orders before handing them over:
  `c12_producer_first` — each agent's draws are then a function of the stream alone.
  The other sources of run-to-run difference found by the repetition stream (map-ordered filing
  of initial units; the collector lag with one parallel run) are repaired and listed there too;
  map-ordered construction of per-resource capacity constraints does not change results because
  every constraint is evaluated (estimates are conjoined; vehicle-skip hints are truthful) — tied
  by the repetition stream, which rebuilds the model for every repetition.
-/
import NR.Rng
namespace NR.Props.C12
open NR.Rng

theorem split_replicate_true (n : Nat) (sch : Schedule) (xs : List Nat) (h : n ≤ xs.length) :
    split (List.replicate n true ++ sch) xs = ((xs.take n) ++ (split sch (xs.drop n)).1, (split sch (xs.drop n)).2) := by
  induction n generalizing xs with
  | zero => simp
  | succ k ih =>
    cases xs with
    | nil => simp at h
    | cons x xs =>
      simp only [List.replicate_succ, List.cons_append, split, List.take_succ_cons, List.drop_succ_cons]
      rw [ih xs (by simpa using h)]

theorem split_replicate_false (m : Nat) (xs : List Nat) (h : m ≤ xs.length) :
    split (List.replicate m false) xs = ([], xs.take m) := by
  induction m generalizing xs with
  | zero => cases xs <;> simp [split]
  | succ k ih =>
    cases xs with
    | nil => simp at h
    | cons x xs =>
      simp only [List.replicate_succ, split, List.take_succ_cons]
      rw [ih xs (by simpa using h)]

/-- Producer first: the producer gets the first `n` draws, the consumer the next `m` — whatever
the scheduler does, because there is only one schedule left. -/
theorem c12_producer_first (n m : Nat) (stream : List Nat) (h : n + m ≤ stream.length) :
    split (producerFirst n m) stream = (stream.take n, (stream.drop n).take m) := by
  unfold producerFirst
  rw [split_replicate_true n _ stream (by omega), split_replicate_false m _ (by simp; omega)]
  simp

/-- Two schedules of the same stream give the consumer different draws. -/
theorem c12_interleaving_counterexample :
    (split [true, false, true] [7, 8, 9]).2 ≠ (split [false, true, true] [7, 8, 9]).2 := by decide

end NR.Props.C12

#print axioms NR.Props.C12.c12_producer_first
#print axioms NR.Props.C12.c12_interleaving_counterexample
