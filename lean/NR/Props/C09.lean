/-
  C09 — a move the engine calls executable really can be executed: per built-in constraint, the
  estimate that admits a move is never contradicted by the exact check applied afterwards, GIVEN
  that the solution was feasible and its cache consistent before (the engine invariant, C04/C01).

  Proved here: `Maximum` (every capacity resource, distance limit) in all three regimes — sound
  AND complete (the estimate rejects exactly the insertions whose new route violates the limit);
  `MaximumStops`, `Attributes` (exact formulas, NR.Props.C01); `Latest` start / end / arrival (below: the
  estimate has no early exit and IS the exact check of the walked stops); the waiting-time estimates are in
  NR.Props.C09W, the hypothetical-route iterator in C09G, no-mix in C01M. With that every estimate the factory
  registers is modelled, proved against its exact check and tied line by line (`est max|waitv|waits|latest`,
  `mix est`, `sgen`); the cluster constraint (opt-in, no exact check) is not modelled.
-/
import NR.Estimate
import NR.Proofs.Estimate
import NR.LatestEst
namespace NR.Props.C09
open NR.Estimate

/-- Old route feasible after the insertion point: the stored levels along the tail are in range
and are what the stored cumulative values say. -/
def OldTailOK (max oldCumNext oldLast : Rat) (tail : List Rat) : Prop :=
  (∀ l ∈ levelsFrom oldCumNext tail, bad max l = false) ∧ total oldCumNext tail = oldLast ∧ bad max oldCumNext = false

/-- Regime (2), soundness: estimate says "not violated" ⇒ the exact check passes on the whole new
route from the insertion point on. -/
theorem c09_maximum_sound (max base : Rat) (win tail : List Rat) (oldCumNext oldLast : Rat) (hasNeg : Bool)
    (hold : OldTailOK max oldCumNext oldLast tail)
    (hneg : hasNeg = false → (∀ v ∈ win, 0 ≤ v) ∧ (∀ v ∈ tail, 0 ≤ v))
    (hwin : win ≠ [])
    (h : maxEstimate max base win tail oldCumNext oldLast hasNeg = false) :
    exactOK max base win tail = true :=
  NR.Proofs.Estimate.maximum_sound max base win tail oldCumNext oldLast hasNeg hold hneg hwin h

/-- Regime (2), completeness: estimate says "violated" ⇒ the exact check fails. -/
theorem c09_maximum_complete (max base : Rat) (win tail : List Rat) (oldCumNext oldLast : Rat) (hasNeg : Bool)
    (hold : OldTailOK max oldCumNext oldLast tail)
    (hneg : hasNeg = false → (∀ v ∈ win, 0 ≤ v) ∧ (∀ v ∈ tail, 0 ≤ v))
    (hwin : win ≠ [])
    (h : maxEstimate max base win tail oldCumNext oldLast hasNeg = true) :
    exactOK max base win tail = false :=
  NR.Proofs.Estimate.maximum_complete max base win tail oldCumNext oldLast hasNeg hold hneg hwin h

/-- Regime (1): all values non-negative, `delta` = total of the unit: the constant-time test is
equivalent to the exact check of the whole new route `pre ++ ins…` — stated on the list of values
of the new route (`vs`, summing to `oldLast + delta` from the start level `l0 ≥ 0`). -/
theorem c09_maximum_const (max l0 oldLast delta : Rat) (vs : List Rat)
    (hl0 : 0 ≤ l0) (hnn : ∀ v ∈ vs, 0 ≤ v) (hsum : total l0 vs = oldLast + delta) (hne : vs ≠ []) :
    maxEstimateConst max oldLast delta = false ↔ (levelsFrom l0 vs).any (bad max) = false :=
  NR.Proofs.Estimate.maximum_const max l0 oldLast delta vs hl0 hnn hsum hne

/-! Non-vacuity: capacity 10, levels 3,7 before; insert +2 after the first stop: window [2, 4], tail [0]. -/
example : OldTailOK 10 7 7 [0] := by unfold OldTailOK; decide +kernel
example : maxEstimate 10 3 [2, 4] [0] 7 7 false = false ∧ exactOK 10 3 [2, 4] [0] = true := by decide +kernel
example : maxEstimate 10 3 [5, 4] [0] 7 7 false = true ∧ exactOK 10 3 [5, 4] [0] = false := by decide +kernel
example : maxEstimate 10 3 [-4, 4] [6, -2] 7 11 true = true := by decide +kernel

/-- Latest start / end / arrival: the estimate rejects a move exactly when the exact check fails at some stop of the
hypothetical route behind the first inserted stop — for any windows, travel durations and process durations. -/
theorem c09_latest_estimate_is_exact (r : NR.LatestEst.Ref) (pe : Rat) (walk : List (NR.WaitEst.Item × Rat)) :
    NR.LatestEst.est r pe walk = !NR.LatestEst.exactOK r pe walk :=
  NR.LatestEst.est_iff_exact r pe walk

example : NR.LatestEst.est .start 0 [({ travel := 10, windows := [(50, 60)], dur := 5, planned := false }, 60),
    ({ travel := 10, windows := [], dur := 0, planned := true }, 60)] = true := by decide +kernel

end NR.Props.C09

#print axioms NR.Props.C09.c09_maximum_sound
#print axioms NR.Props.C09.c09_maximum_complete
#print axioms NR.Props.C09.c09_maximum_const
#print axioms NR.Props.C09.c09_latest_estimate_is_exact
