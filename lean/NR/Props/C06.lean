/-
  C06 — the solver never hands back a worse solution than it already had.
  Pure theorems over score sequences: they hold for every list of received scores, hence for
  every merge of the runs' outputs, i.e. for every goroutine schedule of the parallel solver.
-/
import NR.Emit
import NR.Proofs.Emit
namespace NR.Props.C06
open NR.Emit

/-- Parallel solver: the scores read from the result channel are strictly decreasing. -/
theorem c06_channel_strict (s0 : Rat) (starts recv : List Rat) :
    StrictDesc (channel s0 starts recv) :=
  NR.Proofs.Emit.emit_strict _ _

/-- … the first one is no worse than any supplied start solution … -/
theorem c06_channel_head_le_starts (s0 : Rat) (starts recv : List Rat) :
    (channel s0 starts recv).head (by simp [channel]) ≤ s0 ∧
    ∀ x ∈ starts, (channel s0 starts recv).head (by simp [channel]) ≤ x :=
  NR.Proofs.Emit.minStart_le s0 starts

/-- … every later one is strictly better than the first … -/
theorem c06_channel_all_better (s0 : Rat) (starts recv : List Rat) :
    ∀ y ∈ (channel s0 starts recv).tail, y < minStart s0 starts :=
  NR.Proofs.Emit.emit_all_le _ _

/-- … and the last one delivered is the best of everything any run reported. -/
theorem c06_channel_last_is_min (s0 : Rat) (starts recv : List Rat) :
    (channel s0 starts recv).getLast (by simp [channel]) = lmin (minStart s0 starts) recv := by
  simp only [channel]
  rw [NR.Proofs.Emit.getLast_cons_getLastD]
  exact NR.Proofs.Emit.emit_last (minStart s0 starts) recv

/-- Single solver: strictly decreasing, whatever the operators and resets do. -/
theorem c06_solver_strict (b : Rat) (es : List Ev) : StrictDesc (schannel b es) :=
  (NR.Proofs.Emit.srun_strict ⟨b, b⟩ es).1

/-- Single solver: the final best is never worse than the start. -/
theorem c06_solver_best_le_start (b : Rat) (es : List Ev) : sfinalBest b es ≤ b :=
  (NR.Proofs.Emit.srun_strict ⟨b, b⟩ es).2

/-- Single solver: when no operator calls `Reset` with a solution strictly better than the
current best (the built-in restart operator resets to the best solution), the last delivered
solution is the best one found.  The side condition is exact: see `c06_reset_counterexample`. -/
theorem c06_solver_last_is_best (b : Rat) (es : List Ev) (h : NoImprovingReset ⟨b, b⟩ es) :
    (schannel b es).getLast (by simp [schannel]) = sfinalBest b es := by
  simp only [schannel, sfinalBest]
  rw [NR.Proofs.Emit.getLast_cons_getLastD]
  exact NR.Proofs.Emit.srun_last ⟨b, b⟩ es h

/-- A custom operator that calls `Reset` with a strictly better solution leaves an
undelivered best: the full statement without the side condition is false of the model. -/
theorem c06_reset_counterexample :
    ∃ (b : Rat) (es : List Ev),
      (schannel b es).getLast (by simp [schannel]) ≠ sfinalBest b es := by
  refine ⟨10, [.reset 5], ?_⟩
  decide

/-! Non-vacuity -/
example : NoImprovingReset ⟨10, 10⟩ [.op 8 true, .reset 8, .op 9 true, .op 7 true] := by
  simp [NoImprovingReset, sstep]; decide

example : channel 10 [12, 9] [9, 8, 8, 11, 7] = [9, 8, 7] := by decide

end NR.Props.C06

#print axioms NR.Props.C06.c06_channel_strict
#print axioms NR.Props.C06.c06_channel_head_le_starts
#print axioms NR.Props.C06.c06_channel_all_better
#print axioms NR.Props.C06.c06_channel_last_is_min
#print axioms NR.Props.C06.c06_solver_strict
#print axioms NR.Props.C06.c06_solver_best_le_start
#print axioms NR.Props.C06.c06_solver_last_is_best
#print axioms NR.Props.C06.c06_reset_counterexample
