/-
  C05 — the reported objective equals an independent re-evaluation of the routes.
  Engine part: the score map is refreshed by every completing pass from the cached values, which
  equal the forward propagation (C04): `score = scoreOf (specObs routes)` after any history.
  The unplanned term is read from the unplanned COLLECTION, so it is right exactly when the
  bookkeeping is (C08): proved on the sub-alphabet of `NR.Coll.GoodOp`; FALSE in general — the
  one-of counterexample (finding E4, pinned by the alternates golden: penalty 4 000 000 next to an
  empty unplanned list) and the member un-plan counterexample (finding E2).
-/
import NR.Engine
import NR.Coll
import NR.Props.EngineThms
import NR.Props.C08
namespace NR.Props.C05
open NR.Engine

variable {S σ τ : Type} [DecidableEq S]

theorem c05_score_is_objective_of_routes (m : Model S σ τ) (st : MState S σ τ) (ops : List (Op S))
    (hinv : MInv m st) (hadm : AdmissibleRun m st ops) :
    (run m st ops).score = m.scoreOf (specObs m (run m st ops).routes) :=
  (NR.Props.EngineThms.run_inv m st ops hinv hadm).2.2.2

/-- The unplanned term follows the collection: with the bookkeeping invariant the units listed as
unplanned are exactly the root units that are not planned. -/
theorem c05_unplanned_term_partial (U : NR.Coll.Units) (ops : List NR.Coll.COp)
    (hU : NR.Coll.WFUnits U = true) (hops : ∀ op ∈ ops, NR.Coll.GoodOp U op = true)
    (hne : ∀ p undo, NR.Coll.COp.execUnits p [] undo ∉ ops) :
    NR.Coll.BooksOK U (NR.Coll.runOps U (NR.Coll.start U) ops) = true :=
  NR.Props.C08.c08_partial U ops hU hops hne

/-- Full statement is false (E4): a planned one-of unit stays listed as unplanned, so its penalty
is still charged. -/
theorem c05_counterexample_oneof :
    NR.Coll.WFUnits NR.Props.C08.exOneOf = true ∧
    NR.Coll.BooksOK NR.Props.C08.exOneOf
      (NR.Coll.runOps NR.Props.C08.exOneOf (NR.Coll.start NR.Props.C08.exOneOf) [.execStops 1 true]) = false :=
  NR.Props.C08.c08_counterexample_oneof

end NR.Props.C05

#print axioms NR.Props.C05.c05_score_is_objective_of_routes
#print axioms NR.Props.C05.c05_unplanned_term_partial
#print axioms NR.Props.C05.c05_counterexample_oneof
