/-
  C11 — a copied solution is identical to, and independent of, its original.
  Address level: slices carved from one fresh chunk are pairwise disjoint, lie inside the chunk,
  and fit it exactly for the field lists and chunk-size expressions the source has NOW
  (FactThms/CopyFacts re-proves the instantiation and that every field of `solutionImpl` is
  handled by `Copy` on every run: a field added and forgotten, or a chunk size that no longer
  matches the carved lengths, breaks a theorem). Value level ("shows exactly the same …") and
  independence under later operations, also from different goroutines, are decided on the real
  code by snapshots of original and copy before/after diverging histories (and under the race
  detector) — the tie.
-/
import NR.Heap
import NR.Proofs.Heap
namespace NR.Props.C11
open NR.Heap

theorem c11_carved_within (off : Nat) (ns : List Nat) :
    ∀ r ∈ carve off ns, off ≤ r.1 ∧ r.1 + r.2 ≤ off + total ns :=
  NR.Proofs.Heap.carve_within off ns

theorem c11_carved_pairwise_disjoint (off : Nat) (ns : List Nat) :
    (carve off ns).Pairwise Disjoint :=
  NR.Proofs.Heap.carve_pairwise_disjoint off ns

/-- The `ints` chunk: 3 per-vehicle fields and 5 per-stop fields fit `5*nrStops + 3*nrVehicles`
exactly, for every number of stops and vehicles. -/
theorem c11_ints_fit (isV : String → Bool) (fields : List String) (nS nV : Nat)
    (hV : (fields.filter isV).length = 3) (hS : (fields.filter (fun f => !isV f)).length = 5) :
    total (lengths isV nS nV fields) = 5 * nS + 3 * nV :=
  NR.Proofs.Heap.lengths_total isV fields nS nV 3 5 hV hS

/-- The `floats` chunk: 5 per-stop fields plus 2 per expression fit `(5 + 2*nrExpressions) * nrStops`. -/
theorem c11_floats_fit (nS nE : Nat) :
    total (List.replicate 5 nS ++ (List.replicate nE [nS, nS]).flatten) = (5 + 2 * nE) * nS :=
  NR.Proofs.Heap.floats_total nS nE

/-! Non-vacuity -/
example : carve 0 [2, 3, 1] = [(0, 2), (2, 3), (5, 1)] := by decide

end NR.Props.C11

#print axioms NR.Props.C11.c11_carved_within
#print axioms NR.Props.C11.c11_carved_pairwise_disjoint
#print axioms NR.Props.C11.c11_ints_fit
#print axioms NR.Props.C11.c11_floats_fit
