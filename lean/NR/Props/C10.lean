/-
  C10 — best-move search considers every allowed insertion and returns a cheapest one.
  (a) `combineAscending` enumerates exactly the order-preserving placements, once each;
  (b) `generate` enumerates exactly those that split no direct pair, once each;
  (d) folding `takeBestInPlace` over any candidate list, for ANY tie-break stream, returns an
      executable candidate iff one exists, and its value is the minimum over the executable ones.
-/
import NR.Gen
import NR.Proofs.Gen
namespace NR.Props.C10
open NR.Gen

theorem c10_combine_complete (n m : Nat) (c : List Nat) :
    c ∈ combineAscending n m ↔ IsPlacement n m c :=
  NR.Proofs.Gen.combine_mem_iff n m c

theorem c10_combine_once (n m : Nat) : (combineAscending n m).Nodup :=
  NR.Proofs.Gen.combine_nodup n m

theorem c10_generate_complete (n m : Nat) (splitBad mustSame : Nat → Bool) (c : List Nat) :
    c ∈ generate n m splitBad mustSame ↔ IsAllowedPlacement n m splitBad mustSame c :=
  NR.Proofs.Gen.generate_mem_iff n m splitBad mustSame c

theorem c10_generate_once (n m : Nat) (splitBad mustSame : Nat → Bool) :
    (generate n m splitBad mustSame).Nodup :=
  NR.Proofs.Gen.generate_nodup n m splitBad mustSame

/-- Without direct pairs `generate` is `combineAscending` (the two branches of
`SolutionMoveStopsGenerator` agree). -/
theorem c10_generate_eq_combine (n m : Nat) :
    generate n m (fun _ => false) (fun _ => false) = combineAscending n m :=
  NR.Proofs.Gen.generate_eq_combine n m

/-- Executable iff some candidate is executable — whatever the tie-breaks. -/
theorem c10_best_exec_iff (cs : List Cand) (ts : List Bool) :
    (bestOf notExecutable cs ts).exec = true ↔ ∃ c ∈ cs, c.exec = true :=
  NR.Proofs.Gen.best_exec_iff cs ts

/-- The value returned is the minimum over the executable candidates — whatever the tie-breaks. -/
theorem c10_best_is_min (cs : List Cand) (ts : List Bool) (c : Cand)
    (hc : c ∈ cs) (he : c.exec = true) : (bestOf notExecutable cs ts).value ≤ c.value :=
  NR.Proofs.Gen.best_is_min cs ts c hc he

/-- … and it is attained by one of the candidates. -/
theorem c10_best_attained (cs : List Cand) (ts : List Bool)
    (h : (bestOf notExecutable cs ts).exec = true) :
    ∃ c ∈ cs, c.exec = true ∧ c.value = (bestOf notExecutable cs ts).value ∧ c.tag = (bestOf notExecutable cs ts).tag :=
  NR.Proofs.Gen.best_attained cs ts h

/-! Non-vacuity -/
example : combineAscending 2 3 = [[1, 1], [1, 2], [1, 3], [2, 2], [2, 3], [3, 3]] := by decide
example : generate 2 3 (fun x => x == 2) (fun _ => false) = [[1, 1], [1, 3], [3, 3]] := by decide
example : generate 2 3 (fun _ => false) (fun j => j == 1) = [[1, 1], [2, 2], [3, 3]] := by decide

end NR.Props.C10

#print axioms NR.Props.C10.c10_combine_complete
#print axioms NR.Props.C10.c10_combine_once
#print axioms NR.Props.C10.c10_generate_complete
#print axioms NR.Props.C10.c10_generate_once
#print axioms NR.Props.C10.c10_generate_eq_combine
#print axioms NR.Props.C10.c10_best_exec_iff
#print axioms NR.Props.C10.c10_best_is_min
#print axioms NR.Props.C10.c10_best_attained
