/-
  C12 — the closest-stop lists the island un-plan operators walk (`ModelStopsDistanceQueries.NearestStops`, as repaired:
  E43) do not depend on the order in which the k-d tree visits the stops. That order comes from pivots drawn from a
  process-wide random source and differs between two models built from the same data in one process; with the lists
  depending on it, repeated solves of the same input with the same seed gave different solution sequences.

  `c12_closest_stops_independent_of_visiting_order`: for every query size, query stop and every two arrangements of the
  same candidates the answer is the same list.
  `c12_closest_stops_are_the_n_first_of_all`: the answer is the first n of ALL other stops in (distance, index) order —
  collecting only what lies within the distance of the (n+1)-th nearest loses nothing (stop indices are distinct).
  `c12_closest_stops_counterexample`: as given (the n+1 nearest in the order found) two arrangements of four stops, three
  of them equally far from the query stop, give two different lists.
  Tied to the code by the `closest` lines of the stream of that name (every query on a freshly built object, layouts
  with exact ties, distance keys = ranks of the code's own distance function).
-/
import NR.Closest
import NR.Proofs.Closest
import NR.Proofs.ClosestGlobal
namespace NR.Props.C12C
open NR.Closest

theorem c12_closest_stops_independent_of_visiting_order (n self : Nat) (l₁ l₂ : List Cand) (h : l₁.Perm l₂) :
    nearest n self l₁ = nearest n self l₂ :=
  nearest_perm h

theorem c12_closest_stops_are_the_n_first_of_all (n self : Nat) (l : List Cand) (hn : IdxNodup l) :
    nearest n self l = ((l.filter (fun c => c.2 != self)).mergeSort le2).take n :=
  nearest_eq_global n self l hn

/-- at most n stops, in (distance, index) order, all of them other stops of the query object -/
theorem c12_closest_stops_shape (n self : Nat) (l : List Cand) :
    (nearest n self l).length ≤ n ∧ (nearest n self l).Pairwise (fun a b => le2 a b = true) ∧
    ∀ c ∈ nearest n self l, c ∈ l ∧ c.2 ≠ self :=
  ⟨nearest_length_le n self l, nearest_sorted n self l, fun _ h => nearest_mem h⟩

/-- query stop 0; stops 1, 2, 3 at the same distance; two visiting orders -/
theorem c12_closest_stops_counterexample :
    nearestGiven 2 0 [(0, 0), (1, 1), (1, 2), (1, 3)] = [(1, 1), (1, 2)] ∧
    nearestGiven 2 0 [(0, 0), (1, 3), (1, 2), (1, 1)] = [(1, 3), (1, 2)] ∧
    nearest 2 0 [(0, 0), (1, 3), (1, 2), (1, 1)] = [(1, 1), (1, 2)] ∧
    IdxNodup [(0, 0), (1, 3), (1, 2), (1, 1)] := by
  have s1 : ([(0, 0), (1, 1), (1, 2), (1, 3)] : List Cand).mergeSort (fun a b => decide (a.1 ≤ b.1)) =
      [(0, 0), (1, 1), (1, 2), (1, 3)] := List.mergeSort_of_pairwise (by decide)
  have s2 : ([(0, 0), (1, 3), (1, 2), (1, 1)] : List Cand).mergeSort (fun a b => decide (a.1 ≤ b.1)) =
      [(0, 0), (1, 3), (1, 2), (1, 1)] := List.mergeSort_of_pairwise (by decide)
  have s3 : ([0, 1, 1, 1] : List Nat).mergeSort (fun a b => decide (a ≤ b)) = [0, 1, 1, 1] :=
    List.mergeSort_of_pairwise (by decide)
  have s4 : ([(1, 1), (1, 2), (1, 3)] : List Cand).mergeSort le2 = [(1, 1), (1, 2), (1, 3)] :=
    List.mergeSort_of_pairwise (by decide)
  have n1 : nearest 2 0 [(0, 0), (1, 1), (1, 2), (1, 3)] = [(1, 1), (1, 2)] := by
    have f : farthest 2 [(0, 0), (1, 1), (1, 2), (1, 3)] = 1 := by
      simp only [farthest, List.map]
      rw [s3]; rfl
    simp only [nearest, f]
    have : ([(0, 0), (1, 1), (1, 2), (1, 3)] : List Cand).filter (fun c => decide (c.1 ≤ 1) && c.2 != 0) =
        [(1, 1), (1, 2), (1, 3)] := by decide
    rw [this, s4]; rfl
  refine ⟨?_, ?_, ?_, ?_⟩
  · simp only [nearestGiven]; rw [s1]; decide
  · simp only [nearestGiven]; rw [s2]; decide
  · rw [← n1]; exact nearest_perm (by decide)
  · unfold IdxNodup; decide

end NR.Props.C12C

#print axioms NR.Props.C12C.c12_closest_stops_independent_of_visiting_order
#print axioms NR.Props.C12C.c12_closest_stops_are_the_n_first_of_all
#print axioms NR.Props.C12C.c12_closest_stops_shape
#print axioms NR.Props.C12C.c12_closest_stops_counterexample
