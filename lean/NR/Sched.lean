/-
  NR.Sched — the CONCRETE instance of the propagation engine (NR.Engine) for models built from the JSON
  schema: what `solutionImpl.isFeasible` caches per stop and which exact checks it runs on a freshly written
  value, written after the Go:

    step  = `expression.Value` + cumulative values (resource levels, distance), `vehicleType.TemporalValues`
            (travel, arrival, start = max(arrival, earliest start), end = start + process duration),
            cumulative travel duration, stop position, and `maximumWaitVehicle`'s stop data (accumulated wait;
            the vehicle's last stop takes its predecessor's value);
    ok    = `DoesStopHaveViolations` of the constraints the factory registers:
              Maximum (per resource: cumulative value > maximum or < 0; distance limit the same way),
              Latest start (start > close of the last window) at stops, Latest end at the vehicle's last stop,
              maximum wait per stop, maximum wait per vehicle (accumulated wait > maximum).
            Maximum stops, attributes and no-mix have NO exact check (regenerated fact CheckFacts) — they are not in `ok`.

  The route handed to the engine is `nodes vi route` = the route's stops followed by the vehicle's last stop.
  NR.Proofs.Sched proves that this instance computes exactly NR.Spec.schedule / levels / distances and that its
  checks are exactly NR.Spec.temporalOK plus the capacity and distance clauses of NR.Spec.staticOK — so the generic
  engine theorems (EngineThms) become statements in the specification's vocabulary (Props.SchedThms).
-/
import NR.Spec
import NR.Engine
namespace NR.Sched
open NR NR.Spec

inductive Node
  | stop (s : StopIx)
  | last (vi : VehIx)     -- every vehicle has its own last stop
deriving DecidableEq, Repr, Inhabited

/-- Everything cached for one solution stop. -/
structure CV where
  vi   : VehIx            -- the vehicle the stop is on (`inVehicle`)
  prev : Option StopIx    -- the input stop this value belongs to (none: the vehicle's first or last stop)
  mIdx : Option Nat       -- its measure index (none: no location)
  t    : Times
  lv   : List Rat         -- cumulative value per resource expression
  dist : Rat              -- cumulative distance
  wait : Rat              -- accumulated wait (`maximumWaitVehicleConstraintData`)
  pos  : Nat
deriving Repr, Inhabited, DecidableEq

def nodes (vi : VehIx) (route : List StopIx) : List Node := route.map .stop ++ [.last vi]

/-- The vehicle's first stop. -/
def init (inst : Inst) (vi : VehIx) : CV :=
  let v := inst.vehicles.getD vi {}
  { vi := vi, prev := none, mIdx := v.firstM,
    t := { travel := 0, arrival := v.start, start := v.start, finish := v.start, cumTravel := 0 },
    lv := padTo inst.nres v.startLevel, dist := 0, wait := 0, pos := 0 }

/-- One iteration of the loop of `isFeasible`: the values of `n` from those of its predecessor. -/
def step (inst : Inst) (p : CV) (n : Node) : CV :=
  let v := inst.vehicles.getD p.vi {}
  let tr := inst.travels.getD v.travel default
  match n with
  | .stop s =>
    let st := inst.stops.getD s {}
    let t := match p.mIdx with
      | some i => travelDur tr i st.mIdx p.t.finish
      | none => 0
    let arr := p.t.finish + t
    let start := max arr (earliestStart st.windows arr)
    let fin := start + serviceDur inst v p.prev s
    { vi := p.vi, prev := some s, mIdx := some st.mIdx,
      t := { travel := t, arrival := arr, start := start, finish := fin, cumTravel := p.t.cumTravel + t },
      lv := addVec p.lv st.delta,
      dist := p.dist + (match p.mIdx with | some i => mget inst.dist i st.mIdx | none => 0),
      wait := p.wait + (start - arr), pos := p.pos + 1 }
  | .last _ =>
    let t := match p.mIdx, v.lastM with
      | some i, some j => travelDur tr i j p.t.finish
      | _, _ => 0
    let arr := p.t.finish + t
    { vi := p.vi, prev := none, mIdx := v.lastM,
      t := { travel := t, arrival := arr, start := arr, finish := arr, cumTravel := p.t.cumTravel + t },
      lv := p.lv,
      dist := p.dist + (match p.mIdx, v.lastM with | some i, some j => mget inst.dist i j | _, _ => 0),
      wait := p.wait, pos := p.pos + 1 }

/-- Close of the last start time window (`latest start` of the factory's Latest constraint). -/
def lastClose (ws : List (Rat × Rat)) : Option Rat := ws.getLast?.map (·.2)

/-- Some level is outside `[0, capacity]`. -/
def levelBad (caps : List Rat) (l : List Rat) : Bool :=
  (List.zipWith (fun x c => decide (x < 0 ∨ x > c)) l caps).any id

/-- The exact checks run on the freshly written value `c` of node `n`. -/
def ok (inst : Inst) (c : CV) (n : Node) : Bool :=
  let v := inst.vehicles.getD c.vi {}
  let capOK := !(inst.cCapacity && inst.nres > 0) || !(levelBad (padTo inst.nres v.caps) c.lv)
  let distOK := !inst.cDistance || (match v.maxDist with | some d => decide (c.dist ≤ d ∧ 0 ≤ c.dist) | none => true)
  let waitVehOK := !inst.cWaitVeh || (match v.maxWait with | some w => decide (c.wait ≤ w) | none => true)
  capOK && distOK && waitVehOK &&
  (match n with
   | .stop s =>
     let st := inst.stops.getD s {}
     (!inst.cWindows || (match lastClose st.windows with | some l => decide (c.t.start ≤ l) | none => true)) &&
     (!inst.cWaitStop || (match st.maxWait with | some w => decide (c.t.start - c.t.arrival ≤ w) | none => true))
   | .last _ =>
     !inst.cLatestEnd || (match v.latestEnd with | some l => decide (c.t.finish ≤ l) | none => true))

def eng (inst : Inst) : Engine.Eng Node CV := { step := step inst, ok := ok inst }

/-! ### The objective terms that are functions of the cached values -/

/-- Terms of one vehicle from its cached values (`obs` = the route's nodes with their values, last stop included). -/
structure VTerms where
  vehDur : Rat
  travel : Rat
  activation : Rat
  minStops : Rat
  early : Rat
  late : Rat
  count : Nat
deriving Repr, Inhabited, DecidableEq

def vterms (inst : Inst) (vi : VehIx) (obs : List (Node × CV)) : VTerms :=
  let v := inst.vehicles.getD vi {}
  let stops := obs.filterMap (fun (n, c) => match n with | .stop s => some (s, c) | .last _ => none)
  let endv := (obs.getLast?.map (·.2)).getD (init inst vi)
  let k := stops.length
  { vehDur := endv.t.finish - v.start,
    travel := endv.t.cumTravel,
    activation := if k = 0 then 0 else v.activation,
    minStops := if k = 0 || k ≥ v.minStops then 0
                else v.minPenalty * ((v.minStops - k : Nat) : Rat) * ((v.minStops - k : Nat) : Rat),
    early := sumRat (stops.map (fun (s, c) =>
      let st := inst.stops.getD s {}
      match st.target with | some tg => st.early * max 0 (tg - c.t.arrival) | none => 0)),
    late := sumRat (stops.map (fun (s, c) =>
      let st := inst.stops.getD s {}
      match st.target with | some tg => st.late * max 0 (c.t.arrival - tg) | none => 0)),
    count := k }

/-- All terms except the unplanned penalty (which is a function of the collections, NR.Coll). -/
def scoreOf (inst : Inst) (obs : List (List (Node × CV))) : Terms :=
  let vts := (List.range obs.length).map (fun vi => vterms inst vi (obs.getD vi []))
  { vehDur := inst.fVehDur * sumRat (vts.map (·.vehDur)),
    travel := inst.fTravel * sumRat (vts.map (·.travel)),
    unplanned := 0,
    activation := inst.fActivation * sumRat (vts.map (·.activation)),
    minStops := inst.fMinStops * sumRat (vts.map (·.minStops)),
    early := inst.fEarly * sumRat (vts.map (·.early)),
    late := inst.fLate * sumRat (vts.map (·.late)),
    balance := inst.fBalance * (((vts.map (·.count)).foldl max 0 : Nat) : Rat) }

def model (inst : Inst) : Engine.Model Node CV Terms :=
  { eng := eng inst,
    inits := (List.range inst.vehicles.size).map (init inst),
    scoreOf := scoreOf inst }

/-! ### Specification side, in one place -/

/-- The exact-check clauses of C01 (capacity, distance) on one route. -/
def staticExactOK (inst : Inst) (vi : VehIx) (route : List StopIx) : Bool :=
  let v := inst.vehicles.getD vi {}
  let lv := levels inst v (padTo inst.nres v.startLevel) route
  let caps := padTo inst.nres v.caps
  !(inst.cCapacity && inst.nres > 0 && lv.any (levelBad caps)) &&
  !(inst.cDistance && (match v.maxDist with | some d => decide (distances inst v v.firstM route > d) | none => false))

/-- Well-formedness the equivalences need: windows sorted and disjoint with `open ≤ close` (what `SetWindows`
accepts, NR.RangeCheck.accepts_wf), non-negative distances. -/
def WinWF (ws : List (Rat × Rat)) : Prop :=
  (∀ w ∈ ws, w.1 ≤ w.2) ∧ ws.Pairwise (fun a b => a.2 ≤ b.1)

def InstWF (inst : Inst) : Prop :=
  (∀ s, WinWF (inst.stops.getD s {}).windows) ∧ (∀ i j, 0 ≤ mget inst.dist i j)

/-- The start level itself is within the capacities (the factory validates it). -/
def StartOK (inst : Inst) (vi : VehIx) : Prop :=
  let v := inst.vehicles.getD vi {}
  (inst.cCapacity && inst.nres > 0) = true → levelBad (padTo inst.nres v.caps) (padTo inst.nres v.startLevel) = false

/-- Every vehicle may stay empty (its empty route passes the exact checks) — what `NewSolution` establishes. -/
def EmptyOK (inst : Inst) : Prop :=
  ∀ vi, vi < inst.vehicles.size → Engine.AllOk (eng inst) (init inst vi) (nodes vi [])

/-- The solution with every vehicle empty. -/
def emptyState (inst : Inst) : Engine.MState Node CV Terms :=
  let routes := (List.range inst.vehicles.size).map (fun vi => nodes vi [])
  let vals : Node → CV := fun n => match n with
    | .last vi => step inst (init inst vi) (.last vi)
    | .stop _ => default
  { routes := routes, vals := vals, score := scoreOf inst (Engine.cachedObs routes vals) }

/-- Every route of the state has the shape `stops … , last stop of that vehicle`. -/
def Shaped (routes : List (List Node)) : Prop :=
  ∀ v (h : v < routes.length), ∃ r : List StopIx, routes[v] = nodes v r

/-- Operations keep the shape: the vehicle's last stop stays last (attach / detach never touch it). -/
def ShapedRun (m : Engine.Model Node CV Terms) (st : Engine.MState Node CV Terms) : List (Engine.Op Node) → Prop
  | [] => True
  | op :: ops => Shaped (Engine.applyOp m st op).1.routes ∧ ShapedRun m (Engine.applyOp m st op).1 ops

end NR.Sched
