/-
  NR.Format — the output projection (C20) as far as it is arithmetic: a route's legs in whole seconds
  (what `factory/format.go toPlannedStopOutput / toVehicleOutput` emit after truncation) and the
  objective block. The formatter derives `route_waiting_duration` as
  `route_duration − route_travel_duration − route_stops_duration` instead of summing the stops'
  waiting; `cumulative_travel_distance` as a running sum; the objective total is the solution's score.
-/
namespace NR.Format

/-- One planned stop of the output, whole seconds. -/
structure Leg where
  travel  : Int     -- travel_duration
  arrival : Int
  start   : Int
  finish  : Int     -- end_time
deriving Repr, DecidableEq

/-- The legs form a schedule that starts at `t0`: each leg is entered at the previous leg's end. -/
def Chained : Int → List Leg → Prop
  | _, [] => True
  | t, l :: ls => l.arrival = t + l.travel ∧ l.arrival ≤ l.start ∧ l.start ≤ l.finish ∧ Chained l.finish ls

def sumTravel (ls : List Leg) : Int := (ls.map (·.travel)).foldl (· + ·) 0
def sumStops (ls : List Leg) : Int := (ls.map (fun l => l.finish - l.start)).foldl (· + ·) 0
def sumWaiting (ls : List Leg) : Int := (ls.map (fun l => l.start - l.arrival)).foldl (· + ·) 0
def lastFinish (t0 : Int) (ls : List Leg) : Int := (ls.getLast?.map (·.finish)).getD t0

/-- `route_waiting_duration` as the formatter computes it. -/
def routeWaiting (t0 : Int) (ls : List Leg) : Int := (lastFinish t0 ls - t0) - sumTravel ls - sumStops ls

/-- Running sums (`cumulative_travel_distance`). -/
def prefixSums (acc : Int) : List Int → List Int
  | [] => []
  | x :: xs => (acc + x) :: prefixSums (acc + x) xs

structure TermOut where
  factor : Rat
  base   : Rat
  value  : Rat

/-- A term as `toObjectiveOutput` writes it from the solution's score map: value = score of the
term, base = value / factor. -/
def termOf (factor value : Rat) : TermOut := { factor := factor, base := value / factor, value := value }

end NR.Format
