/-
  NR.Rng — two agents drawing from ONE random stream (C12). `solution.Random()` is used by the
  order generator (`sequenceGenerator`: permutation draws) and by its consumer (`takeBestInPlace`:
  tie-breaks). A schedule is the order in which the two agents take their draws; what each agent
  sees is the sub-sequence of the stream at the positions it got.
-/
namespace NR.Rng

/-- `true` = the producer (order generator) draws next, `false` = the consumer. -/
abbrev Schedule := List Bool

/-- The draws each agent receives from `stream` under a schedule. -/
def split : Schedule → List Nat → List Nat × List Nat
  | [], _ => ([], [])
  | _, [] => ([], [])
  | true :: sch, x :: xs => let (p, c) := split sch xs; (x :: p, c)
  | false :: sch, x :: xs => let (p, c) := split sch xs; (p, x :: c)

/-- The repaired code: all producer draws (`n` of them) happen before the consumer's first draw. -/
def producerFirst (n m : Nat) : Schedule := List.replicate n true ++ List.replicate m false

end NR.Rng
