/-
  NR.Spec — the specification layer (DESIGN §3.3): from the *input* and the *routes* alone,
  recompute schedules, loads, unit integrity, bookkeeping and objective terms.  No caches, no
  estimates, nothing shared with the solver.  The instance (`Inst`) is derived from the JSON
  input by the harness's own decoder, not by asking nextroute's expression objects.
-/
import NR.Basic
import NR.TimeDep
namespace NR.Spec
open NR

abbrev StopIx := Nat      -- 0..n-1 input stops, n.. alternate (vehicle, stop) copies
abbrev VehIx := Nat
abbrev UnitIx := Nat

structure MixItem where
  res  : String
  name : String
  qty  : Int
deriving Repr, Inhabited, DecidableEq

structure Stop where
  mIdx     : Nat := 0
  dur      : Rat := 0
  dgroup   : Option Nat := none
  windows  : List (Rat × Rat) := []
  maxWait  : Option Rat := none
  delta    : List Rat := []            -- per resource: change of level (= − JSON quantity)
  attrs    : List String := []
  altOf    : Option VehIx := none      -- alternate stop: the only vehicle that may serve it
  mix      : List MixItem := []
  target   : Option Rat := none
  early    : Rat := 0
  late     : Rat := 0
  penalty  : Rat := 0
  fixed    : Bool := false
  initial  : Option VehIx := none
deriving Repr, Inhabited

inductive Travel
  | matrix (m : Array (Array Rat))
  | td (dflt : Array (Array Rat)) (frames : Array (Array (Array Rat))) (chain : Option TimeDep.Chain)
deriving Inhabited

structure Vehicle where
  start      : Rat := 0
  firstM     : Option Nat := none      -- measure index of the start location (none: no location)
  lastM      : Option Nat := none
  travel     : Nat := 0
  mult       : Rat := 1
  caps       : List Rat := []          -- per resource (0 when the vehicle defines none)
  startLevel : List Rat := []
  maxStops   : Option Nat := none
  maxDist    : Option Rat := none
  latestEnd  : Option Rat := none      -- min(end_time, start + max_duration)
  maxWait    : Option Rat := none
  attrs      : List String := []
  activation : Rat := 0
  minStops   : Nat := 0
  minPenalty : Rat := 0
deriving Repr, Inhabited

inductive PlanU
  | stops (ss : List StopIx) (arcs : List (StopIx × StopIx × Bool))
  | units (oneOf : Bool) (members : List UnitIx)
deriving Repr, Inhabited

structure Inst where
  stops     : Array Stop := #[]
  vehicles  : Array Vehicle := #[]
  travels   : Array Travel := #[]
  dist      : Array (Array Rat) := #[]
  groupDur  : Array Rat := #[]
  units     : Array PlanU := #[]
  parent    : Array (Option UnitIx) := #[]
  loose     : List UnitIx := []       -- plan-all units that may spread over vehicles (model API only)
  nres      : Nat := 0
  -- option flags (true = constraint active)
  /-- soft capacities (`objectives.capacities`, for resources whose capacity constraint is switched off): resource,
  factor, penalty offset -/
  soft       : List (Nat × Rat × Rat) := []
  cCapacity  : Bool := true
  cDistance  : Bool := true
  cMaxStops  : Bool := true
  cAttrs     : Bool := true
  cWindows   : Bool := true
  cLatestEnd : Bool := true
  cWaitStop  : Bool := true
  cWaitVeh   : Bool := true
  cMix       : Bool := true
  -- objective factors
  fVehDur     : Rat := 0
  fTravel     : Rat := 0
  fUnplanned  : Rat := 0
  fActivation : Rat := 0
  fMinStops   : Rat := 0
  fEarly      : Rat := 0
  fLate       : Rat := 0
  fBalance    : Rat := 0
deriving Inhabited

def mget (m : Array (Array Rat)) (i j : Nat) : Rat := (m.getD i #[]).getD j 0

/-! ### Schedule -/

structure Times where
  travel  : Rat
  arrival : Rat
  start   : Rat
  finish  : Rat
  cumTravel : Rat
deriving Repr, Inhabited, DecidableEq

/-- Travel duration from measure index `i` to `j` when leaving at `t`. -/
def travelDur (tr : Travel) (i j : Nat) (t : Rat) : Rat :=
  match tr with
  | .matrix m => mget m i j
  | .td d frames chain =>
    let durs : Nat → Rat := fun k => if k = 0 then mget d i j else mget (frames.getD (k-1) #[]) i j
    (TimeDep.valueAt durs chain t).getD 0

/-- `ToEarliestStartValue`: inside a window → the arrival; before/between windows → the next
opening; after the last window → the arrival itself. -/
def earliestStart (ws : List (Rat × Rat)) (a : Rat) : Rat :=
  if ws.any (fun w => w.1 ≤ a ∧ a < w.2) then a
  else match ws.find? (fun w => a < w.1) with
    | some w => w.1
    | none => a

/-- Service duration of stop `s` on vehicle `v` when coming from `prev` (a stop, or none for the
vehicle's start): own duration × multiplier, plus the duration-group surcharge × multiplier when
the group is entered from outside. Multiplied durations are truncated to whole seconds, as the
factory does. -/
def serviceDur (inst : Inst) (v : Vehicle) (prev : Option StopIx) (s : StopIx) : Rat :=
  let st := inst.stops.getD s {}
  let own : Rat := ((st.dur * v.mult).floor : Int)
  match st.dgroup with
  | none => own
  | some g =>
    let same := match prev with
      | some p => (inst.stops.getD p {}).dgroup == some g
      | none => false
    if same then own else own + (((inst.groupDur.getD g 0) * v.mult).floor : Int)

/-- Walk the route from the vehicle's start; returns times of every stop and of the end stop. -/
def scheduleAux (inst : Inst) (v : Vehicle) (tr : Travel) :
    (prev : Option StopIx) → (prevM : Option Nat) → (dep cum : Rat) → List StopIx → List Times × Times
  | _, prevM, dep, cum, [] =>
    let t := match prevM, v.lastM with
      | some i, some j => travelDur tr i j dep
      | _, _ => 0
    ([], { travel := t, arrival := dep + t, start := dep + t, finish := dep + t, cumTravel := cum + t })
  | prev, prevM, dep, cum, s :: rest =>
    let st := inst.stops.getD s {}
    let t := match prevM with
      | some i => travelDur tr i st.mIdx dep
      | none => 0
    let arr := dep + t
    let start := max arr (earliestStart st.windows arr)
    let fin := start + serviceDur inst v prev s
    let me : Times := { travel := t, arrival := arr, start := start, finish := fin, cumTravel := cum + t }
    let (r, e) := scheduleAux inst v tr (some s) (some st.mIdx) fin (cum + t) rest
    (me :: r, e)

def schedule (inst : Inst) (vi : VehIx) (route : List StopIx) : List Times × Times :=
  let v := inst.vehicles.getD vi {}
  scheduleAux inst v (inst.travels.getD v.travel default) none v.firstM v.start 0 route

/-! ### Static feasibility (C01) -/

def addVec (a b : List Rat) : List Rat := List.zipWith (· + ·) a b

/-- Levels after each stop, starting from the start level. -/
def levels (inst : Inst) (v : Vehicle) : List Rat → List StopIx → List (List Rat)
  | _, [] => []
  | cur, s :: rest =>
    let nxt := addVec cur ((inst.stops.getD s {}).delta)
    nxt :: levels inst v nxt rest

def padTo (n : Nat) (l : List Rat) : List Rat := l ++ List.replicate (n - l.length) 0

def distances (inst : Inst) (v : Vehicle) : Option Nat → List StopIx → Rat
  | prevM, [] => match prevM, v.lastM with
    | some i, some j => mget inst.dist i j
    | _, _ => 0
  | prevM, s :: rest =>
    let m := (inst.stops.getD s {}).mIdx
    (match prevM with | some i => mget inst.dist i m | none => 0) + distances inst v (some m) rest

/-- No-mix automaton: per mix resource the (name, count) currently on board. -/
def mixStep (state : List (String × String × Int)) (items : List MixItem) : Option (List (String × String × Int)) :=
  items.foldl (fun (acc : Option (List (String × String × Int))) (it : MixItem) =>
    match acc with
    | none => none
    | some st =>
      match st.find? (fun e => e.1 = it.res) with
      | none =>
        if it.qty < 0 then none else some ((it.res, it.name, it.qty) :: st)
      | some (_, nm, cnt) =>
        let others := st.filter (fun e => e.1 ≠ it.res)
        if cnt = 0 then
          (if it.qty < 0 then none else some ((it.res, it.name, it.qty) :: others))
        else if nm ≠ it.name then none
        else if cnt + it.qty < 0 then none
        else some ((it.res, nm, cnt + it.qty) :: others)) (some state)

def mixOK (inst : Inst) : List (String × String × Int) → List StopIx → Bool
  | _, [] => true
  | st, s :: rest =>
    match mixStep st (inst.stops.getD s {}).mix with
    | none => false
    | some st' => mixOK inst st' rest

def compatible (st : Stop) (vi : VehIx) (v : Vehicle) : Bool :=
  (st.attrs.isEmpty || st.attrs.any (fun a => v.attrs.contains a)) &&
  (match st.altOf with | none => true | some w => w = vi)

/-- First failing clause of C01 on one route, or none. -/
def staticOK (inst : Inst) (vi : VehIx) (route : List StopIx) : Option String :=
  let v := inst.vehicles.getD vi {}
  let lv := levels inst v (padTo inst.nres v.startLevel) route
  let caps := padTo inst.nres v.caps
  if inst.cCapacity && inst.nres > 0 &&
     ((padTo inst.nres v.startLevel) :: lv).any (fun l => (List.zipWith (fun x c => decide (x < 0 ∨ x > c)) l caps).any id)
  then some "capacity"
  else if inst.cMaxStops && (match v.maxStops with | some k => decide (route.length > k) | none => false)
  then some "max-stops"
  else if inst.cDistance && (match v.maxDist with | some d => decide (distances inst v v.firstM route > d) | none => false)
  then some "max-distance"
  else if inst.cAttrs && route.any (fun s => !(compatible (inst.stops.getD s {}) vi v))
  then some "compatibility"
  else if inst.cMix && !(mixOK inst [] route)
  then some "no-mix"
  else none

/-! ### Temporal feasibility (C02) -/

def temporalOK (inst : Inst) (vi : VehIx) (route : List StopIx) : Option String :=
  let v := inst.vehicles.getD vi {}
  let (ts, e) := schedule inst vi route
  let zs := List.zip route ts
  if inst.cWindows && zs.any (fun (s, t) =>
      let ws := (inst.stops.getD s {}).windows
      !ws.isEmpty && !(ws.any (fun w => w.1 ≤ t.start ∧ t.start ≤ w.2)))
  then some "window"
  else if zs.any (fun (_, t) => decide (t.start < t.arrival))
  then some "start-before-arrival"
  else if inst.cLatestEnd && (match v.latestEnd with | some l => decide (e.finish > l) | none => false)
  then some "latest-end"
  else if inst.cWaitStop && zs.any (fun (s, t) =>
      match (inst.stops.getD s {}).maxWait with
      | some w => decide (t.start - t.arrival > w)
      | none => false)
  then some "max-wait-stop"
  else if inst.cWaitVeh && (match v.maxWait with
      | some w => decide (sumRat (ts.map (fun t => t.start - t.arrival)) > w)
      | none => false)
  then some "max-wait-vehicle"
  else none

/-! ### Units (C03) -/

def posIn (route : List StopIx) (s : StopIx) : Option Nat := route.findIdx? (· = s)

def routeOf (routes : List (List StopIx)) (s : StopIx) : Option VehIx :=
  routes.findIdx? (fun r => r.contains s)

def countIn (routes : List (List StopIx)) (s : StopIx) : Nat :=
  (routes.map (fun r => r.count s)).foldl (· + ·) 0

partial def unitStops (inst : Inst) (u : UnitIx) : List StopIx :=
  match inst.units.getD u (.stops [] []) with
  | .stops ss _ => ss
  | .units _ ms => (ms.map (unitStops inst)).flatten

/-- Is a stops-unit completely / partly / not on routes. -/
def plannedCount (routes : List (List StopIx)) (ss : List StopIx) : Nat :=
  (ss.filter (fun s => countIn routes s > 0)).length

def stopsUnitOK (inst : Inst) (routes : List (List StopIx)) (ss : List StopIx)
    (arcs : List (StopIx × StopIx × Bool)) : Option String :=
  let k := plannedCount routes ss
  if k = 0 then none
  else if k < ss.length then some "unit-partly-planned"
  else
    let vs := ss.map (routeOf routes)
    if !(vs.all (· == vs.headD none)) then some "unit-split-over-vehicles"
    else
      let r := routes.getD ((vs.headD none).getD 0) []
      if arcs.any (fun (a, b, _) => match posIn r a, posIn r b with
          | some i, some j => decide (i ≥ j) | _, _ => true) then some "precedence-order"
      else if arcs.any (fun (a, b, d) => d && (match posIn r a, posIn r b with
          | some i, some j => decide (j ≠ i + 1) | _, _ => true)) then some "direct-not-adjacent"
      else none

partial def unitPlanned (inst : Inst) (routes : List (List StopIx)) (u : UnitIx) : Bool :=
  match inst.units.getD u (.stops [] []) with
  | .stops ss _ => !ss.isEmpty && ss.all (fun s => countIn routes s > 0)
  | .units oneOf ms =>
    if oneOf then ms.any (unitPlanned inst routes) else (!ms.isEmpty && ms.all (unitPlanned inst routes))

partial def unitTouched (inst : Inst) (routes : List (List StopIx)) (u : UnitIx) : Bool :=
  (unitStops inst u).any (fun s => countIn routes s > 0)

def unitsOK (inst : Inst) (routes : List (List StopIx)) : Option String :=
  let n := inst.stops.size
  let all := List.range n
  if all.any (fun s => countIn routes s > 1) then some "stop-planned-twice"
  else if (routes.flatten).any (fun s => s ≥ n) then some "unknown-stop-on-route"
  else
    let us := List.range inst.units.size
    match us.findSome? (fun u => match inst.units.getD u (.stops [] []) with
        | .stops ss arcs => stopsUnitOK inst routes ss arcs
        | .units oneOf ms =>
          if oneOf then
            (if (ms.filter (unitTouched inst routes)).length > 1 then some "more-than-one-alternate" else none)
          else
            let k := (ms.filter (unitPlanned inst routes)).length
            let t := (ms.filter (unitTouched inst routes)).length
            if t = 0 then none
            else if k < ms.length then some (if inst.loose.contains u then "loose-group-partly-planned" else "group-partly-planned")
            else
              let vs := (unitStops inst u).map (routeOf routes)
              if !(inst.loose.contains u) && !(vs.all (· == vs.headD none)) then some "group-split-over-vehicles" else none) with
    | some c => some c
    | none =>
      -- alternates only on their vehicle; fixed stops stay on their vehicle
      if all.any (fun s => match (inst.stops.getD s {}).altOf, routeOf routes s with
          | some w, some v => decide (v ≠ w) | _, _ => false) then some "alternate-on-foreign-vehicle"
      else if all.any (fun s =>
          let st := inst.stops.getD s {}
          st.fixed && (match st.initial with
            | some v => routeOf routes s != some v
            | none => false)) then some "fixed-stop-moved"
      else none

/-! ### Bookkeeping (C08) -/

structure Books where
  planned   : List UnitIx
  unplanned : List UnitIx
  fixed     : List UnitIx
deriving Repr, Inhabited

def isRoot (inst : Inst) (u : UnitIx) : Bool := (inst.parent.getD u none).isNone

def unitKind (inst : Inst) (u : UnitIx) : String :=
  match inst.units.getD u (.stops [] []) with
  | .stops ss _ => if ss.length > 1 then "stops-multi" else "stops-single"
  | .units oneOf _ => if oneOf then "oneof" else if inst.loose.contains u then "allloose" else "all"

/-- First failing clause of C08 and the unit it fails on. -/
def bookkeepingBad (inst : Inst) (routes : List (List StopIx)) (b : Books) : Option (String × UnitIx) :=
  let us := List.range inst.units.size
  let cnt := fun (u : UnitIx) => b.planned.count u + b.unplanned.count u + b.fixed.count u
  let first := fun (c : String) (p : UnitIx → Bool) => (us.find? p).map (fun u => (c, u))
  (first "root-unit-in-no-collection" (fun u => isRoot inst u && cnt u = 0)).orElse fun _ =>
  (first "root-unit-in-several-collections" (fun u => isRoot inst u && cnt u > 1)).orElse fun _ =>
  (first "member-listed-on-its-own" (fun u => !(isRoot inst u) && cnt u > 0)).orElse fun _ =>
  (first "listed-planned-but-stops-unplanned"
    (fun u => isRoot inst u && (b.planned.contains u || b.fixed.contains u) && !(unitPlanned inst routes u))).orElse fun _ =>
  (first "listed-unplanned-but-stops-planned"
    (fun u => isRoot inst u && b.unplanned.contains u && unitPlanned inst routes u)).orElse fun _ =>
  (first "listed-unplanned-but-some-stops-on-routes"
    (fun u => isRoot inst u && b.unplanned.contains u && unitTouched inst routes u))

def bookkeepingOK (inst : Inst) (routes : List (List StopIx)) (b : Books) : Option String :=
  (bookkeepingBad inst routes b).map (·.1)

/-! ### Objective (C05) -/

partial def unitCost (inst : Inst) (u : UnitIx) : Rat :=
  match inst.units.getD u (.stops [] []) with
  | .stops ss _ => sumRat (ss.map (fun s => (inst.stops.getD s {}).penalty))
  | .units oneOf ms =>
    let c := sumRat (ms.map (unitCost inst))
    if oneOf then (if ms.isEmpty then 0 else c / ms.length) else c

structure Terms where
  vehDur     : Rat
  travel     : Rat
  unplanned  : Rat
  activation : Rat
  minStops   : Rat
  early      : Rat
  late       : Rat
  balance    : Rat
deriving Repr, Inhabited, DecidableEq

/-- Every term from routes and input only; the unplanned term from the units that are not
planned *on the routes* (not from any bookkeeping). -/
def objective (inst : Inst) (routes : List (List StopIx)) : Terms :=
  let vs := List.range inst.vehicles.size
  let scheds := vs.map (fun vi => (vi, routes.getD vi [], schedule inst vi (routes.getD vi [])))
  let vehDur := sumRat (scheds.map (fun (vi, _, (_, e)) => e.finish - (inst.vehicles.getD vi {}).start))
  let travel := sumRat (scheds.map (fun (_, _, (_, e)) => e.cumTravel))
  let act := sumRat (scheds.map (fun (vi, r, _) => if r.isEmpty then 0 else (inst.vehicles.getD vi {}).activation))
  let minS := sumRat (scheds.map (fun (vi, r, _) =>
    let v := inst.vehicles.getD vi {}
    if r.isEmpty || r.length ≥ v.minStops then 0
    else v.minPenalty * ((v.minStops - r.length : Nat) : Rat) * ((v.minStops - r.length : Nat) : Rat)))
  let early := sumRat (scheds.map (fun (_, r, (ts, _)) => sumRat ((List.zip r ts).map (fun (s, t) =>
    let st := inst.stops.getD s {}
    match st.target with
    | some tg => st.early * max 0 (tg - t.arrival)
    | none => 0))))
  let late := sumRat (scheds.map (fun (_, r, (ts, _)) => sumRat ((List.zip r ts).map (fun (s, t) =>
    let st := inst.stops.getD s {}
    match st.target with
    | some tg => st.late * max 0 (t.arrival - tg)
    | none => 0))))
  let roots := (List.range inst.units.size).filter (isRoot inst)
  let unpl := sumRat ((roots.filter (fun u => !(unitPlanned inst routes u))).map (unitCost inst))
  let bal : Rat := ((routes.map List.length).foldl max 0 : Nat)
  { vehDur := inst.fVehDur * vehDur, travel := inst.fTravel * travel, unplanned := inst.fUnplanned * unpl,
    activation := inst.fActivation * act, minStops := inst.fMinStops * minS,
    early := inst.fEarly * early, late := inst.fLate * late, balance := inst.fBalance * bal }

/-- The soft-capacity terms (`Maximum` as an objective, model_maximum.go `Value`): per resource the excess over the
vehicle's capacity — of the level at the END of the route when no quantity of the resource is negative, summed over EVERY
stop of the vehicle (its first and its last stop included, so the final level counts twice) otherwise —, plus the penalty
offset when the sum is positive; times the factor. Kept apart from `Terms` (the engine model has no such term). -/
def softCap (inst : Inst) (routes : List (List StopIx)) : Rat :=
  sumRat (inst.soft.map (fun (r, factor, offset) =>
    let hasNeg := (List.range inst.stops.size).any (fun s => decide (((inst.stops.getD s {}).delta.getD r 0) < 0)) ||
                  (List.range inst.vehicles.size).any (fun vi => decide (((inst.vehicles.getD vi {}).startLevel.getD r 0) < 0))
    let score := sumRat ((List.range inst.vehicles.size).map (fun vi =>
      let v := inst.vehicles.getD vi {}
      let start := padTo inst.nres v.startLevel
      let lv := levels inst v start (routes.getD vi [])
      let cap := v.caps.getD r 0
      let fin := (lv.getLast?.getD start).getD r 0
      if hasNeg then sumRat (((start :: lv).map (fun l => max 0 (l.getD r 0 - cap))) ++ [max 0 (fin - cap)])
      else max 0 (fin - cap)))
    factor * (if score > 0 then score + offset else 0)))

def Terms.total (t : Terms) : Rat :=
  t.vehDur + t.travel + t.unplanned + t.activation + t.minStops + t.early + t.late + t.balance

end NR.Spec
