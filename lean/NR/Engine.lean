/-
  NR.Engine — the incremental propagation engine of `solution.go` (`isFeasible`) and the
  operations built on it (`solutionMoveStopsImpl.Execute`, `solutionPlanStopsUnitImpl.unplan`,
  `SolutionVehicle.Unplan`), generic in

    * `S`  : stop identifiers,
    * `σ`  : everything the engine caches per stop (arrival/start/end, cumulative travel,
             cumulative expression values, constraint and objective stop data),
    * `step`: how a stop's cached value follows from its predecessor's
             (`expression.Value` + `TemporalValues` + the stop-data updaters),
    * `ok` : the *exact* checks run on a freshly written value
             (`DoesStopHaveViolations` of every constraint registered `AtEachStop`, and — on the
             vehicle's end stop — `DoesVehicleHaveViolations`). `ok` is arbitrary: built-in
             constraints and user constraints alike (C19).

  A vehicle's route is the list of its stops *after* the start stop, the end stop included; the
  start stop's value `init` never changes.  The cache `vals` is a total map: a stop that is not on
  the route keeps whatever was last written (as in Go).

  `prop` mirrors the loop of `isFeasible`: recompute, write, check, and return at the first
  violation WITHOUT refreshing the rest.  `change` mirrors every operation: relink the route from
  position `k` on (attach / detach), propagate from `k`; on a violation relink back and propagate
  again from `k`.
-/
namespace NR.Engine

structure Eng (S σ : Type) where
  step : σ → S → σ
  ok   : σ → S → Bool

variable {S σ : Type} [DecidableEq S]

def upd (vals : S → σ) (s : S) (v : σ) : S → σ := fun t => if t = s then v else vals t

/-- `isFeasible` from a stop whose cached value is `prev`, over the stops that follow it.
Returns the cache and whether the pass completed (no violation). -/
def prop (e : Eng S σ) (prev : σ) : List S → (S → σ) → (S → σ) × Bool
  | [], vals => (vals, true)
  | s :: rest, vals =>
    let v := e.step prev s
    let vals' := upd vals s v
    if e.ok v s then prop e v rest vals' else (vals', false)

/-- The specification: values obtained by walking the route from `init` (no cache). -/
def specVals (e : Eng S σ) (prev : σ) : List S → List σ
  | [] => []
  | s :: rest => let v := e.step prev s; v :: specVals e v rest

/-- Value in force after walking `pre` from `init`. -/
def valAfter (e : Eng S σ) (init : σ) : List S → σ
  | [] => init
  | s :: rest => valAfter e (e.step init s) rest

/-- The cache agrees with the specification along `route`, and every exact check holds. -/
def Consistent (e : Eng S σ) (prev : σ) : List S → (S → σ) → Prop
  | [], _ => True
  | s :: rest, vals => vals s = e.step prev s ∧ Consistent e (e.step prev s) rest vals

def AllOk (e : Eng S σ) (prev : σ) : List S → Prop
  | [] => True
  | s :: rest => e.ok (e.step prev s) s = true ∧ AllOk e (e.step prev s) rest

/-- One vehicle: its route and the (global) cache. -/
structure VState (S σ : Type) where
  route : List S
  vals  : S → σ

def Inv (e : Eng S σ) (init : σ) (st : VState S σ) : Prop :=
  st.route.Nodup ∧ Consistent e init st.route st.vals ∧ AllOk e init st.route

/-- Every operation on one vehicle: the route `pre ++ old` becomes `pre ++ new`; propagate from the
end of `pre`; on a violation put `old` back and propagate again. The Boolean is the operation's
result (`Execute` / `UnPlan` returned true). The second Boolean says whether the rollback pass
completed (`false` is the Go's "undoing failed …" error). -/
def change (e : Eng S σ) (init : σ) (pre old new : List S) (vals : S → σ) : VState S σ × Bool × Bool :=
  let prev := valAfter e init pre
  match prop e prev new vals with
  | (vals', true) => (⟨pre ++ new, vals'⟩, true, true)
  | (vals', false) =>
    match prop e prev old vals' with
    | (vals'', done) => (⟨pre ++ old, vals''⟩, false, done)

/-- What an observer sees of a vehicle: the route and the cached value of every stop *on it*. -/
def obsOf (st : VState S σ) : List (S × σ) := st.route.map (fun s => (s, st.vals s))

/-! ### Several vehicles, scores, histories -/

/-- The whole solution: one route per vehicle, one global cache, the score map. -/
structure MState (S σ τ : Type) where
  routes : List (List S)
  vals   : S → σ
  score  : τ

/-- Parameters of a model: the engine, the start value of every vehicle and the objective as a
function of the *specified* values of all routes (`term.Objective().Value(s) * factor`, summed). -/
structure Model (S σ τ : Type) where
  eng     : Eng S σ
  inits   : List σ
  scoreOf : List (List (S × σ)) → τ

variable {τ : Type}

def specObs (m : Model S σ τ) (routes : List (List S)) : List (List (S × σ)) :=
  (List.zip routes m.inits).map (fun (r, i) => List.zip r (specVals m.eng i r))

def MInv (m : Model S σ τ) (st : MState S σ τ) : Prop :=
  st.routes.length = m.inits.length ∧
  (st.routes.flatten).Nodup ∧
  (∀ v (h : v < st.routes.length) (h' : v < m.inits.length),
      Consistent m.eng (m.inits[v]) (st.routes[v]) st.vals ∧ AllOk m.eng (m.inits[v]) (st.routes[v])) ∧
  st.score = m.scoreOf (specObs m st.routes)

/-- What the objective reads: the *cached* values of the stops on the routes. -/
def cachedObs (routes : List (List S)) (vals : S → σ) : List (List (S × σ)) :=
  routes.map (fun r => r.map (fun s => (s, vals s)))

/-- One operation of a history: on vehicle `v`, keep the first `k` stops of the route and replace
the rest by `new` (insertions, removals and `SolutionVehicle.Unplan` are all of this shape). -/
structure Op (S : Type) where
  v   : Nat
  k   : Nat
  new : List S

/-- Apply one operation: `change` on the vehicle; the score is refreshed from the cache by the
last *completing* pass (a failed pass returns before the objective loop). -/
def applyOp (m : Model S σ τ) (st : MState S σ τ) (op : Op S) : MState S σ τ × Bool :=
  match st.routes[op.v]?, m.inits[op.v]? with
  | some r, some init =>
    match change m.eng init (r.take op.k) (r.drop op.k) op.new st.vals with
    | (vs, res, done) =>
      let routes' := st.routes.set op.v vs.route
      let score' := if res || done then m.scoreOf (cachedObs routes' vs.vals) else st.score
      (⟨routes', vs.vals, score'⟩, res)
  | _, _ => (st, false)

/-- The operation only inserts stops that are on no route (or re-orders stops of its own route). -/
def Admissible (st : MState S σ τ) (op : Op S) : Prop :=
  match st.routes[op.v]? with
  | some r => ((st.routes.set op.v (r.take op.k ++ op.new)).flatten).Nodup
  | none => False

def run (m : Model S σ τ) (st : MState S σ τ) : List (Op S) → MState S σ τ
  | [] => st
  | op :: ops => run m (applyOp m st op).1 ops

/-- Every operation of the history is admissible in the state it is applied to. -/
def AdmissibleRun (m : Model S σ τ) (st : MState S σ τ) : List (Op S) → Prop
  | [] => True
  | op :: ops => Admissible st op ∧ AdmissibleRun m (applyOp m st op).1 ops

/-- The observable part of a solution: routes, cached values of the stops on them, score. -/
def mobs (st : MState S σ τ) : List (List (S × σ)) × τ := (cachedObs st.routes st.vals, st.score)

end NR.Engine
