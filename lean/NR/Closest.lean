/-
  NR.Closest — `ModelStopsDistanceQueries.NearestStops` (model_stops_distance_queries.go) as repaired (E43), and as it was.

  A candidate is a pair (distance key, stop index); the key stands for the squared haversine distance to the query stop
  (a float in the code; the harness hands over its RANK among the distinct values that occur, so ties are exactly the
  code's ties). `cands` is the list of all stops of the query object — the query stop itself included, at distance 0 —
  in the order the k-d tree happens to visit them: that order depends on pivots drawn from a process-wide random source
  and differs between two models built from the same data. The property (C12) needs the answer to be independent of it.

  The code: keep the n+1 nearest (any n+1 among ties), take the largest distance among them (`farthest`), collect EVERY
  stop within that distance, drop the query stop, sort by (distance, index), cut at n.
-/
namespace NR.Closest

abbrev Cand := Nat × Nat

/-- the order of the repaired code: distance, then stop index -/
def le2 (a b : Cand) : Bool := a.1 < b.1 || (a.1 == b.1 && a.2 ≤ b.2)

/-- the largest distance among the n+1 nearest candidates (whichever are chosen among equally distant ones) -/
def farthest (n : Nat) (cands : List Cand) : Nat :=
  (((cands.map (·.1)).mergeSort (fun a b => a ≤ b)).take (n + 1)).getLast?.getD 0

/-- `NearestStops(stop, n)` as repaired -/
def nearest (n self : Nat) (cands : List Cand) : List Cand :=
  if n = 0 then [] else
  ((cands.filter (fun c => c.1 ≤ farthest n cands && c.2 != self)).mergeSort le2).take n

/-- as it was: the n+1 nearest in the order found (a stable sort by distance alone of the visiting order), the query
stop dropped -/
def nearestGiven (n self : Nat) (cands : List Cand) : List Cand :=
  if n = 0 then [] else
  ((cands.mergeSort (fun a b => a.1 ≤ b.1)).take (n + 1)).filter (fun c => c.2 != self)

/-- what the harness compares: the indices -/
def render (l : List Cand) : String :=
  if l.isEmpty then "-" else ",".intercalate (l.map (fun c => toString c.2))

end NR.Closest
