/-
  NR.Front — index arithmetic of the front end and of lock-time tables (C16): the places where the
  code indexes by stop, vehicle or plan unit "assuming one-to-one correspondences that the JSON
  front end happens to provide". Each table is modelled by (size expression, index set); the
  theorems say every index that can occur is in range. The size expressions are extracted from the
  source on every run (FactThms/FrontFacts) — the theorems are about the expressions the code has NOW.
-/
import NR.Basic
namespace NR.Front

/-- Matrix layout documented for the input: stops, alternate stops, then start/end per vehicle. -/
structure Layout where
  nStops : Nat
  nAlts  : Nat      -- alternate stops defined in the input
  nVeh   : Nat
deriving Repr

def Layout.dim (l : Layout) : Nat := l.nStops + l.nAlts + 2 * l.nVeh
def Layout.stopIdx (_l : Layout) (s : Nat) : Nat := s
def Layout.altIdx (l : Layout) (a : Nat) : Nat := l.nStops + a
def Layout.vehStart (l : Layout) (v : Nat) : Nat := l.nStops + l.nAlts + 2 * v
def Layout.vehEnd (l : Layout) (v : Nat) : Nat := l.nStops + l.nAlts + 2 * v + 1

/-- Model stops: input stops, then one copy per (vehicle, listed alternate), then 2 per vehicle. -/
structure ModelStops where
  nStops  : Nat
  nCopies : Nat
  nVeh    : Nat

def ModelStops.count (m : ModelStops) : Nat := m.nStops + m.nCopies + 2 * m.nVeh

/-- Size of the duration table created for vehicle `k` (0-based): `model.NumberOfStops()` at that
moment (stops + copies + 2 per vehicle created so far) `+ 2 * len(vehicles)`. -/
def durationTableSize (m : ModelStops) (k : Nat) : Nat := (m.nStops + m.nCopies + 2 * k) + 2 * m.nVeh

/-- A table sized by `size` and indexed by every `i < bound` is safe iff `bound ≤ size`. -/
def TableSafe (size bound : Nat) : Prop := ∀ i, i < bound → i < size

theorem tableSafe_iff (size bound : Nat) : TableSafe size bound ↔ bound ≤ size := by
  constructor
  · intro h
    by_cases hb : bound = 0
    · omega
    · have := h (bound - 1) (by omega); omega
  · intro h i hi; omega

/-! ### The list form of `duration_matrix`: one matrix per group of vehicle ids (factory/validate.go
`validateTimeDependentMatricesAndIDs`, factory/vehicles.go) -/

/-- The loop over the matrices: every matrix names at least one vehicle, no id is named twice. Returns the ids seen
(`none`: rejected). -/
def idsLoop : (seen : List String) → List (List String) → Option (List String)
  | seen, [] => some seen
  | seen, ids :: rest =>
    if ids.isEmpty then none
    else
      match ids.foldl (fun (acc : Option (List String)) id =>
          acc.bind (fun s => if s.contains id then none else some (id :: s))) (some seen) with
      | none => none
      | some s => idsLoop s rest

/-- `validateTimeDependentMatricesAndIDs`, the id part: every vehicle of the input is named, and as many ids are named
as there are vehicles. `countOnly = true` is the check WITHOUT the per-vehicle loop (what a seeded change left). -/
def validateIdsG (countOnly : Bool) (vehicles : List String) (mats : List (List String)) : Bool :=
  match idsLoop [] mats with
  | none => false
  | some seen => (countOnly || vehicles.all (fun v => seen.contains v)) && seen.length == vehicles.length

abbrev validateIds := validateIdsG false

/-- The matrix a vehicle's travel durations come from: the first one that names it. `none`: the vehicle falls back to
its `speed` — which `validateVehicles` lets it omit whenever a duration matrix is present, so `none` is a nil dereference
in `newVehicleType`. -/
def matrixOf (mats : List (List String)) (v : String) : Option Nat := mats.findIdx? (fun ids => ids.contains v)

end NR.Front
