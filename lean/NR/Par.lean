/-
  NR.Par — the parallel solver's protocol (`solve_solver_parallel.go`) as far as C13–C15 need it.

  (1) Budget (C15): `iterationsLeft.Add(-n)` per worker in ARRIVAL order (`grab`, `grants`);
      a run performs at most its grant; `totalIterations` counts `Iterated` events.
  (2) Shutdown (C15): after the context is done, the dispatcher / workers / collector system as a
      transition system `Step` over counters, with a measure that strictly decreases and a
      progress property given a consumer that drains the result channel.
  (3) Deterministic mode (C13): cycles of workers, each an uninterpreted deterministic function
      `run : start → grant → results`, the collector's lagging update of the shared best.
-/
import NR.Basic
namespace NR.Par

/-! ### (1) budget -/

/-- One `iterationsLeft.Add(-n)`: new counter value and the iterations granted to that worker:
`updated + n <= 0` → none (the worker waits for the context); `updated < 0` → the remainder. -/
def grab (left : Int) (n : Nat) : Int × Nat :=
  let updated := left - n
  if updated + n ≤ 0 then (updated, 0)
  else if updated < 0 then (updated, (updated + n).toNat)
  else (updated, n)

/-- Grants in arrival order. -/
def grants (left : Int) : List Nat → List Nat
  | [] => []
  | n :: ns => (grab left n).2 :: grants (grab left n).1 ns

def sumNat (l : List Nat) : Nat := l.foldl (· + ·) 0

/-! ### (2) shutdown after the context is done -/

inductive Disp | spawning | blockedOnSemaphore | cycleBarrier | waiting | exited
deriving DecidableEq, Repr

structure Sh where
  disp       : Disp
  active     : Nat      -- workers alive
  toSend     : Nat      -- messages the alive workers will still put on the sync channel (finite: their
                        -- solver runs stop at the first check of the done context)
  inFlight   : Nat      -- messages handed to the collector and not yet forwarded to the consumer (0 or 1)
  syncClosed : Bool
  resultClosed : Bool
deriving DecidableEq, Repr

/-- Transitions once `ctx.Done()` is closed; the consumer always drains the result channel. -/
inductive Step : Sh → Sh → Prop
  -- dispatcher at the `select`: takes the Done branch, goes to waitGroup.Wait()
  | dispSeesDone (s : Sh) (h : s.disp = .spawning) : Step s { s with disp := .waiting }
  -- dispatcher was already past the select, blocked on the semaphore: a slot frees up only when a worker
  -- exits; it then spawns ONE more worker (which sends nothing: its context is already done) and returns to the select
  | dispSpawnsLast (s : Sh) (h : s.disp = .blockedOnSemaphore) : Step s { s with disp := .spawning, active := s.active + 1 }
  -- a worker hands one message to the collector (rendezvous on the unbuffered sync channel)
  | workerSends (s : Sh) (h1 : 0 < s.toSend) (h2 : s.inFlight = 0) (h3 : 0 < s.active) :
      Step s { s with toSend := s.toSend - 1, inFlight := 1 }
  -- the collector forwards (or filters) the message; the consumer drains the result channel
  | collectorForwards (s : Sh) (h : s.inFlight = 1) : Step s { s with inFlight := 0 }
  -- a worker with nothing left to send returns (releases the semaphore, waitGroup.Done)
  | workerExits (s : Sh) (h1 : 0 < s.active) (h2 : s.toSend = 0 ∨ 1 < s.active) :
      Step s { s with active := s.active - 1 }
  -- deterministic mode: the dispatcher sits in waitGroup.Wait() at the end of a cycle, then returns to the select
  | barrierReleases (s : Sh) (h1 : s.disp = .cycleBarrier) (h2 : s.active = 0) : Step s { s with disp := .spawning }
  -- all workers gone: Wait returns, the dispatcher closes the sync channel and exits
  | dispExits (s : Sh) (h1 : s.disp = .waiting) (h2 : s.active = 0) :
      Step s { s with disp := .exited, syncClosed := true }
  -- sync channel closed and drained: the collector closes the result channel
  | collectorCloses (s : Sh) (h1 : s.syncClosed = true) (h2 : s.inFlight = 0) (h3 : s.resultClosed = false) :
      Step s { s with resultClosed := true }

def dispRank : Disp → Nat
  | .blockedOnSemaphore => 3
  | .cycleBarrier => 3
  | .spawning => 2
  | .waiting => 1
  | .exited => 0

/-- Strictly decreasing on every step. -/
def measure (s : Sh) : Nat :=
  (if s.resultClosed then 0 else 1) + 2 * s.inFlight + 3 * s.toSend + 4 * s.active + 8 * dispRank s.disp

/-- Reachable shapes: no message without a worker to send it, the collector holds at most one,
channels close in order. -/
def ShInv (s : Sh) : Prop :=
  s.inFlight ≤ 1 ∧ (s.active = 0 → s.toSend = 0) ∧
  (s.syncClosed = true → s.disp = .exited ∧ s.active = 0 ∧ s.toSend = 0) ∧
  (s.resultClosed = true → s.syncClosed = true ∧ s.inFlight = 0) ∧
  (s.disp = .exited → s.syncClosed = true)

/-! ### (3) deterministic mode -/

/-- A run is a deterministic function of the solution it starts from and its iteration grant;
it reports the (strictly improving) scores it finds. Scores stand for solutions. -/
structure RunFn where
  run : Rat → Nat → List Rat

/-- The collector's filter applied to one message. -/
def collect (best : Rat) (x : Rat) : Rat := if x ≥ best then best else x

/-- Two runs sharing one best solution, the second starting while the first still has its LAST
result to hand over: the second copies the shared best either after the collector has processed
that result (`true`) or before (`false`). Within one cycle with two or more parallel runs both
orders are possible (a run starts whenever the scheduler lets it). ACROSS cycles, and between
consecutive runs with one parallel run, only `true` is possible since every hand-over is
acknowledged after the collector has processed it (repair recorded as `fixed: property=C13`). -/
def twoCycles (f : RunFn) (start : Rat) (grant : Nat) (collectorFirst : Bool) : Rat :=
  let r1 := f.run start grant
  let best1 := r1.foldl collect start
  let start2 := if collectorFirst then best1 else (r1.dropLast).foldl collect start
  let r2 := f.run start2 grant
  r2.foldl collect best1

/-! ### (4) the per-cycle barrier of deterministic mode -/

/-- The dispatcher and its workers in deterministic mode: `cur` = the cycle being spawned, `spawned` = workers started in
it, `active` = the cycles of the workers still running, `atBarrier` = the dispatcher sits in `waitGroup.Wait()`. -/
structure Cyc where
  cur       : Nat := 1
  spawned   : Nat := 0
  active    : List Nat := []
  atBarrier : Bool := false
deriving DecidableEq, Repr

/-- `skipBarrier = false` is the code; `true` lets the dispatcher go on to the next cycle without waiting (what a seeded
change did while the next cycle's runs still get start solutions). -/
inductive CStep (runs : Nat) (skipBarrier : Bool) : Cyc → Cyc → Prop
  | spawn (s : Cyc) (h1 : s.atBarrier = false) (h2 : s.spawned < runs) :
      CStep runs skipBarrier s { s with spawned := s.spawned + 1, active := s.cur :: s.active }
  | cycleEnd (s : Cyc) (h1 : s.atBarrier = false) (h2 : s.spawned = runs) (h3 : skipBarrier = false) :
      CStep runs skipBarrier s { s with atBarrier := true }
  | cycleEndSkipping (s : Cyc) (h1 : s.atBarrier = false) (h2 : s.spawned = runs) (h3 : skipBarrier = true) :
      CStep runs skipBarrier s { s with cur := s.cur + 1, spawned := 0 }
  | workerEnds (s : Cyc) (c : Nat) (h : c ∈ s.active) :
      CStep runs skipBarrier s { s with active := s.active.erase c }
  | release (s : Cyc) (h1 : s.atBarrier = true) (h2 : s.active = []) :
      CStep runs skipBarrier s { s with cur := s.cur + 1, spawned := 0, atBarrier := false }

inductive CReach (runs : Nat) (skipBarrier : Bool) : Cyc → Prop
  | init : CReach runs skipBarrier {}
  | step (s t : Cyc) (h : CReach runs skipBarrier s) (st : CStep runs skipBarrier s t) : CReach runs skipBarrier t

/-- Cycles do not overlap: every running worker belongs to the cycle being spawned. -/
def NoOverlap (s : Cyc) : Prop := ∀ c ∈ s.active, c = s.cur

end NR.Par
