/-
  NR.Mix — the no-mix constraint (model_constraint_no_mix.go; C01, C09, C16), branch for branch after the Go:

    `upd`   = `UpdateConstraintStopData`: what is on board after a stop (name, quantity, tour, removing) from what was
              on board after its predecessor; `none` = the Go returns an ERROR ("cannot insert stop …", "cannot remove
              stop …") — not a violation: `isFeasible` passes the error up and Execute / UnPlan fail with it;
    `est`   = `EstimateIsViolated` (after the repairs of E29, E30 and E31) on the move's stop positions: for each position
              the data of its previous stop when that stop is planned (`none`: the previous stop is the move's own
              preceding stop) and the item of the stop that is inserted. `true` = violated.
    `estE29`, `estE30`, `estE31` = the estimate as it was before each repair (for the counterexample theorems).

  The move is described by the route it is applied to (`old`, the items of the planned stops of the vehicle, first and
  last stop excluded — they carry no item), the items of the unit's stops in the order of the move (`xs`) and, for each
  of them, the number of planned stops in front of it (`gaps`, non-decreasing): `newRoute` is the route the move produces
  (what `solutionStopGenerator` walks, NR.StopGen), `positions` what the estimate reads.
-/
namespace NR.Mix

inductive Item
  | none
  | ins (name : String) (q : Nat)    -- `insert[stop]`, q > 0
  | rem (name : String) (q : Nat)    -- `remove[stop]`, stored as a positive quantity
deriving Repr, DecidableEq, Inhabited

/-- `noMixSolutionStopData`. -/
structure St where
  name     : String := ""
  qty      : Nat := 0
  tour     : Nat := 0
  removing : Bool := false
deriving Repr, DecidableEq, Inhabited

/-- The vehicle's first stop. -/
def init : St := {}

/-- `UpdateConstraintStopData` for a stop that is not the first. -/
def upd (p : St) : Item → Option St
  | .ins n q =>
    if p.name ≠ n ∧ p.qty ≠ 0 then Option.none
    else some { name := n, qty := p.qty + q, tour := if p.qty = 0 then p.tour + 1 else p.tour, removing := false }
  | .rem n q =>
    if p.name ≠ n ∨ p.qty < q then Option.none
    else some { name := p.name, qty := p.qty - q, tour := p.tour, removing := !(p.qty = q) }
  | .none =>
    some { name := if p.qty = 0 then "" else p.name, qty := p.qty, tour := p.tour, removing := p.removing }

/-- The data of every stop of a route (`none`: some stop's update returned an error). -/
def states (p : St) : List Item → Option (List St)
  | [] => some []
  | it :: r =>
    match upd p it with
    | Option.none => Option.none
    | some s => (states s r).map (s :: ·)

def run (p : St) : List Item → Option St
  | [] => some p
  | it :: r => (upd p it).bind (fun s => run s r)

/-! ### The move -/

/-- One stop position as the estimate reads it. -/
structure Pos where
  prev : Option St     -- data of `Previous()` when it is planned
  item : Item
deriving Repr, DecidableEq, Inhabited

def hasItem : Item → Bool
  | .none => false
  | _ => true

/-- The loop of the estimate over the positions behind the first one that carries an item.
`repaired = false` is the loop before E31 (a remove is tested against what is on board in front of the FIRST
position plus the move's own delta; `cq` = that quantity, refreshed at planned previous stops iff `refresh` —
the repair of E29). -/
def estLoop (repaired refresh : Bool) (contentName : String) (tour : Nat) : (cq : Nat) → (delta : Int) → List Pos → Bool
  | _, _, [] => false
  | cq, delta, p :: rest =>
    let bad := match p.prev with
      | some d => decide (d.tour ≠ tour ∨ d.name ≠ contentName)
      | Option.none => false
    if bad then true
    else
      let cq' := match p.prev with
        | some d => if refresh then d.qty else cq
        | Option.none => cq
      match p.item with
      | .ins n q => if contentName ≠ n then true else estLoop repaired refresh contentName tour cq' (delta + q) rest
      | .rem n q =>
        if contentName ≠ n then true
        else if (if repaired then decide (delta < q) else decide ((cq' : Int) + delta < q)) then true
        else estLoop repaired refresh contentName tour cq' (delta - q) rest
      | .none => estLoop repaired refresh contentName tour cq' delta rest

/-- The data of the last planned stop in front of position `k` (positions are scanned backwards; the first position's
previous stop is always planned). -/
def plannedBefore : List Pos → Nat → Option St
  | ps, k =>
    match ps[k]? with
    | Option.none => Option.none
    | some p =>
      match p.prev with
      | some d => some d
      | Option.none => match k with
        | 0 => Option.none
        | k' + 1 => plannedBefore ps k'

/-- `EstimateIsViolated` with its three repairs as switches (`skipPlain`: E30, start at the first stop that carries an
item; `refresh`: E29; `ownOnly`: E31). The code as it is now is `est`. -/
def estG (skipPlain refresh ownOnly : Bool) (ps : List Pos) : Bool :=
  let first := if skipPlain then (ps.findIdx? (fun p => hasItem p.item)).getD ps.length else 0
  match ps[first]? with
  | Option.none => false
  | some p0 =>
    match p0.item with
    | .rem _ _ => true
    | .none => false            -- only without `skipPlain`: the first stop carries nothing, "cannot be violated"
    | .ins n q =>
      match plannedBefore ps first with
      | Option.none => true    -- cannot happen: the first position's previous stop is planned
      | some d =>
        if d.name ≠ n ∧ d.qty ≠ 0 then true
        else
          let contentName := if d.qty = 0 then n else d.name
          let tour := if d.qty = 0 then d.tour + 1 else d.tour
          estLoop ownOnly refresh contentName tour d.qty q (ps.drop (first + 1))

abbrev est := estG true true true
/-- as given -/
abbrev estGiven := estG false false false
/-- after the repair of E29 -/
abbrev estE29 := estG false true false
/-- after the repairs of E29 and E30 -/
abbrev estE30 := estG true true false

/-! ### From a route and a placement to what the estimate reads and what the move produces -/

/-- The route the move produces: `xs[j]` is inserted behind the first `gaps[j]` planned stops (`gaps` non-decreasing). -/
def newRoute : (old : List Item) → (xs : List Item) → (gaps : List Nat) → (done : Nat) → List Item
  | old, [], _, _ => old
  | old, x :: xs, g :: gs, done =>
    if g ≤ done then x :: newRoute old xs gs done
    else match old with
      | [] => x :: newRoute [] xs gs done
      | o :: os => o :: newRoute os (x :: xs) (g :: gs) (done + 1)
  | old, _ :: _, [], _ => old
termination_by old xs _ _ => old.length + xs.length
decreasing_by all_goals simp_wf <;> omega

/-- The data of the planned stop behind which position `j` lies, when the previous stop of that position is planned
(the first position, or a position with at least one planned stop between it and the move's preceding stop). -/
def positions (sts : List St) (xs : List Item) (gaps : List Nat) : List Pos :=
  let at' (g : Nat) : St := if g = 0 then init else sts.getD (g - 1) init
  (List.range xs.length).map (fun j =>
    let g := gaps.getD j 0
    let planned := j = 0 ∨ gaps.getD (j - 1) 0 < g
    { prev := if planned then some (at' g) else Option.none, item := xs.getD j Item.none })

/-! ### The discipline the repaired estimate enforces -/

/-- Net effect of an item on what is on board. -/
def delta : Item → Int
  | .none => 0
  | .ins _ q => q
  | .rem _ q => -(q : Int)

/-- A unit's own running quantity never goes negative and ends at zero (what `validate` checks at `Lock` is the sum;
the order is what the estimate's `deltaQuantity < quantity` test enforces). -/
def OwnCovered : (acc : Int) → List Item → Prop
  | acc, [] => acc = 0
  | acc, it :: r => 0 ≤ acc + delta it ∧ OwnCovered (acc + delta it) r

/-- A route with the unit each stop belongs to: every unit's own stops, in route order, are covered. -/
def Covered (r : List (Nat × Item)) : Prop :=
  ∀ u, OwnCovered 0 ((r.filter (fun p => p.1 = u)).map (·.2))

end NR.Mix
