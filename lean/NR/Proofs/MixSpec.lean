/-
  The specification's no-mix clause (NR.Spec.mixOK, one automaton over all mixing resources) and the code's updater
  (NR.Mix.upd, one constraint per resource) accept the same routes.
-/
import NR.Spec
import NR.Mix
namespace NR.Proofs.MixSpec
open NR NR.Spec

/-- What a stop does to resource `res`, in the vocabulary of NR.Mix. -/
def proj (res : String) (items : List MixItem) : Mix.Item :=
  match items.find? (fun it => it.res = res) with
  | none => .none
  | some it => if it.qty ≥ 0 then .ins it.name it.qty.toNat else .rem it.name (-it.qty).toNat

/-- The stops of the instance carry at most one item per resource, with a non-zero quantity (what the factory builds:
`mixing_items` is a JSON object keyed by resource). -/
def MixWF (inst : Inst) : Prop :=
  ∀ s, ((inst.stops.getD s {}).mix.map (·.res)).Nodup ∧ ∀ it ∈ (inst.stops.getD s {}).mix, it.qty ≠ 0

abbrev SSt := List (String × String × Int)

def step1 (st : SSt) (it : MixItem) : Option SSt :=
  match st.find? (fun e => e.1 = it.res) with
  | none => if it.qty < 0 then none else some ((it.res, it.name, it.qty) :: st)
  | some (_, nm, cnt) =>
    let others := st.filter (fun e => e.1 ≠ it.res)
    if cnt = 0 then (if it.qty < 0 then none else some ((it.res, it.name, it.qty) :: others))
    else if nm ≠ it.name then none
    else if cnt + it.qty < 0 then none
    else some ((it.res, nm, cnt + it.qty) :: others)

def stepO (acc : Option SSt) (it : MixItem) : Option SSt := acc.bind (step1 · it)

theorem mixStep_eq (st : SSt) (items : List MixItem) : mixStep st items = items.foldl stepO (some st) := by
  unfold mixStep
  congr
  funext acc it
  cases acc <;> rfl

theorem foldl_stepO_none (items : List MixItem) : items.foldl stepO none = none := by
  induction items with
  | nil => rfl
  | cons it items ih => simpa [List.foldl_cons, stepO] using ih

theorem mixStep_nil (st : SSt) : mixStep st [] = some st := by
  simp [mixStep_eq]

theorem mixStep_cons (st : SSt) (it : MixItem) (items : List MixItem) :
    mixStep st (it :: items) = (step1 st it).bind (fun st' => mixStep st' items) := by
  simp only [mixStep_eq, List.foldl_cons]
  cases h : step1 st it with
  | none => simp [stepO, h, foldl_stepO_none]
  | some st' => simp [stepO, h]

def itemOf (it : MixItem) : Mix.Item :=
  if it.qty ≥ 0 then .ins it.name it.qty.toNat else .rem it.name (-it.qty).toNat

def InvE : Option (String × String × Int) → Mix.St → Prop
  | none, m => m.qty = 0
  | some (_, nm, cnt), m => 0 ≤ cnt ∧ m.qty = cnt.toNat ∧ (cnt ≠ 0 → m.name = nm)

def Inv (st : SSt) (res : String) (m : Mix.St) : Prop := InvE (st.find? (fun e => e.1 = res)) m

theorem find_others (st : SSt) (r res : String) (h : res ≠ r) :
    (st.filter (fun e => e.1 ≠ r)).find? (fun e => e.1 = res) = st.find? (fun e => e.1 = res) := by
  rw [List.find?_filter]
  congr
  funext a
  by_cases h2 : a.1 = res
  · have : a.1 ≠ r := by rw [h2]; exact h
    simp [h2, h]
  · simp [h2]

/-- An item leaves the entries of the other resources alone. -/
theorem step1_other {st st' : SSt} {it : MixItem} (h : step1 st it = some st') (res : String) (hr : res ≠ it.res) :
    st'.find? (fun e => e.1 = res) = st.find? (fun e => e.1 = res) := by
  have hr' : it.res ≠ res := fun h' => hr h'.symm
  unfold step1 at h
  split at h
  · split at h
    · cases h
    · cases h; simp [hr']
  · simp only at h
    split at h
    · split at h
      · cases h
      · cases h; rw [List.find?_cons_of_neg (by simpa using hr')]; exact find_others st it.res res hr
    · split at h
      · cases h
      · split at h
        · cases h
        · cases h; rw [List.find?_cons_of_neg (by simpa using hr')]; exact find_others st it.res res hr

def Agree (res : String) : Option SSt → Option Mix.St → Prop
  | some st', some m' => Inv st' res m'
  | none, none => True
  | _, _ => False

/-- The item's own resource: the specification's step and the updater agree, and the relation is kept. -/
theorem step1_own {st : SSt} {it : MixItem} {m : Mix.St} (hi : Inv st it.res m) :
    Agree it.res (step1 st it) (Mix.upd m (itemOf it)) := by
  unfold Inv at hi
  unfold step1 itemOf
  cases hf : st.find? (fun e => decide (e.1 = it.res)) with
  | none =>
    rw [hf] at hi
    simp only [InvE] at hi
    by_cases hneg : it.qty < 0
    · have h1 : ¬ it.qty ≥ 0 := by omega
      have h2 : m.qty < (-it.qty).toNat := by omega
      simp [hneg, h1, Mix.upd, h2, Agree]
    · have h1 : it.qty ≥ 0 := by omega
      simp [hneg, h1, Mix.upd, hi, Agree, Inv, InvE]
  | some e =>
    obtain ⟨r, nm, cnt⟩ := e
    rw [hf] at hi
    simp only [InvE] at hi
    obtain ⟨hc0, hmq, hnm⟩ := hi
    by_cases hc : cnt = 0
    · subst hc
      by_cases hneg : it.qty < 0
      · have h1 : ¬ it.qty ≥ 0 := by omega
        have h2 : m.qty < (-it.qty).toNat := by omega
        simp [hneg, h1, Mix.upd, h2, Agree]
      · have h1 : it.qty ≥ 0 := by omega
        have h2 : m.qty = 0 := by omega
        simp [hneg, h1, Mix.upd, h2, Agree, Inv, InvE]
    · have hn := hnm hc
      have hm0 : m.qty ≠ 0 := by omega
      by_cases hne : nm = it.name
      · subst hne
        by_cases hneg : it.qty < 0
        · have h1 : ¬ it.qty ≥ 0 := by omega
          by_cases hlt : cnt + it.qty < 0
          · have h2 : m.qty < (-it.qty).toNat := by omega
            simp [hc, h1, Mix.upd, h2, hlt, Agree]
          · have h2 : ¬ m.qty < (-it.qty).toNat := by omega
            simp [hc, h1, Mix.upd, h2, hlt, hn, Agree, Inv, InvE]
            omega
        · have h1 : it.qty ≥ 0 := by omega
          have hlt : ¬ cnt + it.qty < 0 := by omega
          simp [hc, h1, Mix.upd, hlt, hn, Agree, Inv, InvE]
          omega
      · by_cases hneg : it.qty < 0
        · have h1 : ¬ it.qty ≥ 0 := by omega
          simp [hc, h1, Mix.upd, hne, hn, Agree]
        · have h1 : it.qty ≥ 0 := by omega
          simp [hc, h1, Mix.upd, hne, hn, hm0, Agree]

theorem proj_nil (res : String) : proj res [] = .none := rfl

theorem proj_cons_self (it : MixItem) (items : List MixItem) : proj it.res (it :: items) = itemOf it := by
  simp [proj, itemOf]

theorem proj_cons_other (res : String) (it : MixItem) (items : List MixItem) (h : it.res ≠ res) :
    proj res (it :: items) = proj res items := by
  simp [proj, h]

theorem proj_absent (res : String) (items : List MixItem) (h : ∀ it ∈ items, it.res ≠ res) :
    proj res items = .none := by
  induction items with
  | nil => rfl
  | cons it items ih =>
    rw [proj_cons_other res it items (h it (by simp))]
    exact ih (fun x hx => h x (by simp [hx]))

/-- Items of other resources leave the entry of `res` alone. -/
theorem mixStep_absent {res : String} : ∀ (items : List MixItem) {st st' : SSt}, (∀ it ∈ items, it.res ≠ res) →
    mixStep st items = some st' → st'.find? (fun e => e.1 = res) = st.find? (fun e => e.1 = res)
  | [], st, st', _, h => by
    rw [mixStep_nil] at h; cases h; rfl
  | it :: items, st, st', ha, h => by
    rw [mixStep_cons] at h
    cases h1 : step1 st it with
    | none => simp [h1] at h
    | some st1 =>
      simp only [h1, Option.bind_some] at h
      rw [mixStep_absent items (fun x hx => ha x (by simp [hx])) h]
      exact step1_other h1 res (fun h' => ha it (by simp) h'.symm)

theorem upd_none_inv {st : SSt} {res : String} {m : Mix.St} (hi : Inv st res m) :
    ∃ m', Mix.upd m .none = some m' ∧ Inv st res m' := by
  refine ⟨_, rfl, ?_⟩
  unfold Inv at *
  cases hf : st.find? (fun e => decide (e.1 = res)) with
  | none => rw [hf] at hi; simpa [InvE] using hi
  | some e =>
    obtain ⟨r, nm, cnt⟩ := e
    rw [hf] at hi
    simp only [InvE] at hi ⊢
    obtain ⟨h0, hq, hn⟩ := hi
    refine ⟨h0, hq, fun hc => ?_⟩
    have : m.qty ≠ 0 := by omega
    simp [this, hn hc]

/-- One stop, one resource: if the specification accepts the stop, the resource's updater accepts what the stop does to
the resource, and the relation is kept. -/
theorem stop_fwd {res : String} : ∀ (items : List MixItem) {st st' : SSt} {m : Mix.St},
    (items.map (·.res)).Nodup → mixStep st items = some st' → Inv st res m →
    ∃ m', Mix.upd m (proj res items) = some m' ∧ Inv st' res m'
  | [], st, st', m, _, h, hi => by
    rw [mixStep_nil] at h; cases h
    exact upd_none_inv hi
  | it :: items, st, st', m, hnd, h, hi => by
    rw [mixStep_cons] at h
    simp only [List.map_cons, List.nodup_cons, List.mem_map, not_exists, not_and] at hnd
    cases h1 : step1 st it with
    | none => simp [h1] at h
    | some st1 =>
      simp only [h1, Option.bind_some] at h
      by_cases hr : it.res = res
      · subst hr
        rw [proj_cons_self]
        have ho := step1_own hi
        rw [h1] at ho
        cases h2 : Mix.upd m (itemOf it) with
        | none => simp [h2, Agree] at ho
        | some m1 =>
          simp only [h2, Agree] at ho
          refine ⟨m1, rfl, ?_⟩
          unfold Inv at *
          rw [mixStep_absent items (fun x hx h' => hnd.1 x hx h') h]
          exact ho
      · rw [proj_cons_other res it items hr]
        have hi1 : Inv st1 res m := by
          unfold Inv at *
          rw [step1_other h1 res (fun h' => hr h'.symm)]; exact hi
        exact stop_fwd items hnd.2 h hi1

/-- One stop, all resources: if every resource's updater accepts what the stop does to it, the specification accepts
the stop. -/
theorem stop_bwd : ∀ (items : List MixItem) {st : SSt}, (items.map (·.res)).Nodup →
    (∀ res, ∃ m, Inv st res m ∧ (Mix.upd m (proj res items)).isSome = true) → (mixStep st items).isSome = true
  | [], st, _, _ => by simp [mixStep_nil]
  | it :: items, st, hnd, H => by
    rw [mixStep_cons]
    simp only [List.map_cons, List.nodup_cons, List.mem_map, not_exists, not_and] at hnd
    obtain ⟨m, hi, hs⟩ := H it.res
    rw [proj_cons_self] at hs
    have ho := step1_own hi
    cases h1 : step1 st it with
    | none =>
      rw [h1] at ho
      cases h2 : Mix.upd m (itemOf it) with
      | none => simp [h2] at hs
      | some m1 => simp [h2, Agree] at ho
    | some st1 =>
      simp only [Option.bind_some]
      apply stop_bwd items hnd.2
      intro res
      by_cases hr : it.res = res
      · subst hr
        rw [h1] at ho
        cases h2 : Mix.upd m (itemOf it) with
        | none => simp [h2] at hs
        | some m1 =>
          simp only [h2, Agree] at ho
          refine ⟨m1, ho, ?_⟩
          rw [proj_absent it.res items (fun x hx h' => hnd.1 x hx h')]
          rfl
      · obtain ⟨m', hi', hs'⟩ := H res
        rw [proj_cons_other res it items hr] at hs'
        refine ⟨m', ?_, hs'⟩
        unfold Inv at *
        rw [step1_other h1 res (fun h' => hr h'.symm)]; exact hi'

theorem inv_init (res : String) : Inv [] res Mix.init := by
  simp [Inv, InvE, Mix.init]

theorem mixOK_cons (inst : Inst) (st : SSt) (s : StopIx) (rest : List StopIx) :
    mixOK inst st (s :: rest) =
      match mixStep st (inst.stops.getD s {}).mix with
      | none => false
      | some st' => mixOK inst st' rest := rfl

theorem run_cons (m : Mix.St) (x : Mix.Item) (r : List Mix.Item) :
    Mix.run m (x :: r) = (Mix.upd m x).bind (fun s => Mix.run s r) := rfl

theorem route_fwd (inst : Inst) (hwf : MixWF inst) (res : String) : ∀ (route : List StopIx) (st : SSt) (m : Mix.St),
    mixOK inst st route = true → Inv st res m →
    (Mix.run m (route.map (fun s => proj res (inst.stops.getD s {}).mix))).isSome = true
  | [], _, _, _, _ => rfl
  | s :: rest, st, m, h, hi => by
    rw [mixOK_cons] at h
    rw [List.map_cons, run_cons]
    have hnd := (hwf s).1
    generalize (inst.stops.getD s {}).mix = items at h hnd ⊢
    cases h1 : mixStep st items with
    | none => rw [h1] at h; cases h
    | some st' =>
      rw [h1] at h
      obtain ⟨m', hu, hi'⟩ := stop_fwd items hnd h1 hi
      rw [hu, Option.bind_some]
      exact route_fwd inst hwf res rest st' m' h hi'

theorem route_bwd (inst : Inst) (hwf : MixWF inst) : ∀ (route : List StopIx) (st : SSt),
    (∀ res, ∃ m, Inv st res m ∧
      (Mix.run m (route.map (fun s => proj res (inst.stops.getD s {}).mix))).isSome = true) →
    mixOK inst st route = true
  | [], _, _ => rfl
  | s :: rest, st, H => by
    rw [mixOK_cons]
    simp only [List.map_cons, run_cons] at H
    have hnd := (hwf s).1
    generalize (inst.stops.getD s {}).mix = items at H hnd ⊢
    have hs : (mixStep st items).isSome = true := by
      apply stop_bwd items hnd
      intro res
      obtain ⟨m, hi, hr⟩ := H res
      refine ⟨m, hi, ?_⟩
      cases hu : Mix.upd m (proj res items) with
      | none => rw [hu] at hr; cases hr
      | some m' => rfl
    cases h1 : mixStep st items with
    | none => rw [h1] at hs; cases hs
    | some st' =>
      apply route_bwd inst hwf rest st'
      intro res
      obtain ⟨m, hi, hr⟩ := H res
      obtain ⟨m', hu, hi'⟩ := stop_fwd items hnd h1 hi
      rw [hu, Option.bind_some] at hr
      exact ⟨m', hi', hr⟩

theorem mixOK_iff_updaters (inst : Inst) (route : List StopIx) (hwf : MixWF inst) :
    mixOK inst [] route = true ↔
      ∀ res, (Mix.run Mix.init (route.map (fun s => proj res (inst.stops.getD s {}).mix))).isSome = true := by
  constructor
  · intro h res
    exact route_fwd inst hwf res route [] Mix.init h (inv_init res)
  · intro h
    exact route_bwd inst hwf route [] (fun res => ⟨Mix.init, inv_init res, h res⟩)

end NR.Proofs.MixSpec
