import NR.Coll
namespace NR.Proofs.Coll
open NR.Coll

/-! ### add / rem -/

theorem mem_add {l : List Nat} {u x : Nat} : x ∈ add l u ↔ x ∈ l ∨ x = u := by
  unfold add; split <;> rename_i h
  · have : u ∈ l := by simpa using h
    constructor
    · exact Or.inl
    · rintro (h | rfl) <;> assumption
  · simp

theorem mem_rem {l : List Nat} {u x : Nat} : x ∈ rem l u ↔ x ∈ l ∧ x ≠ u := by
  simp [rem]

theorem nodup_add {l : List Nat} {u : Nat} (h : l.Nodup) : (add l u).Nodup := by
  unfold add; split <;> rename_i hc
  · exact h
  · have : u ∉ l := by simpa using hc
    rw [List.nodup_append]
    refine ⟨h, by simp, ?_⟩
    intro a ha b hb
    simp at hb; subst hb; intro e; subst e; exact this ha

theorem nodup_rem {l : List Nat} {u : Nat} (h : l.Nodup) : (rem l u).Nodup :=
  h.filter _

theorem count_eq_one_of_mem_nodup {l : List Nat} {u : Nat} (h : l.Nodup) (hm : u ∈ l) : l.count u = 1 := by
  rw [h.count]; simp [hm]

theorem count_eq_zero_of_not_mem' {l : List Nat} {u : Nat} (hm : u ∉ l) : l.count u = 0 :=
  List.count_eq_zero.mpr hm

/-! ### well-formedness -/

variable {U : Units}

theorem lt_of_kind_ne_stops {p : Nat} (h : kindOf U p ≠ .stops) : p < U.kind.length := by
  apply Classical.byContradiction
  intro hc
  apply h
  simp [kindOf, List.getD_eq_getElem?_getD, List.getElem?_eq_none (Nat.le_of_not_lt hc)]

theorem wf_unpack (h : WFUnits U = true) :
    U.parent.length = U.kind.length ∧ U.fixed.length = U.kind.length ∧
    ∀ u, u < U.kind.length →
      ((match kindOf U u with
        | .stops => true
        | .oneOf ms => parentOf U u = none && ms.Nodup && ms.all (fun m => m < U.kind.length && kindOf U m = .stops && parentOf U m = some u)
        | .all ms => parentOf U u = none && ms.Nodup && ms.all (fun m => m < U.kind.length && kindOf U m = .stops && parentOf U m = some u)) = true) ∧
      ((match parentOf U u with
        | none => true
        | some p => p < U.kind.length && (membersOf U p).contains u) = true) := by
  unfold WFUnits at h
  simp only [Bool.and_eq_true, decide_eq_true_eq, List.all_eq_true, List.mem_range] at h
  refine ⟨h.1.1, h.1.2, fun u hu => ?_⟩
  exact h.2 u hu

theorem wf_all (h : WFUnits U = true) {p : Nat} {ms : List Nat} (hk : kindOf U p = .all ms) :
    parentOf U p = none ∧ ms.Nodup ∧
      ∀ m ∈ ms, m < U.kind.length ∧ kindOf U m = .stops ∧ parentOf U m = some p := by
  have hp : p < U.kind.length := lt_of_kind_ne_stops (by rw [hk]; simp)
  have := ((wf_unpack h).2.2 p hp).1
  rw [hk] at this
  simp at this
  exact ⟨this.1.1, this.1.2, fun m hm => ⟨(this.2 m hm).1.1, (this.2 m hm).1.2, (this.2 m hm).2⟩⟩

theorem wf_oneOf (h : WFUnits U = true) {p : Nat} {ms : List Nat} (hk : kindOf U p = .oneOf ms) :
    parentOf U p = none ∧ ms.Nodup ∧
      ∀ m ∈ ms, m < U.kind.length ∧ kindOf U m = .stops ∧ parentOf U m = some p := by
  have hp : p < U.kind.length := lt_of_kind_ne_stops (by rw [hk]; simp)
  have := ((wf_unpack h).2.2 p hp).1
  rw [hk] at this
  simp at this
  exact ⟨this.1.1, this.1.2, fun m hm => ⟨(this.2 m hm).1.1, (this.2 m hm).1.2, (this.2 m hm).2⟩⟩

theorem wf_parent (h : WFUnits U = true) {u p : Nat} (hp : parentOf U u = some p) :
    u ∈ membersOf U p := by
  have hu : u < U.kind.length := by
    apply Classical.byContradiction
    intro hc
    rw [← (wf_unpack h).1] at hc
    simp [parentOf, List.getD_eq_getElem?_getD, List.getElem?_eq_none (Nat.le_of_not_lt hc)] at hp
  have := ((wf_unpack h).2.2 u hu).2
  rw [hp] at this
  simp at this
  exact this.2

/-! ### the inductive invariant -/

def Nodups (s : CState) : Prop :=
  s.onRoute.Nodup ∧ s.planned.Nodup ∧ s.unplanned.Nodup ∧ s.fixedC = []

structure Inv (U : Units) (s : CState) : Prop where
  nd : Nodups s
  disj : ∀ x, x ∈ s.planned → x ∉ s.unplanned
  root : ∀ x, x ∈ s.planned ∨ x ∈ s.unplanned → parentOf U x = none
  cover : ∀ x, x < U.kind.length → parentOf U x = none → x ∈ s.planned ∨ x ∈ s.unplanned
  orS : ∀ x, x ∈ s.onRoute → kindOf U x = .stops
  orRoot : ∀ x, x ∈ s.onRoute → parentOf U x = none → x ∈ s.planned
  orMem : ∀ x p, x ∈ s.onRoute → parentOf U x = some p → p ∈ s.planned
  plS : ∀ p, p ∈ s.planned → kindOf U p = .stops → p ∈ s.onRoute
  plA : ∀ p ms, p ∈ s.planned → kindOf U p = .all ms → ∀ m ∈ ms, m ∈ s.onRoute
  plO : ∀ p ms, p ∈ s.planned → kindOf U p ≠ .oneOf ms

/-- Same collections as sets. -/
def SameSets (a b : CState) : Prop :=
  (∀ x, x ∈ a.onRoute ↔ x ∈ b.onRoute) ∧ (∀ x, x ∈ a.planned ↔ x ∈ b.planned) ∧
  (∀ x, x ∈ a.unplanned ↔ x ∈ b.unplanned)

theorem Inv.congr {s0 s : CState} (h0 : Inv U s0) (hn : Nodups s) (hs : SameSets s s0) : Inv U s := by
  obtain ⟨h1, h2, h3⟩ := hs
  constructor
  · exact hn
  all_goals (have := h0; cases this; grind)

/-- a root stops-unit gets planned -/
theorem Inv.planStops {s0 s : CState} (h0 : Inv U s0) (hn : Nodups s) {u : Nat}
    (hr : parentOf U u = none) (hk : kindOf U u = .stops)
    (h1 : ∀ x, x ∈ s.onRoute ↔ x ∈ s0.onRoute ∨ x = u)
    (h2 : ∀ x, x ∈ s.planned ↔ x ∈ s0.planned ∨ x = u)
    (h3 : ∀ x, x ∈ s.unplanned ↔ x ∈ s0.unplanned ∧ x ≠ u) : Inv U s := by
  constructor
  · exact hn
  all_goals (have := h0; cases this; grind)

/-- a root stops-unit gets un-planned -/
theorem Inv.unplanStops {s0 s : CState} (hU : WFUnits U = true) (h0 : Inv U s0) (hn : Nodups s) {u : Nat}
    (hr : parentOf U u = none) (hk : kindOf U u = .stops)
    (h1 : ∀ x, x ∈ s.onRoute ↔ x ∈ s0.onRoute ∧ x ≠ u)
    (h2 : ∀ x, x ∈ s.planned ↔ x ∈ s0.planned ∧ x ≠ u)
    (h3 : ∀ x, x ∈ s.unplanned ↔ x ∈ s0.unplanned ∨ x = u) : Inv U s := by
  have hA := fun p ms => @wf_all U hU p ms
  have hP := fun x p => @wf_parent U hU x p
  constructor
  · exact hn
  all_goals (have := h0; cases this; grind [membersOf])

/-- a plan-all unit gets planned -/
theorem Inv.planAll {s0 s : CState} (hU : WFUnits U = true) (h0 : Inv U s0) (hn : Nodups s) {p : Nat}
    {members : List Nat} (hk : kindOf U p = .all members)
    (h1 : ∀ x, x ∈ s.onRoute ↔ x ∈ s0.onRoute ∨ x ∈ members)
    (h2 : ∀ x, x ∈ s.planned ↔ x ∈ s0.planned ∨ x = p)
    (h3 : ∀ x, x ∈ s.unplanned ↔ x ∈ s0.unplanned ∧ x ≠ p) : Inv U s := by
  have hA := fun p ms => @wf_all U hU p ms
  have hP := fun x p => @wf_parent U hU x p
  constructor
  · exact hn
  all_goals (have := h0; cases this; grind [membersOf])

/-- a plan-all unit gets un-planned -/
theorem Inv.unplanAll {s0 s : CState} (hU : WFUnits U = true) (h0 : Inv U s0) (hn : Nodups s) {p : Nat}
    {members : List Nat} (hk : kindOf U p = .all members)
    (h1 : ∀ x, x ∈ s.onRoute ↔ x ∈ s0.onRoute ∧ x ∉ members)
    (h2 : ∀ x, x ∈ s.planned ↔ x ∈ s0.planned ∧ x ≠ p)
    (h3 : ∀ x, x ∈ s.unplanned ↔ x ∈ s0.unplanned ∨ x = p) : Inv U s := by
  have hA := fun p ms => @wf_all U hU p ms
  have hP := fun x p => @wf_parent U hU x p
  constructor
  · exact hn
  all_goals (have := h0; cases this; grind [membersOf])

/-! ### the operations, unfolded -/

theorem execStops_root {s : CState} {u : Nat} {ok : Bool}
    (hr : parentOf U u = none) (hk : kindOf U u = .stops) :
    execStops U s u ok =
      if s.onRoute.contains u || U.fixed.getD u false then (s, false)
      else if ok then
        ({ onRoute := add s.onRoute u, planned := add s.planned u,
           unplanned := rem s.unplanned u, fixedC := s.fixedC }, true)
      else
        ({ onRoute := s.onRoute, planned := rem (add s.planned u) u,
           unplanned := add (rem s.unplanned u) u, fixedC := s.fixedC }, false) := by
  simp only [execStops, isPlanned, isFixed, hr, hk]
  split
  · rfl
  · cases ok <;> simp

theorem unplanStops_root {s : CState} {u : Nat} {ok : Bool}
    (hr : parentOf U u = none) (hk : kindOf U u = .stops) :
    unplanStops U s u ok =
      if !(s.onRoute.contains u) || U.fixed.getD u false then (s, false)
      else if ok then
        ({ onRoute := rem s.onRoute u, planned := rem s.planned u,
           unplanned := add s.unplanned u, fixedC := s.fixedC }, true)
      else
        ({ onRoute := s.onRoute, planned := add (rem s.planned u) u,
           unplanned := rem (add s.unplanned u) u, fixedC := s.fixedC }, false) := by
  simp only [unplanStops, isPlanned, isFixed, hr, hk, Option.getD_none, Bool.or_assoc, Bool.or_self]

/-- What is known of the members of a plan-all unit `p` that is not fixed. -/
def MemberInfo (U : Units) (p : Nat) (members : List Nat) : Prop :=
  isFixed U p = false ∧
  ∀ m ∈ members, parentOf U m = some p ∧ kindOf U m = .stops ∧ U.fixed.getD m false = false

theorem execStops_member {s : CState} {p m : Nat} {ok : Bool} {members : List Nat}
    (hi : MemberInfo U p members) (hm : m ∈ members) :
    execStops U s m ok =
      if s.onRoute.contains m then (s, false)
      else if ok then ({ s with onRoute := add s.onRoute m }, true)
      else (s, false) := by
  obtain ⟨h1, h2, h3⟩ := hi.2 m hm
  simp only [execStops, isPlanned, isFixed, h1, h2, h3]
  split
  · simp_all
  · cases ok <;> simp_all

theorem unplanStops_member {s : CState} {p m : Nat} {members : List Nat}
    (hi : MemberInfo U p members) (hm : m ∈ members) :
    unplanStops U s m true =
      if !(s.onRoute.contains m) then (s, false)
      else ({ onRoute := rem s.onRoute m, planned := rem s.planned p,
              unplanned := add s.unplanned p, fixedC := s.fixedC }, true) := by
  obtain ⟨h1, h2, h3⟩ := hi.2 m hm
  have h4 := hi.1
  simp only [unplanStops, h1, Option.getD_some, h4, Bool.or_false]
  simp only [isPlanned, isFixed, h2, h3]
  split
  · simp_all
  · simp_all

theorem headD_of_all {bits : List Bool} (h : bits.all id = true) :
    bits.headD true = true ∧ bits.tail.all id = true := by
  cases bits with
  | nil => simp
  | cons b bs => simp at h; simp [h]

/-! ### the loops -/

theorem undoMembers_spec {s0 : CState} {p : Nat} {members : List Nat}
    (hi : MemberInfo U p members) (hpp : p ∉ s0.planned) (hpu : p ∈ s0.unplanned)
    (hoff : ∀ m ∈ members, m ∉ s0.onRoute) :
    ∀ (todo : List Nat) (bits : List Bool) (s : CState), bits.all id = true → todo.Nodup →
      (∀ m ∈ todo, m ∈ members) → Nodups s →
      (∀ x, x ∈ s.onRoute ↔ x ∈ s0.onRoute ∨ x ∈ todo) →
      (∀ x, x ∈ s.planned ↔ x ∈ s0.planned) →
      (∀ x, x ∈ s.unplanned ↔ x ∈ s0.unplanned) →
      Nodups (undoMembers U s todo bits) ∧ SameSets (undoMembers U s todo bits) s0 := by
  intro todo
  induction todo with
  | nil =>
    intro bits s _ _ _ hn h1 h2 h3
    simp only [undoMembers]
    exact ⟨hn, by simpa using h1, h2, h3⟩
  | cons m todo ih =>
    intro bits s hb hnd hsub hn h1 h2 h3
    have hmm : m ∈ members := hsub m (by simp)
    have hon : m ∈ s.onRoute := (h1 m).2 (Or.inr (by simp))
    obtain ⟨hb1, hb2⟩ := headD_of_all hb
    simp only [undoMembers, hb1, unplanStops_member hi hmm]
    have : s.onRoute.contains m = true := by simpa using hon
    simp only [this, Bool.not_true, Bool.false_eq_true, if_false, if_true]
    obtain ⟨n1, n2, n3, n4⟩ := hn
    have hnd' := List.nodup_cons.mp hnd
    apply ih bits.tail _ hb2 hnd'.2 (fun x hx => hsub x (by simp [hx]))
    · exact ⟨nodup_rem n1, nodup_rem n2, nodup_add n3, n4⟩
    · intro x; simp only [mem_rem, h1, List.mem_cons]; grind
    · intro x; simp only [mem_rem, h2]; grind
    · intro x; simp only [mem_add, h3]; grind

theorem execMembers_spec {s0 : CState} {p : Nat} {members : List Nat} {undo : List Bool}
    (hi : MemberInfo U p members) (hmn : members.Nodup)
    (hpp : p ∉ s0.planned) (hpu : p ∈ s0.unplanned)
    (hoff : ∀ m ∈ members, m ∉ s0.onRoute) (hundo : undo.all id = true) :
    ∀ (rest : List (Nat × Bool)) (done : List Nat) (s : CState),
      (done ++ rest.map (·.1)).Perm members → Nodups s →
      (∀ x, x ∈ s.onRoute ↔ x ∈ s0.onRoute ∨ x ∈ done) →
      (∀ x, x ∈ s.planned ↔ x ∈ s0.planned ∨ x = p) →
      (∀ x, x ∈ s.unplanned ↔ x ∈ s0.unplanned ∧ x ≠ p) →
      Nodups (execMembers U p s done rest undo).1 ∧
      ((execMembers U p s done rest undo).2 = true →
        (∀ x, x ∈ (execMembers U p s done rest undo).1.onRoute ↔ x ∈ s0.onRoute ∨ x ∈ members) ∧
        (∀ x, x ∈ (execMembers U p s done rest undo).1.planned ↔ x ∈ s0.planned ∨ x = p) ∧
        (∀ x, x ∈ (execMembers U p s done rest undo).1.unplanned ↔ x ∈ s0.unplanned ∧ x ≠ p)) ∧
      ((execMembers U p s done rest undo).2 = false →
        SameSets (execMembers U p s done rest undo).1 s0) := by
  intro rest
  induction rest with
  | nil =>
    intro done s hperm hn h1 h2 h3
    simp only [execMembers]
    simp only [List.map_nil, List.append_nil] at hperm
    refine ⟨hn, fun _ => ⟨?_, h2, h3⟩, by simp⟩
    intro x; rw [h1, hperm.mem_iff]
  | cons mo rest ih =>
    obtain ⟨m, ok⟩ := mo
    intro done s hperm hn h1 h2 h3
    have hmm : m ∈ members := hperm.mem_iff.mp (by simp)
    have hnd : (done ++ m :: rest.map (·.1)).Nodup := hperm.nodup_iff.mpr hmn
    have hnd' := List.nodup_append.mp hnd
    have hmd : m ∉ done := fun h => hnd'.2.2 m h m (by simp) rfl
    obtain ⟨n1, n2, n3, n4⟩ := hn
    -- the failure continuation
    have hfail :
        Nodups (undoMembers U { s with unplanned := add s.unplanned p, planned := rem s.planned p }
          done.reverse undo) ∧
        SameSets (undoMembers U { s with unplanned := add s.unplanned p, planned := rem s.planned p }
          done.reverse undo) s0 := by
      apply undoMembers_spec hi hpp hpu hoff done.reverse undo _ hundo
      · exact (List.reverse_perm done).nodup_iff.mpr hnd'.1
      · intro x hx; exact hperm.mem_iff.mp (by simp [List.mem_reverse.mp hx])
      · exact ⟨n1, nodup_rem n2, nodup_add n3, n4⟩
      · intro x; simp only [h1, List.mem_reverse]
      · intro x; simp only [mem_rem, h2]; grind
      · intro x; simp only [mem_add, h3]; grind
    simp only [execMembers, execStops_member hi hmm]
    by_cases hc : s.onRoute.contains m = true
    · simp only [hc, if_true, Bool.false_eq_true, if_false]
      exact ⟨hfail.1, by simp, fun _ => hfail.2⟩
    · have hc' : s.onRoute.contains m = false := by simpa using hc
      simp only [hc', Bool.false_eq_true, if_false]
      cases ok with
      | false =>
        simp only [Bool.false_eq_true, if_false]
        exact ⟨hfail.1, by simp, fun _ => hfail.2⟩
      | true =>
        simp only [if_true]
        refine ih (done ++ [m]) _ (by simpa using hperm) ?_ ?_ ?_ ?_
        · exact ⟨nodup_add n1, n2, n3, n4⟩
        · intro x; simp only [mem_add, h1, List.mem_append, List.mem_singleton]; grind
        · exact h2
        · exact h3

theorem unplanMembersGiven_spec {s0 : CState} {p : Nat} {members : List Nat}
    (hi : MemberInfo U p members) :
    ∀ (rest : List Nat) (bits : List Bool) (s : CState), bits.all id = true → rest.Nodup →
      (∀ m ∈ rest, m ∈ members) → Nodups s →
      (∀ x, x ∈ s.onRoute ↔ x ∈ s0.onRoute ∧ (x ∈ members → x ∈ rest)) →
      (∀ x, x ∈ s.planned ↔ x ∈ s0.planned ∧ x ≠ p) →
      (∀ x, x ∈ s.unplanned ↔ x ∈ s0.unplanned ∨ x = p) →
      Nodups (unplanMembersGiven U p s rest bits) ∧
      (∀ x, x ∈ (unplanMembersGiven U p s rest bits).onRoute ↔ x ∈ s0.onRoute ∧ x ∉ members) ∧
      (∀ x, x ∈ (unplanMembersGiven U p s rest bits).planned ↔ x ∈ s0.planned ∧ x ≠ p) ∧
      (∀ x, x ∈ (unplanMembersGiven U p s rest bits).unplanned ↔ x ∈ s0.unplanned ∨ x = p) := by
  intro rest
  induction rest with
  | nil =>
    intro bits s _ _ _ hn h1 h2 h3
    simp only [unplanMembersGiven]
    refine ⟨hn, ?_, h2, h3⟩
    intro x; rw [h1]; simp
  | cons m rest ih =>
    intro bits s hb hnd hsub hn h1 h2 h3
    have hmm : m ∈ members := hsub m (by simp)
    obtain ⟨hb1, hb2⟩ := headD_of_all hb
    obtain ⟨n1, n2, n3, n4⟩ := hn
    have hnd' := List.nodup_cons.mp hnd
    have hip : isPlanned U s m = s.onRoute.contains m := by
      simp only [isPlanned, (hi.2 m hmm).2.1]
    simp only [unplanMembersGiven, hip, hb1, unplanStops_member hi hmm]
    by_cases hc : s.onRoute.contains m = true
    · simp only [hc, if_true, Bool.not_true, Bool.false_eq_true, if_false]
      refine ih bits.tail _ hb2 hnd'.2 (fun x hx => hsub x (by simp [hx])) ?_ ?_ ?_ ?_
      · exact ⟨nodup_rem n1, nodup_rem n2, nodup_add n3, n4⟩
      · intro x; simp only [mem_rem, h1, List.mem_cons]; grind
      · intro x; simp only [mem_rem, h2]; grind
      · intro x; simp only [mem_add, h3]; grind
    · have hc' : s.onRoute.contains m = false := by simpa using hc
      have hoff : m ∉ s.onRoute := by simpa using hc'
      simp only [hc', Bool.false_eq_true, if_false]
      refine ih bits _ hb hnd'.2 (fun x hx => hsub x (by simp [hx])) ⟨n1, n2, n3, n4⟩ ?_ h2 h3
      intro x
      have := h1 m
      have := h1 x
      simp only [List.mem_cons] at *
      grind


/-- when no member's un-plan is rejected the repaired and the given un-plan of the members agree -/
theorem unplanMembers_eq_given {p : Nat} {members : List Nat} (hi : MemberInfo U p members) :
    ∀ (rest : List Nat) (bits : List Bool) (s : CState), bits.all id = true → (∀ m ∈ rest, m ∈ members) →
      unplanMembers U p s rest bits = some (unplanMembersGiven U p s rest bits) := by
  intro rest
  induction rest with
  | nil => intro bits s _ _; simp only [unplanMembers, unplanMembersGiven]
  | cons m rest ih =>
    intro bits s hb hsub
    have hmm : m ∈ members := hsub m (by simp)
    obtain ⟨hb1, hb2⟩ := headD_of_all hb
    have hip : isPlanned U s m = s.onRoute.contains m := by
      simp only [isPlanned, (hi.2 m hmm).2.1]
    simp only [unplanMembers, unplanMembersGiven, hip, hb1, unplanStops_member hi hmm]
    by_cases hc : s.onRoute.contains m = true
    · simp only [hc, if_true, Bool.not_true, Bool.false_eq_true, if_false]
      exact ih bits.tail _ hb2 (fun x hx => hsub x (by simp [hx]))
    · have hc' : s.onRoute.contains m = false := by simpa using hc
      simp only [hc', Bool.false_eq_true, if_false]
      exact ih bits s hb (fun x hx => hsub x (by simp [hx]))

/-! ### one step -/

theorem SameSets.rfl' {s : CState} : SameSets s s := ⟨fun _ => Iff.rfl, fun _ => Iff.rfl, fun _ => Iff.rfl⟩

/-- a root stops-unit not on a route is (re)filed as unplanned -/
theorem Inv.fileUnplanned {s0 s : CState} (h0 : Inv U s0) (hn : Nodups s) {u : Nat}
    (hr : parentOf U u = none) (hk : kindOf U u = .stops) (hoff : u ∉ s0.onRoute)
    (h1 : ∀ x, x ∈ s.onRoute ↔ x ∈ s0.onRoute)
    (h2 : ∀ x, x ∈ s.planned ↔ x ∈ s0.planned)
    (h3 : ∀ x, x ∈ s.unplanned ↔ x ∈ s0.unplanned ∨ x = u) : Inv U s := by
  constructor
  · exact hn
  all_goals (have := h0; cases this; grind)

/-- Outcome of one operation on unit `t`: the invariant is kept, a rejection (under the side
condition `c`) leaves the collections unchanged as sets, nothing but `t` is newly listed planned. -/
def StepOut (U : Units) (s : CState) (r : CState × Bool) (t : Option Nat) (c : Prop) : Prop :=
  Inv U r.1 ∧ (r.2 = false → c → SameSets r.1 s) ∧ (∀ x, x ∈ r.1.planned → x ∈ s.planned ∨ t = some x)

theorem step_execStops {s : CState} {u : Nat} {ok : Bool} (h0 : Inv U s)
    (hr : parentOf U u = none) (hk : kindOf U u = .stops) :
    StepOut U s (execStops U s u ok) (some u) (u < U.kind.length) := by
  rw [execStops_root hr hk]
  obtain ⟨n1, n2, n3, n4⟩ := h0.nd
  by_cases he : (s.onRoute.contains u || U.fixed.getD u false) = true
  · simp only [he, if_true]
    exact ⟨h0, fun _ _ => SameSets.rfl', fun x hx => Or.inl hx⟩
  · simp only [he, Bool.false_eq_true, if_false]
    have hoff : u ∉ s.onRoute := by
      intro h; apply he; simp [h]
    have hnp : u ∉ s.planned := fun h => hoff (h0.plS u h hk)
    cases ok with
    | true =>
      simp only [if_true]
      refine ⟨?_, by simp, ?_⟩
      · exact Inv.planStops h0 ⟨nodup_add n1, nodup_add n2, nodup_rem n3, n4⟩ hr hk
          (fun x => mem_add) (fun x => mem_add) (fun x => mem_rem)
      · intro x hx; exact (mem_add.mp hx).imp id (fun h => by rw [h])
    | false =>
      simp only [Bool.false_eq_true, if_false]
      have e2 : ∀ x, x ∈ rem (add s.planned u) u ↔ x ∈ s.planned := by
        intro x; simp only [mem_rem, mem_add]; grind
      have e3 : ∀ x, x ∈ add (rem s.unplanned u) u ↔ x ∈ s.unplanned ∨ x = u := by
        intro x; simp only [mem_rem, mem_add]; grind
      refine ⟨?_, ?_, ?_⟩
      · exact Inv.fileUnplanned h0 ⟨n1, nodup_rem (nodup_add n2), nodup_add (nodup_rem n3), n4⟩ hr hk hoff
          (fun x => Iff.rfl) e2 e3
      · intro _ hlt
        refine ⟨fun x => Iff.rfl, e2, ?_⟩
        intro x; rw [e3]
        have := h0.cover u hlt hr
        grind
      · intro x hx; exact Or.inl ((e2 x).mp hx)

theorem step_unplanStops {s : CState} {u : Nat} {ok : Bool} (hU : WFUnits U = true) (h0 : Inv U s)
    (hr : parentOf U u = none) (hk : kindOf U u = .stops) :
    StepOut U s (unplanStops U s u ok) none True := by
  rw [unplanStops_root hr hk]
  obtain ⟨n1, n2, n3, n4⟩ := h0.nd
  by_cases he : (!(s.onRoute.contains u) || U.fixed.getD u false) = true
  · simp only [he, if_true]
    exact ⟨h0, fun _ _ => SameSets.rfl', fun x hx => Or.inl hx⟩
  · simp only [he, Bool.false_eq_true, if_false]
    have hon : u ∈ s.onRoute := by
      apply Classical.byContradiction
      intro h; apply he; simp [h]
    have hp : u ∈ s.planned := h0.orRoot u hon hr
    have hnu : u ∉ s.unplanned := h0.disj u hp
    cases ok with
    | true =>
      simp only [if_true]
      refine ⟨?_, by simp, ?_⟩
      · exact Inv.unplanStops hU h0 ⟨nodup_rem n1, nodup_rem n2, nodup_add n3, n4⟩ hr hk
          (fun x => mem_rem) (fun x => mem_rem) (fun x => mem_add)
      · intro x hx; exact Or.inl (mem_rem.mp hx).1
    | false =>
      simp only [Bool.false_eq_true, if_false]
      have e2 : ∀ x, x ∈ add (rem s.planned u) u ↔ x ∈ s.planned := by
        intro x; simp only [mem_rem, mem_add]; grind
      have e3 : ∀ x, x ∈ rem (add s.unplanned u) u ↔ x ∈ s.unplanned := by
        intro x; simp only [mem_rem, mem_add]; grind
      have hs : SameSets
          { onRoute := s.onRoute, planned := add (rem s.planned u) u,
            unplanned := rem (add s.unplanned u) u, fixedC := s.fixedC } s :=
        ⟨fun x => Iff.rfl, e2, e3⟩
      refine ⟨?_, fun _ _ => hs, ?_⟩
      · exact Inv.congr h0 ⟨n1, nodup_add (nodup_rem n2), nodup_rem (nodup_add n3), n4⟩ hs
      · intro x hx; exact Or.inl ((e2 x).mp hx)

theorem memberInfo_of (hU : WFUnits U = true) {p : Nat} {members : List Nat}
    (hk : kindOf U p = .all members) (hf : isFixed U p = false) : MemberInfo U p members := by
  refine ⟨hf, ?_⟩
  intro m hm
  obtain ⟨_, _, h3⟩ := wf_all hU hk
  obtain ⟨_, h5, h6⟩ := h3 m hm
  refine ⟨h6, h5, ?_⟩
  simp only [isFixed, hk] at hf
  have := List.any_eq_false.mp hf m hm
  simpa using this

theorem step_execUnits {s : CState} {p : Nat} {ms : List (Nat × Bool)} {undo : List Bool}
    {members : List Nat} (hU : WFUnits U = true) (h0 : Inv U s)
    (hk : kindOf U p = .all members) (hperm : (ms.map (·.1)).Perm members)
    (hundo : undo.all id = true) :
    StepOut U s (execUnits U s p ms undo) (some p) True := by
  unfold execUnits
  obtain ⟨n1, n2, n3, n4⟩ := h0.nd
  by_cases he : (isPlanned U s p || isFixed U p) = true
  · simp only [he, if_true]
    exact ⟨h0, fun _ _ => SameSets.rfl', fun x hx => Or.inl hx⟩
  · simp only [he, Bool.false_eq_true, if_false]
    have hnp : isPlanned U s p = false := by
      cases h : isPlanned U s p <;> simp_all
    have hnf : isFixed U p = false := by
      cases h : isFixed U p <;> simp_all
    have hi := memberInfo_of hU hk hnf
    obtain ⟨hpr, hmn, _⟩ := wf_all hU hk
    have hn1 : Nodups { s with unplanned := rem s.unplanned p, planned := add s.planned p } :=
      ⟨n1, nodup_add n2, nodup_rem n3, n4⟩
    cases ms with
    | nil =>
      have hme : members = [] := by simpa using hperm
      subst hme
      simp only [execMembers]
      refine ⟨?_, by simp, ?_⟩
      · exact Inv.planAll hU h0 hn1 hk (by simp) (fun x => mem_add) (fun x => mem_rem)
      · intro x hx; exact (mem_add.mp hx).imp id (fun h => by rw [h])
    | cons mo rest =>
      have hm0 : mo.1 ∈ members := hperm.mem_iff.mp (by simp)
      have hpp : p ∉ s.planned := by
        intro hp
        have hall := h0.plA p members hp hk
        simp only [isPlanned, hk] at hnp
        have h1 : members.isEmpty = false := by
          cases members with
          | nil => simp at hm0
          | cons _ _ => rfl
        have h2 : members.all (fun m => s.onRoute.contains m) = true := by
          rw [List.all_eq_true]; intro m hm; simpa using hall m hm
        rw [h1, h2] at hnp
        simp at hnp
      have hlt : p < U.kind.length := lt_of_kind_ne_stops (by rw [hk]; simp)
      have hpu : p ∈ s.unplanned := (h0.cover p hlt hpr).resolve_left hpp
      have hoff : ∀ m ∈ members, m ∉ s.onRoute := by
        intro m hm hon
        exact hpp (h0.orMem m p hon (hi.2 m hm).1)
      have hsp := execMembers_spec hi hmn hpp hpu hoff hundo (mo :: rest) []
        { s with unplanned := rem s.unplanned p, planned := add s.planned p }
        (by simpa using hperm) hn1 (by simp) (fun x => mem_add) (fun x => mem_rem)
      obtain ⟨k1, k2, k3⟩ := hsp
      refine ⟨?_, fun h _ => k3 h, ?_⟩
      · cases hr : (execMembers U p { s with unplanned := rem s.unplanned p, planned := add s.planned p }
            [] (mo :: rest) undo).2 with
        | true =>
          obtain ⟨a1, a2, a3⟩ := k2 hr
          exact Inv.planAll hU h0 k1 hk a1 a2 a3
        | false => exact Inv.congr h0 k1 (k3 hr)
      · intro x hx
        cases hr : (execMembers U p { s with unplanned := rem s.unplanned p, planned := add s.planned p }
            [] (mo :: rest) undo).2 with
        | true => exact (((k2 hr).2.1 x).mp hx).imp id (fun h => by rw [h])
        | false => exact Or.inl (((k3 hr).2.1 x).mp hx)

theorem step_unplanUnits {s : CState} {p : Nat} {bits : List Bool}
    {members : List Nat} (hU : WFUnits U = true) (h0 : Inv U s)
    (hk : kindOf U p = .all members) (hbits : bits.all id = true) :
    StepOut U s (unplanUnits U s p bits) none True := by
  unfold unplanUnits
  obtain ⟨n1, n2, n3, n4⟩ := h0.nd
  by_cases he : (!(isPlanned U s p) || isFixed U p) = true
  · simp only [he, if_true]
    exact ⟨h0, fun _ _ => SameSets.rfl', fun x hx => Or.inl hx⟩
  · simp only [he, Bool.false_eq_true, if_false]
    have hnf : isFixed U p = false := by
      cases h : isFixed U p <;> simp_all
    have hi := memberInfo_of hU hk hnf
    obtain ⟨hpr, hmn, _⟩ := wf_all hU hk
    have hmo : membersOf U p = members := by simp only [membersOf, hk]
    simp only [hk]
    rw [hmo, unplanMembers_eq_given hi members bits _ hbits (fun m hm => hm)]
    simp only []
    have hn1 : Nodups { s with planned := rem s.planned p, unplanned := add s.unplanned p } :=
      ⟨n1, nodup_rem n2, nodup_add n3, n4⟩
    have hsp := @unplanMembersGiven_spec U s p members hi members bits
      { s with planned := rem s.planned p, unplanned := add s.unplanned p } hbits hmn
      (fun m hm => hm) hn1 (by simp) (fun x => mem_rem) (fun x => mem_add)
    obtain ⟨k1, a1, a2, a3⟩ := hsp
    refine ⟨?_, by simp, ?_⟩
    · exact Inv.unplanAll hU h0 k1 hk a1 a2 a3
    · intro x hx; exact Or.inl ((a2 x).mp hx).1

/-- an accepted un-plan was asked to be accepted -/
theorem unplanStops_result_true {s : CState} {m : Nat} {b : Bool} (h : (unplanStops U s m b).2 = true) : b = true := by
  unfold unplanStops at h
  cases b with
  | true => rfl
  | false => split at h <;> simp_all

/-- whatever the remaining flags say, a member-by-member un-plan that went through is the one with all flags `true` -/
theorem unplanMembers_true_bits {p : Nat} :
    ∀ (rest : List Nat) (bits : List Bool) (s s' : CState), unplanMembers U p s rest bits = some s' →
      unplanMembers U p s rest (bits.map (fun _ => true)) = some s' := by
  intro rest
  induction rest with
  | nil => intro bits s s' h; simpa [unplanMembers] using h
  | cons m rest ih =>
    intro bits s s' h
    unfold unplanMembers at h ⊢
    by_cases hc : isPlanned U s m = true
    · simp only [hc, if_true] at h ⊢
      cases bits with
      | nil => simpa using h
      | cons b bt =>
        cases b with
        | true =>
          simp only [List.headD_cons, List.tail_cons, List.map_cons] at h ⊢
          cases hx : (unplanStops U s m true).2 with
          | true => simp only [hx, if_true] at h ⊢; exact ih bt _ s' h
          | false => simp [hx] at h
        | false =>
          simp only [List.headD_cons, List.tail_cons] at h
          have hr : (unplanStops U s m false).2 = false := by
            cases hx : (unplanStops U s m false).2 with
            | false => rfl
            | true => exact absurd (unplanStops_result_true hx) (by decide)
          simp [hr] at h
    · have hc' : isPlanned U s m = false := by simpa using hc
      simp only [hc', Bool.false_eq_true, if_false] at h ⊢
      exact ih bits s s' h

theorem all_true_map (bits : List Bool) : (bits.map (fun _ => true)).all id = true := by
  induction bits <;> simp_all

/-- `step_unplanUnits` for EVERY pattern of accepted / rejected member un-plans (the repaired un-plan of a plan-all unit). -/
theorem step_unplanUnits_any {s : CState} {p : Nat} {bits : List Bool}
    {members : List Nat} (hU : WFUnits U = true) (h0 : Inv U s)
    (hk : kindOf U p = .all members) :
    StepOut U s (unplanUnits U s p bits) none True := by
  have key : unplanUnits U s p bits = (s, false) ∨
      unplanUnits U s p bits = unplanUnits U s p (bits.map (fun _ => true)) := by
    unfold unplanUnits
    by_cases he : (!(isPlanned U s p) || isFixed U p) = true
    · left; simp only [he, if_true]
    · simp only [he, Bool.false_eq_true, if_false, hk]
      cases hm : unplanMembers U p { s with planned := rem s.planned p, unplanned := add s.unplanned p }
          (membersOf U p) bits with
      | none => left; rfl
      | some s' => right; rw [unplanMembers_true_bits _ _ _ _ hm]
  rcases key with h | h
  · rw [h]; exact ⟨h0, fun _ _ => SameSets.rfl', fun x hx => Or.inl hx⟩
  · rw [h]; exact step_unplanUnits hU h0 hk (all_true_map bits)

/-! ### from the invariant to `BooksOK` -/

/-- nothing listed planned is a plan-all unit without members -/
def NE (U : Units) (s : CState) : Prop := ∀ x, x ∈ s.planned → kindOf U x ≠ .all []

theorem isPlanned_iff {s : CState} {u : Nat} (hU : WFUnits U = true) (h0 : Inv U s) (hne : NE U s)
    (hr : parentOf U u = none) : isPlanned U s u = true ↔ u ∈ s.planned := by
  unfold isPlanned
  cases hk : kindOf U u with
  | stops =>
    simp only [List.contains_iff_mem]
    exact ⟨fun h => h0.orRoot u h hr, fun h => h0.plS u h hk⟩
  | oneOf ms =>
    simp only [List.any_eq_true, List.contains_iff_mem]
    constructor
    · rintro ⟨m, hm, hon⟩
      exact h0.orMem m u hon ((wf_oneOf hU hk).2.2 m hm).2.2
    · intro h; exact absurd hk (h0.plO u ms h)
  | all ms =>
    simp only [Bool.and_eq_true, Bool.not_eq_true', List.all_eq_true, List.contains_iff_mem]
    constructor
    · rintro ⟨hne', hall⟩
      cases ms with
      | nil => simp at hne'
      | cons m ms =>
        exact h0.orMem m u (hall m (by simp)) ((wf_all hU hk).2.2 m (by simp)).2.2
    · intro h
      refine ⟨?_, h0.plA u ms h hk⟩
      cases ms with
      | nil => exact absurd hk (hne u h)
      | cons m ms => rfl

theorem planned_of_touched {s : CState} {u : Nat} (hU : WFUnits U = true) (h0 : Inv U s)
    (hr : parentOf U u = none) (ht : touched U s u = true) : u ∈ s.planned := by
  unfold touched at ht
  cases hk : kindOf U u with
  | stops =>
    rw [hk] at ht
    exact h0.orRoot u (by simpa using ht) hr
  | oneOf ms =>
    rw [hk] at ht
    simp only [List.any_eq_true, List.contains_iff_mem] at ht
    obtain ⟨m, hm, hon⟩ := ht
    exact h0.orMem m u hon ((wf_oneOf hU hk).2.2 m hm).2.2
  | all ms =>
    rw [hk] at ht
    simp only [List.any_eq_true, List.contains_iff_mem] at ht
    obtain ⟨m, hm, hon⟩ := ht
    exact h0.orMem m u hon ((wf_all hU hk).2.2 m hm).2.2

theorem booksOK_of_inv {s : CState} (hU : WFUnits U = true) (h0 : Inv U s) (hne : NE U s) :
    BooksOK U s = true := by
  unfold BooksOK
  rw [List.all_eq_true]
  intro u hu
  have hu := List.mem_range.mp hu
  obtain ⟨n1, n2, n3, n4⟩ := h0.nd
  by_cases hr : parentOf U u = none
  · have hroot : isRoot U u = true := by simp [isRoot, hr]
    have hip := isPlanned_iff hU h0 hne hr
    rcases h0.cover u hu hr with hp | hup
    · have hnu := h0.disj u hp
      have c1 : s.planned.count u = 1 := count_eq_one_of_mem_nodup n2 hp
      have c2 : s.unplanned.count u = 0 := List.count_eq_zero.mpr hnu
      simp [hroot, n4, c1, c2, hp, hnu, hip.mpr hp]
    · have hnp : u ∉ s.planned := fun h => h0.disj u h hup
      have c1 : s.planned.count u = 0 := List.count_eq_zero.mpr hnp
      have c2 : s.unplanned.count u = 1 := count_eq_one_of_mem_nodup n3 hup
      have c5 : isPlanned U s u = false := by
        cases h : isPlanned U s u with
        | false => rfl
        | true => exact absurd (hip.mp h) hnp
      have c6 : touched U s u = false := by
        cases h : touched U s u with
        | false => rfl
        | true => exact absurd (planned_of_touched hU h0 hr h) hnp
      simp [hroot, n4, c1, c2, hnp, c5, c6]
  · have hroot : isRoot U u = false := by
      simp only [isRoot]
      cases h : parentOf U u with
      | none => exact absurd h hr
      | some _ => rfl
    have hnp : u ∉ s.planned := fun h => hr (h0.root u (Or.inl h))
    have hnu : u ∉ s.unplanned := fun h => hr (h0.root u (Or.inr h))
    have c1 : s.planned.count u = 0 := List.count_eq_zero.mpr hnp
    have c2 : s.unplanned.count u = 0 := List.count_eq_zero.mpr hnu
    simp [hroot, n4, c1, c2]

/-! ### the start state -/

theorem inv_start : Inv U (start U) := by
  have hmem : ∀ x, x ∈ (start U).unplanned ↔ x < U.kind.length ∧ parentOf U x = none := by
    intro x
    simp [start, isRoot, List.mem_filter, List.mem_range]
  constructor
  · exact ⟨by simp [start], by simp [start], List.nodup_range.filter _, rfl⟩
  · intro x hx; simp [start] at hx
  · intro x hx
    rcases hx with hx | hx
    · simp [start] at hx
    · exact ((hmem x).mp hx).2
  · intro x hlt hr; exact Or.inr ((hmem x).mpr ⟨hlt, hr⟩)
  all_goals (intros; simp_all [start])

theorem ne_start : NE U (start U) := by
  intro x hx; simp [start] at hx

/-! ### histories -/

theorem step_good {s : CState} {op : COp} (hU : WFUnits U = true) (h0 : Inv U s)
    (hg : GoodOp U op = true) :
    Inv U (step U s op).1 ∧
    ((step U s op).2 = false → (∀ u ok, op = .execStops u ok → u < U.kind.length) →
      SameSets (step U s op).1 s) ∧
    ((∀ p undo, op ≠ .execUnits p [] undo) → NE U s → NE U (step U s op).1) := by
  cases op with
  | execStops u ok =>
    simp only [GoodOp, isRoot, Bool.and_eq_true, Option.isNone_iff_eq_none, decide_eq_true_eq] at hg
    obtain ⟨a, b, c⟩ := step_execStops (ok := ok) h0 hg.1 hg.2
    refine ⟨a, fun h hin => b h (hin u ok rfl), fun _ hne x hx => ?_⟩
    rcases c x hx with h | h
    · exact hne x h
    · injection h with h; subst h; rw [hg.2]; simp
  | unplanStops u ok =>
    simp only [GoodOp, isRoot, Bool.and_eq_true, Option.isNone_iff_eq_none, decide_eq_true_eq] at hg
    obtain ⟨a, b, c⟩ := step_unplanStops (ok := ok) hU h0 hg.1 hg.2
    refine ⟨a, fun h _ => b h trivial, fun _ hne x hx => ?_⟩
    rcases c x hx with h | h
    · exact hne x h
    · cases h
  | execUnits p ms undo =>
    cases hk : kindOf U p with
    | stops => simp [GoodOp, hk] at hg
    | oneOf _ => simp [GoodOp, hk] at hg
    | all members =>
      simp only [GoodOp, hk, Bool.and_eq_true, decide_eq_true_eq] at hg
      obtain ⟨a, b, c⟩ := step_execUnits hU h0 hk hg.1 hg.2
      refine ⟨a, fun h _ => b h trivial, fun hnn hne x hx => ?_⟩
      rcases c x hx with h | h
      · exact hne x h
      · injection h with h; subst h; rw [hk]
        intro he
        injection he with he
        subst he
        have : ms = [] := by simpa using hg.1
        exact hnn p undo (by rw [this])
  | unplanUnits p bits =>
    cases hk : kindOf U p with
    | stops => simp [GoodOp, hk] at hg
    | oneOf _ => simp [GoodOp, hk] at hg
    | all members =>
      obtain ⟨a, b, c⟩ := step_unplanUnits_any (bits := bits) hU h0 hk
      refine ⟨a, fun h _ => b h trivial, fun _ hne x hx => ?_⟩
      rcases c x hx with h | h
      · exact hne x h
      · cases h
  | vehicleUnplan us ok => simp [GoodOp] at hg

theorem inv_run (hU : WFUnits U = true) :
    ∀ (ops : List COp) (s : CState), Inv U s → (∀ op ∈ ops, GoodOp U op = true) →
      Inv U (runOps U s ops) := by
  intro ops
  induction ops with
  | nil => intro s h _; exact h
  | cons o os ih =>
    intro s h hg
    simp only [runOps]
    exact ih _ (step_good hU h (hg o (by simp))).1 (fun op hop => hg op (by simp [hop]))

theorem ne_run (hU : WFUnits U = true) :
    ∀ (ops : List COp) (s : CState), Inv U s → NE U s → (∀ op ∈ ops, GoodOp U op = true) →
      (∀ p undo, COp.execUnits p [] undo ∉ ops) → NE U (runOps U s ops) := by
  intro ops
  induction ops with
  | nil => intro s _ h _ _; exact h
  | cons o os ih =>
    intro s h hne hg hnn
    simp only [runOps]
    have hs := step_good hU h (hg o (by simp))
    refine ih _ hs.1 (hs.2.2 ?_ hne) (fun op hop => hg op (by simp [hop])) ?_
    · intro p undo he; exact hnn p undo (by simp [he])
    · intro p undo hm; exact hnn p undo (by simp [hm])

/-- Equality of bookkeeping states up to the order inside the four collections. -/
def CStateEquiv (a b : CState) : Prop :=
  a.onRoute.Perm b.onRoute ∧ a.planned.Perm b.planned ∧ a.unplanned.Perm b.unplanned ∧
  a.fixedC.Perm b.fixedC

theorem equiv_of_sameSets {a b : CState} (ha : Nodups a) (hb : Nodups b) (h : SameSets a b) :
    CStateEquiv a b := by
  obtain ⟨a1, a2, a3, a4⟩ := ha
  obtain ⟨b1, b2, b3, b4⟩ := hb
  refine ⟨(List.perm_ext_iff_of_nodup a1 b1).mpr h.1, (List.perm_ext_iff_of_nodup a2 b2).mpr h.2.1,
    (List.perm_ext_iff_of_nodup a3 b3).mpr h.2.2, ?_⟩
  rw [a4, b4]

/-! ### the lemmas used by `NR.Props.C08` -/

theorem start_ok (U : Units) (h : WFUnits U = true) : BooksOK U (start U) = true :=
  booksOK_of_inv h inv_start ne_start

/-- `reachable_ok` needs one hypothesis more than `GoodOp`: a plan-all unit WITHOUT members is
never executed (`execUnits p [] _` files `p` as planned although `isPlanned` of an empty plan-all
unit is false — `#eval BooksOK ⟨[.all []],[none],[false]⟩ (runOps _ (start _) [.execUnits 0 [] []])`
is `false`). -/
theorem reachable_ok (U : Units) (ops : List COp) (hU : WFUnits U = true)
    (hops : ∀ op ∈ ops, GoodOp U op = true)
    (hne : ∀ p undo, COp.execUnits p [] undo ∉ ops) :
    BooksOK U (runOps U (start U) ops) = true :=
  booksOK_of_inv hU (inv_run hU ops _ inv_start hops) (ne_run hU ops _ inv_start ne_start hops hne)

/-- The same for unit forests in which every plan-all unit has a member. -/
theorem reachable_ok_of_nonemptyAll (U : Units) (ops : List COp) (hU : WFUnits U = true)
    (hops : ∀ op ∈ ops, GoodOp U op = true)
    (hne : ∀ u, kindOf U u ≠ .all []) :
    BooksOK U (runOps U (start U) ops) = true := by
  refine reachable_ok U ops hU hops ?_
  intro p undo hm
  have hg := hops _ hm
  cases hk : kindOf U p with
  | stops => simp [GoodOp, hk] at hg
  | oneOf _ => simp [GoodOp, hk] at hg
  | all members =>
    simp only [GoodOp, hk, Bool.and_eq_true, decide_eq_true_eq] at hg
    have : members = [] := by simpa using hg.1
    exact hne p (by rw [hk, this])

/-- A rejected operation leaves the four collections unchanged AS SETS (literal equality is false:
a rejected `execStops`/`execUnits` re-files the unit at the END of `unplanned`), provided the
unit of a rejected `execStops` exists (`u < U.kind.length`; otherwise it gets filed as unplanned
for the first time). -/
theorem rejected_unchanged (U : Units) (ops : List COp) (op : COp)
    (hU : WFUnits U = true) (hops : ∀ o ∈ ops, GoodOp U o = true) (hop : GoodOp U op = true)
    (hin : ∀ u ok, op = .execStops u ok → u < U.kind.length)
    (hrej : (step U (runOps U (start U) ops) op).2 = false) :
    CStateEquiv (step U (runOps U (start U) ops) op).1 (runOps U (start U) ops) := by
  have h0 := inv_run hU ops _ inv_start hops
  have hs := step_good hU h0 hop
  exact equiv_of_sameSets hs.1.nd h0.nd (hs.2.1 hrej hin)

end NR.Proofs.Coll
