/-
  NR.Proofs.Links — proofs for NR.Props.LinksThms (the route arrays represent the routes as lists;
  attach / detach / the move attach loop / the rollback).
-/
import NR.Links
import NR.Proofs.StopGen
import Mathlib.Data.List.Basic
import Mathlib.Data.List.Nodup
import Mathlib.Data.List.GetD

namespace NR.Proofs.Links
open NR.Links NR NR.StopGen

/-! ### `upd` -/

theorem upd_same {β : Type} (f : Nat → β) (i : Nat) (v : β) : upd f i v i = v := by
  simp [upd]

theorem upd_other {β : Type} (f : Nat → β) (i : Nat) (v : β) {j : Nat} (h : j ≠ i) :
    upd f i v j = f j := by
  simp [upd, h]

/-! ### The assignments of `attach` and `detach` -/

theorem attach_next_s (a : Arr) {s af : Nat} (h : s ≠ af) : (attach a s af).next s = a.next af := by
  simp [attach, upd, h]

theorem attach_next_af (a : Arr) (s af : Nat) : (attach a s af).next af = s := by
  simp [attach, upd]

theorem attach_next_other (a : Arr) {s af j : Nat} (h1 : j ≠ s) (h2 : j ≠ af) :
    (attach a s af).next j = a.next j := by
  simp [attach, upd, h1, h2]

theorem attach_prev_s (a : Arr) {s af : Nat} (h : s ≠ af) (h2 : s ≠ a.next af) :
    (attach a s af).prev s = af := by
  have h' : af ≠ s := fun e => h e.symm
  simp [attach, upd, h', h2]

theorem attach_prev_n (a : Arr) {s af : Nat} (h : s ≠ af) : (attach a s af).prev (a.next af) = s := by
  have h' : af ≠ s := fun e => h e.symm
  simp [attach, upd, h']

theorem attach_prev_other (a : Arr) {s af j : Nat} (h : s ≠ af) (h1 : j ≠ s) (h2 : j ≠ a.next af) :
    (attach a s af).prev j = a.prev j := by
  have h' : af ≠ s := fun e => h e.symm
  simp [attach, upd, h', h1, h2]

theorem attach_inVeh_s (a : Arr) (s af : Nat) : (attach a s af).inVeh s = a.inVeh af := by
  simp [attach, upd]

theorem attach_inVeh_other (a : Arr) {s af j : Nat} (h1 : j ≠ s) :
    (attach a s af).inVeh j = a.inVeh j := by
  simp [attach, upd, h1]

theorem detach_next_s (a : Arr) (s : Nat) : (detach a s).next s = s := by
  simp [detach, upd]

theorem detach_next_p (a : Arr) {s : Nat} (h : a.prev s ≠ s) : (detach a s).next (a.prev s) = a.next s := by
  simp [detach, upd, h]

theorem detach_next_other (a : Arr) {s j : Nat} (h1 : j ≠ s) (h2 : j ≠ a.prev s) :
    (detach a s).next j = a.next j := by
  simp [detach, upd, h1, h2]

theorem detach_prev_s (a : Arr) (s : Nat) : (detach a s).prev s = s := by
  simp [detach, upd]

theorem detach_prev_n (a : Arr) {s : Nat} (h : a.next s ≠ s) : (detach a s).prev (a.next s) = a.prev s := by
  simp [detach, upd, h]

theorem detach_prev_other (a : Arr) {s j : Nat} (h1 : j ≠ s) (h2 : j ≠ a.next s) :
    (detach a s).prev j = a.prev j := by
  simp [detach, upd, h1, h2]

theorem detach_inVeh_s (a : Arr) (s : Nat) : (detach a s).inVeh s = -1 := by
  simp [detach, upd]

theorem detach_inVeh_other (a : Arr) {s j : Nat} (h1 : j ≠ s) : (detach a s).inVeh j = a.inVeh j := by
  simp [detach, upd, h1]

theorem Arr_ext {a b : Arr} (h1 : ∀ j, a.next j = b.next j) (h2 : ∀ j, a.prev j = b.prev j)
    (h3 : ∀ j, a.inVeh j = b.inVeh j) : a = b := by
  cases a; cases b
  simp only [Arr.mk.injEq]
  exact ⟨funext h1, funext h2, funext h3⟩

/-- Detaching a stop that has just been attached restores the arrays. -/
theorem detach_attach (a : Arr) {s af : Nat} (hn : a.next s = s) (hp : a.prev s = s)
    (hv : a.inVeh s = -1) (h1 : s ≠ af) (h2 : s ≠ a.next af) (h3 : a.prev (a.next af) = af) :
    detach (attach a s af) s = a := by
  have e1 : (attach a s af).prev s = af := attach_prev_s a h1 h2
  have e2 : (attach a s af).next s = a.next af := attach_next_s a h1
  apply Arr_ext
  · intro j
    by_cases hj : j = s
    · subst hj; rw [detach_next_s, hn]
    · by_cases hj2 : j = af
      · subst hj2
        have := detach_next_p (attach a s j) (s := s) (by rw [e1]; exact fun e => h1 e.symm)
        rw [e1, e2] at this
        exact this
      · rw [detach_next_other _ hj (by rw [e1]; exact hj2), attach_next_other a hj hj2]
  · intro j
    by_cases hj : j = s
    · subst hj; rw [detach_prev_s, hp]
    · by_cases hj2 : j = a.next af
      · subst hj2
        have := detach_prev_n (attach a s af) (s := s) (by rw [e2]; exact fun e => h2 e.symm)
        rw [e1, e2] at this
        rw [this, h3]
      · rw [detach_prev_other _ hj (by rw [e2]; exact hj2), attach_prev_other a h1 hj hj2]
  · intro j
    by_cases hj : j = s
    · subst hj; rw [detach_inVeh_s, hv]
    · rw [detach_inVeh_other _ hj, attach_inVeh_other a hj]

/-! ### Lists: `getD`, `insertAt`, `eraseIdx` -/

theorem getD_mem {l : List Nat} {i : Nat} (h : i < l.length) : l.getD i 0 ∈ l := by
  rw [List.getD_eq_getElem _ _ h]; exact List.getElem_mem h

theorem getD_inj {l : List Nat} (hnd : l.Nodup) {i j : Nat} (hi : i < l.length) (hj : j < l.length)
    (he : l.getD i 0 = l.getD j 0) : i = j := by
  rw [List.getD_eq_getElem _ _ hi, List.getD_eq_getElem _ _ hj] at he
  exact (List.Nodup.getElem_inj_iff hnd).mp he

theorem mem_getD {l : List Nat} {s : Nat} (h : s ∈ l) : ∃ i, i < l.length ∧ l.getD i 0 = s := by
  obtain ⟨i, hi, rfl⟩ := List.getElem_of_mem h
  exact ⟨i, hi, List.getD_eq_getElem _ _ hi⟩

theorem headD_eq_getD (l : List Nat) : l.headD 0 = l.getD 0 0 := by
  cases l <;> simp

theorem getLastD_eq_getD (l : List Nat) : l.getLastD 0 = l.getD (l.length - 1) 0 := by
  cases l with
  | nil => simp
  | cons a t =>
    rw [List.getLastD_eq_getLast?, List.getLast?_eq_some_getLast (List.cons_ne_nil a t), Option.getD_some,
      List.getLast_eq_getElem, List.getD_eq_getElem _ _ (by simp)]

theorem insertAt_length (l : List Nat) {k : Nat} (x : Nat) (hk : k ≤ l.length) :
    (insertAt l k x).length = l.length + 1 := by
  simp [insertAt]; omega

theorem insertAt_getD_lt (l : List Nat) {k j : Nat} (x : Nat) (hk : k ≤ l.length) (h : j < k) :
    (insertAt l k x).getD j 0 = l.getD j 0 := by
  unfold insertAt
  rw [List.getD_append _ _ _ _ (by rw [List.length_take]; omega)]
  simp [List.getD_eq_getElem?_getD, h]

theorem insertAt_getD_eq (l : List Nat) {k : Nat} (x : Nat) (hk : k ≤ l.length) :
    (insertAt l k x).getD k 0 = x := by
  unfold insertAt
  rw [List.getD_append_right _ _ _ _ (by rw [List.length_take]; omega)]
  simp [List.length_take, Nat.min_eq_left hk]

theorem insertAt_getD_gt (l : List Nat) {k j : Nat} (x : Nat) (hk : k ≤ l.length) (h : k < j) :
    (insertAt l k x).getD j 0 = l.getD (j - 1) 0 := by
  unfold insertAt
  rw [List.getD_append_right _ _ _ _ (by rw [List.length_take]; omega)]
  rw [List.length_take, Nat.min_eq_left hk]
  obtain ⟨d, rfl⟩ : ∃ d, j = k + 1 + d := ⟨j - (k + 1), by omega⟩
  have e : k + 1 + d - k = d + 1 := by omega
  rw [e, List.getD_cons_succ]
  simp only [List.getD_eq_getElem?_getD, List.getElem?_drop]
  congr 2
  omega

theorem insertAt_perm (l : List Nat) (k x : Nat) : (insertAt l k x).Perm (x :: l) := by
  unfold insertAt
  have := List.perm_middle (a := x) (l₁ := l.take k) (l₂ := l.drop k)
  rwa [List.take_append_drop] at this

theorem mem_insertAt {l : List Nat} {k x s : Nat} : s ∈ insertAt l k x ↔ s = x ∨ s ∈ l := by
  rw [(insertAt_perm l k x).mem_iff]; simp

theorem eraseIdx_getD_lt (l : List Nat) {i j : Nat} (h : j < i) :
    (l.eraseIdx i).getD j 0 = l.getD j 0 := by
  simp [List.getD_eq_getElem?_getD, List.getElem?_eraseIdx, h]

theorem eraseIdx_getD_ge (l : List Nat) {i j : Nat} (h : i ≤ j) :
    (l.eraseIdx i).getD j 0 = l.getD (j + 1) 0 := by
  have : ¬ j < i := by omega
  simp [List.getD_eq_getElem?_getD, List.getElem?_eraseIdx, this]

/-! ### `Repr` by indices -/

structure ReprI (a : Arr) (v : Int) (route off : List Nat) : Prop where
  nd : route.Nodup
  len : 2 ≤ route.length
  nx : ∀ i, i + 1 < route.length → a.next (route.getD i 0) = route.getD (i + 1) 0
  pv : ∀ i, i + 1 < route.length → a.prev (route.getD (i + 1) 0) = route.getD i 0
  hd : a.prev (route.getD 0 0) = route.getD 0 0
  lst : a.next (route.getD (route.length - 1) 0) = route.getD (route.length - 1) 0
  veh : ∀ i, i < route.length → a.inVeh (route.getD i 0) = v
  offc : ∀ s ∈ off, s ∉ route ∧ a.next s = s ∧ a.prev s = s ∧ a.inVeh s = -1

theorem repr_iff (a : Arr) (v : Int) (route off : List Nat) :
    Repr a v route off ↔ ReprI a v route off := by
  unfold Links.Repr
  rw [headD_eq_getD, getLastD_eq_getD]
  constructor
  · rintro ⟨h1, h2, h3, h4, h5, h6, h7⟩
    exact ⟨h1, h2, fun i hi => (h3 i hi).1, fun i hi => (h3 i hi).2, h4, h5,
      fun i hi => h6 _ (getD_mem hi), h7⟩
  · intro h
    refine ⟨h.nd, h.len, fun i hi => ⟨h.nx i hi, h.pv i hi⟩, h.hd, h.lst, ?_, h.offc⟩
    intro s hs
    obtain ⟨i, hi, rfl⟩ := mem_getD hs
    exact h.veh i hi

theorem ReprI.ne_of_ne {a : Arr} {v : Int} {route off : List Nat} (h : ReprI a v route off) {j k : Nat}
    (hj : j < route.length) (hk : k < route.length) (hjk : j ≠ k) :
    route.getD j 0 ≠ route.getD k 0 := fun e => hjk (getD_inj h.nd hj hk e)

/-! ### One `attach` -/

theorem attach_reprI (a : Arr) (v : Int) (route off : List Nat) (s i : Nat)
    (h : ReprI a v route off) (hs : s ∈ off) (hi : i + 1 < route.length) :
    ReprI (attach a s (route.getD i 0)) v (insertAt route (i + 1) s) (off.filter (· ≠ s)) := by
  obtain ⟨hsr, hsn, hsp, hsv⟩ := h.offc s hs
  have hk : i + 1 ≤ route.length := by omega
  have hne : ∀ j, j < route.length → route.getD j 0 ≠ s := fun j hj e => hsr (e ▸ getD_mem hj)
  have haf : s ≠ route.getD i 0 := (hne i (by omega)).symm
  have hnaf : a.next (route.getD i 0) = route.getD (i + 1) 0 := h.nx i hi
  have hlen := insertAt_length route s hk
  have nxt_other : ∀ j, j < route.length → j ≠ i →
      (attach a s (route.getD i 0)).next (route.getD j 0) = a.next (route.getD j 0) :=
    fun j hj hji => attach_next_other a (hne j hj) (h.ne_of_ne hj (by omega) hji)
  have prv_other : ∀ j, j < route.length → j ≠ i + 1 →
      (attach a s (route.getD i 0)).prev (route.getD j 0) = a.prev (route.getD j 0) :=
    fun j hj hji => attach_prev_other a haf (hne j hj) (by rw [hnaf]; exact h.ne_of_ne hj hi hji)
  refine ⟨?_, ?_, ?_, ?_, ?_, ?_, ?_, ?_⟩
  · rw [(insertAt_perm _ _ _).nodup_iff]; exact List.nodup_cons.mpr ⟨hsr, h.nd⟩
  · have := h.len; omega
  · intro j hj
    rw [hlen] at hj
    rcases Nat.lt_trichotomy j i with hlt | rfl | hgt
    · rw [insertAt_getD_lt route s hk (by omega), insertAt_getD_lt route s hk (by omega),
        nxt_other j (by omega) (by omega)]
      exact h.nx j (by omega)
    · rw [insertAt_getD_lt route s hk (by omega), insertAt_getD_eq route s hk]
      exact attach_next_af a s _
    · obtain ⟨d, rfl⟩ : ∃ d, j = d + 1 := ⟨j - 1, by omega⟩
      by_cases hj2 : d = i
      · subst hj2
        rw [insertAt_getD_eq route s hk, insertAt_getD_gt route s hk (by omega), attach_next_s a haf, hnaf,
          Nat.add_sub_cancel]
      · rw [insertAt_getD_gt route s hk (by omega), insertAt_getD_gt route s hk (by omega),
          Nat.add_sub_cancel, Nat.add_sub_cancel, nxt_other d (by omega) hj2]
        exact h.nx d (by omega)
  · intro j hj
    rw [hlen] at hj
    rcases Nat.lt_trichotomy j i with hlt | rfl | hgt
    · rw [insertAt_getD_lt route s hk (by omega), insertAt_getD_lt route s hk (by omega),
        prv_other (j + 1) (by omega) (by omega)]
      exact h.pv j (by omega)
    · rw [insertAt_getD_lt route s hk (j := j) (by omega), insertAt_getD_eq route s hk]
      exact attach_prev_s a haf (by rw [hnaf]; exact (hne _ hi).symm)
    · obtain ⟨d, rfl⟩ : ∃ d, j = d + 1 := ⟨j - 1, by omega⟩
      by_cases hj2 : d = i
      · subst hj2
        rw [insertAt_getD_eq route s hk, insertAt_getD_gt route s hk (by omega), Nat.add_sub_cancel, ← hnaf]
        exact attach_prev_n a haf
      · rw [insertAt_getD_gt route s hk (by omega), insertAt_getD_gt route s hk (by omega),
          Nat.add_sub_cancel, Nat.add_sub_cancel, prv_other (d + 1) (by omega) (by omega)]
        exact h.pv d (by omega)
  · rw [insertAt_getD_lt route s hk (by omega), prv_other 0 (by omega) (by omega)]
    exact h.hd
  · have hl := h.len
    rw [hlen, Nat.add_sub_cancel, insertAt_getD_gt route s hk (by omega),
      nxt_other (route.length - 1) (by omega) (by omega)]
    exact h.lst
  · intro j hj
    rw [hlen] at hj
    rcases Nat.lt_trichotomy j (i + 1) with hlt | rfl | hgt
    · rw [insertAt_getD_lt route s hk hlt, attach_inVeh_other a (hne j (by omega))]
      exact h.veh j (by omega)
    · rw [insertAt_getD_eq route s hk, attach_inVeh_s]
      exact h.veh i (by omega)
    · rw [insertAt_getD_gt route s hk hgt, attach_inVeh_other a (hne _ (by omega))]
      exact h.veh _ (by omega)
  · intro t ht
    rw [List.mem_filter] at ht
    obtain ⟨ht, hts⟩ := ht
    have hts : t ≠ s := by simpa using hts
    obtain ⟨htr, htn, htp, htv⟩ := h.offc t ht
    have htaf : t ≠ route.getD i 0 := fun e => htr (e ▸ getD_mem (by omega))
    have htn' : t ≠ a.next (route.getD i 0) := by
      rw [hnaf]; exact fun e => htr (e ▸ getD_mem hi)
    refine ⟨?_, ?_, ?_, ?_⟩
    · rw [mem_insertAt]; exact fun e => e.elim hts htr
    · rw [attach_next_other a hts htaf, htn]
    · rw [attach_prev_other a haf hts htn', htp]
    · rw [attach_inVeh_other a hts, htv]

theorem attach_repr (a : Arr) (v : Int) (route off : List Nat) (s i : Nat)
    (h : Repr a v route off) (hs : s ∈ off) (hi : i + 1 < route.length) :
    Repr (attach a s (route.getD i 0)) v (insertAt route (i + 1) s) (off.filter (· ≠ s)) ∧
    SameOutside (attach a s (route.getD i 0)) a [s, route.getD i 0, route.getD (i + 1) 0] := by
  rw [repr_iff] at h ⊢
  refine ⟨attach_reprI a v route off s i h hs hi, ?_⟩
  intro t ht
  simp only [List.mem_cons, List.not_mem_nil, or_false, not_or] at ht
  obtain ⟨h1, h2, h3⟩ := ht
  have haf : s ≠ route.getD i 0 := fun e => (h.offc s hs).1 (e ▸ getD_mem (by omega))
  exact ⟨attach_next_other a h1 h2, attach_prev_other a haf h1 (by rw [h.nx i hi]; exact h3),
    attach_inVeh_other a h1⟩

/-! ### One `detach` -/

theorem detach_reprI (a : Arr) (v : Int) (route off : List Nat) (i : Nat)
    (h : ReprI a v route off) (h0 : 0 < i) (hi : i + 1 < route.length) :
    ReprI (detach a (route.getD i 0)) v (route.eraseIdx i) (route.getD i 0 :: off) := by
  obtain ⟨d, rfl⟩ : ∃ d, i = d + 1 := ⟨i - 1, by omega⟩
  have hp : a.prev (route.getD (d + 1) 0) = route.getD d 0 := h.pv d (by omega)
  have hn : a.next (route.getD (d + 1) 0) = route.getD (d + 2) 0 := h.nx (d + 1) hi
  have hlen : (route.eraseIdx (d + 1)).length = route.length - 1 := List.length_eraseIdx_of_lt (by omega)
  have hps : a.prev (route.getD (d + 1) 0) ≠ route.getD (d + 1) 0 := by
    rw [hp]; exact h.ne_of_ne (by omega) (by omega) (by omega)
  have hns : a.next (route.getD (d + 1) 0) ≠ route.getD (d + 1) 0 := by
    rw [hn]; exact h.ne_of_ne (by omega) (by omega) (by omega)
  have nxt_other : ∀ j, j < route.length → j ≠ d + 1 → j ≠ d →
      (detach a (route.getD (d + 1) 0)).next (route.getD j 0) = a.next (route.getD j 0) :=
    fun j hj h1 h2 => detach_next_other a (h.ne_of_ne hj (by omega) h1)
      (by rw [hp]; exact h.ne_of_ne hj (by omega) h2)
  have prv_other : ∀ j, j < route.length → j ≠ d + 1 → j ≠ d + 2 →
      (detach a (route.getD (d + 1) 0)).prev (route.getD j 0) = a.prev (route.getD j 0) :=
    fun j hj h1 h2 => detach_prev_other a (h.ne_of_ne hj (by omega) h1)
      (by rw [hn]; exact h.ne_of_ne hj (by omega) h2)
  have hsub : ∀ t, t ∈ route.eraseIdx (d + 1) → t ∈ route := fun t ht =>
    (List.eraseIdx_sublist route (d + 1)).subset ht
  have hnotin : route.getD (d + 1) 0 ∉ route.eraseIdx (d + 1) := by
    intro hm
    obtain ⟨j, hj, he⟩ := mem_getD hm
    rw [hlen] at hj
    by_cases hjd : j < d + 1
    · rw [eraseIdx_getD_lt route hjd] at he
      exact h.ne_of_ne (by omega) (by omega) (by omega) he
    · rw [eraseIdx_getD_ge route (by omega)] at he
      exact h.ne_of_ne (by omega) (by omega) (by omega) he
  refine ⟨?_, ?_, ?_, ?_, ?_, ?_, ?_, ?_⟩
  · exact h.nd.sublist (List.eraseIdx_sublist route (d + 1))
  · omega
  · intro j hj
    rw [hlen] at hj
    rcases Nat.lt_trichotomy j d with hlt | rfl | hgt
    · rw [eraseIdx_getD_lt route (by omega), eraseIdx_getD_lt route (by omega),
        nxt_other j (by omega) (by omega) (by omega)]
      exact h.nx j (by omega)
    · rw [eraseIdx_getD_lt route (by omega), eraseIdx_getD_ge route (by omega), ← hp, ← hn]
      exact detach_next_p a hps
    · rw [eraseIdx_getD_ge route (by omega), eraseIdx_getD_ge route (by omega),
        nxt_other (j + 1) (by omega) (by omega) (by omega)]
      exact h.nx (j + 1) (by omega)
  · intro j hj
    rw [hlen] at hj
    rcases Nat.lt_trichotomy j d with hlt | rfl | hgt
    · rw [eraseIdx_getD_lt route (by omega), eraseIdx_getD_lt route (by omega),
        prv_other (j + 1) (by omega) (by omega) (by omega)]
      exact h.pv j (by omega)
    · rw [eraseIdx_getD_lt route (j := j) (by omega), eraseIdx_getD_ge route (j := j + 1) (by omega),
        ← hp, ← hn]
      exact detach_prev_n a hns
    · rw [eraseIdx_getD_ge route (by omega), eraseIdx_getD_ge route (by omega),
        prv_other (j + 1 + 1) (by omega) (by omega) (by omega)]
      exact h.pv (j + 1) (by omega)
  · rw [eraseIdx_getD_lt route (by omega), prv_other 0 (by omega) (by omega) (by omega)]
    exact h.hd
  · rw [hlen, eraseIdx_getD_ge route (by omega)]
    have e : route.length - 1 - 1 + 1 = route.length - 1 := by omega
    rw [e, nxt_other (route.length - 1) (by omega) (by omega) (by omega)]
    exact h.lst
  · intro j hj
    rw [hlen] at hj
    by_cases hjd : j < d + 1
    · rw [eraseIdx_getD_lt route hjd, detach_inVeh_other a (h.ne_of_ne (by omega) (by omega) (by omega))]
      exact h.veh j (by omega)
    · rw [eraseIdx_getD_ge route (by omega),
        detach_inVeh_other a (h.ne_of_ne (by omega) (by omega) (by omega))]
      exact h.veh _ (by omega)
  · intro t ht
    rcases List.mem_cons.mp ht with rfl | ht
    · exact ⟨hnotin, detach_next_s a _, detach_prev_s a _, detach_inVeh_s a _⟩
    · obtain ⟨htr, htn, htp, htv⟩ := h.offc t ht
      have hts : t ≠ route.getD (d + 1) 0 := fun e => htr (e ▸ getD_mem (by omega))
      refine ⟨fun hm => htr (hsub t hm), ?_, ?_, ?_⟩
      · rw [detach_next_other a hts (by rw [hp]; exact fun e => htr (e ▸ getD_mem (by omega))), htn]
      · rw [detach_prev_other a hts (by rw [hn]; exact fun e => htr (e ▸ getD_mem (by omega))), htp]
      · rw [detach_inVeh_other a hts, htv]

theorem detach_repr (a : Arr) (v : Int) (route off : List Nat) (i : Nat)
    (h : Repr a v route off) (h0 : 0 < i) (hi : i + 1 < route.length) (_hoff : off.Nodup) :
    Repr (detach a (route.getD i 0)) v (route.eraseIdx i) (route.getD i 0 :: off) := by
  rw [repr_iff] at h ⊢
  exact detach_reprI a v route off i h h0 hi

/-! ### `isPlanned` and `walk` -/

theorem planned_iff (a : Arr) (v : Int) (route off : List Nat) (h : Repr a v route off) (s : Nat)
    (hs : s ∈ route ∨ s ∈ off) : isPlanned a s = true ↔ s ∈ route := by
  rw [repr_iff] at h
  have hl := h.len
  unfold isPlanned
  rcases hs with hs | hs
  · refine ⟨fun _ => hs, fun _ => ?_⟩
    obtain ⟨i, hi, rfl⟩ := mem_getD hs
    simp only [bne_iff_ne, ne_eq]
    rcases Nat.eq_zero_or_pos i with rfl | hpos
    · rw [h.hd, h.nx 0 (by omega)]
      exact h.ne_of_ne (by omega) (by omega) (by omega)
    · obtain ⟨d, rfl⟩ : ∃ d, i = d + 1 := ⟨i - 1, by omega⟩
      rw [h.pv d hi]
      by_cases hlast : d + 1 + 1 < route.length
      · rw [h.nx (d + 1) hlast]
        exact h.ne_of_ne (by omega) (by omega) (by omega)
      · have e : d + 1 = route.length - 1 := by omega
        rw [e, h.lst, ← e]
        exact h.ne_of_ne (by omega) (by omega) (by omega)
  · obtain ⟨htr, htn, htp, _⟩ := h.offc s hs
    constructor
    · intro hp
      rw [htn, htp] at hp
      simp at hp
    · intro hm; exact absurd hm htr

theorem walk_drop (a : Arr) (v : Int) (route off : List Nat) (h : ReprI a v route off) :
    ∀ (fuel i : Nat), i < route.length → route.length ≤ fuel + i + 1 →
      walk a fuel (route.getD i 0) = route.drop i
  | 0, i, hi, hf => by
    have e : i + 1 = route.length := by omega
    rw [List.drop_eq_getElem_cons hi, List.drop_of_length_le (by omega), List.getD_eq_getElem _ _ hi]
    rfl
  | fuel + 1, i, hi, hf => by
    rw [List.drop_eq_getElem_cons hi, ← List.getD_eq_getElem _ 0 hi]
    by_cases hlast : i + 1 < route.length
    · have hne : a.next (route.getD i 0) ≠ route.getD i 0 := by
        rw [h.nx i hlast]; exact h.ne_of_ne (by omega) (by omega) (by omega)
      simp only [walk, if_neg hne]
      rw [h.nx i hlast, walk_drop a v route off h fuel (i + 1) hlast (by omega)]
    · have e : i = route.length - 1 := by omega
      have hl : a.next (route.getD i 0) = route.getD i 0 := by rw [e]; exact h.lst
      simp only [walk, if_pos hl]
      rw [List.drop_of_length_le (by omega)]

theorem walk_eq (a : Arr) (v : Int) (route off : List Nat) (h : Repr a v route off) :
    walk a route.length (route.headD 0) = route := by
  rw [repr_iff] at h
  have hl := h.len
  rw [headD_eq_getD, walk_drop a v route off h route.length 0 (by omega) (by omega), List.drop_zero]

/-! ### `splice`, one insertion at a time -/

/-- the insertions into gap `i` followed by route stop `i` -/
def blk (route : List Nat) (ins : Ins) (i : Nat) : List Nat :=
  ((ins.filter (·.1 = i)).map (·.2)) ++ [route.getD i 0]

theorem splice_def (route : List Nat) (ins : Ins) :
    splice route ins = (List.range route.length).flatMap (blk route ins) := rfl

theorem blk_of_forall_ne (route : List Nat) (ins : Ins) (i : Nat) (h : ∀ p ∈ ins, p.1 ≠ i) :
    blk route ins i = [route.getD i 0] := by
  have : ins.filter (·.1 = i) = [] := by
    rw [List.filter_eq_nil_iff]; intro p hp; simpa using h p hp
  simp [blk, this]

theorem blk_cons_ne (route : List Nat) (q : Nat × Nat) (rest : Ins) (i : Nat) (h : q.1 ≠ i) :
    blk route (q :: rest) i = blk route rest i := by
  simp [blk, h]

theorem blk_cons_eq (route : List Nat) (q : Nat × Nat) (rest : Ins) :
    blk route (q :: rest) q.1 = q.2 :: blk route rest q.1 := by
  simp [blk]

theorem flatMap_congr' {f g : Nat → List Nat} {l : List Nat} (h : ∀ i ∈ l, f i = g i) :
    l.flatMap f = l.flatMap g := by
  induction l with
  | nil => rfl
  | cons x t ih =>
    rw [List.flatMap_cons, List.flatMap_cons, h x (List.mem_cons_self ..),
      ih (fun i hi => h i (List.mem_cons_of_mem _ hi))]

theorem flatMap_single {f : Nat → List Nat} {g : Nat → Nat} {l : List Nat} (h : ∀ i ∈ l, f i = [g i]) :
    l.flatMap f = l.map g := by
  induction l with
  | nil => rfl
  | cons x t ih =>
    rw [List.flatMap_cons, h x (List.mem_cons_self ..), ih (fun i hi => h i (List.mem_cons_of_mem _ hi))]
    rfl

theorem map_getD_range (route : List Nat) {m : Nat} (hm : m ≤ route.length) :
    (List.range m).map (fun i => route.getD i 0) = route.take m := by
  apply List.ext_getElem
  · simp [Nat.min_eq_left hm]
  · intro i h1 h2
    have hi : i < m := by simpa using h1
    have hi' : i < route.length := by omega
    simp [List.getElem?_eq_getElem hi']

theorem splice_prefix (route : List Nat) (ins : Ins) {m : Nat} (hm : m ≤ route.length)
    (h : ∀ p ∈ ins, m ≤ p.1) :
    (List.range m).flatMap (blk route ins) = route.take m := by
  rw [← map_getD_range route hm]
  apply flatMap_single
  intro i hi
  rw [List.mem_range] at hi
  exact blk_of_forall_ne route ins i (fun p hp => by have := h p hp; omega)

theorem splice_take (route : List Nat) (ins : Ins) {m : Nat} (hm : m ≤ route.length)
    (h : ∀ p ∈ ins, m ≤ p.1) : (splice route ins).take m = route.take m := by
  obtain ⟨k, hk⟩ : ∃ k, route.length = m + k := ⟨route.length - m, by omega⟩
  rw [splice_def, hk, List.range_add, List.flatMap_append, splice_prefix route ins hm h]
  exact List.take_left' (by rw [List.length_take]; omega)

theorem splice_nil (route : List Nat) : splice route [] = route := by
  rw [splice_def, splice_prefix route [] (Nat.le_refl _) (by simp), List.take_length]

theorem splice_length (route : List Nat) (ins : Ins) (h : ∀ p ∈ ins, p.1 < route.length) :
    (splice route ins).length = route.length + ins.length := by
  rw [NR.Proofs.StopGen.splice_eq, NR.Proofs.StopGen.F_length]
  congr 2
  rw [List.filter_eq_self]
  intro p hp
  simpa using h p hp

theorem splice_cons (route : List Nat) (q : Nat × Nat) (rest : Ins) (hq : q.1 < route.length)
    (h : ∀ p ∈ rest, q.1 ≤ p.1) :
    splice route (q :: rest) = insertAt (splice route rest) q.1 q.2 := by
  obtain ⟨k, hk⟩ : ∃ k, route.length = q.1 + (k + 1) := ⟨route.length - q.1 - 1, by omega⟩
  have hP : ∀ i ∈ List.range q.1, blk route (q :: rest) i = blk route rest i := by
    intro i hi
    rw [List.mem_range] at hi
    exact blk_cons_ne route q rest i (by omega)
  have hT : ∀ i ∈ ((List.range k).map Nat.succ).map (q.1 + ·),
      blk route (q :: rest) i = blk route rest i := by
    intro i hi
    simp only [List.mem_map, List.mem_range] at hi
    obtain ⟨_, ⟨j, _, rfl⟩, rfl⟩ := hi
    exact blk_cons_ne route q rest _ (by simp)
  rw [splice_def, splice_def, hk, List.range_add, List.range_succ_eq_map]
  simp only [List.map_cons, List.flatMap_append, List.flatMap_cons, Nat.add_zero]
  rw [flatMap_congr' hP, flatMap_congr' hT, blk_cons_eq,
    splice_prefix route rest (show q.1 ≤ route.length by omega) h]
  unfold insertAt
  have hl : (route.take q.1).length = q.1 := by rw [List.length_take]; omega
  rw [List.take_left' hl, List.drop_left' hl]
  rfl

theorem getD_take {l : List Nat} {i m : Nat} (h : i < m) : (l.take m).getD i 0 = l.getD i 0 := by
  simp [List.getD_eq_getElem?_getD, h]

/-- the stop behind the position of an insertion into gap `g` while `rest` is already attached -/
def nxt (route : List Nat) (g : Nat) : Ins → Nat
  | [] => route.getD g 0
  | q :: _ => if q.1 = g then q.2 else route.getD g 0

/-- moves without the "non-empty" and "not on the route" parts of `WF` -/
def Ok (n : Nat) (ins : Ins) : Prop :=
  (ins.map (·.2)).Nodup ∧ (∀ p ∈ ins, 1 ≤ p.1 ∧ p.1 < n) ∧ ins.Pairwise (fun a b => a.1 ≤ b.1)

theorem Ok.tail {n : Nat} {q : Nat × Nat} {rest : Ins} (h : Ok n (q :: rest)) : Ok n rest :=
  ⟨(List.nodup_cons.mp (by simpa using h.1)).2, fun p hp => h.2.1 p (List.mem_cons_of_mem _ hp),
    (List.pairwise_cons.mp h.2.2).2⟩

theorem Ok.head_le {n : Nat} {q : Nat × Nat} {rest : Ins} (h : Ok n (q :: rest)) :
    ∀ p ∈ rest, q.1 ≤ p.1 := (List.pairwise_cons.mp h.2.2).1

theorem Ok.head_notin {n : Nat} {q : Nat × Nat} {rest : Ins} (h : Ok n (q :: rest)) :
    q.2 ∉ rest.map (·.2) := (List.nodup_cons.mp (by simpa using h.1)).1

theorem Ok.head_range {n : Nat} {q : Nat × Nat} {rest : Ins} (h : Ok n (q :: rest)) :
    1 ≤ q.1 ∧ q.1 < n := h.2.1 q (List.mem_cons_self ..)

theorem splice_getD_gap (route : List Nat) (g : Nat) (rest : Ins) (hg : g < route.length)
    (hok : Ok route.length rest) (hge : ∀ p ∈ rest, g ≤ p.1) :
    (splice route rest).getD g 0 = nxt route g rest := by
  cases rest with
  | nil => rw [splice_nil]; rfl
  | cons q rest' =>
    have hq := hok.head_range
    by_cases hqg : q.1 = g
    · rw [splice_cons route q rest' hq.2 hok.head_le]
      have hlen := splice_length route rest' (fun p hp => (hok.tail.2.1 p hp).2)
      simp only [nxt, if_pos hqg]
      rw [← hqg]
      exact insertAt_getD_eq _ _ (by omega)
    · have h1 : ∀ p ∈ q :: rest', g + 1 ≤ p.1 := by
        intro p hp
        have := hge p hp
        rcases List.mem_cons.mp hp with rfl | hp'
        · omega
        · have := hok.head_le p hp'
          have := hge q (List.mem_cons_self ..)
          omega
      simp only [nxt, if_neg hqg]
      rw [← getD_take (show g < g + 1 by omega), splice_take route _ (show g + 1 ≤ route.length by omega) h1,
        getD_take (by omega)]

/-- What one step of the move's attach loop needs to know about the lists. -/
theorem splice_facts (route : List Nat) (q : Nat × Nat) (rest : Ins) (hok : Ok route.length (q :: rest)) :
    (splice route rest).length = route.length + rest.length ∧
    (splice route rest).getD q.1 0 = nxt route q.1 rest ∧
    (splice route rest).getD (q.1 - 1) 0 = route.getD (q.1 - 1) 0 ∧
    splice route (q :: rest) = insertAt (splice route rest) q.1 q.2 := by
  have hq := hok.head_range
  refine ⟨splice_length route rest (fun p hp => (hok.tail.2.1 p hp).2),
    splice_getD_gap route q.1 rest hq.2 hok.tail hok.head_le, ?_,
    splice_cons route q rest hq.2 hok.head_le⟩
  rw [← getD_take (show q.1 - 1 < q.1 by omega), splice_take route rest (show q.1 ≤ route.length by omega)
    hok.head_le, getD_take (by omega)]

/-! ### The attach loop of a move, as a recursion over the insertions -/

/-- what `attachMove` reads of a stop position -/
def proj (p : Pos) : Nat × Nat := (p.stop, p.next)

/-- one iteration of the loop -/
def stepA (acc : Arr × Nat) (sn : Nat × Nat) : Arr × Nat :=
  (attach acc.1 sn.1 (acc.1.prev sn.2), acc.1.prev sn.2)

/-- (stop, next) of the stop positions, by recursion over the insertions -/
def stepList (route : List Nat) : Ins → List (Nat × Nat)
  | [] => []
  | q :: rest => (q.2, nxt route q.1 rest) :: stepList route rest

/-- the attach loop by recursion over the insertions -/
def run (a : Arr) (route : List Nat) (ins : Ins) : Arr × Nat :=
  (stepList route ins).foldr (fun sn acc => stepA acc sn) (a, 0)

theorem run_nil (a : Arr) (route : List Nat) : run a route [] = (a, 0) := rfl

theorem run_cons (a : Arr) (route : List Nat) (q : Nat × Nat) (rest : Ins) :
    run a route (q :: rest) = stepA (run a route rest) (q.2, nxt route q.1 rest) := rfl

theorem attachMove_eq (a : Arr) (ps : List Pos) :
    attachMove a ps = (ps.map proj).foldr (fun sn acc => stepA acc sn) (a, 0) := by
  unfold attachMove
  rw [List.foldl_reverse, List.foldr_map]
  rfl

theorem positions_proj (route : List Nat) (ins : Ins) :
    (positions route ins).map proj = stepList route ins := by
  induction ins with
  | nil => rfl
  | cons q rest ih =>
    rw [stepList, ← ih]
    unfold positions
    rw [List.length_cons, List.range_succ_eq_map, List.map_cons, List.map_cons, List.map_map, List.map_map,
      List.map_map]
    congr 1
    · cases rest with
      | nil => simp [proj, nxt]
      | cons q' rest' => simp [proj, nxt]
    · apply List.map_congr_left
      intro i _
      simp [proj]

theorem attachMove_positions (a : Arr) (route : List Nat) (ins : Ins) :
    attachMove a (positions route ins) = run a route ins := by
  rw [attachMove_eq, positions_proj]; rfl

theorem filter_step (off : List Nat) (x : Nat) (xs : List Nat) :
    (off.filter (fun s => !xs.contains s)).filter (· ≠ x) =
      off.filter (fun s => !(x :: xs).contains s) := by
  rw [List.filter_filter]
  apply List.filter_congr
  intro s _
  by_cases h : s = x <;> simp [h]

/-- One iteration: the predecessor read from the arrays is the route stop before the gap, the arrays
then represent the route with one more insertion, and detaching the stop again restores them. -/
theorem run_step (acc : Arr) (v : Int) (route off' : List Nat) (q : Nat × Nat) (rest : Ins)
    (hok : Ok route.length (q :: rest)) (hq : q.2 ∈ off')
    (hacc : ReprI acc v (splice route rest) off') :
    acc.prev (nxt route q.1 rest) = route.getD (q.1 - 1) 0 ∧
    ReprI (attach acc q.2 (acc.prev (nxt route q.1 rest))) v (splice route (q :: rest))
      (off'.filter (· ≠ q.2)) ∧
    detach (attach acc q.2 (acc.prev (nxt route q.1 rest))) q.2 = acc := by
  obtain ⟨hlen, hgap, hbefore, hcons⟩ := splice_facts route q rest hok
  have hr := hok.head_range
  have e : q.1 - 1 + 1 = q.1 := by omega
  have hi : q.1 - 1 + 1 < (splice route rest).length := by omega
  have hpv := hacc.pv (q.1 - 1) hi
  have hnx := hacc.nx (q.1 - 1) hi
  rw [e] at hpv hnx
  have hafter : acc.prev (nxt route q.1 rest) = (splice route rest).getD (q.1 - 1) 0 := by
    rw [← hgap, hpv]
  obtain ⟨hqr, hqn, hqp, hqv⟩ := hacc.offc q.2 hq
  refine ⟨by rw [hafter, hbefore], ?_, ?_⟩
  · have := attach_reprI acc v (splice route rest) off' q.2 (q.1 - 1) hacc hq hi
    rw [e] at this
    rw [hafter, hcons]
    exact this
  · rw [hafter]
    apply detach_attach acc hqn hqp hqv
    · exact fun he => hqr (he ▸ getD_mem (by omega))
    · rw [hnx]; exact fun he => hqr (he ▸ getD_mem (by omega))
    · rw [hnx, hpv]

theorem run_reprI (a : Arr) (v : Int) (route off : List Nat) (h : ReprI a v route off) :
    ∀ ins : Ins, Ok route.length ins → (∀ p ∈ ins, p.2 ∈ off) →
      ReprI (run a route ins).1 v (splice route ins)
        (off.filter (fun s => !(ins.map (·.2)).contains s))
  | [], _, _ => by
    rw [run_nil, splice_nil]
    have : off.filter (fun s => !(([] : Ins).map (·.2)).contains s) = off := by simp
    rw [this]; exact h
  | q :: rest, hok, hin => by
    have ih := run_reprI a v route off h rest hok.tail (fun p hp => hin p (List.mem_cons_of_mem _ hp))
    have hq : q.2 ∈ off.filter (fun s => !(rest.map (·.2)).contains s) := by
      rw [List.mem_filter]
      refine ⟨hin q (List.mem_cons_self ..), ?_⟩
      have := hok.head_notin
      simpa using this
    have := (run_step (run a route rest).1 v route _ q rest hok hq ih).2.1
    rw [filter_step] at this
    rw [run_cons]
    exact this

theorem run_snd (a : Arr) (v : Int) (route off : List Nat) (h : ReprI a v route off)
    (q : Nat × Nat) (rest : Ins) (hok : Ok route.length (q :: rest)) (hin : ∀ p ∈ q :: rest, p.2 ∈ off) :
    (run a route (q :: rest)).2 = route.getD (q.1 - 1) 0 := by
  have ih := run_reprI a v route off h rest hok.tail (fun p hp => hin p (List.mem_cons_of_mem _ hp))
  have hq : q.2 ∈ off.filter (fun s => !(rest.map (·.2)).contains s) := by
    rw [List.mem_filter]
    refine ⟨hin q (List.mem_cons_self ..), ?_⟩
    have := hok.head_notin
    simpa using this
  exact (run_step (run a route rest).1 v route _ q rest hok hq ih).1

theorem run_rollback (a : Arr) (v : Int) (route off : List Nat) (h : ReprI a v route off) :
    ∀ ins : Ins, Ok route.length ins → (∀ p ∈ ins, p.2 ∈ off) →
      detachAll (run a route ins).1 (ins.map (·.2)) = a
  | [], _, _ => rfl
  | q :: rest, hok, hin => by
    have hin' : ∀ p ∈ rest, p.2 ∈ off := fun p hp => hin p (List.mem_cons_of_mem _ hp)
    have ih := run_rollback a v route off h rest hok.tail hin'
    have hr := run_reprI a v route off h rest hok.tail hin'
    have hq : q.2 ∈ off.filter (fun s => !(rest.map (·.2)).contains s) := by
      rw [List.mem_filter]
      refine ⟨hin q (List.mem_cons_self ..), ?_⟩
      have := hok.head_notin
      simpa using this
    have hd := (run_step (run a route rest).1 v route _ q rest hok hq hr).2.2
    rw [run_cons]
    show detachAll (detach (attach (run a route rest).1 q.2 _) q.2) (rest.map (·.2)) = a
    rw [hd, ih]

theorem ok_of_wf {route : List Nat} {ins : Ins} (hwf : WF route ins) : Ok route.length ins :=
  ⟨hwf.2.2.2.1, fun p hp => (hwf.2.2.2.2.1 p hp).2, hwf.2.2.2.2.2⟩

/-! ### The move and its rollback -/

theorem attachMove_repr (a : Arr) (v : Int) (route off : List Nat) (ins : StopGen.Ins)
    (h : Repr a v route off) (hwf : StopGen.WF route ins) (hin : ∀ p ∈ ins, p.2 ∈ off) :
    Repr (attachMove a (StopGen.positions route ins)).1 v (StopGen.splice route ins)
      (off.filter (fun s => !(ins.map (·.2)).contains s)) ∧
    (attachMove a (StopGen.positions route ins)).2 = route.getD ((ins.headD (1, 0)).1 - 1) 0 := by
  rw [repr_iff] at h ⊢
  rw [attachMove_positions]
  refine ⟨run_reprI a v route off h ins (ok_of_wf hwf) hin, ?_⟩
  cases ins with
  | nil => exact absurd rfl hwf.2.2.1
  | cons q rest => exact run_snd a v route off h q rest (ok_of_wf hwf) hin

theorem rollback_restores (a : Arr) (v : Int) (route off : List Nat) (ins : StopGen.Ins)
    (h : Repr a v route off) (hwf : StopGen.WF route ins) (hin : ∀ p ∈ ins, p.2 ∈ off) (s : Nat) :
    let b := detachAll (attachMove a (StopGen.positions route ins)).1 (ins.map (·.2))
    b.next s = a.next s ∧ b.prev s = a.prev s ∧ b.inVeh s = a.inVeh s := by
  rw [repr_iff] at h
  intro b
  have hb : b = a := by
    show detachAll (attachMove a (StopGen.positions route ins)).1 (ins.map (·.2)) = a
    rw [attachMove_positions]
    exact run_rollback a v route off h ins (ok_of_wf hwf) hin
  rw [hb]
  exact ⟨rfl, rfl, rfl⟩

end NR.Proofs.Links
