/-
  Proofs of the engine theorems stated in `NR/Props/EngineThms.lean`.
-/
import NR.Engine
namespace NR.Proofs.Engine
open NR.Engine

variable {S σ τ : Type} [DecidableEq S]

/-! ### `upd` -/

theorem upd_same (vals : S → σ) (s : S) (v : σ) : upd vals s v s = v := by
  simp [upd]

theorem upd_ne (vals : S → σ) (s t : S) (v : σ) (h : t ≠ s) : upd vals s v t = vals t := by
  simp [upd, h]

/-! ### `prop` -/

/-- A pass writes nowhere else. -/
theorem prop_frame (e : Eng S σ) (prev : σ) (l : List S) (vals vals' : S → σ) (b : Bool)
    (h : prop e prev l vals = (vals', b)) : ∀ t, t ∉ l → vals' t = vals t := by
  induction l generalizing prev vals with
  | nil =>
    intro t _
    simp only [prop, Prod.mk.injEq] at h
    rw [h.1]
  | cons s rest ih =>
    intro t ht
    have hts : t ≠ s := fun hh => ht (by simp [hh])
    have htr : t ∉ rest := fun hh => ht (by simp [hh])
    simp only [prop] at h
    split at h
    · rw [ih _ _ h t htr]; exact upd_ne _ _ _ _ hts
    · simp only [Prod.mk.injEq] at h
      rw [← h.1]; exact upd_ne _ _ _ _ hts

/-- A pass that returns no violation establishes cache consistency and every exact check on
what it walked. -/
theorem prop_complete (e : Eng S σ) (prev : σ) (l : List S) (vals vals' : S → σ)
    (hnd : l.Nodup) (h : prop e prev l vals = (vals', true)) :
    Consistent e prev l vals' ∧ AllOk e prev l := by
  induction l generalizing prev vals with
  | nil => exact ⟨trivial, trivial⟩
  | cons s rest ih =>
    simp only [prop] at h
    have hs : s ∉ rest := (List.nodup_cons.mp hnd).1
    have hr : rest.Nodup := (List.nodup_cons.mp hnd).2
    split at h
    · rename_i hok
      obtain ⟨hc, ha⟩ := ih _ _ hr h
      refine ⟨⟨?_, hc⟩, ⟨hok, ha⟩⟩
      rw [prop_frame e _ rest _ vals' true h s hs]
      exact upd_same _ _ _
    · simp at h

/-- If every check holds along `l`, the pass completes from any cache. -/
theorem prop_of_allOk (e : Eng S σ) (prev : σ) (l : List S) (vals : S → σ)
    (h : AllOk e prev l) : (prop e prev l vals).2 = true := by
  induction l generalizing prev vals with
  | nil => rfl
  | cons s rest ih =>
    simp only [prop]
    rw [if_pos h.1]
    exact ih _ _ h.2

/-! ### `Consistent`, `AllOk` -/

omit [DecidableEq S] in
theorem consistent_congr (e : Eng S σ) (prev : σ) (l : List S) (v1 v2 : S → σ)
    (hag : ∀ s ∈ l, v2 s = v1 s) (h : Consistent e prev l v1) : Consistent e prev l v2 := by
  induction l generalizing prev with
  | nil => trivial
  | cons s rest ih =>
    refine ⟨?_, ih _ (fun t ht => hag t (by simp [ht])) h.2⟩
    rw [hag s (by simp)]; exact h.1

omit [DecidableEq S] in
/-- Two caches consistent along the same list agree on it. -/
theorem consistent_agree (e : Eng S σ) (prev : σ) (l : List S) (v1 v2 : S → σ)
    (h1 : Consistent e prev l v1) (h2 : Consistent e prev l v2) : ∀ s ∈ l, v1 s = v2 s := by
  induction l generalizing prev with
  | nil => intro s hs; cases hs
  | cons s rest ih =>
    intro t ht
    rcases List.mem_cons.mp ht with rfl | ht
    · rw [h1.1, h2.1]
    · exact ih _ h1.2 h2.2 t ht

omit [DecidableEq S] in
theorem consistent_append (e : Eng S σ) (init : σ) (a b : List S) (vals : S → σ) :
    Consistent e init (a ++ b) vals ↔
      Consistent e init a vals ∧ Consistent e (valAfter e init a) b vals := by
  induction a generalizing init with
  | nil => simp [Consistent, valAfter]
  | cons s rest ih =>
    simp only [List.cons_append, Consistent, valAfter, ih, and_assoc]

omit [DecidableEq S] in
theorem allOk_append (e : Eng S σ) (init : σ) (a b : List S) :
    AllOk e init (a ++ b) ↔ AllOk e init a ∧ AllOk e (valAfter e init a) b := by
  induction a generalizing init with
  | nil => simp [AllOk, valAfter]
  | cons s rest ih =>
    simp only [List.cons_append, AllOk, valAfter, ih, and_assoc]

/-! ### `change` -/

theorem change_eq_true (e : Eng S σ) (init : σ) (pre old new : List S) (vals vals' : S → σ)
    (hp : prop e (valAfter e init pre) new vals = (vals', true)) :
    change e init pre old new vals = (⟨pre ++ new, vals'⟩, true, true) := by
  simp only [change, hp]

theorem change_eq_false (e : Eng S σ) (init : σ) (pre old new : List S) (vals vals' vals'' : S → σ)
    (b' : Bool)
    (hp : prop e (valAfter e init pre) new vals = (vals', false))
    (hq : prop e (valAfter e init pre) old vals' = (vals'', b')) :
    change e init pre old new vals = (⟨pre ++ old, vals''⟩, false, b') := by
  simp only [change, hp, hq]

/-- Both outcomes leave every stop that is neither on the old nor on the new route untouched. -/
theorem change_frame (e : Eng S σ) (init : σ) (pre old new : List S) (vals : S → σ)
    (st' : VState S σ) (r d : Bool)
    (h : change e init pre old new vals = (st', r, d)) :
    ∀ t, t ∉ old → t ∉ new → st'.vals t = vals t := by
  intro t hto htn
  rcases hp : prop e (valAfter e init pre) new vals with ⟨vals', b⟩
  have h1 := prop_frame e _ new vals vals' b hp t htn
  cases b with
  | true =>
    rw [change_eq_true e init pre old new vals vals' hp] at h
    simp only [Prod.mk.injEq] at h
    rw [← h.1]; exact h1
  | false =>
    rcases hq : prop e (valAfter e init pre) old vals' with ⟨vals'', b'⟩
    rw [change_eq_false e init pre old new vals vals' vals'' b' hp hq] at h
    simp only [Prod.mk.injEq] at h
    rw [← h.1]
    show vals'' t = vals t
    rw [prop_frame e _ old vals' vals'' b' hq t hto]; exact h1

/-- An operation that succeeds leaves the vehicle consistent, with every exact check passed on
the *whole* new route. -/
theorem change_ok (e : Eng S σ) (init : σ) (pre old new : List S) (vals : S → σ)
    (st' : VState S σ) (d : Bool)
    (hinv : Inv e init ⟨pre ++ old, vals⟩) (hnd : (pre ++ new).Nodup)
    (h : change e init pre old new vals = (st', true, d)) :
    st'.route = pre ++ new ∧ Inv e init st' := by
  obtain ⟨_, hc, ha⟩ := hinv
  simp only at hc ha
  rcases hp : prop e (valAfter e init pre) new vals with ⟨vals', b⟩
  cases b with
  | false =>
    rcases hq : prop e (valAfter e init pre) old vals' with ⟨vals'', b'⟩
    rw [change_eq_false e init pre old new vals vals' vals'' b' hp hq] at h
    simp at h
  | true =>
    rw [change_eq_true e init pre old new vals vals' hp] at h
    simp only [Prod.mk.injEq] at h
    obtain ⟨rfl, _, _⟩ := h
    obtain ⟨hpn, hnn, hdisj⟩ := List.nodup_append.mp hnd
    obtain ⟨hcn, han⟩ := prop_complete e _ new vals vals' hnn hp
    refine ⟨rfl, hnd, ?_, ?_⟩
    · show Consistent e init (pre ++ new) vals'
      rw [consistent_append]
      refine ⟨?_, hcn⟩
      refine consistent_congr e init pre vals vals' ?_ ((consistent_append ..).mp hc).1
      intro s hs
      exact prop_frame e _ new vals vals' true hp s (fun hn => hdisj s hs s hn rfl)
    · show AllOk e init (pre ++ new)
      rw [allOk_append]
      exact ⟨((allOk_append ..).mp ha).1, han⟩

/-- All-or-nothing. -/
theorem change_fail (e : Eng S σ) (init : σ) (pre old new : List S) (vals : S → σ)
    (st' : VState S σ) (d : Bool)
    (hinv : Inv e init ⟨pre ++ old, vals⟩) (hnd : (pre ++ new).Nodup)
    (h : change e init pre old new vals = (st', false, d)) :
    d = true ∧ st'.route = pre ++ old ∧ (∀ s ∈ pre ++ old, st'.vals s = vals s) ∧ Inv e init st' := by
  obtain ⟨hndo, hc, ha⟩ := hinv
  simp only at hndo hc ha
  rcases hp : prop e (valAfter e init pre) new vals with ⟨vals', b⟩
  cases b with
  | true =>
    rw [change_eq_true e init pre old new vals vals' hp] at h
    simp at h
  | false =>
    rcases hq : prop e (valAfter e init pre) old vals' with ⟨vals'', b'⟩
    rw [change_eq_false e init pre old new vals vals' vals'' b' hp hq] at h
    simp only [Prod.mk.injEq, true_and] at h
    obtain ⟨rfl, rfl⟩ := h
    obtain ⟨hpn, hnn, hdisj⟩ := List.nodup_append.mp hnd
    obtain ⟨hpo, hoo, hdisjo⟩ := List.nodup_append.mp hndo
    obtain ⟨hcp, hco⟩ := (consistent_append ..).mp hc
    obtain ⟨hap, hao⟩ := (allOk_append ..).mp ha
    have hb : b' = true := by
      have := prop_of_allOk e (valAfter e init pre) old vals' hao
      rw [hq] at this; exact this
    subst hb
    obtain ⟨hco', _⟩ := prop_complete e _ old vals' vals'' hoo hq
    have hagree : ∀ s ∈ pre ++ old, vals'' s = vals s := by
      intro s hs
      rcases List.mem_append.mp hs with hsp | hso
      · rw [prop_frame e _ old vals' vals'' true hq s (fun ho => hdisjo s hsp s ho rfl)]
        exact prop_frame e _ new vals vals' false hp s (fun hn => hdisj s hsp s hn rfl)
      · exact consistent_agree e _ old vals'' vals hco' hco s hso
    refine ⟨rfl, rfl, hagree, hndo, ?_, ha⟩
    exact consistent_congr e init (pre ++ old) vals vals'' hagree hc

/-! ### Several vehicles -/

omit [DecidableEq S] in
theorem flatten_nodup_getElem (L : List (List S)) (h : L.flatten.Nodup) (i : Nat)
    (hi : i < L.length) : (L[i]).Nodup :=
  (List.pairwise_flatten.mp h).1 _ (List.getElem_mem hi)

omit [DecidableEq S] in
theorem flatten_nodup_disjoint (L : List (List S)) (h : L.flatten.Nodup) (i j : Nat)
    (hi : i < L.length) (hj : j < L.length) (hij : i ≠ j) :
    ∀ x, x ∈ L[i] → x ∉ L[j] := by
  have hp := List.pairwise_iff_getElem.mp (List.pairwise_flatten.mp h).2
  intro x hxi hxj
  rcases Nat.lt_or_gt_of_ne hij with hlt | hgt
  · exact hp i j hi hj hlt x hxi x hxj rfl
  · exact hp j i hj hi hgt x hxj x hxi rfl

omit [DecidableEq S] in
theorem map_eq_zip_specVals (e : Eng S σ) (prev : σ) (l : List S) (vals : S → σ)
    (h : Consistent e prev l vals) :
    l.map (fun s => (s, vals s)) = List.zip l (specVals e prev l) := by
  induction l generalizing prev with
  | nil => rfl
  | cons s rest ih =>
    simp only [List.map_cons, specVals, List.zip_cons_cons, h.1, ih _ h.2]

omit [DecidableEq S] in
theorem length_specVals (e : Eng S σ) (prev : σ) (l : List S) :
    (specVals e prev l).length = l.length := by
  induction l generalizing prev with
  | nil => rfl
  | cons s rest ih => simp [specVals, ih]

omit [DecidableEq S] in
/-- Under consistency of every route the cached observable is the specified one. -/
theorem cachedObs_eq_specObs (m : Model S σ τ) (routes : List (List S)) (vals : S → σ)
    (hlen : routes.length = m.inits.length)
    (hc : ∀ v (h : v < routes.length) (h' : v < m.inits.length),
      Consistent m.eng (m.inits[v]) (routes[v]) vals) :
    cachedObs routes vals = specObs m routes := by
  apply List.ext_getElem
  · simp [cachedObs, specObs, hlen]
  · intro i h1 h2
    have hi : i < routes.length := by simpa [cachedObs] using h1
    have hi' : i < m.inits.length := hlen ▸ hi
    simp only [cachedObs, specObs, List.getElem_map, List.getElem_zip]
    exact map_eq_zip_specVals m.eng _ _ vals (hc i hi hi')

omit [DecidableEq S] in
theorem cachedObs_congr (routes : List (List S)) (v1 v2 : S → σ)
    (h : ∀ s ∈ routes.flatten, v1 s = v2 s) : cachedObs routes v1 = cachedObs routes v2 := by
  unfold cachedObs
  apply List.map_congr_left
  intro r hr
  apply List.map_congr_left
  intro s hs
  rw [h s (List.mem_flatten.mpr ⟨r, hr, hs⟩)]

theorem applyOp_eq (m : Model S σ τ) (st : MState S σ τ) (op : Op S) (r : List S) (init : σ)
    (vs : VState S σ) (res done : Bool)
    (hr : st.routes[op.v]? = some r) (hi : m.inits[op.v]? = some init)
    (hc : change m.eng init (r.take op.k) (r.drop op.k) op.new st.vals = (vs, res, done)) :
    applyOp m st op =
      (⟨st.routes.set op.v vs.route, vs.vals,
        if res || done then m.scoreOf (cachedObs (st.routes.set op.v vs.route) vs.vals)
        else st.score⟩, res) := by
  simp only [applyOp, hr, hi, hc]

omit [DecidableEq S] in
/-- Replacing one route and its cache entries, leaving the stops of the other routes untouched,
preserves the solution invariant once the score is refreshed. -/
theorem minv_update (m : Model S σ τ) (st : MState S σ τ) (v : Nat) (newr : List S)
    (vals' : S → σ) (hinv : MInv m st) (hv' : v < m.inits.length)
    (hnd : ((st.routes.set v newr).flatten).Nodup)
    (hnew : Consistent m.eng (m.inits[v]) newr vals' ∧ AllOk m.eng (m.inits[v]) newr)
    (hframe : ∀ w (hw : w < st.routes.length), w ≠ v → ∀ s ∈ st.routes[w], vals' s = st.vals s) :
    MInv m ⟨st.routes.set v newr, vals',
      m.scoreOf (cachedObs (st.routes.set v newr) vals')⟩ := by
  obtain ⟨hlen, _, hall, _⟩ := hinv
  have hall' : ∀ w (h : w < (st.routes.set v newr).length) (h' : w < m.inits.length),
      Consistent m.eng (m.inits[w]) ((st.routes.set v newr)[w]) vals' ∧
        AllOk m.eng (m.inits[w]) ((st.routes.set v newr)[w]) := by
    intro w h h'
    have hw : w < st.routes.length := by simpa using h
    rw [List.getElem_set]
    by_cases hvw : v = w
    · subst hvw; simpa using hnew
    · rw [if_neg hvw]
      obtain ⟨hc, ha⟩ := hall w hw h'
      exact ⟨consistent_congr m.eng _ _ st.vals vals' (hframe w hw (Ne.symm hvw)) hc, ha⟩
  refine ⟨by simpa using hlen, hnd, hall', ?_⟩
  show m.scoreOf _ = m.scoreOf _
  rw [cachedObs_eq_specObs m _ vals' (by simpa using hlen) (fun w h h' => (hall' w h h').1)]

theorem applyOp_spec (m : Model S σ τ) (st : MState S σ τ) (op : Op S)
    (hinv : MInv m st) (hadm : Admissible st op) :
    MInv m (applyOp m st op).1 ∧
      ((applyOp m st op).2 = false → mobs (applyOp m st op).1 = mobs st) := by
  have hinv' := hinv
  obtain ⟨hlen, hnd, hall, hscore⟩ := hinv
  unfold Admissible at hadm
  rcases hr : st.routes[op.v]? with _ | r
  · rw [hr] at hadm; exact hadm.elim
  rw [hr] at hadm; dsimp only at hadm
  obtain ⟨hv, hrv⟩ := List.getElem?_eq_some_iff.mp hr
  have hv' : op.v < m.inits.length := hlen ▸ hv
  have hi : m.inits[op.v]? = some m.inits[op.v] := List.getElem?_eq_getElem hv'
  rcases hc : change m.eng m.inits[op.v] (r.take op.k) (r.drop op.k) op.new st.vals
    with ⟨vs, res, done⟩
  rw [applyOp_eq m st op r _ vs res done hr hi hc]
  dsimp only
  obtain ⟨hcr, har⟩ := hall op.v hv hv'
  have hrnd : r.Nodup := hrv ▸ flatten_nodup_getElem _ hnd _ hv
  have hinvv : Inv m.eng m.inits[op.v] ⟨r.take op.k ++ r.drop op.k, st.vals⟩ := by
    rw [List.take_append_drop]; exact ⟨hrnd, hrv ▸ hcr, hrv ▸ har⟩
  have hv2 : op.v < (st.routes.set op.v (r.take op.k ++ op.new)).length := by simpa using hv
  have hnd' : (r.take op.k ++ op.new).Nodup := by
    have := flatten_nodup_getElem _ hadm op.v hv2
    simpa using this
  have hframe : ∀ w (hw : w < st.routes.length), w ≠ op.v →
      ∀ s ∈ st.routes[w], vs.vals s = st.vals s := by
    intro w hw hwv s hs
    apply change_frame _ _ _ _ _ _ _ _ _ hc
    · intro hso
      have : s ∈ st.routes[op.v] := hrv ▸ List.mem_of_mem_drop hso
      exact flatten_nodup_disjoint _ hnd w op.v hw hv hwv s hs this
    · intro hsn
      have hw2 : w < (st.routes.set op.v (r.take op.k ++ op.new)).length := by simpa using hw
      have h1 : s ∈ (st.routes.set op.v (r.take op.k ++ op.new))[w] := by
        rw [List.getElem_set, if_neg (Ne.symm hwv)]; exact hs
      have h2 : s ∈ (st.routes.set op.v (r.take op.k ++ op.new))[op.v] := by
        rw [List.getElem_set, if_pos rfl]; exact List.mem_append_right _ hsn
      exact flatten_nodup_disjoint _ hadm w op.v hw2 hv2 hwv s h1 h2
  cases res with
  | true =>
    obtain ⟨hroute, hi⟩ := change_ok _ _ _ _ _ _ _ _ hinvv hnd' hc
    simp only [Bool.true_or, if_true]
    refine ⟨?_, fun h => by cases h⟩
    exact minv_update m st op.v vs.route vs.vals hinv' hv' (hroute ▸ hadm) ⟨hi.2.1, hi.2.2⟩ hframe
  | false =>
    obtain ⟨rfl, hroute, hag, hi⟩ := change_fail _ _ _ _ _ _ _ _ hinvv hnd' hc
    simp only [Bool.or_true, if_true]
    have hset : st.routes.set op.v vs.route = st.routes := by
      rw [hroute, List.take_append_drop, ← hrv, List.set_getElem_self]
    refine ⟨?_, fun _ => ?_⟩
    · exact minv_update m st op.v vs.route vs.vals hinv' hv' (hset.symm ▸ hnd) ⟨hi.2.1, hi.2.2⟩ hframe
    · have hagree : ∀ s ∈ st.routes.flatten, vs.vals s = st.vals s := by
        intro s hs
        obtain ⟨l, hl, hsl⟩ := List.mem_flatten.mp hs
        obtain ⟨w, hw, rfl⟩ := List.getElem_of_mem hl
        by_cases hwv : w = op.v
        · subst hwv
          apply hag
          rw [List.take_append_drop, ← hrv]; exact hsl
        · exact hframe w hw hwv s hsl
      have hco : cachedObs st.routes vs.vals = cachedObs st.routes st.vals :=
        cachedObs_congr _ _ _ hagree
      have hcs : cachedObs st.routes st.vals = specObs m st.routes :=
        cachedObs_eq_specObs m _ _ hlen (fun w h h' => (hall w h h').1)
      simp only [mobs, hset, hco, hcs, hscore]

/-- One operation preserves the solution invariant (several vehicles, scores). -/
theorem applyOp_inv (m : Model S σ τ) (st : MState S σ τ) (op : Op S)
    (hinv : MInv m st) (hadm : Admissible st op) : MInv m (applyOp m st op).1 :=
  (applyOp_spec m st op hinv hadm).1

/-- A rejected operation leaves everything observable unchanged. -/
theorem applyOp_fail_obs (m : Model S σ τ) (st : MState S σ τ) (op : Op S)
    (hinv : MInv m st) (hadm : Admissible st op) (hres : (applyOp m st op).2 = false) :
    mobs (applyOp m st op).1 = mobs st :=
  (applyOp_spec m st op hinv hadm).2 hres

theorem run_inv (m : Model S σ τ) (st : MState S σ τ) (ops : List (Op S))
    (hinv : MInv m st) (hadm : AdmissibleRun m st ops) : MInv m (run m st ops) := by
  induction ops generalizing st with
  | nil => exact hinv
  | cons op ops ih =>
    exact ih _ (applyOp_inv m st op hinv hadm.1) hadm.2

omit [DecidableEq S] in
theorem mobs_of_minv (m : Model S σ τ) (st : MState S σ τ) (hinv : MInv m st) :
    mobs st = (specObs m st.routes, m.scoreOf (specObs m st.routes)) := by
  obtain ⟨hlen, _, hall, hscore⟩ := hinv
  simp only [mobs, hscore,
    cachedObs_eq_specObs m _ _ hlen (fun w h h' => (hall w h h').1)]

theorem run_history_independent (m : Model S σ τ) (st₁ st₂ : MState S σ τ)
    (ops₁ ops₂ : List (Op S))
    (h₁ : MInv m st₁) (h₂ : MInv m st₂) (a₁ : AdmissibleRun m st₁ ops₁)
    (a₂ : AdmissibleRun m st₂ ops₂)
    (hr : (run m st₁ ops₁).routes = (run m st₂ ops₂).routes) :
    mobs (run m st₁ ops₁) = mobs (run m st₂ ops₂) := by
  rw [mobs_of_minv m _ (run_inv m st₁ ops₁ h₁ a₁), mobs_of_minv m _ (run_inv m st₂ ops₂ h₂ a₂), hr]

/-! ### The example of the statement file -/

theorem exStart_inv :
    MInv ({ eng := { step := fun p s => p + s, ok := fun v _ => decide (v ≤ 10) },
            inits := [0, 0],
            scoreOf := fun o => (o.map (fun r => (r.map (·.2)).foldl max 0)).foldl (· + ·) 0 }
            : Model Nat Nat Nat)
      ({ routes := [[], []], vals := fun _ => 0, score := 0 } : MState Nat Nat Nat) := by
  refine ⟨rfl, by decide, ?_, rfl⟩
  intro v h h'
  have hv : v < 2 := h
  match v, hv with
  | 0, _ => exact ⟨trivial, trivial⟩
  | 1, _ => exact ⟨trivial, trivial⟩

theorem exOp_adm :
    Admissible ({ routes := [[], []], vals := fun _ => 0, score := 0 } : MState Nat Nat Nat)
      ⟨0, 0, [3, 4]⟩ := by
  show ([[3, 4], []] : List (List Nat)).flatten.Nodup
  decide

theorem exOp_ok :
    (applyOp ({ eng := { step := fun p s => p + s, ok := fun v _ => decide (v ≤ 10) },
                    inits := [0, 0],
                    scoreOf := fun o => (o.map (fun r => (r.map (·.2)).foldl max 0)).foldl (· + ·) 0 }
                    : Model Nat Nat Nat)
      ({ routes := [[], []], vals := fun _ => 0, score := 0 } : MState Nat Nat Nat)
      ⟨0, 0, [3, 4]⟩).2 = true := by
  decide

theorem exOp_rejected :
    (applyOp ({ eng := { step := fun p s => p + s, ok := fun v _ => decide (v ≤ 10) },
                    inits := [0, 0],
                    scoreOf := fun o => (o.map (fun r => (r.map (·.2)).foldl max 0)).foldl (· + ·) 0 }
                    : Model Nat Nat Nat)
      (applyOp ({ eng := { step := fun p s => p + s, ok := fun v _ => decide (v ≤ 10) },
                    inits := [0, 0],
                    scoreOf := fun o => (o.map (fun r => (r.map (·.2)).foldl max 0)).foldl (· + ·) 0 }
                    : Model Nat Nat Nat)
        ({ routes := [[], []], vals := fun _ => 0, score := 0 } : MState Nat Nat Nat)
        ⟨0, 0, [3, 4]⟩).1 ⟨0, 1, [9, 4]⟩).2 = false := by
  decide

end NR.Proofs.Engine
