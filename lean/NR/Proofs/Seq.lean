/-
  NR.Proofs.Seq — proofs for C10S (the stop-order generator of a multi-stop plan unit).
-/
import NR.Seq
import Mathlib.Data.List.Basic
import Mathlib.Data.List.Nodup
import Mathlib.Data.List.Perm.Subperm

namespace NR.Proofs.Seq
open NR.Seq

/-! ### `pos` -/

theorem pos_append_mem {l r : List Nat} {x : Nat} (h : x ∈ l) : pos (l ++ r) x = pos l x :=
  List.idxOf_append_of_mem h

theorem pos_append_notMem {l r : List Nat} {x : Nat} (h : x ∉ l) :
    pos (l ++ r) x = l.length + pos r x :=
  List.idxOf_append_of_notMem h

theorem pos_lt_iff {l : List Nat} {x : Nat} : pos l x < l.length ↔ x ∈ l :=
  List.idxOf_lt_length_iff

theorem pos_le (l : List Nat) (x : Nat) : pos l x ≤ l.length :=
  List.idxOf_le_length

theorem pos_inj {l : List Nat} {x y : Nat} (hx : x ∈ l) (h : pos l x = pos l y) : x = y :=
  (List.idxOf_inj hx).1 h

theorem pos_concat_self {l : List Nat} {s : Nat} (h : s ∉ l) : pos (l ++ [s]) s = l.length := by
  rw [pos_append_notMem h]
  simp [pos]

/-! ### `directSucc`, `avail`, `cands` -/

theorem directSucc_some {arcs : List Arc} {s f : Nat} (h : directSucc arcs s = some f) :
    ∃ b ∈ arcs, b.o = s ∧ b.direct = true ∧ b.d = f := by
  unfold directSucc at h
  rw [Option.map_eq_some_iff] at h
  obtain ⟨b, hb, rfl⟩ := h
  have hp := List.find?_some hb
  have hm := List.mem_of_find?_eq_some hb
  simp only [Bool.and_eq_true, beq_iff_eq] at hp
  exact ⟨b, hm, hp.1, hp.2, rfl⟩

theorem directSucc_of_arc {arcs : List Arc}
    (hwf : ∀ a ∈ arcs, ∀ b ∈ arcs, a.o = b.o → a.direct = true → b.direct = true → a.d = b.d)
    {a : Arc} (ha : a ∈ arcs) (hd : a.direct = true) : directSucc arcs a.o = some a.d := by
  cases hds : directSucc arcs a.o with
  | none =>
    unfold directSucc at hds
    rw [Option.map_eq_none_iff, List.find?_eq_none] at hds
    have := hds a ha
    simp [hd] at this
  | some f =>
    obtain ⟨b, hb, hbo, hbd, rfl⟩ := directSucc_some hds
    rw [hwf a ha b hb hbo.symm hd hbd]

theorem avail_iff {arcs : List Arc} {placed : List Nat} {s : Nat} :
    avail arcs placed s = true ↔ s ∉ placed ∧ ∀ a ∈ arcs, a.d = s → a.o ∈ placed := by
  unfold avail
  simp only [Bool.and_eq_true, Bool.not_eq_true', List.all_eq_true, Bool.or_eq_true,
    bne_iff_ne, ne_eq, List.contains_iff_mem]
  constructor
  · rintro ⟨h1, h2⟩
    refine ⟨by simpa using h1, fun a ha hs => ?_⟩
    rcases h2 a ha with h | h
    · exact absurd hs h
    · exact h
  · rintro ⟨h1, h2⟩
    refine ⟨by simpa using h1, fun a ha => ?_⟩
    by_cases hs : a.d = s
    · exact Or.inr (h2 a ha hs)
    · exact Or.inl hs

theorem mem_cands {order : List Nat} {forced : Option Nat} {s : Nat} :
    s ∈ cands order forced ↔ s ∈ order ∧ (forced = none ∨ forced = some s) := by
  cases forced with
  | none => simp [cands]
  | some f =>
    simp only [cands, List.mem_filter, beq_iff_eq, reduceCtorEq, Option.some.injEq, false_or]
    constructor
    · rintro ⟨h, rfl⟩; exact ⟨h, rfl⟩
    · rintro ⟨h, rfl⟩; exact ⟨h, rfl⟩

theorem cands_nodup {order : List Nat} (forced : Option Nat) (h : order.Nodup) :
    (cands order forced).Nodup := by
  cases forced with
  | none => exact h
  | some f => exact h.filter _

/-! ### The invariant of the recursion -/

structure Inv (arcs : List Arc) (stops seq : List Nat) (forced : Option Nat) : Prop where
  nodup : seq.Nodup
  sub : ∀ x ∈ seq, x ∈ stops
  before : ∀ a ∈ arcs, a.d ∈ seq → pos seq a.o < pos seq a.d
  direct : ∀ a ∈ arcs, a.direct = true → pos seq a.o + 1 < seq.length →
    pos seq a.d = pos seq a.o + 1
  forced : forced = seq.getLast?.bind (directSucc arcs)

theorem inv_nil (arcs : List Arc) (stops : List Nat) : Inv arcs stops [] none where
  nodup := List.nodup_nil
  sub := by simp
  before := by simp
  direct := by simp
  forced := by simp

theorem inv_step {arcs : List Arc} {stops seq order : List Nat} {forced : Option Nat} {s : Nat}
    (hwf : WF arcs stops) (hord : order.Perm stops) (hinv : Inv arcs stops seq forced)
    (hs : s ∈ cands order forced) (hav : avail arcs seq s = true) :
    Inv arcs stops (seq ++ [s]) (directSucc arcs s) := by
  rw [avail_iff] at hav
  rw [mem_cands] at hs
  obtain ⟨hns, hpre⟩ := hav
  refine ⟨?_, ?_, ?_, ?_, ?_⟩
  · rw [List.nodup_append]
    refine ⟨hinv.nodup, List.nodup_singleton s, ?_⟩
    intro a ha b hb
    simp only [List.mem_singleton] at hb
    subst hb
    rintro rfl
    exact hns ha
  · intro x hx
    rcases List.mem_append.1 hx with h | h
    · exact hinv.sub x h
    · simp only [List.mem_singleton] at h
      subst h
      exact hord.subset hs.1
  · intro a ha hd
    rcases List.mem_append.1 hd with h | h
    · have hlt := hinv.before a ha h
      have hdl : pos seq a.d < seq.length := pos_lt_iff.2 h
      have ho : a.o ∈ seq := pos_lt_iff.1 (by omega)
      rw [pos_append_mem h, pos_append_mem ho]
      exact hlt
    · simp only [List.mem_singleton] at h
      have ho : a.o ∈ seq := hpre a ha h
      rw [h, pos_concat_self hns, pos_append_mem ho]
      exact pos_lt_iff.2 ho
  · intro a ha hd hlt
    simp only [List.length_append, List.length_singleton] at hlt
    have ho : a.o ∈ seq := by
      by_contra hno
      rw [pos_append_notMem hno] at hlt
      omega
    rw [pos_append_mem ho] at hlt ⊢
    by_cases hlast : pos seq a.o + 1 < seq.length
    · have h := hinv.direct a ha hd hlast
      have hdm : a.d ∈ seq := pos_lt_iff.1 (by omega)
      rw [pos_append_mem hdm]
      exact h
    · have hlen : pos seq a.o + 1 = seq.length := by omega
      -- `a.o` is the last element of `seq`
      have hgl : seq.getLast? = some a.o := by
        rw [List.getLast?_eq_getElem?]
        have : seq.length - 1 = List.idxOf a.o seq := by
          unfold pos at hlen; omega
        rw [this]
        exact List.getElem?_idxOf ho
      have hf : forced = some a.d := by
        rw [hinv.forced, hgl]
        simp only [Option.bind_some]
        exact directSucc_of_arc hwf.2.2 ha hd
      have hsd : s = a.d := by
        rcases hs.2 with h | h
        · rw [hf] at h; cases h
        · rw [hf] at h; exact (Option.some.inj h).symm
      rw [← hsd, pos_concat_self hns]
      omega
  · simp

/-! ### Soundness -/

theorem inv_valid {arcs : List Arc} {stops seq : List Nat} {forced : Option Nat}
    (hwf : WF arcs stops) (hinv : Inv arcs stops seq forced) (hlen : seq.length = stops.length) :
    Valid arcs stops seq := by
  have hperm : seq.Perm stops :=
    (hinv.nodup.subperm hinv.sub).perm_of_length_le (by omega)
  refine ⟨hperm, ?_⟩
  intro a ha
  obtain ⟨ho, hd, _⟩ := hwf.2.1 a ha
  have hdm : a.d ∈ seq := hperm.mem_iff.2 hd
  have hlt := hinv.before a ha hdm
  refine ⟨hlt, fun hdir => ?_⟩
  have := pos_lt_iff.2 hdm
  exact hinv.direct a ha hdir (by omega)

theorem gen_sound {arcs : List Arc} {stops : List Nat} {ord : List Nat → List Nat}
    (hwf : WF arcs stops) (hord : ∀ seq, (ord seq).Perm stops) :
    ∀ (n : Nat) (seq : List Nat) (forced : Option Nat), Inv arcs stops seq forced →
      n + seq.length = stops.length → ∀ out ∈ gen arcs ord n seq forced, Valid arcs stops out := by
  intro n
  induction n with
  | zero =>
    intro seq forced hinv hlen out hout
    simp only [gen, List.mem_singleton] at hout
    subst hout
    exact inv_valid hwf hinv (by omega)
  | succ n ih =>
    intro seq forced hinv hlen out hout
    simp only [gen, List.mem_flatMap] at hout
    obtain ⟨s, hs, hout⟩ := hout
    by_cases hav : avail arcs seq s = true
    · rw [if_pos hav] at hout
      refine ih (seq ++ [s]) (directSucc arcs s) (inv_step hwf (hord seq) hinv hs hav) ?_ out hout
      simp only [List.length_append, List.length_singleton]
      omega
    · rw [if_neg hav] at hout
      cases hout

theorem orders_sound (arcs : List Arc) (stops : List Nat) (ord : List Nat → List Nat)
    (hwf : WF arcs stops) (hord : ∀ seq, (ord seq).Perm stops) (seq : List Nat)
    (h : seq ∈ orders arcs ord stops.length) : Valid arcs stops seq :=
  gen_sound hwf hord stops.length [] none (inv_nil arcs stops) (by simp) seq h

/-! ### Completeness -/

theorem gen_complete {arcs : List Arc} {stops : List Nat} {ord : List Nat → List Nat}
    (hwf : WF arcs stops) (hord : ∀ seq, (ord seq).Perm stops) {out : List Nat}
    (hv : Valid arcs stops out) :
    ∀ (n : Nat) (seq rest : List Nat) (forced : Option Nat), out = seq ++ rest → rest.length = n →
      forced = seq.getLast?.bind (directSucc arcs) → out ∈ gen arcs ord n seq forced := by
  obtain ⟨hperm, hresp⟩ := hv
  have hnd : out.Nodup := hperm.nodup_iff.2 hwf.1
  intro n
  induction n with
  | zero =>
    intro seq rest forced hout hlen _
    have : rest = [] := List.eq_nil_of_length_eq_zero hlen
    subst this
    simp [gen, hout]
  | succ n ih =>
    intro seq rest forced hout hlen hforced
    cases rest with
    | nil => simp at hlen
    | cons s r =>
      have hout' : out = (seq ++ [s]) ++ r := by simp [hout]
      have hsout : s ∈ out := by rw [hout]; simp
      have hnd' : (seq ++ [s]).Nodup := by
        rw [hout'] at hnd
        exact (List.nodup_append.1 hnd).1
      have hns : s ∉ seq := by
        intro hm
        exact (List.nodup_append.1 hnd').2.2 s hm s (by simp) rfl
      have hposs : pos out s = seq.length := by
        rw [hout', pos_append_mem (by simp), pos_concat_self hns]
      have hav : avail arcs seq s = true := by
        rw [avail_iff]
        refine ⟨hns, fun a ha hd => ?_⟩
        have hlt := (hresp a ha).1
        rw [hd, hposs] at hlt
        by_contra hno
        rw [hout, pos_append_notMem hno] at hlt
        omega
      simp only [gen, List.mem_flatMap]
      refine ⟨s, ?_, ?_⟩
      · rw [mem_cands]
        refine ⟨(hord seq).mem_iff.2 (hperm.mem_iff.1 hsout), ?_⟩
        cases hgl : seq.getLast? with
        | none => left; rw [hforced, hgl]; rfl
        | some l =>
          rw [hgl] at hforced
          simp only [Option.bind_some] at hforced
          cases hds : directSucc arcs l with
          | none => left; rw [hforced, hds]
          | some f =>
            right
            rw [hforced, hds]
            obtain ⟨b, hb, hbo, hbdir, hbd⟩ := directSucc_some hds
            obtain ⟨q, rfl⟩ := List.getLast?_eq_some_iff.1 hgl
            have hlq : l ∉ q := by
              intro hm
              have := (List.nodup_append.1 hnd').1
              exact (List.nodup_append.1 this).2.2 l hm l (by simp) rfl
            have hposl : pos out l = q.length := by
              rw [hout, List.append_assoc, pos_append_notMem hlq]
              simp [pos]
            have h2 := (hresp b hb).2 hbdir
            rw [hbo, hbd, hposl] at h2
            have : pos out s = pos out f := by
              rw [hposs, h2]; simp
            rw [pos_inj hsout this]
      · rw [if_pos hav]
        exact ih (seq ++ [s]) r (directSucc arcs s) hout' (by simpa using hlen) (by simp)

theorem orders_complete (arcs : List Arc) (stops : List Nat) (ord : List Nat → List Nat)
    (hwf : WF arcs stops) (hord : ∀ seq, (ord seq).Perm stops) (seq : List Nat)
    (h : Valid arcs stops seq) : seq ∈ orders arcs ord stops.length :=
  gen_complete hwf hord h stops.length [] seq none (by simp) h.1.length_eq (by simp)

/-! ### Each order once -/

theorem gen_prefix {arcs : List Arc} {ord : List Nat → List Nat} :
    ∀ (n : Nat) (seq : List Nat) (forced : Option Nat), ∀ out ∈ gen arcs ord n seq forced,
      ∃ rest, out = seq ++ rest := by
  intro n
  induction n with
  | zero =>
    intro seq forced out hout
    simp only [gen, List.mem_singleton] at hout
    exact ⟨[], by simp [hout]⟩
  | succ n ih =>
    intro seq forced out hout
    simp only [gen, List.mem_flatMap] at hout
    obtain ⟨s, _, hout⟩ := hout
    split at hout
    · obtain ⟨rest, h⟩ := ih _ _ out hout
      exact ⟨s :: rest, by simp [h]⟩
    · cases hout

theorem gen_nodup {arcs : List Arc} {stops : List Nat} {ord : List Nat → List Nat}
    (hnd : stops.Nodup) (hord : ∀ seq, (ord seq).Perm stops) :
    ∀ (n : Nat) (seq : List Nat) (forced : Option Nat), (gen arcs ord n seq forced).Nodup := by
  intro n
  induction n with
  | zero => intro seq forced; simp [gen]
  | succ n ih =>
    intro seq forced
    simp only [gen]
    rw [List.nodup_flatMap]
    refine ⟨?_, ?_⟩
    · intro s _
      split
      · exact ih _ _
      · exact List.nodup_nil
    · refine (cands_nodup forced ((hord seq).nodup_iff.2 hnd)).imp ?_
      intro a b hab
      show List.Disjoint _ _
      rw [List.disjoint_left]
      intro c hc hc'
      beta_reduce at hc hc'
      split at hc
      · split at hc'
        · obtain ⟨r1, h1⟩ := gen_prefix _ _ _ c hc
          obtain ⟨r2, h2⟩ := gen_prefix _ _ _ c hc'
          rw [h1] at h2
          simp only [List.append_assoc, List.append_cancel_left_eq, List.cons_append,
            List.nil_append, List.cons.injEq] at h2
          exact hab h2.1
        · cases hc'
      · cases hc

theorem orders_nodup (arcs : List Arc) (stops : List Nat) (ord : List Nat → List Nat)
    (hwf : WF arcs stops) (hord : ∀ seq, (ord seq).Perm stops) :
    (orders arcs ord stops.length).Nodup :=
  gen_nodup hwf.1 hord stops.length [] none

theorem orders_perm (arcs : List Arc) (stops : List Nat) (ord ord' : List Nat → List Nat)
    (hwf : WF arcs stops) (hord : ∀ seq, (ord seq).Perm stops) (hord' : ∀ seq, (ord' seq).Perm stops) :
    (orders arcs ord stops.length).Perm (orders arcs ord' stops.length) := by
  rw [List.perm_ext_iff_of_nodup (orders_nodup arcs stops ord hwf hord)
    (orders_nodup arcs stops ord' hwf hord')]
  intro seq
  exact ⟨fun h => orders_complete arcs stops ord' hwf hord' seq (orders_sound arcs stops ord hwf hord seq h),
    fun h => orders_complete arcs stops ord hwf hord seq (orders_sound arcs stops ord' hwf hord' seq h)⟩

/-! ### The sample -/

theorem sample_prefix (arcs : List Arc) (ord : List Nat → List Nat) (k cap : Nat) :
    sample arcs ord k cap <+: orders arcs ord k ∧
    ((orders arcs ord k).length ≤ cap → sample arcs ord k cap = orders arcs ord k) :=
  ⟨List.take_prefix _ _, fun h => List.take_of_length_le h⟩

/-! ### E24 -/

theorem e24_counterexample :
    WF [⟨0, 1, true⟩, ⟨2, 1, false⟩] [0, 1, 2] ∧
    Valid [⟨0, 1, true⟩, ⟨2, 1, false⟩] [0, 1, 2] [2, 0, 1] ∧
    genStale [⟨0, 1, true⟩, ⟨2, 1, false⟩] (fun _ => [0, 2, 1]) 3 [] none = [] ∧
    genStale [⟨0, 1, true⟩, ⟨2, 1, false⟩] (fun _ => [2, 0, 1]) 3 [] none = [[2, 0, 1]] ∧
    orders [⟨0, 1, true⟩, ⟨2, 1, false⟩] (fun _ => [0, 2, 1]) 3 = [[2, 0, 1]] := by
  refine ⟨?_, ?_, ?_, ?_, ?_⟩
  · unfold WF
    refine ⟨by decide, by decide, by decide⟩
  · unfold Valid Respects
    refine ⟨?_, by decide⟩
    decide
  · decide
  · decide
  · decide

end NR.Proofs.Seq
