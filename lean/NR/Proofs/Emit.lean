import NR.Emit
import Mathlib.Tactic.Linarith
import Mathlib.Order.Lattice
namespace NR.Proofs.Emit
open NR.Emit

theorem getLast_cons_getLastD {α} (b : α) (l : List α) :
    (b :: l).getLast (by simp) = l.getLastD b := by
  induction l generalizing b with
  | nil => rfl
  | cons y t ih =>
    rw [List.getLast_cons (by simp)]
    simp only [List.getLastD_cons]
    exact ih y

theorem emit_head_lt (b : Rat) (xs : List Rat) : ∀ y ∈ (emit b xs).head?, y < b := by
  induction xs generalizing b with
  | nil => simp [emit]
  | cons x xs ih =>
    unfold emit
    split
    · exact ih b
    · intro y hy; simp at hy; subst hy; rename_i h; exact lt_of_not_ge h

theorem strictDesc_cons (b : Rat) (l : List Rat) (h : ∀ y ∈ l.head?, y < b) (hl : StrictDesc l) :
    StrictDesc (b :: l) := by
  cases l with
  | nil => trivial
  | cons y r => exact ⟨h y (by simp), hl⟩

theorem emit_strict (b : Rat) (xs : List Rat) : StrictDesc (b :: emit b xs) := by
  induction xs generalizing b with
  | nil => simp [emit, StrictDesc]
  | cons x xs ih =>
    unfold emit
    split
    · exact ih b
    · rename_i h
      exact ⟨lt_of_not_ge h, ih x⟩

theorem lmin_le (b : Rat) (xs : List Rat) : lmin b xs ≤ b := by
  induction xs generalizing b with
  | nil => simp [lmin]
  | cons x xs ih =>
    simp only [lmin, List.foldl_cons] at *
    exact le_trans (ih (min b x)) (min_le_left _ _)

theorem lmin_le_mem (b : Rat) (xs : List Rat) : ∀ x ∈ xs, lmin b xs ≤ x := by
  induction xs generalizing b with
  | nil => simp
  | cons y ys ih =>
    intro x hx
    simp only [lmin, List.foldl_cons] at *
    rcases List.mem_cons.mp hx with rfl | h
    · exact le_trans (lmin_le (min b x) ys) (min_le_right _ _)
    · exact ih (min b y) x h

/-- The last delivered score is the minimum of everything received and the initial best. -/
theorem emit_last (b : Rat) (xs : List Rat) :
    (emit b xs).getLastD b = lmin b xs := by
  induction xs generalizing b with
  | nil => simp [emit, lmin]
  | cons x xs ih =>
    unfold emit
    split
    · rename_i h
      have : min b x = b := min_eq_left h
      simp only [lmin, List.foldl_cons, this]
      exact ih b
    · rename_i h
      have hx : x < b := lt_of_not_ge h
      have : min b x = x := min_eq_right (le_of_lt hx)
      simp only [lmin, List.foldl_cons, this, List.getLastD_cons]
      exact ih x

theorem minStart_le (b : Rat) (xs : List Rat) : minStart b xs ≤ b ∧ ∀ x ∈ xs, minStart b xs ≤ x := by
  induction xs generalizing b with
  | nil => simp [minStart]
  | cons x xs ih =>
    unfold minStart
    split
    · rename_i h
      obtain ⟨h1, h2⟩ := ih x
      refine ⟨le_trans h1 (le_of_lt h), ?_⟩
      intro y hy
      rcases List.mem_cons.mp hy with rfl | hy
      · exact h1
      · exact h2 y hy
    · rename_i h
      obtain ⟨h1, h2⟩ := ih b
      refine ⟨h1, ?_⟩
      intro y hy
      rcases List.mem_cons.mp hy with rfl | hy
      · exact le_trans h1 (not_lt.mp h)
      · exact h2 y hy

/-- Every delivered score is ≤ the initial best. -/
theorem emit_all_le (b : Rat) (xs : List Rat) : ∀ y ∈ emit b xs, y < b := by
  induction xs generalizing b with
  | nil => simp [emit]
  | cons x xs ih =>
    unfold emit
    split
    · exact ih b
    · rename_i h
      have hx : x < b := lt_of_not_ge h
      intro y hy
      rcases List.mem_cons.mp hy with rfl | hy
      · exact hx
      · exact lt_trans (ih x y hy) hx

/-! Single solver -/

theorem srun_strict (s : SState) (es : List Ev) :
    StrictDesc (s.best :: (srun s es).2) ∧ (srun s es).1.best ≤ s.best := by
  induction es generalizing s with
  | nil => simp [srun, StrictDesc]
  | cons e es ih =>
    cases e with
    | op w ci =>
      simp only [srun, sstep]
      by_cases hci : ci = true
      · by_cases hw : w - s.best ≥ 0
        · simp [hci, hw]; exact ih ⟨s.best, w⟩
        · simp [hci, hw]
          have hlt : w < s.best := by linarith [not_le.mp hw]
          obtain ⟨h1, h2⟩ := ih ⟨w, w⟩
          exact ⟨⟨hlt, h1⟩, le_trans h2 (le_of_lt hlt)⟩
      · simp [hci]; exact ih ⟨s.best, w⟩
    | reset r =>
      simp only [srun, sstep]
      by_cases hr : r < s.best
      · simp [hr]
        obtain ⟨h1, h2⟩ := ih ⟨r, r⟩
        refine ⟨?_, le_trans h2 (le_of_lt hr)⟩
        -- deliveries after an improving reset are below r < best
        cases hl : (srun ⟨r, r⟩ es).2 with
        | nil => trivial
        | cons y t =>
          rw [hl] at h1
          exact ⟨lt_trans h1.1 hr, h1.2⟩
      · simp [hr]; exact ih ⟨s.best, r⟩

/-- Without improving resets the last delivered score *is* the solver's best. -/
theorem srun_last (s : SState) (es : List Ev) (h : NoImprovingReset s es) :
    (srun s es).2.getLastD s.best = (srun s es).1.best := by
  induction es generalizing s with
  | nil => simp [srun]
  | cons e es ih =>
    obtain ⟨h0, h1⟩ := h
    cases e with
    | op w ci =>
      simp only [srun, sstep] at *
      by_cases hci : ci = true
      · by_cases hw : w - s.best ≥ 0
        · simp [hci, hw] at *; exact ih ⟨s.best, w⟩ h1
        · simp [hci, hw] at *
          have := ih ⟨w, w⟩ h1
          cases hl : (srun ⟨w, w⟩ es).2 with
          | nil => simp [hl] at this ⊢; exact this
          | cons y t => simp [hl, List.getLast?_cons_cons] at this ⊢; exact this
      · simp [hci] at *; exact ih ⟨s.best, w⟩ h1
    | reset r =>
      simp only [srun, sstep] at *
      have hr : ¬ r < s.best := not_lt.mpr h0
      simp [hr] at *
      exact ih ⟨s.best, r⟩ h1

theorem emitG_eq_emit (skip : Rat → Rat → Bool) (h : ∀ x b, skip x b = decide (x ≥ b))
    (b : Rat) (xs : List Rat) : emitG skip b xs = emit b xs := by
  induction xs generalizing b with
  | nil => rfl
  | cons x xs ih => simp [emitG, emit, h, ih]

theorem minStartG_eq (better : Rat → Rat → Bool) (h : ∀ x b, better x b = decide (x < b))
    (b : Rat) (xs : List Rat) : minStartG better b xs = minStart b xs := by
  induction xs generalizing b with
  | nil => rfl
  | cons x xs ih => simp [minStartG, minStart, h, ih]

theorem sstepG_eq (skip better : Rat → Rat → Bool)
    (h1 : ∀ x b, skip x b = decide (x ≥ b)) (h2 : ∀ x b, better x b = decide (x < b))
    (s : SState) (e : Ev) : sstepG skip better s e = sstep s e := by
  cases e <;> simp [sstepG, sstep, h1, h2]

end NR.Proofs.Emit
