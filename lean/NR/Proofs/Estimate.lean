import NR.Estimate
import Mathlib.Tactic.Linarith
import Mathlib.Tactic.Ring
namespace NR.Proofs.Estimate
open NR.Estimate

/-! ### basic facts -/

theorem bad_false_iff (max x : Rat) : bad max x = false ↔ 0 ≤ x ∧ x ≤ max := by
  unfold bad
  rw [decide_eq_false_iff_not]
  constructor
  · intro h
    constructor
    · by_contra hc; exact h (Or.inr (lt_of_not_ge hc))
    · by_contra hc; exact h (Or.inl (lt_of_not_ge hc))
  · rintro ⟨h0, h1⟩ (h | h)
    · exact absurd h (not_lt.mpr h1)
    · exact absurd h (not_lt.mpr h0)

theorem bad_true_iff (max x : Rat) : bad max x = true ↔ (x > max ∨ x < 0) := by
  unfold bad
  rw [decide_eq_true_iff]

theorem any_bad_false_iff (max : Rat) (l : List Rat) :
    l.any (bad max) = false ↔ ∀ x ∈ l, bad max x = false := by
  induction l with
  | nil => simp
  | cons a t ih => simp [List.any_cons, ih]

theorem any_bad_true_iff (max : Rat) (l : List Rat) :
    l.any (bad max) = true ↔ ∃ x ∈ l, bad max x = true := by
  induction l with
  | nil => simp
  | cons a t ih => simp [List.any_cons]

theorem total_nil (base : Rat) : total base [] = base := rfl

theorem total_cons (base v : Rat) (vs : List Rat) : total base (v :: vs) = total (base + v) vs := rfl

theorem total_append (base : Rat) (a b : List Rat) :
    total base (a ++ b) = total (total base a) b := by
  unfold total; rw [List.foldl_append]

theorem levelsFrom_append (base : Rat) (a b : List Rat) :
    levelsFrom base (a ++ b) = levelsFrom base a ++ levelsFrom (total base a) b := by
  induction a generalizing base with
  | nil => rfl
  | cons v vs ih =>
    show (base + v) :: levelsFrom (base + v) (vs ++ b) = _
    rw [ih]; rfl

/-- For a non-empty list, the final running sum is one of the levels. -/
theorem total_mem_levelsFrom (base : Rat) (vs : List Rat) (hne : vs ≠ []) :
    total base vs ∈ levelsFrom base vs := by
  induction vs generalizing base with
  | nil => exact absurd rfl hne
  | cons v vs ih =>
    rw [total_cons]
    show total (base + v) vs ∈ (base + v) :: levelsFrom (base + v) vs
    by_cases hvs : vs = []
    · subst hvs; rw [total_nil]; exact List.mem_cons_self
    · exact List.mem_cons_of_mem _ (ih (base + v) hvs)

theorem base_le_total (base : Rat) (vs : List Rat) (hnn : ∀ v ∈ vs, 0 ≤ v) :
    base ≤ total base vs := by
  induction vs generalizing base with
  | nil => rw [total_nil]
  | cons v vs ih =>
    rw [total_cons]
    have h1 : 0 ≤ v := hnn v List.mem_cons_self
    have h2 := ih (base + v) (fun w hw => hnn w (List.mem_cons_of_mem _ hw))
    linarith

theorem level_ge_base (base : Rat) (vs : List Rat) (hnn : ∀ v ∈ vs, 0 ≤ v) :
    ∀ l ∈ levelsFrom base vs, base ≤ l := by
  induction vs generalizing base with
  | nil => intro l hl; cases hl
  | cons v vs ih =>
    intro l hl
    have h1 : 0 ≤ v := hnn v List.mem_cons_self
    have hl' : l ∈ (base + v) :: levelsFrom (base + v) vs := hl
    rcases List.mem_cons.mp hl' with rfl | hm
    · linarith
    · have := ih (base + v) (fun w hw => hnn w (List.mem_cons_of_mem _ hw)) l hm
      linarith

theorem level_le_total (base : Rat) (vs : List Rat) (hnn : ∀ v ∈ vs, 0 ≤ v) :
    ∀ l ∈ levelsFrom base vs, l ≤ total base vs := by
  induction vs generalizing base with
  | nil => intro l hl; cases hl
  | cons v vs ih =>
    intro l hl
    rw [total_cons]
    have hnn' : ∀ w ∈ vs, 0 ≤ w := fun w hw => hnn w (List.mem_cons_of_mem _ hw)
    have hl' : l ∈ (base + v) :: levelsFrom (base + v) vs := hl
    rcases List.mem_cons.mp hl' with rfl | hm
    · exact base_le_total _ vs hnn'
    · exact ih (base + v) hnn' l hm

/-- Shift lemma for the final running sum. -/
theorem total_shift (b d : Rat) (vs : List Rat) : total (b + d) vs = total b vs + d := by
  induction vs generalizing b with
  | nil => rfl
  | cons v vs ih =>
    rw [total_cons, total_cons]
    have : b + d + v = (b + v) + d := by ring
    rw [this, ih]

/-- Shift lemma for the levels. -/
theorem levelsFrom_shift (b d : Rat) (vs : List Rat) :
    levelsFrom (b + d) vs = (levelsFrom b vs).map (· + d) := by
  induction vs generalizing b with
  | nil => rfl
  | cons v vs ih =>
    show (b + d + v) :: levelsFrom (b + d + v) vs = ((b + v) + d) :: (levelsFrom (b + v) vs).map (· + d)
    have : b + d + v = (b + v) + d := by ring
    rw [this, ih]

/-! ### regime (2) -/

theorem exactOK_true_iff (max base : Rat) (win tail : List Rat) :
    exactOK max base win tail = true ↔
      (∀ l ∈ levelsFrom base win, bad max l = false) ∧
      (∀ l ∈ levelsFrom (total base win) tail, bad max l = false) := by
  unfold exactOK
  rw [Bool.not_eq_true', any_bad_false_iff, levelsFrom_append]
  constructor
  · intro h
    exact ⟨fun l hl => h l (List.mem_append_left _ hl), fun l hl => h l (List.mem_append_right _ hl)⟩
  · rintro ⟨h1, h2⟩ l hl
    rcases List.mem_append.mp hl with h | h
    · exact h1 l h
    · exact h2 l h

theorem exactOK_false_of_bad (max base : Rat) (win tail : List Rat) (l : Rat)
    (hl : l ∈ levelsFrom base win ∨ l ∈ levelsFrom (total base win) tail) (hb : bad max l = true) :
    exactOK max base win tail = false := by
  unfold exactOK
  rw [Bool.not_eq_false', any_bad_true_iff, levelsFrom_append]
  exact ⟨l, List.mem_append.mpr hl, hb⟩

theorem maximum_sound (max base : Rat) (win tail : List Rat) (oldCumNext oldLast : Rat) (hasNeg : Bool)
    (hold : (∀ l ∈ levelsFrom oldCumNext tail, bad max l = false) ∧ total oldCumNext tail = oldLast ∧
      bad max oldCumNext = false)
    (hneg : hasNeg = false → (∀ v ∈ win, 0 ≤ v) ∧ (∀ v ∈ tail, 0 ≤ v))
    (hwin : win ≠ [])
    (h : maxEstimate max base win tail oldCumNext oldLast hasNeg = false) :
    exactOK max base win tail = true := by
  obtain ⟨hlev, htot, _⟩ := hold
  unfold maxEstimate at h
  by_cases hw : (levelsFrom base win).any (bad max) = true
  · rw [if_pos hw] at h; exact absurd h (by decide)
  · rw [if_neg hw] at h
    have hw' : ∀ l ∈ levelsFrom base win, bad max l = false :=
      (any_bad_false_iff _ _).mp (Bool.eq_false_iff.mpr hw)
    rw [exactOK_true_iff]
    refine ⟨hw', ?_⟩
    have hlevel := (bad_false_iff _ _).mp (hw' _ (total_mem_levelsFrom base win hwin))
    cases hasNeg with
    | false =>
      simp only [Bool.not_false, if_true] at h
      have hcmp : ¬ (total base win - oldCumNext + oldLast > max) := of_decide_eq_false h
      obtain ⟨_, hnt⟩ := hneg rfl
      intro l hl
      rw [bad_false_iff]
      have h1 := level_ge_base _ tail hnt l hl
      have h2 := level_le_total _ tail hnt l hl
      have h3 : total (total base win) tail = total oldCumNext tail + (total base win - oldCumNext) := by
        rw [← total_shift]; congr 1; ring
      rw [htot] at h3
      have h4 := not_lt.mp hcmp
      constructor
      · linarith [hlevel.1]
      · linarith
    | true =>
      simp only [Bool.not_true, Bool.false_eq_true, if_false] at h
      by_cases hne : oldCumNext ≠ total base win
      · rw [if_pos hne] at h
        exact (any_bad_false_iff _ _).mp h
      · have heq : oldCumNext = total base win := not_not.mp hne
        rw [← heq]; exact hlev

theorem maximum_complete (max base : Rat) (win tail : List Rat) (oldCumNext oldLast : Rat) (hasNeg : Bool)
    (hold : (∀ l ∈ levelsFrom oldCumNext tail, bad max l = false) ∧ total oldCumNext tail = oldLast ∧
      bad max oldCumNext = false)
    (hneg : hasNeg = false → (∀ v ∈ win, 0 ≤ v) ∧ (∀ v ∈ tail, 0 ≤ v))
    (hwin : win ≠ [])
    (h : maxEstimate max base win tail oldCumNext oldLast hasNeg = true) :
    exactOK max base win tail = false := by
  obtain ⟨_, htot, _⟩ := hold
  unfold maxEstimate at h
  by_cases hw : (levelsFrom base win).any (bad max) = true
  · obtain ⟨l, hl, hb⟩ := (any_bad_true_iff _ _).mp hw
    exact exactOK_false_of_bad max base win tail l (Or.inl hl) hb
  · rw [if_neg hw] at h
    have hw' : ∀ l ∈ levelsFrom base win, bad max l = false :=
      (any_bad_false_iff _ _).mp (Bool.eq_false_iff.mpr hw)
    have hlevel := (bad_false_iff _ _).mp (hw' _ (total_mem_levelsFrom base win hwin))
    cases hasNeg with
    | false =>
      simp only [Bool.not_false, if_true] at h
      have hcmp : total base win - oldCumNext + oldLast > max := of_decide_eq_true h
      have h3 : total (total base win) tail = total oldCumNext tail + (total base win - oldCumNext) := by
        rw [← total_shift]; congr 1; ring
      rw [htot] at h3
      by_cases ht : tail = []
      · subst ht
        rw [total_nil] at htot
        exfalso
        have := hlevel.2
        linarith
      · refine exactOK_false_of_bad max base win tail _
          (Or.inr (total_mem_levelsFrom (total base win) tail ht)) ?_
        rw [bad_true_iff]; left; linarith
    | true =>
      simp only [Bool.not_true, Bool.false_eq_true, if_false] at h
      by_cases hne : oldCumNext ≠ total base win
      · rw [if_pos hne] at h
        obtain ⟨l, hl, hb⟩ := (any_bad_true_iff _ _).mp h
        exact exactOK_false_of_bad max base win tail l (Or.inr hl) hb
      · rw [if_neg hne] at h; exact absurd h (by decide)

/-! ### regime (1) -/

theorem maximum_const (max l0 oldLast delta : Rat) (vs : List Rat)
    (hl0 : 0 ≤ l0) (hnn : ∀ v ∈ vs, 0 ≤ v) (hsum : total l0 vs = oldLast + delta) (hne : vs ≠ []) :
    maxEstimateConst max oldLast delta = false ↔ (levelsFrom l0 vs).any (bad max) = false := by
  unfold maxEstimateConst
  rw [decide_eq_false_iff_not, any_bad_false_iff, ← hsum]
  constructor
  · intro h l hl
    rw [bad_false_iff]
    have h1 := level_ge_base l0 vs hnn l hl
    have h2 := level_le_total l0 vs hnn l hl
    have h3 := not_lt.mp h
    constructor <;> linarith
  · intro h
    have := (bad_false_iff _ _).mp (h _ (total_mem_levelsFrom l0 vs hne))
    exact not_lt.mpr this.2

end NR.Proofs.Estimate
