import NR.Units
import NR.Proofs.UnitsBasic
import NR.Proofs.UnitsSteps
/-! To prove: the index bookkeeping of the factory's grouping of relations into plan units is right after every
relation, and the outcome is the partition of the mentioned stops into the connected components of the relation graph. -/
namespace NR.Units

/-- the invariant: the table is right and the units are disjoint sets -/
def Inv (st : St) : Prop := TableOK st ∧ Disjoint st

/-- `Inv` in the positional form the proofs work with -/
theorem inv_iff_good (st : St) : Inv st ↔ Good st := by
  unfold Inv TableOK Disjoint
  simp only [at_iff_getD]
  constructor
  · rintro ⟨h1, h2, h3⟩
    refine ⟨h1, ?_, ?_⟩
    · intro k u hu
      exact h2 u (List.mem_of_getElem? hu)
    · intro i j s hi hj
      exact h3 i j s hi.lt hj.lt ((at_iff_getD _ _ _).2 hi).2 ((at_iff_getD _ _ _).2 hj).2
  · rintro ⟨h1, h2, h3⟩
    refine ⟨h1, ?_, ?_⟩
    · intro u hu
      obtain ⟨k, hk⟩ := List.mem_iff_getElem?.1 hu
      exact h2 k u hk
    · intro i j s hi hj hsi hsj
      exact h3 i j s ((at_iff_getD _ _ _).1 ⟨hi, hsi⟩) ((at_iff_getD _ _ _).1 ⟨hj, hsj⟩)

theorem good_init : Good {} := by
  refine ⟨?_, ?_, ?_⟩
  · intro s i
    simp [look, At]
  · intro k u hu
    simp at hu
  · intro i j s hi
    simp [At] at hi

theorem hist_init : Hist [] {} := by
  refine ⟨?_, ?_, ?_⟩
  · intro k u hu
    simp at hu
  · intro k s t hs
    simp [At] at hs
  · intro a b hab
    cases hab

/-- what `step` does, by the four cases of the table lookups -/
theorem step_cases (st : St) (a b : Nat) (h : Good st) :
    (∃ i, AddT st (step st (a, b)) i a b ∧ ((∀ s, ¬ At st.units i s) ∨ At st.units i a ∨ At st.units i b)) ∨
    (step st (a, b) = st ∧ ∃ i, At st.units i a ∧ At st.units i b) ∨
    (∃ i1 i2, i1 < i2 ∧ i2 < st.units.length ∧ step st (a, b) = mergeLt st i1 i2 ∧
      ((At st.units i1 a ∧ At st.units i2 b) ∨ (At st.units i1 b ∧ At st.units i2 a))) := by
  unfold step
  simp only
  cases h1 : look st.inUnit a with
  | none =>
    cases h2 : look st.inUnit b with
    | none =>
      simp only
      refine Or.inl ⟨st.units.length, addT_new st a b h h1 h2, Or.inl ?_⟩
      intro s hs
      exact absurd hs.lt (Nat.lt_irrefl _)
    | some j =>
      simp only
      have hj := (h.table b j).1 h2
      refine Or.inl ⟨j, addT_ext st j a b h hj.lt ?_ ?_, Or.inr (Or.inr hj)⟩
      · intro k hk
        rw [← h.table, h1] at hk; cases hk
      · intro k hk
        exact h.disj _ _ _ hk hj
  | some i =>
    have hi := (h.table a i).1 h1
    cases h2 : look st.inUnit b with
    | none =>
      simp only
      refine Or.inl ⟨i, addT_ext st i a b h hi.lt ?_ ?_, Or.inr (Or.inl hi)⟩
      · intro k hk
        exact h.disj _ _ _ hk hi
      · intro k hk
        rw [← h.table, h2] at hk; cases hk
    | some j =>
      simp only
      have hj := (h.table b j).1 h2
      by_cases e : i = j
      · subst e
        rw [if_pos rfl]
        exact Or.inr (Or.inl ⟨rfl, i, hi, hj⟩)
      · rw [if_neg e, merge_eq]
        refine Or.inr (Or.inr ⟨min i j, max i j, by omega, ?_, rfl, ?_⟩)
        · have := hi.lt; have := hj.lt; omega
        · rcases Nat.lt_or_gt_of_ne e with lt | gt
          · rw [Nat.min_eq_left (Nat.le_of_lt lt), Nat.max_eq_right (Nat.le_of_lt lt)]
            exact Or.inl ⟨hi, hj⟩
          · rw [Nat.min_eq_right (Nat.le_of_lt gt), Nat.max_eq_left (Nat.le_of_lt gt)]
            exact Or.inr ⟨hj, hi⟩

theorem good_step (st : St) (r : Nat × Nat) (h : Good st) : Good (step st r) := by
  obtain ⟨a, b⟩ := r
  rcases step_cases st a b h with ⟨i, T, _⟩ | ⟨e, _⟩ | ⟨i1, i2, h12, h2, e, _⟩
  · exact T.good h
  · rw [e]; exact h
  · rw [e]; exact mergeLt_good st i1 i2 h h12 h2

theorem hist_step (rels : List (Nat × Nat)) (st : St) (r : Nat × Nat) (h : Good st) (hh : Hist rels st) :
    Hist (rels ++ [r]) (step st r) := by
  obtain ⟨a, b⟩ := r
  have hrel : Conn (rels ++ [(a, b)]) a b := Conn.rel (by simp)
  rcases step_cases st a b h with ⟨i, T, hc⟩ | ⟨e, i, hia, hib⟩ | ⟨i1, i2, h12, h2, e, hab⟩
  · refine T.hist hh ?_
    intro s hs
    rcases hc with hc | hc | hc
    · exact absurd hs (hc s)
    · exact Conn.mono mem_rels_append_left (hh.conn i s a hs hc)
    · exact Conn.trans (Conn.mono mem_rels_append_left (hh.conn i s b hs hc)) (Conn.symm hrel)
  · rw [e]
    refine ⟨hh.ne, ?_, ?_⟩
    · intro k s t hs ht
      exact Conn.mono mem_rels_append_left (hh.conn k s t hs ht)
    · intro p q hpq
      rw [List.mem_append] at hpq
      rcases hpq with hpq | hpq
      · exact hh.cov p q hpq
      · simp at hpq
        obtain ⟨rfl, rfl⟩ := hpq
        exact ⟨i, hia, hib⟩
  · rw [e]; exact mergeLt_hist st i1 i2 a b rels hh h12 h2 hab

theorem full_foldl (rels : List (Nat × Nat)) : ∀ (pre : List (Nat × Nat)) (st : St), Good st → Hist pre st →
    Good (rels.foldl step st) ∧ Hist (pre ++ rels) (rels.foldl step st) := by
  induction rels with
  | nil => intro pre st h hh; simpa using ⟨h, hh⟩
  | cons r t ih =>
    intro pre st h hh
    have := ih (pre ++ [r]) (step st r) (good_step st r h) (hist_step pre st r h hh)
    simpa using this

theorem good_run (rels : List (Nat × Nat)) : Good (run rels) :=
  (full_foldl rels [] {} good_init hist_init).1

theorem hist_run (rels : List (Nat × Nat)) : Hist rels (run rels) := by
  have := (full_foldl rels [] {} good_init hist_init).2
  rw [List.nil_append] at this
  exact this

theorem inv_init : Inv {} := (inv_iff_good _).2 good_init

theorem inv_step (st : St) (r : Nat × Nat) (h : Inv st) : Inv (step st r) :=
  (inv_iff_good _).2 (good_step st r ((inv_iff_good _).1 h))

theorem inv_run (rels : List (Nat × Nat)) : Inv (run rels) :=
  (inv_iff_good _).2 (good_run rels)

/-- C16: every index the table hands out is in range, after any list of relations -/
theorem run_index_in_range (rels : List (Nat × Nat)) (s i : Nat)
    (h : look (run rels).inUnit s = some i) : i < (run rels).units.length :=
  (((good_run rels).table s i).1 h).lt

/-- no unit is empty (the code would build a plan unit without stops) -/
theorem run_units_nonempty (rels : List (Nat × Nat)) : ∀ u ∈ (run rels).units, u ≠ [] := by
  intro u hu
  obtain ⟨k, hk⟩ := List.mem_iff_getElem?.1 hu
  exact (hist_run rels).ne k u hk

/-- the relations link two stops exactly when one unit holds both -/
theorem run_conn_iff (rels : List (Nat × Nat)) (s t : Nat) :
    Conn rels s t ↔ ∃ k, At (run rels).units k s ∧ At (run rels).units k t := by
  constructor
  · intro c
    induction c with
    | rel hr => exact (hist_run rels).cov _ _ hr
    | symm _ ih => obtain ⟨k, h1, h2⟩ := ih; exact ⟨k, h2, h1⟩
    | trans _ _ ih1 ih2 =>
      obtain ⟨k, h1, h2⟩ := ih1
      obtain ⟨k', h3, h4⟩ := ih2
      have := (good_run rels).disj _ _ _ h2 h3
      subst this
      exact ⟨k, h1, h4⟩
  · rintro ⟨k, h1, h2⟩
    exact (hist_run rels).conn k s t h1 h2

theorem exists_unit_iff_at (us : List (List Nat)) (P : List Nat → Prop) :
    (∃ u ∈ us, P u) ↔ ∃ (k : Nat) (u : List Nat), us[k]? = some u ∧ P u := by
  constructor
  · rintro ⟨u, hu, hp⟩
    obtain ⟨k, hk⟩ := List.mem_iff_getElem?.1 hu
    exact ⟨k, u, hk, hp⟩
  · rintro ⟨k, u, hk, hp⟩
    exact ⟨u, List.mem_of_getElem? hk, hp⟩

/-- two stops share a unit exactly when the relations link them -/
theorem run_same_unit_iff_conn (rels : List (Nat × Nat)) (s t : Nat) :
    (∃ u ∈ (run rels).units, s ∈ u ∧ t ∈ u) ↔ (Conn rels s t ∨ (s = t ∧ ∃ r ∈ rels, r.1 = s ∨ r.2 = s)) := by
  rw [exists_unit_iff_at]
  constructor
  · rintro ⟨k, u, hk, hs, ht⟩
    exact Or.inl ((run_conn_iff rels s t).2 ⟨k, ⟨u, hk, hs⟩, ⟨u, hk, ht⟩⟩)
  · intro h
    have c : Conn rels s t := by
      rcases h with c | ⟨rfl, hm⟩
      · exact c
      · exact Conn.refl_of_mentioned hm
    obtain ⟨k, ⟨u, hk, hs⟩, ⟨u', hk', ht⟩⟩ := (run_conn_iff rels s t).1 c
    rw [hk] at hk'
    cases hk'
    exact ⟨k, u, hk, hs, ht⟩

/-- exactly the stops mentioned by a relation are in a unit -/
theorem run_mem_iff_mentioned (rels : List (Nat × Nat)) (s : Nat) :
    (∃ u ∈ (run rels).units, s ∈ u) ↔ ∃ r ∈ rels, r.1 = s ∨ r.2 = s := by
  rw [exists_unit_iff_at]
  constructor
  · rintro ⟨k, u, hk, hs⟩
    exact ((run_conn_iff rels s s).2 ⟨k, ⟨u, hk, hs⟩, ⟨u, hk, hs⟩⟩).mentioned.1
  · intro hm
    obtain ⟨k, ⟨u, hk, hs⟩, _⟩ := (run_conn_iff rels s s).1 (Conn.refl_of_mentioned hm)
    exact ⟨k, u, hk, hs⟩

end NR.Units

