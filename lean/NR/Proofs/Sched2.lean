/-
  Proofs for NR.Sched, part 2: the exact checks are the specification's clauses; reachable states of the
  concrete engine satisfy the specification.
-/
import NR.Sched
import NR.Proofs.Engine
import NR.Proofs.Sched
import Mathlib.Tactic.Linarith
import Mathlib.Tactic.Ring
import Mathlib.Tactic.Tauto
namespace NR.Proofs.Sched
open NR NR.Spec NR.Sched NR.Engine


/-! ### windows: under `WinWF`, `start ≤ close of the last window` is `start lies in some closed window` -/

theorem lastClose_mem (ws : List (Rat × Rat)) (l : Rat) (h : lastClose ws = some l) :
    ∃ w ∈ ws, w.2 = l := by
  unfold lastClose at h
  rcases hg : ws.getLast? with _ | w
  · rw [hg] at h; cases h
  · rw [hg] at h
    exact ⟨w, List.mem_of_getLast? hg, by simpa using h⟩

theorem le_lastClose (ws : List (Rat × Rat)) (hwf : WinWF ws) (w : Rat × Rat) (hw : w ∈ ws) :
    ∃ l, lastClose ws = some l ∧ w.2 ≤ l := by
  induction ws generalizing w with
  | nil => cases hw
  | cons a rest ih =>
    cases rest with
    | nil =>
      have : w = a := by simpa using hw
      exact ⟨a.2, rfl, this ▸ le_refl _⟩
    | cons b rest' =>
      have hwf' : WinWF (b :: rest') :=
        ⟨fun x hx => hwf.1 x (List.mem_cons_of_mem _ hx), (List.pairwise_cons.mp hwf.2).2⟩
      have hlc : lastClose (a :: b :: rest') = lastClose (b :: rest') := by
        simp [lastClose, List.getLast?_cons_cons]
      rw [hlc]
      rcases List.mem_cons.mp hw with rfl | hw'
      · obtain ⟨l, hl, hbl⟩ := ih hwf' b (List.mem_cons_self)
        have h1 : w.2 ≤ b.1 := (List.pairwise_cons.mp hwf.2).1 b (List.mem_cons_self)
        have h2 : b.1 ≤ b.2 := hwf.1 b (by simp)
        exact ⟨l, hl, by linarith⟩
      · exact ih hwf' w hw'

theorem win_prop (ws : List (Rat × Rat)) (hwf : WinWF ws) (arr L : Rat) (hL : lastClose ws = some L) :
    max arr (earliestStart ws arr) ≤ L ↔
      ∃ w ∈ ws, w.1 ≤ max arr (earliestStart ws arr) ∧ max arr (earliestStart ws arr) ≤ w.2 := by
  constructor
  · intro h
    by_cases hA : (ws.any fun w => decide (w.1 ≤ arr ∧ arr < w.2)) = true
    · have hes : earliestStart ws arr = arr := by unfold earliestStart; rw [if_pos hA]
      obtain ⟨w, hw, hwa⟩ := List.any_eq_true.mp hA
      simp only [decide_eq_true_eq] at hwa
      rw [hes, max_self]
      exact ⟨w, hw, hwa.1, le_of_lt hwa.2⟩
    · rcases hf : ws.find? (fun w => decide (arr < w.1)) with _ | w
      · have hes : earliestStart ws arr = arr := by unfold earliestStart; rw [if_neg hA, hf]
        rw [hes, max_self] at h ⊢
        obtain ⟨w, hw, hwL⟩ := lastClose_mem ws L hL
        have h1 : ¬ arr < w.1 := by
          have := List.find?_eq_none.mp hf w hw
          simpa using this
        have h2 : ¬ (w.1 ≤ arr ∧ arr < w.2) := by
          intro hc
          apply hA
          exact List.any_eq_true.mpr ⟨w, hw, by simpa using hc⟩
        have h3 : w.1 ≤ arr := not_lt.mp h1
        have h4 : w.2 ≤ arr := not_lt.mp (fun hc => h2 ⟨h3, hc⟩)
        exact ⟨w, hw, h3, by linarith⟩
      · have hes : earliestStart ws arr = w.1 := by unfold earliestStart; rw [if_neg hA, hf]
        have hw : w ∈ ws := List.mem_of_find?_eq_some hf
        have hlt : arr < w.1 := by simpa using List.find?_some hf
        rw [hes, max_eq_right (le_of_lt hlt)]
        exact ⟨w, hw, le_refl _, hwf.1 w hw⟩
  · rintro ⟨w, hw, _, h2⟩
    obtain ⟨l, hl, hwl⟩ := le_lastClose ws hwf w hw
    rw [hL] at hl
    cases hl
    linarith

theorem win_core (ws : List (Rat × Rat)) (hwf : WinWF ws) (arr : Rat) :
    (match lastClose ws with
      | some l => decide (max arr (earliestStart ws arr) ≤ l)
      | none => true) =
    !(!ws.isEmpty && !ws.any (fun w => decide (w.1 ≤ max arr (earliestStart ws arr) ∧
        max arr (earliestStart ws arr) ≤ w.2))) := by
  rcases hL : lastClose ws with _ | L
  · have : ws = [] := by
      cases ws with
      | nil => rfl
      | cons a r =>
        exfalso
        obtain ⟨l, hl, _⟩ := le_lastClose (a :: r) hwf a (by simp)
        rw [hL] at hl; cases hl
    subst this
    rfl
  · have hne : ws.isEmpty = false := by
      cases ws with
      | nil => cases hL
      | cons a r => rfl
    simp only [hne, Bool.not_false, Bool.true_and, Bool.not_not]
    rw [Bool.eq_iff_iff, decide_eq_true_eq, win_prop ws hwf arr L hL, List.any_eq_true]
    simp only [decide_eq_true_eq]


/-! ### the generalised schedule (from an arbitrary predecessor value) -/

/-- `Spec.schedule` from an arbitrary predecessor value. -/
def gsched (inst : Inst) (p : CV) (route : List StopIx) : List Times × Times :=
  scheduleAux inst (inst.vehicles.getD p.vi {})
    (inst.travels.getD (inst.vehicles.getD p.vi {}).travel default) p.prev p.mIdx p.t.finish p.t.cumTravel route

theorem gsched_init (inst : Inst) (vi : VehIx) (route : List StopIx) :
    gsched inst (init inst vi) route = schedule inst vi route := rfl

theorem gsched_nil (inst : Inst) (p : CV) (vi : VehIx) :
    gsched inst p [] = ([], (step inst p (.last vi)).t) := rfl

theorem gsched_cons (inst : Inst) (p : CV) (s : StopIx) (rest : List StopIx) :
    gsched inst p (s :: rest) =
      ((step inst p (.stop s)).t :: (gsched inst (step inst p (.stop s)) rest).1,
       (gsched inst (step inst p (.stop s)) rest).2) := rfl

theorem nodes_cons₂ (vi : VehIx) (s : StopIx) (rest : List StopIx) :
    nodes vi (s :: rest) = .stop s :: nodes vi rest := rfl

theorem step_start_ge (inst : Inst) (p : CV) (s : StopIx) :
    (step inst p (.stop s)).t.arrival ≤ (step inst p (.stop s)).t.start :=
  le_max_left _ _

theorem gsched_start_ge (inst : Inst) (p : CV) (route : List StopIx) :
    ∀ t ∈ (gsched inst p route).1, t.arrival ≤ t.start := by
  induction route generalizing p with
  | nil => intro t ht; cases ht
  | cons s rest ih =>
    intro t ht
    rw [gsched_cons] at ht
    rcases List.mem_cons.mp ht with rfl | ht
    · exact step_start_ge inst p s
    · exact ih _ t ht

/-! ### sums -/

theorem foldl_add (a : Rat) (xs : List Rat) : xs.foldl (· + ·) a = a + xs.foldl (· + ·) 0 := by
  induction xs generalizing a with
  | nil => simp
  | cons x xs ih =>
    simp only [List.foldl_cons]
    rw [ih (a + x), ih (0 + x)]
    ring

theorem sumRat_cons₂ (x : Rat) (xs : List Rat) : sumRat (x :: xs) = x + sumRat xs := by
  unfold sumRat
  rw [List.foldl_cons, foldl_add]
  ring

theorem sumRat_nonneg (xs : List Rat) (h : ∀ x ∈ xs, 0 ≤ x) : 0 ≤ sumRat xs := by
  induction xs with
  | nil => simp [sumRat]
  | cons x xs ih =>
    rw [sumRat_cons₂]
    have h1 := h x (by simp)
    have h2 := ih (fun y hy => h y (by simp [hy]))
    linarith

theorem waits_nonneg (inst : Inst) (p : CV) (route : List StopIx) :
    0 ≤ sumRat ((gsched inst p route).1.map (fun t => t.start - t.arrival)) := by
  apply sumRat_nonneg
  intro x hx
  obtain ⟨t, ht, rfl⟩ := List.mem_map.mp hx
  have := gsched_start_ge inst p route t ht
  linarith

/-! ### the exact checks, one clause at a time -/

def okCap (inst : Inst) (c : CV) (_n : Node) : Bool :=
  !(inst.cCapacity && inst.nres > 0) || !(levelBad (padTo inst.nres (inst.vehicles.getD c.vi {}).caps) c.lv)

def okDist (inst : Inst) (c : CV) (_n : Node) : Bool :=
  !inst.cDistance || (match (inst.vehicles.getD c.vi {}).maxDist with
    | some d => decide (c.dist ≤ d ∧ 0 ≤ c.dist) | none => true)

def okWaitVeh (inst : Inst) (c : CV) (_n : Node) : Bool :=
  !inst.cWaitVeh || (match (inst.vehicles.getD c.vi {}).maxWait with
    | some w => decide (c.wait ≤ w) | none => true)

def okWin (inst : Inst) (c : CV) (n : Node) : Bool :=
  match n with
  | .stop s => !inst.cWindows || (match lastClose (inst.stops.getD s {}).windows with
      | some l => decide (c.t.start ≤ l) | none => true)
  | .last _ => true

def okWaitStop (inst : Inst) (c : CV) (n : Node) : Bool :=
  match n with
  | .stop s => !inst.cWaitStop || (match (inst.stops.getD s {}).maxWait with
      | some w => decide (c.t.start - c.t.arrival ≤ w) | none => true)
  | .last _ => true

def okEnd (inst : Inst) (c : CV) (n : Node) : Bool :=
  match n with
  | .stop _ => true
  | .last _ => !inst.cLatestEnd || (match (inst.vehicles.getD c.vi {}).latestEnd with
      | some l => decide (c.t.finish ≤ l) | none => true)

theorem ok_split (inst : Inst) (c : CV) (n : Node) :
    ok inst c n = (okCap inst c n && (okDist inst c n && (okWaitVeh inst c n &&
      (okWin inst c n && (okWaitStop inst c n && okEnd inst c n))))) := by
  cases n <;> (simp only [ok, okCap, okDist, okWaitVeh, okWin, okWaitStop, okEnd, Bool.and_true,
    Bool.true_and, Bool.and_assoc]; rfl)

theorem allOk_and (inst : Inst) (a b : CV → Node → Bool) (p : CV) (l : List Node) :
    AllOk ⟨step inst, fun c n => a c n && b c n⟩ p l ↔
      AllOk ⟨step inst, a⟩ p l ∧ AllOk ⟨step inst, b⟩ p l := by
  induction l generalizing p with
  | nil => simp [AllOk]
  | cons n rest ih =>
    simp only [AllOk, Bool.and_eq_true, ih]
    tauto

theorem allOk_split (inst : Inst) (p : CV) (l : List Node) :
    AllOk (eng inst) p l ↔
      AllOk ⟨step inst, okCap inst⟩ p l ∧ AllOk ⟨step inst, okDist inst⟩ p l ∧
      AllOk ⟨step inst, okWaitVeh inst⟩ p l ∧ AllOk ⟨step inst, okWin inst⟩ p l ∧
      AllOk ⟨step inst, okWaitStop inst⟩ p l ∧ AllOk ⟨step inst, okEnd inst⟩ p l := by
  have h : eng inst = ⟨step inst, fun c n => okCap inst c n && (okDist inst c n && (okWaitVeh inst c n &&
      (okWin inst c n && (okWaitStop inst c n && okEnd inst c n))))⟩ := by
    unfold eng
    congr 1
    funext c n
    exact ok_split inst c n
  rw [h, allOk_and inst (okCap inst), allOk_and inst (okDist inst), allOk_and inst (okWaitVeh inst),
    allOk_and inst (okWin inst), allOk_and inst (okWaitStop inst)]


/-! ### capacity -/

theorem bool_cap_nil (A B : Bool) (h : A = true → B = false) : (!A || !B) = true := by
  cases A <;> cases B <;> simp_all

theorem bool_cap_cons (A B R : Bool) (P : Prop) (ih : (A = true → B = false) → (P ↔ (A && R) = false)) :
    ((!A || !B) = true ∧ P) ↔ (A && (B || R)) = false := by
  cases A
  · simpa using ih
  · cases B
    · simpa using ih
    · simp

theorem cap_clause (inst : Inst) (vi : VehIx) (v' : Vehicle) (route : List StopIx) (p : CV)
    (hp : (inst.cCapacity && decide (inst.nres > 0)) = true →
      levelBad (padTo inst.nres (inst.vehicles.getD p.vi {}).caps) p.lv = false) :
    AllOk ⟨step inst, okCap inst⟩ p (nodes vi route) ↔
      (inst.cCapacity && decide (inst.nres > 0) &&
        (levels inst v' p.lv route).any (levelBad (padTo inst.nres (inst.vehicles.getD p.vi {}).caps))) = false := by
  induction route generalizing p with
  | nil =>
    have h1 : okCap inst (step inst p (.last vi)) (.last vi) = true := bool_cap_nil _ _ hp
    simp only [nodes, List.map_nil, List.nil_append, AllOk, h1, levels, List.any_nil, Bool.and_false, and_self]
  | cons s rest ih =>
    rw [nodes_cons₂]
    exact bool_cap_cons _ _ _ _ (fun h => ih (step inst p (.stop s)) h)

/-! ### distance -/

theorem okDist_iff (inst : Inst) (c : CV) (n : Node) :
    okDist inst c n = true ↔
      (inst.cDistance = true → ∀ d, (inst.vehicles.getD c.vi {}).maxDist = some d → c.dist ≤ d ∧ 0 ≤ c.dist) := by
  unfold okDist
  cases inst.cDistance <;> cases (inst.vehicles.getD c.vi {}).maxDist <;> simp

theorem distances_nonneg (inst : Inst) (hd : ∀ i j, 0 ≤ mget inst.dist i j) (v : Vehicle) (m : Option Nat)
    (route : List StopIx) : 0 ≤ distances inst v m route := by
  induction route generalizing m with
  | nil =>
    unfold distances
    split
    · exact hd _ _
    · exact le_refl _
  | cons s rest ih =>
    unfold distances
    have := ih (some (inst.stops.getD s {}).mIdx)
    cases m with
    | none => simpa using this
    | some i => have := hd i (inst.stops.getD s {}).mIdx; simp only []; linarith

theorem dist_clause (inst : Inst) (hd : ∀ i j, 0 ≤ mget inst.dist i j) (vi : VehIx) (route : List StopIx)
    (p : CV) (hp : 0 ≤ p.dist) :
    AllOk ⟨step inst, okDist inst⟩ p (nodes vi route) ↔
      (inst.cDistance = true → ∀ d, (inst.vehicles.getD p.vi {}).maxDist = some d →
        p.dist + distances inst (inst.vehicles.getD p.vi {}) p.mIdx route ≤ d) := by
  induction route generalizing p with
  | nil =>
    have h1 : (step inst p (.last vi)).dist =
        p.dist + distances inst (inst.vehicles.getD p.vi {}) p.mIdx [] := rfl
    have h0 := distances_nonneg inst hd (inst.vehicles.getD p.vi {}) p.mIdx []
    show (okDist inst (step inst p (.last vi)) (.last vi) = true ∧ True) ↔ _
    rw [okDist_iff, h1, and_true]
    constructor
    · intro h hf d hm; exact (h hf d hm).1
    · intro h hf d hm; exact ⟨h hf d hm, by linarith⟩
  | cons s rest ih =>
    rw [nodes_cons₂]
    show (okDist inst (step inst p (.stop s)) (.stop s) = true ∧ _) ↔ _
    obtain ⟨δ, hδ, h1, h2⟩ : ∃ δ : Rat, 0 ≤ δ ∧ (step inst p (.stop s)).dist = p.dist + δ ∧
        distances inst (inst.vehicles.getD p.vi {}) p.mIdx (s :: rest) =
          δ + distances inst (inst.vehicles.getD p.vi {}) (step inst p (.stop s)).mIdx rest := by
      cases hm : p.mIdx with
      | none => exact ⟨0, le_refl _, by simp only [step, hm], by simp only [distances, step]⟩
      | some i => exact ⟨mget inst.dist i (inst.stops.getD s {}).mIdx, hd _ _, by simp only [step, hm],
          by simp only [distances, step]⟩
    have h0 := distances_nonneg inst hd (inst.vehicles.getD p.vi {}) (step inst p (.stop s)).mIdx rest
    have hc : 0 ≤ (step inst p (.stop s)).dist := by rw [h1]; linarith
    rw [ih _ hc, okDist_iff, h2, h1]
    have hvi : (step inst p (.stop s)).vi = p.vi := rfl
    rw [hvi]
    constructor
    · rintro ⟨_, h⟩ hf d hm
      have := h hf d hm
      linarith
    · intro h
      refine ⟨fun hf d hm => ⟨?_, by linarith⟩, fun hf d hm => ?_⟩
      · have := h hf d hm; linarith
      · have := h hf d hm; linarith

/-! ### wait per vehicle -/

theorem okWaitVeh_iff (inst : Inst) (c : CV) (n : Node) :
    okWaitVeh inst c n = true ↔
      (inst.cWaitVeh = true → ∀ w, (inst.vehicles.getD c.vi {}).maxWait = some w → c.wait ≤ w) := by
  unfold okWaitVeh
  cases inst.cWaitVeh <;> cases (inst.vehicles.getD c.vi {}).maxWait <;> simp

theorem waitveh_clause (inst : Inst) (vi : VehIx) (route : List StopIx) (p : CV) :
    AllOk ⟨step inst, okWaitVeh inst⟩ p (nodes vi route) ↔
      (inst.cWaitVeh = true → ∀ w, (inst.vehicles.getD p.vi {}).maxWait = some w →
        p.wait + sumRat ((gsched inst p route).1.map (fun t => t.start - t.arrival)) ≤ w) := by
  induction route generalizing p with
  | nil =>
    show (okWaitVeh inst (step inst p (.last vi)) (.last vi) = true ∧ True) ↔ _
    rw [okWaitVeh_iff, and_true]
    have h1 : (step inst p (.last vi)).wait = p.wait := rfl
    have h2 : sumRat ((gsched inst p []).1.map (fun t => t.start - t.arrival)) = 0 := rfl
    have hvi : (step inst p (.last vi)).vi = p.vi := rfl
    rw [h1, h2, hvi, add_zero]
  | cons s rest ih =>
    rw [nodes_cons₂]
    show (okWaitVeh inst (step inst p (.stop s)) (.stop s) = true ∧ _) ↔ _
    have h1 : (step inst p (.stop s)).wait =
        p.wait + ((step inst p (.stop s)).t.start - (step inst p (.stop s)).t.arrival) := rfl
    have hδ := step_start_ge inst p s
    have h0 := waits_nonneg inst (step inst p (.stop s)) rest
    have hvi : (step inst p (.stop s)).vi = p.vi := rfl
    rw [ih, okWaitVeh_iff, gsched_cons, List.map_cons, sumRat_cons₂, hvi]
    constructor
    · rintro ⟨_, h⟩ hf w hm
      have := h hf w hm
      linarith
    · intro h
      refine ⟨fun hf w hm => ?_, fun hf w hm => ?_⟩
      · have := h hf w hm; linarith
      · have := h hf w hm; linarith

/-! ### per-stop clauses (windows, wait per stop) -/

theorem bool_pw (F X R : Bool) :
    ((!F || !X) = true ∧ (F && R) = false) ↔ (F && (X || R)) = false := by
  cases F <;> cases X <;> cases R <;> simp

theorem pointwise_clause (inst : Inst) (vi : VehIx) (a : CV → Node → Bool) (flag : Bool)
    (f : StopIx × Times → Bool)
    (hlast : ∀ c w, a c (.last w) = true)
    (hstop : ∀ p s, a (step inst p (.stop s)) (.stop s) = (!flag || !f (s, (step inst p (.stop s)).t)))
    (route : List StopIx) (p : CV) :
    AllOk ⟨step inst, a⟩ p (nodes vi route) ↔
      (flag && (List.zip route (gsched inst p route).1).any f) = false := by
  induction route generalizing p with
  | nil => simp [nodes, AllOk, hlast]
  | cons s rest ih =>
    rw [nodes_cons₂, gsched_cons]
    show (a (step inst p (.stop s)) (.stop s) = true ∧ _) ↔ _
    rw [ih, hstop, List.zip_cons_cons, List.any_cons]
    exact bool_pw _ _ _

theorem win_clause (inst : Inst) (hw : ∀ s, WinWF (inst.stops.getD s {}).windows) (vi : VehIx)
    (route : List StopIx) (p : CV) :
    AllOk ⟨step inst, okWin inst⟩ p (nodes vi route) ↔
      (inst.cWindows && (List.zip route (gsched inst p route).1).any (fun x =>
        !(inst.stops.getD x.1 {}).windows.isEmpty &&
          !(inst.stops.getD x.1 {}).windows.any (fun w => decide (w.1 ≤ x.2.start ∧ x.2.start ≤ w.2)))) = false := by
  apply pointwise_clause
  · intro c w; rfl
  · intro p s
    exact congrArg (fun b => !inst.cWindows || b) (win_core _ (hw s) _)

theorem waitstop_clause (inst : Inst) (vi : VehIx) (route : List StopIx) (p : CV) :
    AllOk ⟨step inst, okWaitStop inst⟩ p (nodes vi route) ↔
      (inst.cWaitStop && (List.zip route (gsched inst p route).1).any (fun x =>
        match (inst.stops.getD x.1 {}).maxWait with
        | some w => decide (x.2.start - x.2.arrival > w)
        | none => false)) = false := by
  apply pointwise_clause
  · intro c w; rfl
  · intro p s
    have hd : ∀ x w : Rat, decide (x ≤ w) = !decide (x > w) := fun x w => by
      by_cases h : x ≤ w
      · simp [h, not_lt.mpr h]
      · simp [h, not_le.mp h]
    simp only [okWaitStop]
    cases (inst.stops.getD s {}).maxWait with
    | none => rfl
    | some w => simp only [hd]

theorem startarr_clause (inst : Inst) (route : List StopIx) (p : CV) :
    ((List.zip route (gsched inst p route).1).any (fun x => decide (x.2.start < x.2.arrival))) = false := by
  rw [List.any_eq_false]
  intro x hx
  have := gsched_start_ge inst p route x.2 (List.of_mem_zip hx).2
  simpa using this

/-! ### latest end -/

theorem end_clause (inst : Inst) (vi : VehIx) (route : List StopIx) (p : CV) :
    AllOk ⟨step inst, okEnd inst⟩ p (nodes vi route) ↔
      (inst.cLatestEnd && (match (inst.vehicles.getD p.vi {}).latestEnd with
        | some l => decide ((gsched inst p route).2.finish > l)
        | none => false)) = false := by
  induction route generalizing p with
  | nil =>
    show (okEnd inst (step inst p (.last vi)) (.last vi) = true ∧ True) ↔ _
    rw [gsched_nil inst p vi]
    have hvi : (step inst p (.last vi)).vi = p.vi := rfl
    simp only [okEnd, hvi, and_true]
    cases inst.cLatestEnd <;> cases (inst.vehicles.getD p.vi {}).latestEnd <;> simp
  | cons s rest ih =>
    rw [nodes_cons₂, gsched_cons]
    show (okEnd inst (step inst p (.stop s)) (.stop s) = true ∧ _) ↔ _
    rw [ih]
    exact ⟨fun h => h.2, fun h => ⟨rfl, h⟩⟩


/-! ### assembling the clauses -/

theorem ite5 {α : Type} (c1 c2 c3 c4 c5 : Bool) (a1 a2 a3 a4 a5 : α) :
    (if c1 = true then some a1 else if c2 = true then some a2 else if c3 = true then some a3
      else if c4 = true then some a4 else if c5 = true then some a5 else none) = none ↔
    (c1 = false ∧ c2 = false ∧ c3 = false ∧ c4 = false ∧ c5 = false) := by
  cases c1 <;> cases c2 <;> cases c3 <;> cases c4 <;> cases c5 <;> simp

theorem opt_gt_iff (flag : Bool) (o : Option Rat) (x : Rat) :
    (flag && (match o with | some d => decide (x > d) | none => false)) = false ↔
      (flag = true → ∀ d, o = some d → x ≤ d) := by
  cases flag <;> cases o <;> simp

/-- The exact checks along a route are exactly the specification's temporal clauses plus the capacity and
distance clauses. -/
theorem allOk_iff (inst : Inst) (vi : VehIx) (route : List StopIx) (hwf : InstWF inst) (hs : StartOK inst vi) :
    AllOk (eng inst) (init inst vi) (nodes vi route) ↔
      (staticExactOK inst vi route = true ∧ temporalOK inst vi route = none) := by
  rcases hsch : schedule inst vi route with ⟨ts, e⟩
  have hg : gsched inst (init inst vi) route = (ts, e) := hsch
  have hcap := cap_clause inst vi (inst.vehicles.getD vi {}) route (init inst vi) hs
  have hdist := dist_clause inst hwf.2 vi route (init inst vi) (le_refl _)
  have hwv := waitveh_clause inst vi route (init inst vi)
  have hwin := win_clause inst hwf.1 vi route (init inst vi)
  have hws := waitstop_clause inst vi route (init inst vi)
  have hend := end_clause inst vi route (init inst vi)
  have hsa := startarr_clause inst route (init inst vi)
  rw [hg] at hwv hwin hws hend hsa
  have hd0 : (init inst vi).dist + distances inst (inst.vehicles.getD (init inst vi).vi {})
      (init inst vi).mIdx route = distances inst (inst.vehicles.getD vi {}) (inst.vehicles.getD vi {}).firstM route :=
    zero_add _
  rw [hd0] at hdist
  have hw0 : (init inst vi).wait + sumRat (List.map (fun t => t.start - t.arrival) (ts, e).1) =
      sumRat (List.map (fun t => t.start - t.arrival) ts) := zero_add _
  rw [hw0] at hwv
  rw [allOk_split, hcap, hdist, hwv, hwin, hws, hend]
  unfold staticExactOK temporalOK
  rw [hsch]
  simp only []
  rw [ite5, Bool.and_eq_true, Bool.not_eq_true', Bool.not_eq_true']
  constructor
  · rintro ⟨h1, h2, h3, h4, h5, h6⟩
    exact ⟨⟨h1, (opt_gt_iff _ _ _).mpr h2⟩, h4, hsa, h6, h5, (opt_gt_iff _ _ _).mpr h3⟩
  · rintro ⟨⟨h1, h2⟩, h4, _, h6, h5, h3⟩
    exact ⟨h1, (opt_gt_iff _ _ _).mp h2, (opt_gt_iff _ _ _).mp h3, h4, h5, h6⟩



/-! ### the static clauses against `Spec.staticOK` -/

theorem bool_aux1 (a b s l d : Bool) (h : (a && b && (s || l)) = false) (hd : d = false) :
    (!(a && b && l) && !d) = true := by
  cases a <;> cases b <;> cases s <;> cases l <;> simp_all

theorem bool_aux2 (a b s l : Bool) (hs : (a && b) = true → s = false) (h : (a && b && l) = false) :
    (a && b && (s || l)) = false := by
  cases a <;> cases b <;> cases s <;> cases l <;> simp_all

/-- … and the capacity / distance clauses are those of `Spec.staticOK`. -/
theorem staticExact_of_staticOK (inst : Inst) (vi : VehIx) (route : List StopIx)
    (h : staticOK inst vi route = none) : staticExactOK inst vi route = true := by
  unfold staticOK at h
  unfold staticExactOK
  simp only [] at h ⊢
  split_ifs at h with h1 h2 h3 h4 h5
  rw [Bool.not_eq_true] at h1 h3
  rw [List.any_cons] at h1
  exact bool_aux1 _ _ _ _ _ h1 h3

theorem staticOK_clauses_of_exact (inst : Inst) (vi : VehIx) (route : List StopIx) (hs : StartOK inst vi)
    (h : staticExactOK inst vi route = true) :
    staticOK inst vi route ≠ some "capacity" ∧ staticOK inst vi route ≠ some "max-distance" := by
  unfold staticExactOK at h
  simp only [Bool.and_eq_true, Bool.not_eq_true'] at h
  obtain ⟨hc, hd⟩ := h
  have h1 := bool_aux2 _ _ _ _ hs hc
  unfold staticOK
  simp only []
  rw [List.any_cons]
  rw [if_neg (by rw [Bool.not_eq_true]; exact h1)]
  constructor <;> split_ifs with g2 g3 g4 g5 <;>
    first | exact absurd (g3.symm.trans hd) (by decide) | simp

/-! ### reachable states -/

theorem consistent_map (e : Eng Node CV) (p : CV) (l : List Node) (vals : Node → CV)
    (h : Consistent e p l vals) : l.map vals = specVals e p l := by
  induction l generalizing p with
  | nil => rfl
  | cons s rest ih =>
    simp only [List.map_cons, specVals, h.1, ih _ h.2]

/-- Every state reached from an invariant, shaped state by an admissible, shape-preserving history:
each vehicle's route `nodes v r` has cached times = `Spec.schedule`, cached levels = `Spec.levels`, passes
`Spec.temporalOK` and the exact clauses of `Spec.staticOK`, and the score is `Spec.objective` (unplanned term
aside). -/
theorem reachable_spec (inst : Inst) (hwf : InstWF inst) (hs : ∀ vi, StartOK inst vi)
    (st : MState Node CV Terms) (ops : List (Op Node))
    (hinv : MInv (model inst) st) (hadm : AdmissibleRun (model inst) st ops)
    (hsh : Shaped (run (model inst) st ops).routes)
    (v : Nat) (r : List StopIx) (hv : (run (model inst) st ops).routes[v]? = some (nodes v r)) :
    (r.map (fun s => ((run (model inst) st ops).vals (.stop s)).t) = (schedule inst v r).1) ∧
    (((run (model inst) st ops).vals (.last v)).t = (schedule inst v r).2) ∧
    (r.map (fun s => ((run (model inst) st ops).vals (.stop s)).lv) =
        levels inst (inst.vehicles.getD v {}) (padTo inst.nres (inst.vehicles.getD v {}).startLevel) r) ∧
    temporalOK inst v r = none ∧
    staticOK inst v r ≠ some "capacity" ∧ staticOK inst v r ≠ some "max-distance" := by
  have _ := hsh
  obtain ⟨hlen, _, hall, _⟩ := NR.Proofs.Engine.run_inv (model inst) st ops hinv hadm
  obtain ⟨hvl, hrv⟩ := List.getElem?_eq_some_iff.mp hv
  have hvi : v < (model inst).inits.length := hlen ▸ hvl
  have hinit : (model inst).inits[v] = init inst v := by
    simp only [model, List.getElem_map, List.getElem_range]
  obtain ⟨hc, ha⟩ := hall v hvl hvi
  rw [hinit, hrv] at hc ha
  have hm : (nodes v r).map (run (model inst) st ops).vals =
      specVals (eng inst) (init inst v) (nodes v r) := consistent_map _ _ _ _ hc
  obtain ⟨hex, htemp⟩ := (allOk_iff inst v r hwf (hs v)).mp ha
  obtain ⟨hcap, hdist⟩ := staticOK_clauses_of_exact inst v r (hs v) hex
  -- times
  have ht : (nodes v r).map (fun n => ((run (model inst) st ops).vals n).t) =
      (schedule inst v r).1 ++ [(schedule inst v r).2] := by
    rw [← sched_times, ← hm, List.map_map]; rfl
  have ht' : r.map (fun s => ((run (model inst) st ops).vals (.stop s)).t) ++
      [((run (model inst) st ops).vals (.last v)).t] =
      (schedule inst v r).1 ++ [(schedule inst v r).2] := by
    rw [← ht, nodes, List.map_append, List.map_map]; rfl
  obtain ⟨ht1, ht2⟩ := List.append_inj' ht' rfl
  -- levels
  have hl : r.map (fun s => ((run (model inst) st ops).vals (.stop s)).lv) =
      ((specVals (eng inst) (init inst v) (nodes v r)).map (·.lv)).take r.length := by
    rw [← hm, List.map_map, nodes, List.map_append, List.map_map]
    rw [List.take_left' (by simp)]
    rfl
  refine ⟨ht1, by simpa using ht2, ?_, htemp, hcap, hdist⟩
  rw [hl, sched_levels]

/-- The score of every reachable state is the specification's objective of its routes (unplanned term aside). -/
theorem reachable_score (inst : Inst) (st : MState Node CV Terms) (ops : List (Op Node))
    (hinv : MInv (model inst) st) (hadm : AdmissibleRun (model inst) st ops)
    (rs : List (List StopIx)) (hlen : rs.length = inst.vehicles.size)
    (hr : (run (model inst) st ops).routes = (List.range rs.length).map (fun v => nodes v (rs.getD v []))) :
    (run (model inst) st ops).score = { objective inst rs with unplanned := 0 } := by
  obtain ⟨_, _, _, hscore⟩ := NR.Proofs.Engine.run_inv (model inst) st ops hinv hadm
  rw [hscore, hr]
  exact scoreOf_spec inst rs hlen

end NR.Proofs.Sched
