/-
  Proofs for NR.Sched: the concrete engine instance computes the specification's schedule, levels, distances
  and waits, and its exact checks are the specification's clauses.
-/
import NR.Sched
import NR.Proofs.Engine
namespace NR.Proofs.Sched
open NR NR.Spec NR.Sched NR.Engine

theorem step_vi (inst : Inst) (p : CV) (n : Node) : (step inst p n).vi = p.vi := by
  cases n <;> rfl

theorem nodes_nil (vi : VehIx) : nodes vi [] = [.last vi] := rfl
theorem nodes_cons (vi : VehIx) (s : StopIx) (r : List StopIx) :
    nodes vi (s :: r) = .stop s :: nodes vi r := rfl

theorem scheduleAux_cons (inst : Inst) (v : Vehicle) (tr : Travel) (prev : Option StopIx)
    (prevM : Option Nat) (dep cum : Rat) (s : StopIx) (rest : List StopIx) :
    scheduleAux inst v tr prev prevM dep cum (s :: rest) =
      let st := inst.stops.getD s {}
      let t := match prevM with
        | some i => travelDur tr i st.mIdx dep
        | none => 0
      let arr := dep + t
      let start := max arr (earliestStart st.windows arr)
      let fin := start + serviceDur inst v prev s
      let me : Times := { travel := t, arrival := arr, start := start, finish := fin, cumTravel := cum + t }
      (me :: (scheduleAux inst v tr (some s) (some st.mIdx) fin (cum + t) rest).1,
        (scheduleAux inst v tr (some s) (some st.mIdx) fin (cum + t) rest).2) := by
  rfl

theorem times_gen (inst : Inst) (vi : VehIx) (route : List StopIx) (p : CV) (hp : p.vi = vi) :
    (specVals (eng inst) p (nodes vi route)).map (·.t) =
      (scheduleAux inst (inst.vehicles.getD vi {}) (inst.travels.getD (inst.vehicles.getD vi {}).travel default)
        p.prev p.mIdx p.t.finish p.t.cumTravel route).1 ++
      [(scheduleAux inst (inst.vehicles.getD vi {}) (inst.travels.getD (inst.vehicles.getD vi {}).travel default)
        p.prev p.mIdx p.t.finish p.t.cumTravel route).2] := by
  induction route generalizing p with
  | nil =>
    subst hp
    rfl
  | cons s rest ih =>
    have h := ih (step inst p (.stop s)) (by rw [step_vi]; exact hp)
    subst hp
    rw [nodes_cons, scheduleAux_cons]
    show (step inst p (.stop s)).t ::
      (specVals (eng inst) (step inst p (.stop s)) (nodes p.vi rest)).map (·.t) = _
    rw [h]
    rfl

/-- Times: walking the nodes of a route with `step` yields `Spec.schedule` (stops, then the vehicle's end). -/
theorem sched_times (inst : Inst) (vi : VehIx) (route : List StopIx) :
    (specVals (eng inst) (init inst vi) (nodes vi route)).map (·.t) =
      (schedule inst vi route).1 ++ [(schedule inst vi route).2] := by
  have := times_gen inst vi route (init inst vi) rfl
  simpa only [schedule, init] using this

theorem levels_gen (inst : Inst) (vi : VehIx) (v : Vehicle) (route : List StopIx) (p : CV) :
    ((specVals (eng inst) p (nodes vi route)).map (·.lv)).take route.length =
      levels inst v p.lv route := by
  induction route generalizing p with
  | nil => rfl
  | cons s rest ih =>
    have h := ih (step inst p (.stop s))
    rw [nodes_cons]
    show (step inst p (.stop s)).lv ::
      ((specVals (eng inst) (step inst p (.stop s)) (nodes vi rest)).map (·.lv)).take rest.length = _
    rw [h]
    rfl

/-- Levels: the cumulative values at the stops are `Spec.levels`; the last stop repeats the final level. -/
theorem sched_levels (inst : Inst) (vi : VehIx) (route : List StopIx) :
    ((specVals (eng inst) (init inst vi) (nodes vi route)).map (·.lv)).take route.length =
      levels inst (inst.vehicles.getD vi {}) (padTo inst.nres (inst.vehicles.getD vi {}).startLevel) route :=
  levels_gen inst vi _ route (init inst vi)

theorem foldl_add_rat (a : Rat) (xs : List Rat) :
    xs.foldl (· + ·) a = a + xs.foldl (· + ·) 0 := by
  induction xs generalizing a with
  | nil => simp only [List.foldl_nil, Rat.add_zero]
  | cons x xs ih =>
    simp only [List.foldl_cons]
    rw [ih (a + x), ih (0 + x), Rat.zero_add, Rat.add_assoc]

theorem sumRat_nil : sumRat [] = 0 := rfl

theorem sumRat_cons (x : Rat) (xs : List Rat) : sumRat (x :: xs) = x + sumRat xs := by
  unfold sumRat
  rw [List.foldl_cons, foldl_add_rat, Rat.zero_add]

theorem dist_gen (inst : Inst) (vi : VehIx) (route : List StopIx) (p : CV) (hp : p.vi = vi) :
    (valAfter (eng inst) p (nodes vi route)).dist =
      p.dist + distances inst (inst.vehicles.getD vi {}) p.mIdx route := by
  induction route generalizing p with
  | nil => subst hp; rfl
  | cons s rest ih =>
    have h := ih (step inst p (.stop s)) (by rw [step_vi]; exact hp)
    rw [nodes_cons]
    show (valAfter (eng inst) (step inst p (.stop s)) (nodes vi rest)).dist = _
    rw [h]
    show (p.dist + _) + _ = p.dist + (_ + _)
    rw [Rat.add_assoc]
    rfl

/-- Distance: the cumulative distance at the vehicle's last stop is `Spec.distances` of the route. -/
theorem sched_dist (inst : Inst) (vi : VehIx) (route : List StopIx) :
    (valAfter (eng inst) (init inst vi) (nodes vi route)).dist =
      distances inst (inst.vehicles.getD vi {}) (inst.vehicles.getD vi {}).firstM route := by
  rw [dist_gen inst vi route (init inst vi) rfl]
  show (0 : Rat) + _ = _
  rw [Rat.zero_add]
  rfl

theorem wait_gen (inst : Inst) (vi : VehIx) (route : List StopIx) (p : CV) (hp : p.vi = vi) :
    (valAfter (eng inst) p (nodes vi route)).wait =
      p.wait + sumRat ((scheduleAux inst (inst.vehicles.getD vi {})
        (inst.travels.getD (inst.vehicles.getD vi {}).travel default)
        p.prev p.mIdx p.t.finish p.t.cumTravel route).1.map (fun t => t.start - t.arrival)) := by
  induction route generalizing p with
  | nil =>
    subst hp
    show p.wait = p.wait + sumRat []
    rw [sumRat_nil, Rat.add_zero]
  | cons s rest ih =>
    have h := ih (step inst p (.stop s)) (by rw [step_vi]; exact hp)
    subst hp
    rw [nodes_cons, scheduleAux_cons]
    show (valAfter (eng inst) (step inst p (.stop s)) (nodes p.vi rest)).wait = _
    rw [h]
    simp only [List.map_cons, sumRat_cons]
    rw [← Rat.add_assoc]
    rfl

/-- Waiting: the accumulated wait at the vehicle's last stop is the sum of the waits of the schedule. -/
theorem sched_wait (inst : Inst) (vi : VehIx) (route : List StopIx) :
    (valAfter (eng inst) (init inst vi) (nodes vi route)).wait =
      sumRat ((schedule inst vi route).1.map (fun t => t.start - t.arrival)) := by
  rw [wait_gen inst vi route (init inst vi) rfl]
  show (0 : Rat) + _ = _
  rw [Rat.zero_add]
  rfl

/-! ### The objective -/

/-- The filter `vterms` uses to keep the stops. -/
def keepStop : Node × CV → Option (StopIx × CV) :=
  fun (n, c) => match n with | .stop s => some (s, c) | .last _ => none

theorem stops_gen (inst : Inst) (vi : VehIx) (r : List StopIx) (p : CV) :
    (List.zip (nodes vi r) (specVals (eng inst) p (nodes vi r))).filterMap keepStop =
      List.zip r (specVals (eng inst) p (nodes vi r)) := by
  induction r generalizing p with
  | nil => rfl
  | cons s rest ih =>
    have h := ih (step inst p (.stop s))
    rw [nodes_cons]
    show ((Node.stop s, step inst p (.stop s)) ::
      List.zip (nodes vi rest) (specVals (eng inst) (step inst p (.stop s)) (nodes vi rest))).filterMap keepStop =
      (s, step inst p (.stop s)) :: List.zip rest (specVals (eng inst) (step inst p (.stop s)) (nodes vi rest))
    rw [List.filterMap_cons]
    show (s, step inst p (.stop s)) :: _ = _
    rw [h]

theorem last_gen (inst : Inst) (vi : VehIx) (r : List StopIx) (p : CV) :
    (List.zip (nodes vi r) (specVals (eng inst) p (nodes vi r))).getLast? =
      some (.last vi, valAfter (eng inst) p (nodes vi r)) := by
  induction r generalizing p with
  | nil => rfl
  | cons s rest ih =>
    have h := ih (step inst p (.stop s))
    rw [nodes_cons]
    show ((Node.stop s, step inst p (.stop s)) ::
      List.zip (nodes vi rest) (specVals (eng inst) (step inst p (.stop s)) (nodes vi rest))).getLast? = _
    rw [List.getLast?_cons, h]
    rfl

theorem endt_gen (inst : Inst) (vi : VehIx) (route : List StopIx) (p : CV) (hp : p.vi = vi) :
    (valAfter (eng inst) p (nodes vi route)).t =
      (scheduleAux inst (inst.vehicles.getD vi {}) (inst.travels.getD (inst.vehicles.getD vi {}).travel default)
        p.prev p.mIdx p.t.finish p.t.cumTravel route).2 := by
  induction route generalizing p with
  | nil => subst hp; rfl
  | cons s rest ih =>
    have h := ih (step inst p (.stop s)) (by rw [step_vi]; exact hp)
    subst hp
    rw [nodes_cons, scheduleAux_cons]
    show (valAfter (eng inst) (step inst p (.stop s)) (nodes p.vi rest)).t = _
    rw [h]
    rfl

theorem zipmap_gen (inst : Inst) (vi : VehIx) (g : StopIx → Times → Rat) (route : List StopIx) (p : CV)
    (hp : p.vi = vi) :
    (List.zip route (specVals (eng inst) p (nodes vi route))).map (fun (s, c) => g s c.t) =
      (List.zip route (scheduleAux inst (inst.vehicles.getD vi {})
        (inst.travels.getD (inst.vehicles.getD vi {}).travel default)
        p.prev p.mIdx p.t.finish p.t.cumTravel route).1).map (fun (s, t) => g s t) := by
  induction route generalizing p with
  | nil => rfl
  | cons s rest ih =>
    have h := ih (step inst p (.stop s)) (by rw [step_vi]; exact hp)
    subst hp
    rw [nodes_cons, scheduleAux_cons]
    show g s (step inst p (.stop s)).t ::
      (List.zip rest (specVals (eng inst) (step inst p (.stop s)) (nodes p.vi rest))).map (fun (s, c) => g s c.t) = _
    rw [h]
    rfl

theorem stops_length (inst : Inst) (vi : VehIx) (r : List StopIx) (p : CV) :
    (List.zip r (specVals (eng inst) p (nodes vi r))).length = r.length := by
  rw [List.length_zip, NR.Proofs.Engine.length_specVals]
  simp [nodes]

def earlyF (inst : Inst) (s : StopIx) (t : Times) : Rat :=
  match (inst.stops.getD s {}).target with
  | some tg => (inst.stops.getD s {}).early * max 0 (tg - t.arrival)
  | none => 0

def lateF (inst : Inst) (s : StopIx) (t : Times) : Rat :=
  match (inst.stops.getD s {}).target with
  | some tg => (inst.stops.getD s {}).late * max 0 (t.arrival - tg)
  | none => 0

theorem vterms_eq (inst : Inst) (vi : VehIx) (obs : List (Node × CV)) :
    vterms inst vi obs =
      { vehDur := ((obs.getLast?.map (·.2)).getD (init inst vi)).t.finish - (inst.vehicles.getD vi {}).start,
        travel := ((obs.getLast?.map (·.2)).getD (init inst vi)).t.cumTravel,
        activation := if (obs.filterMap keepStop).length = 0 then 0 else (inst.vehicles.getD vi {}).activation,
        minStops := if (obs.filterMap keepStop).length = 0 ||
              (obs.filterMap keepStop).length ≥ (inst.vehicles.getD vi {}).minStops then 0
            else (inst.vehicles.getD vi {}).minPenalty *
              (((inst.vehicles.getD vi {}).minStops - (obs.filterMap keepStop).length : Nat) : Rat) *
              (((inst.vehicles.getD vi {}).minStops - (obs.filterMap keepStop).length : Nat) : Rat),
        early := sumRat ((obs.filterMap keepStop).map (fun (s, c) => earlyF inst s c.t)),
        late := sumRat ((obs.filterMap keepStop).map (fun (s, c) => lateF inst s c.t)),
        count := (obs.filterMap keepStop).length } := rfl

/-- The specification's terms of one vehicle. -/
def specVT (inst : Inst) (vi : VehIx) (r : List StopIx) : VTerms :=
  { vehDur := (schedule inst vi r).2.finish - (inst.vehicles.getD vi {}).start,
    travel := (schedule inst vi r).2.cumTravel,
    activation := if r.isEmpty then 0 else (inst.vehicles.getD vi {}).activation,
    minStops := if r.isEmpty || r.length ≥ (inst.vehicles.getD vi {}).minStops then 0
      else (inst.vehicles.getD vi {}).minPenalty * (((inst.vehicles.getD vi {}).minStops - r.length : Nat) : Rat) *
        (((inst.vehicles.getD vi {}).minStops - r.length : Nat) : Rat),
    early := sumRat ((List.zip r (schedule inst vi r).1).map (fun (s, t) => earlyF inst s t)),
    late := sumRat ((List.zip r (schedule inst vi r).1).map (fun (s, t) => lateF inst s t)),
    count := r.length }

theorem vterms_spec (inst : Inst) (vi : VehIx) (r : List StopIx) :
    vterms inst vi (List.zip (nodes vi r) (specVals (eng inst) (init inst vi) (nodes vi r))) =
      specVT inst vi r := by
  have hs := stops_gen inst vi r (init inst vi)
  have hl := last_gen inst vi r (init inst vi)
  have he : (valAfter (eng inst) (init inst vi) (nodes vi r)).t = (schedule inst vi r).2 :=
    endt_gen inst vi r (init inst vi) rfl
  have hlen := stops_length inst vi r (init inst vi)
  have hE : _ = (List.zip r (schedule inst vi r).1).map (fun (s, t) => earlyF inst s t) :=
    zipmap_gen inst vi (earlyF inst) r (init inst vi) rfl
  have hL : _ = (List.zip r (schedule inst vi r).1).map (fun (s, t) => lateF inst s t) :=
    zipmap_gen inst vi (lateF inst) r (init inst vi) rfl
  rw [vterms_eq, hs, hl, hlen, hE, hL]
  simp only [Option.map_some, Option.getD_some, he]
  unfold specVT
  cases r with
  | nil => simp
  | cons s rest => simp

theorem specObs_model (inst : Inst) (rs : List (List StopIx)) (hlen : rs.length = inst.vehicles.size) :
    specObs (model inst) ((List.range rs.length).map (fun v => nodes v (rs.getD v []))) =
      (List.range rs.length).map (fun v =>
        List.zip (nodes v (rs.getD v [])) (specVals (eng inst) (init inst v) (nodes v (rs.getD v [])))) := by
  unfold specObs model
  simp only
  rw [← hlen, List.zip_map', List.map_map]
  rfl

theorem vts_spec (inst : Inst) (rs : List (List StopIx)) (obs : List (List (Node × CV)))
    (hobs : obs = (List.range rs.length).map (fun v =>
        List.zip (nodes v (rs.getD v [])) (specVals (eng inst) (init inst v) (nodes v (rs.getD v []))))) :
    (List.range obs.length).map (fun vi => vterms inst vi (obs.getD vi [])) =
      (List.range rs.length).map (fun vi => specVT inst vi (rs.getD vi [])) := by
  have hl : obs.length = rs.length := by rw [hobs]; simp
  rw [hl]
  apply List.map_congr_left
  intro vi hvi
  have hvi' : vi < rs.length := List.mem_range.mp hvi
  have : obs.getD vi [] =
      List.zip (nodes vi (rs.getD vi [])) (specVals (eng inst) (init inst vi) (nodes vi (rs.getD vi []))) := by
    rw [hobs, List.getD_eq_getElem?_getD, List.getElem?_map, List.getElem?_range hvi']
    rfl
  rw [this, vterms_spec]

theorem map_getD_range (rs : List (List StopIx)) :
    (List.range rs.length).map (fun i => rs.getD i []) = rs := by
  apply List.ext_getElem
  · simp
  · intro i h1 h2
    simp [List.getD_eq_getElem?_getD, h2]

/-- The objective terms computed from the cached values of consistent routes are the specification's terms
(all but the unplanned penalty, which is a function of the collections). -/
theorem scoreOf_spec (inst : Inst) (rs : List (List StopIx)) (hlen : rs.length = inst.vehicles.size) :
    scoreOf inst (specObs (model inst) ((List.range rs.length).map (fun v => nodes v (rs.getD v [])))) =
      { objective inst rs with unplanned := 0 } := by
  have hv := vts_spec inst rs _ (specObs_model inst rs hlen)
  unfold scoreOf
  simp only [hv]
  unfold objective
  simp only [List.map_map, ← hlen]
  have hb : List.map List.length rs =
      List.map ((fun x => x.count) ∘ fun vi => specVT inst vi (rs.getD vi [])) (List.range rs.length) := by
    conv => lhs; rw [← map_getD_range rs]
    rw [List.map_map]
    rfl
  rw [hb]
  rfl

/-! ### The empty solution -/

theorem emptyState_routes (inst : Inst) :
    (emptyState inst).routes = (List.range inst.vehicles.size).map (fun vi => nodes vi []) := rfl

theorem emptyState_vals_last (inst : Inst) (vi : VehIx) :
    (emptyState inst).vals (.last vi) = step inst (init inst vi) (.last vi) := rfl

theorem emptyState_score (inst : Inst) :
    (emptyState inst).score =
      scoreOf inst (cachedObs (emptyState inst).routes (emptyState inst).vals) := rfl

theorem model_inits (inst : Inst) :
    (model inst).inits = (List.range inst.vehicles.size).map (init inst) := rfl

theorem emptyState_flatten (inst : Inst) :
    (emptyState inst).routes.flatten = (List.range inst.vehicles.size).map Node.last := by
  rw [emptyState_routes]
  generalize List.range inst.vehicles.size = l
  induction l with
  | nil => rfl
  | cons a l ih =>
    rw [List.map_cons, List.flatten_cons, ih]
    rfl

theorem emptyState_each (inst : Inst) (he : EmptyOK inst) :
    ∀ v (h : v < (emptyState inst).routes.length) (h' : v < (model inst).inits.length),
      Consistent (model inst).eng ((model inst).inits[v]) ((emptyState inst).routes[v]) (emptyState inst).vals ∧
        AllOk (model inst).eng ((model inst).inits[v]) ((emptyState inst).routes[v]) := by
  intro v h h'
  have hv : v < inst.vehicles.size := by
    rw [emptyState_routes] at h; simpa using h
  have hr : (emptyState inst).routes[v] = nodes v [] := by
    simp only [emptyState_routes, List.getElem_map, List.getElem_range]
  have hi : (model inst).inits[v] = init inst v := by
    simp only [model_inits, List.getElem_map, List.getElem_range]
  rw [hr, hi]
  exact ⟨⟨emptyState_vals_last inst v, trivial⟩, he v hv⟩

/-- The empty solution satisfies the engine invariant. -/
theorem emptyState_inv (inst : Inst) (he : EmptyOK inst) : MInv (model inst) (emptyState inst) := by
  have hlen : (emptyState inst).routes.length = (model inst).inits.length := by
    rw [emptyState_routes, model_inits]; simp
  refine ⟨hlen, ?_, emptyState_each inst he, ?_⟩
  · rw [emptyState_flatten]
    rw [List.Nodup, List.pairwise_map]
    exact List.nodup_range.imp (fun h hh => h (Node.last.inj hh))
  · rw [emptyState_score,
      NR.Proofs.Engine.cachedObs_eq_specObs (model inst) _ _ hlen
        (fun v h h' => (emptyState_each inst he v h h').1)]
    rfl

theorem emptyState_shaped (inst : Inst) : Shaped (emptyState inst).routes := by
  intro v h
  refine ⟨[], ?_⟩
  simp only [emptyState_routes, List.getElem_map, List.getElem_range]
end NR.Proofs.Sched
