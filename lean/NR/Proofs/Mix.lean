/-
  Proofs for NR.Mix: the repaired no-mix estimate is sound, and un-planning a unit never makes the updater fail.
-/
import NR.Mix
namespace NR.Proofs.Mix
open NR.Mix

def ItemPos : Item → Prop
  | .none => True
  | .ins _ q => 0 < q
  | .rem _ q => 0 < q

def sumDelta (xs : List Item) : Int := (xs.map delta).foldl (· + ·) 0

-- helpers for est_sound

theorem es_foldl_add (l : List Int) (a : Int) : l.foldl (· + ·) a = a + l.foldl (· + ·) 0 := by
  induction l generalizing a with
  | nil => simp
  | cons x r ih => simp only [List.foldl_cons]; rw [ih (a + x), ih (0 + x)]; omega

theorem es_sumDelta_nil : sumDelta [] = 0 := rfl

theorem es_sumDelta_cons (x : Item) (xs : List Item) : sumDelta (x :: xs) = delta x + sumDelta xs := by
  unfold sumDelta
  simp only [List.map_cons, List.foldl_cons]
  rw [es_foldl_add]; omega

theorem es_run_append (p : St) (l1 l2 : List Item) :
    run p (l1 ++ l2) = (run p l1).bind (fun s => run s l2) := by
  induction l1 generalizing p with
  | nil => simp [run]
  | cons it r ih =>
    simp only [List.cons_append, run]
    cases upd p it with
    | none => simp
    | some s => simp [ih]

/-- the state after `a` stops, as `positions` reads it -/
def es_at (sts : List St) (g : Nat) : St := if g = 0 then init else sts.getD (g - 1) init

theorem es_states_run (p : St) (l : List Item) (ss : List St) (h : states p l = some ss) (a : Nat)
    (ha : a ≤ l.length) :
    run p (l.take a) = some (if a = 0 then p else ss.getD (a - 1) init) := by
  induction l generalizing p ss a with
  | nil => simp at ha; subst ha; simp [run]
  | cons it r ih =>
    cases a with
    | zero => simp [run]
    | succ a' =>
      simp only [states] at h
      cases hu : upd p it with
      | none => simp [hu] at h
      | some s1 =>
        simp only [hu] at h
        cases hs : states s1 r with
        | none => simp [hs] at h
        | some ss' =>
          simp only [hs, Option.map_some, Option.some.injEq] at h
          subst h
          simp only [List.take_succ_cons, run, hu, Option.bind_some]
          rw [ih s1 ss' hs a' (by simpa using ha)]
          cases a' with
          | zero => simp
          | succ a'' => simp

theorem es_states_length (p : St) (l : List Item) (ss : List St) (h : states p l = some ss) :
    ss.length = l.length := by
  induction l generalizing p ss with
  | nil => simp [states] at h; subst h; rfl
  | cons it r ih =>
    simp only [states] at h
    cases hu : upd p it with
    | none => simp [hu] at h
    | some s1 =>
      simp only [hu] at h
      cases hs : states s1 r with
      | none => simp [hs] at h
      | some ss' =>
        simp only [hs, Option.map_some, Option.some.injEq] at h
        subst h
        simp [ih s1 ss' hs]

/-- G1: the old run between two cut points -/
theorem es_block (old : List Item) (sts : List St) (h : states init old = some sts) (a b : Nat)
    (hab : a ≤ b) (hb : b ≤ old.length) :
    run (es_at sts a) ((old.drop a).take (b - a)) = some (es_at sts b) := by
  have h1 := es_states_run init old sts h a (by omega)
  have h2 := es_states_run init old sts h b hb
  have e : old.take b = old.take a ++ (old.drop a).take (b - a) := by
    have : b = a + (b - a) := by omega
    conv => lhs; rw [this]
    exact List.take_add
  rw [e, es_run_append, h1] at h2
  simpa [es_at] using h2

/-- G2: the old run behind a cut point -/
theorem es_tail (old : List Item) (sts : List St) (h : states init old = some sts) (a : Nat)
    (ha : a ≤ old.length) :
    (run (es_at sts a) (old.drop a)).isSome = true := by
  have hb := es_block old sts h a old.length ha (Nat.le_refl _)
  have : (old.drop a).take (old.length - a) = old.drop a := by
    apply List.take_of_length_le; simp
  rw [this] at hb; simp [hb]

/-- same content: same quantity and, when something is on board, same name -/
def es_eqv (s o : St) : Prop := s.qty = o.qty ∧ (s.qty ≠ 0 → s.name = o.name)

theorem es_eqv_upd (s o o1 : St) (it : Item) (hp : ItemPos it) (h : es_eqv s o) (hu : upd o it = some o1) :
    ∃ s1, upd s it = some s1 ∧ es_eqv s1 o1 := by
  obtain ⟨hq, hn⟩ := h
  cases it with
  | none =>
    simp only [upd, Option.some.injEq] at hu ⊢
    subst hu
    refine ⟨_, rfl, hq, ?_⟩
    intro h0
    simp only at h0
    have := hn h0
    simp [h0, hq ▸ h0, this]
  | ins n q =>
    simp only [upd] at hu ⊢
    split at hu
    · simp at hu
    · rename_i hc
      simp only [Option.some.injEq] at hu
      subst hu
      have hc' : ¬ (s.name ≠ n ∧ s.qty ≠ 0) := by
        intro ⟨h1, h2⟩
        apply hc
        exact ⟨by rw [← hn h2]; exact h1, by omega⟩
      rw [if_neg hc']
      exact ⟨_, rfl, by simp [hq], by simp⟩
  | rem n q =>
    simp only [ItemPos] at hp
    simp only [upd] at hu ⊢
    split at hu
    · simp at hu
    · rename_i hc
      simp only [Option.some.injEq] at hu
      subst hu
      have hq1 : q ≤ o.qty := by omega
      have hs0 : s.qty ≠ 0 := by omega
      have hnm : o.name = n := by
        apply Classical.byContradiction; intro h; exact hc (Or.inl h)
      have hc' : ¬ (s.name ≠ n ∨ s.qty < q) := by
        intro h
        rcases h with h1 | h2
        · rw [hn hs0] at h1; exact h1 hnm
        · omega
      rw [if_neg hc']
      refine ⟨_, rfl, by simp [hq], ?_⟩
      intro _
      exact hn hs0

theorem es_eqv_run (l : List Item) (s o : St) (hp : ∀ x ∈ l, ItemPos x) (h : es_eqv s o)
    (hr : (run o l).isSome = true) : (run s l).isSome = true := by
  induction l generalizing s o with
  | nil => simp [run]
  | cons it r ih =>
    simp only [run] at hr ⊢
    cases hu : upd o it with
    | none => simp [hu] at hr
    | some o1 =>
      obtain ⟨s1, hs1, he⟩ := es_eqv_upd s o o1 it (hp it (by simp)) h hu
      simp only [hu, Option.bind_some] at hr
      simp only [hs1, Option.bind_some]
      exact ih s1 o1 (fun x hx => hp x (by simp [hx])) he hr

theorem es_eqv_run' (l : List Item) (s o o' : St) (hp : ∀ x ∈ l, ItemPos x) (h : es_eqv s o)
    (hr : run o l = some o') : ∃ s', run s l = some s' ∧ es_eqv s' o' := by
  induction l generalizing s o with
  | nil => simp only [run, Option.some.injEq] at hr ⊢; subst hr; exact ⟨s, rfl, h⟩
  | cons it r ih =>
    simp only [run] at hr ⊢
    cases hu : upd o it with
    | none => simp [hu] at hr
    | some o1 =>
      obtain ⟨s1, hs1, he⟩ := es_eqv_upd s o o1 it (hp it (by simp)) h hu
      simp only [hu, Option.bind_some] at hr
      simp only [hs1, Option.bind_some]
      exact ih s1 o1 (fun x hx => hp x (by simp [hx])) he hr

/-- the new state carries the old content plus the move's own `Δ`, all of it named `c` -/
def es_sim (c : String) (Δ : Int) (o s : St) : Prop :=
  (s.qty : Int) = o.qty + Δ ∧ (s.qty ≠ 0 → s.name = c)

def es_named (c : String) : Item → Prop
  | .none => True
  | .ins n _ => n = c
  | .rem n _ => n = c

theorem es_sim_upd (c : String) (Δ : Int) (hΔ : 0 ≤ Δ) (s o o1 : St) (it : Item) (hp : ItemPos it)
    (hnm : es_named c it) (h : es_sim c Δ o s) (hu : upd o it = some o1) :
    ∃ s1, upd s it = some s1 ∧ es_sim c Δ o1 s1 := by
  obtain ⟨hq, hn⟩ := h
  cases it with
  | none =>
    simp only [upd, Option.some.injEq] at hu ⊢
    subst hu
    refine ⟨_, rfl, hq, ?_⟩
    intro h0
    simp only at h0
    simp [h0, hn h0]
  | ins n q =>
    simp only [es_named] at hnm
    subst hnm
    simp only [upd] at hu ⊢
    split at hu
    · simp at hu
    · simp only [Option.some.injEq] at hu
      subst hu
      have hc' : ¬ (s.name ≠ n ∧ s.qty ≠ 0) := by
        intro ⟨h1, h2⟩; exact h1 (hn h2)
      rw [if_neg hc']
      refine ⟨_, rfl, ?_, by simp⟩
      simp only; omega
  | rem n q =>
    simp only [es_named] at hnm
    subst hnm
    simp only [ItemPos] at hp
    simp only [upd] at hu ⊢
    split at hu
    · simp at hu
    · rename_i hc
      simp only [Option.some.injEq] at hu
      subst hu
      have hq1 : q ≤ o.qty := by omega
      have hs0 : s.qty ≠ 0 := by omega
      have hc' : ¬ (s.name ≠ n ∨ s.qty < q) := by
        intro h
        rcases h with h1 | h2
        · exact h1 (hn hs0)
        · omega
      rw [if_neg hc']
      refine ⟨_, rfl, ?_, ?_⟩
      · simp only; omega
      · intro _; exact hn hs0

theorem es_sim_run (c : String) (Δ : Int) (hΔ : 0 ≤ Δ) (l : List Item) (s o o' : St)
    (hp : ∀ x ∈ l, ItemPos x) (hnm : ∀ x ∈ l, es_named c x) (h : es_sim c Δ o s)
    (hr : run o l = some o') : ∃ s', run s l = some s' ∧ es_sim c Δ o' s' := by
  induction l generalizing s o with
  | nil => simp only [run, Option.some.injEq] at hr ⊢; subst hr; exact ⟨s, rfl, h⟩
  | cons it r ih =>
    simp only [run] at hr ⊢
    cases hu : upd o it with
    | none => simp [hu] at hr
    | some o1 =>
      obtain ⟨s1, hs1, he⟩ := es_sim_upd c Δ hΔ s o o1 it (hp it (by simp)) (hnm it (by simp)) h hu
      simp only [hu, Option.bind_some] at hr
      simp only [hs1, Option.bind_some]
      exact ih s1 o1 (fun x hx => hp x (by simp [hx])) (fun x hx => hnm x (by simp [hx])) he hr

/-! tour facts about a successful run -/

theorem es_upd_tour (o o1 : St) (it : Item) (hu : upd o it = some o1) : o.tour ≤ o1.tour := by
  cases it with
  | none => simp only [upd, Option.some.injEq] at hu; subst hu; simp
  | ins n q =>
    simp only [upd] at hu
    split at hu
    · simp at hu
    · simp only [Option.some.injEq] at hu; subst hu; simp only; split <;> omega
  | rem n q =>
    simp only [upd] at hu
    split at hu
    · simp at hu
    · simp only [Option.some.injEq] at hu; subst hu; simp

theorem es_run_tour (l : List Item) (o o' : St) (hr : run o l = some o') : o.tour ≤ o'.tour := by
  induction l generalizing o with
  | nil => simp only [run, Option.some.injEq] at hr; subst hr; exact Nat.le_refl _
  | cons it r ih =>
    simp only [run] at hr
    cases hu : upd o it with
    | none => simp [hu] at hr
    | some o1 =>
      simp only [hu, Option.bind_some] at hr
      exact Nat.le_trans (es_upd_tour o o1 it hu) (ih o1 hr)

/-- (T3') within one tour the name only changes to "" -/
theorem es_run_name (l : List Item) (o o' : St) (hr : run o l = some o') (ht : o'.tour = o.tour) :
    o'.name = o.name ∨ o'.name = "" := by
  induction l generalizing o with
  | nil => simp only [run, Option.some.injEq] at hr; subst hr; exact Or.inl rfl
  | cons it r ih =>
    simp only [run] at hr
    cases hu : upd o it with
    | none => simp [hu] at hr
    | some o1 =>
      simp only [hu, Option.bind_some] at hr
      have h1 := es_upd_tour o o1 it hu
      have h2 := es_run_tour r o1 o' hr
      have ht1 : o'.tour = o1.tour := by omega
      have hi := ih o1 hr ht1
      have : o1.name = o.name ∨ o1.name = "" := by
        cases it with
        | none =>
          simp only [upd, Option.some.injEq] at hu; subst hu; simp only
          split
          · exact Or.inr rfl
          · exact Or.inl rfl
        | ins n q =>
          simp only [upd] at hu
          split at hu
          · simp at hu
          · rename_i hc
            simp only [Option.some.injEq] at hu; subst hu
            simp only at ht1 h1 ⊢
            by_cases h0 : o.qty = 0
            · simp only [h0, if_true] at ht1; omega
            · left
              apply Classical.byContradiction; intro hne
              exact hc ⟨fun e => hne e.symm, h0⟩
        | rem n q =>
          simp only [upd] at hu
          split at hu
          · simp at hu
          · simp only [Option.some.injEq] at hu; subst hu; exact Or.inl rfl
      rcases hi with hi | hi
      · rw [hi]; exact this
      · exact Or.inr hi

/-- where the old run stands relative to the tour `t` named `c` the move joins -/
def es_inv (c : String) (t : Nat) (o : St) : Prop :=
  (o.tour + 1 = t ∧ o.qty = 0) ∨ (o.tour = t ∧ (o.qty ≠ 0 → o.name = c))

/-- a block of the old run that ends in tour `t` with name `c` consists of items named `c` -/
theorem es_block_named (c : String) (t : Nat) (hc : c ≠ "") (l : List Item) (o o' : St)
    (hp : ∀ x ∈ l, ItemPos x) (hr : run o l = some o') (ht : o'.tour = t) (hn : o'.name = c)
    (hi : es_inv c t o) : ∀ x ∈ l, es_named c x := by
  induction l generalizing o with
  | nil => simp
  | cons it r ih =>
    simp only [run] at hr
    cases hu : upd o it with
    | none => simp [hu] at hr
    | some o1 =>
      simp only [hu, Option.bind_some] at hr
      have h2 := es_run_tour r o1 o' hr
      have hpi := hp it (by simp)
      have key : es_named c it ∧ es_inv c t o1 := by
        cases it with
        | none =>
          refine ⟨trivial, ?_⟩
          simp only [upd, Option.some.injEq] at hu; subst hu
          rcases hi with ⟨a, b⟩ | ⟨a, b⟩
          · exact Or.inl ⟨a, b⟩
          · right; refine ⟨a, ?_⟩
            intro h0; simp only at h0; simp [h0, b h0]
        | ins n q =>
          simp only [upd] at hu
          split at hu
          · simp at hu
          · rename_i hcnd
            simp only [Option.some.injEq] at hu; subst hu
            simp only at h2
            rcases hi with ⟨a, b⟩ | ⟨a, b⟩
            · simp only [b, if_true] at h2 hr
              have := es_run_name r _ o' hr (by simp only; omega)
              simp only at this
              have hnc : n = c := by
                rcases this with h | h
                · rw [← h, hn]
                · rw [hn] at h; exact absurd h hc
              refine ⟨hnc, Or.inr ⟨?_, ?_⟩⟩
              · simp only [b, if_true]; exact a
              · intro _; exact hnc
            · by_cases h0 : o.qty = 0
              · simp only [h0, if_true] at h2; omega
              · have hon : o.name = n := by
                  apply Classical.byContradiction; intro hne; exact hcnd ⟨hne, h0⟩
                have hnc : n = c := by rw [← hon]; exact b h0
                refine ⟨hnc, Or.inr ⟨?_, ?_⟩⟩
                · simp only [h0, if_false]; exact a
                · intro _; exact hnc
        | rem n q =>
          simp only [ItemPos] at hpi
          simp only [upd] at hu
          split at hu
          · simp at hu
          · rename_i hcnd
            simp only [Option.some.injEq] at hu; subst hu
            have hq1 : q ≤ o.qty := by omega
            have h0 : o.qty ≠ 0 := by omega
            have hon : o.name = n := by
              apply Classical.byContradiction; intro hne; exact hcnd (Or.inl hne)
            rcases hi with ⟨a, b⟩ | ⟨a, b⟩
            · exact absurd b h0
            · have hnc : n = c := by rw [← hon]; exact b h0
              refine ⟨hnc, Or.inr ⟨a, ?_⟩⟩
              intro _; simp only; exact b h0
      intro x hx
      rcases List.mem_cons.mp hx with rfl | hx
      · exact key.1
      · exact ih o1 (fun y hy => hp y (by simp [hy])) hr key.2 x hx

/-- `positions`, by recursion (`fst`: the first position; `pg`: the gap of the position in front) -/
def es_posR (at' : Nat → St) : Bool → Nat → List Item → List Nat → List Pos
  | fst, pg, x :: xs, g :: gs =>
    { prev := if fst = true ∨ pg < g then some (at' g) else Option.none, item := x } :: es_posR at' false g xs gs
  | _, _, _, _ => []

/-- `positions` with the first position's test as a parameter -/
def es_posG (at' : Nat → St) (fst : Bool) (pg : Nat) (xs : List Item) (gaps : List Nat) : List Pos :=
  (List.range xs.length).map (fun j =>
    let g := gaps.getD j 0
    let planned := if j = 0 then (fst = true ∨ pg < g) else gaps.getD (j - 1) 0 < g
    { prev := if planned then some (at' g) else Option.none, item := xs.getD j Item.none })

theorem es_posG_eq (at' : Nat → St) (fst : Bool) (pg : Nat) (xs : List Item) (gaps : List Nat)
    (hlen : gaps.length = xs.length) : es_posG at' fst pg xs gaps = es_posR at' fst pg xs gaps := by
  induction xs generalizing fst pg gaps with
  | nil => cases gaps <;> simp [es_posG, es_posR]
  | cons x xs ih =>
    cases gaps with
    | nil => simp at hlen
    | cons g gs =>
      simp only [es_posR]
      rw [← ih false g gs (by simpa using hlen)]
      simp only [es_posG, List.length_cons, List.range_succ_eq_map, List.map_cons, List.map_map]
      congr 1
      apply List.map_congr_left
      intro j _
      simp only [Function.comp]
      cases j with
      | zero => simp
      | succ j' => simp

theorem es_positions_eq (sts : List St) (xs : List Item) (gaps : List Nat) (hlen : gaps.length = xs.length) :
    positions sts xs gaps = es_posR (es_at sts) true 0 xs gaps := by
  rw [← es_posG_eq _ _ _ _ _ hlen]
  simp only [positions, es_posG]
  apply List.map_congr_left
  intro j _
  by_cases hj : j = 0
  · subst hj; simp [es_at]
  · simp [hj, es_at]

theorem es_positions_items (sts : List St) (xs : List Item) (gaps : List Nat) :
    (positions sts xs gaps).map (·.item) = xs := by
  simp only [positions, List.map_map]
  apply List.ext_getElem
  · simp
  · intro i h1 h2
    simp [List.getElem?_eq_getElem h2]

/-- the estimate in front of and at the first item, by recursion (`last`: the last planned previous stop seen) -/
def es_est1 : Option St → List Pos → Bool
  | _, [] => false
  | last, p :: rest =>
    let last' := match p.prev with
      | some d => some d
      | Option.none => last
    match p.item with
    | .none => es_est1 last' rest
    | .rem _ _ => true
    | .ins n q =>
      match last' with
      | Option.none => true
      | some d =>
        if d.name ≠ n ∧ d.qty ≠ 0 then true
        else estLoop true true (if d.qty = 0 then n else d.name) (if d.qty = 0 then d.tour + 1 else d.tour)
          d.qty q rest

def es_last (pre : List Pos) : Option St := plannedBefore pre (pre.length - 1)

theorem es_planned_append (l l' : List Pos) (k : Nat) (hk : k < l.length) :
    plannedBefore (l ++ l') k = plannedBefore l k := by
  induction k with
  | zero =>
    unfold plannedBefore
    simp [List.getElem?_append_left hk]
  | succ k' ih =>
    rw [plannedBefore.eq_2, plannedBefore.eq_2]
    simp only [Nat.succ_eq_add_one, List.getElem?_append_left hk]
    rw [ih (by omega)]

theorem es_planned_snoc (pre : List Pos) (p : Pos) (rest : List Pos) :
    plannedBefore (pre ++ p :: rest) pre.length
      = (match p.prev with | some d => some d | Option.none => es_last pre) := by
  rw [plannedBefore.eq_def]
  simp only [List.getElem?_append_right (Nat.le_refl _), Nat.sub_self, List.getElem?_cons_zero]
  cases hp : p.prev with
  | some d => rfl
  | none =>
    simp only
    cases hl : pre.length with
    | zero =>
      have : pre = [] := List.length_eq_zero_iff.mp hl
      subst this
      simp [es_last, plannedBefore]
    | succ k' =>
      simp only [es_last, hl, Nat.add_sub_cancel]
      exact es_planned_append pre (p :: rest) k' (by omega)

theorem es_findIdx_none (pre ps : List Pos) (hpre : ∀ p ∈ pre, hasItem p.item = false) :
    (pre ++ ps).findIdx? (fun p => hasItem p.item) = (ps.findIdx? (fun p => hasItem p.item)).map (· + pre.length) := by
  induction pre with
  | nil => simp
  | cons a r ih =>
    simp only [List.cons_append, List.findIdx?_cons, hpre a (by simp)]
    rw [ih (fun p hp => hpre p (by simp [hp]))]
    cases ps.findIdx? (fun p => hasItem p.item) <;> simp [Nat.add_assoc]

theorem es_est_pre (pre ps : List Pos) (hpre : ∀ p ∈ pre, hasItem p.item = false) :
    est (pre ++ ps) = es_est1 (es_last pre) ps := by
  induction ps generalizing pre with
  | nil =>
    simp only [est, estG, es_est1, List.append_nil, if_true]
    have : pre.findIdx? (fun p => hasItem p.item) = Option.none := by
      have := es_findIdx_none pre [] hpre
      simpa using this
    simp [this]
  | cons p rest ih =>
    by_cases hi : hasItem p.item = true
    · have hf : (pre ++ p :: rest).findIdx? (fun p => hasItem p.item) = some pre.length := by
        rw [es_findIdx_none pre _ hpre]; simp [List.findIdx?_cons, hi]
      simp only [est, estG, hf, if_true, Option.getD_some]
      simp only [List.getElem?_append_right (Nat.le_refl _), Nat.sub_self, List.getElem?_cons_zero]
      rw [es_planned_snoc]
      have hd : List.drop (pre.length + 1) (pre ++ p :: rest) = rest := by
        rw [List.drop_append]; simp
      rw [hd]
      simp only [es_est1]
      cases hit : p.item with
      | none => simp [hit, hasItem] at hi
      | rem n q => rfl
      | ins n q => rfl
    · have hi' : hasItem p.item = false := by simpa using hi
      have e : pre ++ p :: rest = (pre ++ [p]) ++ rest := by simp
      rw [e, ih (pre ++ [p]) (by
        intro x hx
        rcases List.mem_append.mp hx with h | h
        · exact hpre x h
        · simp at h; subst h; exact hi')]
      have hl : es_last (pre ++ [p]) = (match p.prev with | some d => some d | Option.none => es_last pre) := by
        have := es_planned_snoc pre p []
        simpa [es_last] using this
      rw [hl]
      cases hit : p.item with
      | none => simp [es_est1, hit]
      | rem n q => simp [hit, hasItem] at hi'
      | ins n q => simp [hit, hasItem] at hi'

theorem es_est_eq (ps : List Pos) : est ps = es_est1 Option.none ps := by
  have := es_est_pre [] ps (by simp)
  simpa [es_last, plannedBefore] using this

/-! the route the move produces, block by block -/

theorem es_newRoute_nil (old : List Item) (gs : List Nat) (done : Nat) : newRoute old [] gs done = old := by
  rw [newRoute]

theorem es_newRoute_step (k : Nat) : ∀ (old : List Item) (x : Item) (xs : List Item) (g : Nat) (gs : List Nat)
    (done : Nat), done ≤ g → g - done = k → k ≤ old.length →
    newRoute old (x :: xs) (g :: gs) done = old.take k ++ x :: newRoute (old.drop k) xs gs g := by
  induction k with
  | zero =>
    intro old x xs g gs done h1 h2 _
    have : g = done := by omega
    subst this
    cases old <;> simp [newRoute]
  | succ k ih =>
    intro old x xs g gs done h1 h2 h3
    cases old with
    | nil => simp at h3
    | cons o os =>
      rw [newRoute.eq_3]
      have : ¬ g ≤ done := by omega
      simp only [this, if_false, List.take_succ_cons, List.drop_succ_cons, List.cons_append]
      rw [ih os x xs g gs (done + 1) (by omega) (by omega) (by simpa using h3)]

/-! the loop of the estimate, one position at a time -/

theorem es_estLoop_cons (c : String) (t cq : Nat) (Δ : Int) (p : Pos) (rest : List Pos) (hΔ : 0 ≤ Δ)
    (h : estLoop true true c t cq Δ (p :: rest) = false) :
    (∀ d, p.prev = some d → d.tour = t ∧ d.name = c) ∧ es_named c p.item ∧ 0 ≤ Δ + delta p.item ∧
      ∃ cq', estLoop true true c t cq' (Δ + delta p.item) rest = false := by
  cases hprev : p.prev with
  | none =>
    cases hit : p.item with
    | none =>
      simp [estLoop, hprev, hit] at h
      refine ⟨by simp, trivial, by simpa [delta] using hΔ, cq, by simpa [delta] using h⟩
    | ins n q =>
      simp [estLoop, hprev, hit] at h
      refine ⟨by simp, h.1.symm, by simp only [delta]; omega, cq, by simpa [delta] using h.2⟩
    | rem n q =>
      simp [estLoop, hprev, hit] at h
      refine ⟨by simp, h.1.symm, by simp only [delta]; omega, cq, ?_⟩
      simpa [delta, Int.sub_eq_add_neg] using h.2.2
  | some d =>
    cases hit : p.item with
    | none =>
      simp [estLoop, hprev, hit] at h
      refine ⟨by simpa using h.1, trivial, by simpa [delta] using hΔ, d.qty, by simpa [delta] using h.2⟩
    | ins n q =>
      simp [estLoop, hprev, hit] at h
      refine ⟨by simpa using h.1, h.2.1.symm, by simp only [delta]; omega, d.qty, by simpa [delta] using h.2.2⟩
    | rem n q =>
      simp [estLoop, hprev, hit] at h
      refine ⟨by simpa using h.1, h.2.1.symm, by simp only [delta]; omega, d.qty, ?_⟩
      simpa [delta, Int.sub_eq_add_neg] using h.2.2.2

theorem es_sim_item (c : String) (Δ : Int) (o s : St) (x : Item) (h : es_sim c Δ o s) (hn : es_named c x)
    (hΔ : 0 ≤ Δ) (hΔ' : 0 ≤ Δ + delta x) (hp : ItemPos x) :
    ∃ s1, upd s x = some s1 ∧ es_sim c (Δ + delta x) o s1 := by
  obtain ⟨hq, hnm⟩ := h
  cases x with
  | none =>
    refine ⟨_, rfl, ?_, ?_⟩
    · simp only [delta]; omega
    · intro h0; simp only at h0; simp [h0, hnm h0]
  | ins n q =>
    simp only [es_named] at hn; subst hn
    simp only [upd]
    have hc' : ¬ (s.name ≠ n ∧ s.qty ≠ 0) := by
      intro ⟨h1, h2⟩; exact h1 (hnm h2)
    rw [if_neg hc']
    refine ⟨_, rfl, ?_, by simp⟩
    simp only [delta]; omega
  | rem n q =>
    simp only [es_named] at hn; subst hn
    simp only [ItemPos] at hp
    simp only [delta] at hΔ' ⊢
    have hs0 : s.qty ≠ 0 := by omega
    simp only [upd]
    have hc' : ¬ (s.name ≠ n ∨ s.qty < q) := by
      intro h
      rcases h with h1 | h2
      · exact h1 (hnm hs0)
      · omega
    rw [if_neg hc']
    refine ⟨_, rfl, ?_, ?_⟩
    · simp only; omega
    · intro _; exact hnm hs0

theorem es_sim_zero (c : String) (t : Nat) (o s : St) (h : es_sim c 0 o s) (hi : es_inv c t o) : es_eqv s o := by
  obtain ⟨hq, hn⟩ := h
  have hq' : s.qty = o.qty := by omega
  refine ⟨hq', ?_⟩
  intro h0
  rcases hi with ⟨_, b⟩ | ⟨_, b⟩
  · omega
  · rw [hn h0, b (by omega)]

theorem es_mem_block (old : List Item) (a k : Nat) : ∀ x ∈ (old.drop a).take k, x ∈ old :=
  fun _ hx => List.mem_of_mem_drop (List.mem_of_mem_take hx)

/-! est_covered -/

theorem es_loop_covered (c : String) (t : Nat) (ps : List Pos) (cq : Nat) (Δ : Int) (hΔ : 0 ≤ Δ)
    (hs : Δ + sumDelta (ps.map (·.item)) = 0) (h : estLoop true true c t cq Δ ps = false) :
    OwnCovered Δ (ps.map (·.item)) := by
  induction ps generalizing cq Δ with
  | nil => simp only [List.map_nil, OwnCovered]; simpa [es_sumDelta_nil] using hs
  | cons p rest ih =>
    obtain ⟨_, _, h0, cq', hl⟩ := es_estLoop_cons c t cq Δ p rest hΔ h
    simp only [List.map_cons, OwnCovered]
    refine ⟨h0, ih cq' _ h0 ?_ hl⟩
    simp only [List.map_cons, es_sumDelta_cons] at hs
    omega

theorem es_est1_covered (ps : List Pos) (last : Option St) (hs : sumDelta (ps.map (·.item)) = 0)
    (h : es_est1 last ps = false) : OwnCovered 0 (ps.map (·.item)) := by
  induction ps generalizing last with
  | nil => simp [OwnCovered]
  | cons p rest ih =>
    simp only [List.map_cons, es_sumDelta_cons] at hs
    rw [es_est1] at h
    simp only [List.map_cons, OwnCovered]
    cases hit : p.item with
    | none =>
      simp only [hit] at h
      simp only [hit, delta] at hs
      simp only [delta, Int.add_zero]
      exact ⟨Int.le_refl _, ih _ (by omega) h⟩
    | rem n q => simp [hit] at h
    | ins n q =>
      simp only [hit] at h
      simp only [hit, delta] at hs
      split at h
      · simp at h
      · split at h
        · simp at h
        · simp only [delta, Int.zero_add]
          exact ⟨by omega, es_loop_covered _ _ rest _ _ (by omega) hs h⟩

/-! the main inductions -/

theorem es_drop_block (old : List Item) (pg g : Nat) (h : pg ≤ g) :
    List.drop (g - pg) (List.drop pg old) = List.drop g old := by
  rw [List.drop_drop]; congr 1; omega

/-- behind the first item: the new run carries the old content plus `Δ`, all named `c` -/
theorem es_phase2 (old : List Item) (sts : List St) (hold : states init old = some sts)
    (hpo : ∀ x ∈ old, ItemPos x) (c : String) (t : Nat) (hc : c ≠ "") :
    ∀ (xs : List Item) (gs : List Nat) (pg : Nat) (s : St) (Δ : Int) (cq : Nat),
      gs.length = xs.length → (pg :: gs).Pairwise (· ≤ ·) → (∀ g ∈ gs, g ≤ old.length) → pg ≤ old.length →
      (∀ x ∈ xs, ItemPos x) → 0 ≤ Δ → Δ + sumDelta xs = 0 →
      es_sim c Δ (es_at sts pg) s → es_inv c t (es_at sts pg) →
      estLoop true true c t cq Δ (es_posR (es_at sts) false pg xs gs) = false →
      (run s (newRoute (old.drop pg) xs gs pg)).isSome = true := by
  intro xs
  induction xs with
  | nil =>
    intro gs pg s Δ cq _ _ _ hpg _ _ hsum hsim hinv _
    rw [es_newRoute_nil]
    have : Δ = 0 := by simpa [es_sumDelta_nil] using hsum
    subst this
    exact es_eqv_run _ s _ (fun x hx => hpo x (List.mem_of_mem_drop hx)) (es_sim_zero c t _ s hsim hinv)
      (es_tail old sts hold pg hpg)
  | cons x xs ih =>
    intro gs pg s Δ cq hlen hmono hrange hpg hpx hΔ hsum hsim hinv hest
    cases gs with
    | nil => simp at hlen
    | cons g gs =>
      have hpgg : pg ≤ g := (List.pairwise_cons.mp hmono).1 g (by simp)
      have hg : g ≤ old.length := hrange g (by simp)
      rw [es_newRoute_step (g - pg) _ x xs g gs pg hpgg rfl (by simp; omega), es_drop_block old pg g hpgg]
      simp only [es_posR] at hest
      obtain ⟨hprev, hnm, hΔ', cq', hest'⟩ := es_estLoop_cons c t cq Δ _ _ hΔ hest
      simp only at hprev hnm hΔ' hest'
      have hblk := es_block old sts hold pg g hpgg hg
      -- cross the block
      have hcross : ∃ s', run s ((old.drop pg).take (g - pg)) = some s' ∧ es_sim c Δ (es_at sts g) s'
          ∧ es_inv c t (es_at sts g) := by
        by_cases hlt : pg < g
        · have hd := hprev (es_at sts g) (by simp [hlt])
          have hnamed := es_block_named c t hc _ _ _ (fun y hy => hpo y (es_mem_block old pg _ y hy)) hblk hd.1 hd.2 hinv
          obtain ⟨s', h1, h2⟩ := es_sim_run c Δ hΔ _ s _ _ (fun y hy => hpo y (es_mem_block old pg _ y hy)) hnamed hsim hblk
          exact ⟨s', h1, h2, Or.inr ⟨hd.1, fun _ => hd.2⟩⟩
        · have : g = pg := by omega
          subst this
          exact ⟨s, by simp [run], hsim, hinv⟩
      obtain ⟨s', hr1, hsim', hinv'⟩ := hcross
      obtain ⟨s1, hu, hsim1⟩ := es_sim_item c Δ _ s' x hsim' hnm hΔ hΔ' (hpx x (by simp))
      rw [es_run_append, hr1]
      simp only [Option.bind_some, run, hu]
      refine ih gs g s1 (Δ + delta x) cq' (by simpa using hlen) (List.pairwise_cons.mp hmono).2
        (fun g' hg' => hrange g' (by simp [hg'])) hg (fun y hy => hpx y (by simp [hy])) hΔ' ?_ hsim1 hinv' hest'
      rw [es_sumDelta_cons] at hsum; omega

theorem es_eqv_none (s o : St) (h : es_eqv s o) : ∃ s1, upd s Item.none = some s1 ∧ es_eqv s1 o := by
  refine ⟨_, rfl, h.1, ?_⟩
  intro h0; simp only at h0; simp [h0, h.2 h0]

/-- up to the first item: the new run has the old content -/
theorem es_phase1 (old : List Item) (sts : List St) (hold : states init old = some sts)
    (hpo : ∀ x ∈ old, ItemPos x) :
    ∀ (xs : List Item) (gs : List Nat) (fst : Bool) (pg : Nat) (s : St) (last : Option St),
      gs.length = xs.length → (pg :: gs).Pairwise (· ≤ ·) → (∀ g ∈ gs, g ≤ old.length) → pg ≤ old.length →
      (∀ x ∈ xs, ItemPos x) → (∀ x ∈ xs, ∀ n q, x = Item.ins n q → n ≠ "") → sumDelta xs = 0 →
      es_eqv s (es_at sts pg) → (fst = false → last = some (es_at sts pg)) →
      es_est1 last (es_posR (es_at sts) fst pg xs gs) = false →
      (run s (newRoute (old.drop pg) xs gs pg)).isSome = true := by
  intro xs
  induction xs with
  | nil =>
    intro gs fst pg s last _ _ _ hpg _ _ _ heqv _ _
    rw [es_newRoute_nil]
    exact es_eqv_run _ s _ (fun x hx => hpo x (List.mem_of_mem_drop hx)) heqv (es_tail old sts hold pg hpg)
  | cons x xs ih =>
    intro gs fst pg s last hlen hmono hrange hpg hpx hname hsum heqv hlast hest
    cases gs with
    | nil => simp at hlen
    | cons g gs =>
      have hpgg : pg ≤ g := (List.pairwise_cons.mp hmono).1 g (by simp)
      have hg : g ≤ old.length := hrange g (by simp)
      rw [es_newRoute_step (g - pg) _ x xs g gs pg hpgg rfl (by simp; omega), es_drop_block old pg g hpgg]
      have hblk := es_block old sts hold pg g hpgg hg
      obtain ⟨s', hr1, heqv'⟩ := es_eqv_run' _ s _ _ (fun y hy => hpo y (es_mem_block old pg _ y hy)) heqv hblk
      rw [es_run_append, hr1]
      simp only [Option.bind_some, run]
      -- the last planned previous stop is the one in front of this position
      have hlast' : (match (if fst = true ∨ pg < g then some (es_at sts g) else Option.none) with
          | some d => some d
          | Option.none => last) = some (es_at sts g) := by
        by_cases hpl : fst = true ∨ pg < g
        · simp [hpl]
        · have h1 : fst = false := by
            cases fst with
            | true => exact absurd (Or.inl rfl) hpl
            | false => rfl
          have h2 : g = pg := by
            have : ¬ pg < g := fun h => hpl (Or.inr h)
            omega
          subst h1; subst h2
          simp [hlast rfl]
      simp only [es_posR] at hest
      rw [es_est1] at hest
      simp only [hlast'] at hest
      rw [es_sumDelta_cons] at hsum
      have hrest := fun (s1 : St) => ih gs false g s1 (some (es_at sts g)) (by simpa using hlen)
        (List.pairwise_cons.mp hmono).2 (fun g' hg' => hrange g' (by simp [hg'])) hg
        (fun y hy => hpx y (by simp [hy])) (fun y hy => hname y (by simp [hy]))
      cases x with
      | none =>
        obtain ⟨s1, hu, he1⟩ := es_eqv_none s' _ heqv'
        simp only [hu, Option.bind_some]
        simp only at hest
        exact hrest s1 (by simpa [delta] using hsum) he1 (fun _ => rfl) hest
      | rem n q => simp at hest
      | ins n q =>
        simp only at hest
        split at hest
        · simp at hest
        · rename_i hcnd
          have hpq : 0 < q := hpx (Item.ins n q) (by simp)
          have hn0 : n ≠ "" := hname (Item.ins n q) (by simp) n q rfl
          have hdn : (es_at sts g).qty ≠ 0 → (es_at sts g).name = n := by
            intro h0; apply Classical.byContradiction; intro hne; exact hcnd ⟨hne, h0⟩
          have hcn : (if (es_at sts g).qty = 0 then n else (es_at sts g).name) = n := by
            by_cases h0 : (es_at sts g).qty = 0
            · simp [h0]
            · simp [h0, hdn h0]
          rw [hcn] at hest
          -- the first item succeeds
          have hc' : ¬ (s'.name ≠ n ∧ s'.qty ≠ 0) := by
            intro ⟨h1, h2⟩
            apply h1
            rw [heqv'.2 h2]; exact hdn (by rw [← heqv'.1]; exact h2)
          simp only [upd, if_neg hc', Option.bind_some]
          refine es_phase2 old sts hold hpo n _ hn0 xs gs g _ q _ (by simpa using hlen)
            (List.pairwise_cons.mp hmono).2 (fun g' hg' => hrange g' (by simp [hg'])) hg
            (fun y hy => hpx y (by simp [hy])) (by omega) (by simpa [delta] using hsum) ?_ ?_ hest
          · refine ⟨?_, fun _ => rfl⟩
            simp only; rw [heqv'.1]; omega
          · by_cases h0 : (es_at sts g).qty = 0
            · left; simp [h0]
            · right; simp only [h0, if_false]; exact ⟨trivial, fun _ => hdn h0⟩

/-- the statement of `est_sound` without `hname` fails -/
theorem es_counterexample :
    let old := [Item.ins "m" 1, Item.rem "m" 1, Item.none]
    let xs := [Item.ins "" 1, Item.rem "" 1]
    let gaps := [0, 3]
    ∃ sts, states init old = some sts ∧ est (positions sts xs gaps) = false
      ∧ (run init (newRoute old xs gaps 0)).isSome = false := by
  refine ⟨_, rfl, by decide, ?_⟩
  have e : newRoute [Item.ins "m" 1, Item.rem "m" 1, Item.none] [Item.ins "" 1, Item.rem "" 1] [0, 3] 0
      = [Item.ins "" 1, Item.ins "m" 1, Item.rem "m" 1, Item.none, Item.rem "" 1] := by
    simp [newRoute]
  simp only [e]
  decide

-- end of helpers for est_sound

/-- C09 for the no-mix constraint: a move the (repaired) estimate does not reject produces a route on which the
updater succeeds at every stop.

`hname` (names are non-empty, as in the Go) is NEEDED: without it the statement is false,
  old = [ins "m" 1, rem "m" 1, none], xs = [ins "" 1, rem "" 1], gaps = [0, 3]
is accepted by `est` (the planned stop in front of the second position has tour 1 and, after the `.none` at quantity 0,
name "" = the content name) and `run` fails at `ins "m" 1` with "" on board (`es_counterexample`). The proof uses it only
for the first item of `xs`. -/
theorem est_sound (old xs : List Item) (gaps : List Nat) (sts : List St)
    (hold : states init old = some sts)
    (hlen : gaps.length = xs.length)
    (hmono : gaps.Pairwise (· ≤ ·))
    (hrange : ∀ g ∈ gaps, g ≤ old.length)
    (hpos : ∀ x ∈ xs ++ old, ItemPos x)
    (hname : ∀ x ∈ xs ++ old, ∀ n q, (x = .ins n q ∨ x = .rem n q) → n ≠ "")
    (hbal : sumDelta xs = 0)
    (hest : est (positions sts xs gaps) = false) :
    (run init (newRoute old xs gaps 0)).isSome = true := by
  rw [es_positions_eq sts xs gaps hlen, es_est_eq] at hest
  have h := es_phase1 old sts hold (fun x hx => hpos x (by simp [hx])) xs gaps true 0 init Option.none hlen
    (List.pairwise_cons.mpr ⟨fun _ _ => Nat.zero_le _, hmono⟩) hrange (Nat.zero_le _)
    (fun x hx => hpos x (by simp [hx])) (fun x hx n q e => hname x (by simp [hx]) n q (Or.inl e)) hbal
    (by simp [es_at, es_eqv]) (by simp) hest
  simpa using h

/-- … and the unit's own running quantity never goes negative (the discipline `Covered` is about). -/
theorem est_covered (xs : List Item) (gaps : List Nat) (sts : List St)
    (hpos : ∀ x ∈ xs, ItemPos x)
    (hbal : sumDelta xs = 0)
    (hest : est (positions sts xs gaps) = false) :
    OwnCovered 0 xs := by
  have _ := hpos   -- not needed: the estimate's own test covers every remove
  rw [es_est_eq] at hest
  have h := es_est1_covered (positions sts xs gaps) Option.none
    (by rw [es_positions_items]; exact hbal) hest
  rwa [es_positions_items] at h

-- helpers for unplan_safe ---------------------------------------------------------------------------------------------

/-- Sum of the deltas of a route (with units). -/
def us_sum : List (Nat × Item) → Int
  | [] => 0
  | p :: t => delta p.2 + us_sum t

theorem us_sum_append (a b : List (Nat × Item)) : us_sum (a ++ b) = us_sum a + us_sum b := by
  induction a with
  | nil => simp [us_sum]
  | cons p t ih => simp [us_sum, ih]; omega

/-- Splitting a sum by a predicate on the unit. -/
theorem us_sum_split (P : Nat → Bool) (l : List (Nat × Item)) :
    us_sum l = us_sum (l.filter (fun p => P p.1)) + us_sum (l.filter (fun p => !P p.1)) := by
  induction l with
  | nil => simp [us_sum]
  | cons p t ih =>
    cases h : P p.1 <;> simp [h, us_sum, ih] <;> omega

/-- A unit's stops inside a sub-route selected by units. -/
theorem us_filter_filter (P : Nat → Bool) (w : Nat) (l : List (Nat × Item)) :
    (l.filter (fun p => P p.1)).filter (fun p => decide (p.1 = w))
      = if P w then l.filter (fun p => decide (p.1 = w)) else [] := by
  induction l with
  | nil => simp
  | cons p t ih =>
    by_cases hw : p.1 = w
    · cases hP : P w
      · have : P p.1 = false := by rw [hw]; exact hP
        simp [this, ih, hP]
      · simp [ih, hP, hw]
    · cases hP : P p.1 <;> simp [hP, ih, hw]

theorem us_length_filter_le (P : Nat × Item → Bool) (l : List (Nat × Item)) : (l.filter P).length ≤ l.length :=
  List.length_filter_le P l

/-- If every unit's own sum is non-negative, so is the sum of the whole route. -/
theorem us_sum_nonneg_aux : ∀ (n : Nat) (l : List (Nat × Item)), l.length ≤ n →
    (∀ w, 0 ≤ us_sum (l.filter (fun p => decide (p.1 = w)))) → 0 ≤ us_sum l := by
  intro n
  induction n with
  | zero =>
    intro l hl _
    have : l = [] := List.eq_nil_of_length_eq_zero (by omega)
    subst this; simp [us_sum]
  | succ n ih =>
    intro l hl h
    cases l with
    | nil => simp [us_sum]
    | cons p t =>
      have hs := us_sum_split (fun x => decide (x = p.1)) (p :: t)
      have h1 := h p.1
      have h2 : 0 ≤ us_sum ((p :: t).filter (fun q => !decide (q.1 = p.1))) := by
        apply ih
        · have : ((p :: t).filter (fun q => !decide (q.1 = p.1))) = t.filter (fun q => !decide (q.1 = p.1)) := by
            simp
          rw [this]
          have := us_length_filter_le (fun q => !decide (q.1 = p.1)) t
          simp at hl; omega
        · intro w
          have := us_filter_filter (fun x => !decide (x = p.1)) w (p :: t)
          rw [this]
          split
          · exact h w
          · simp [us_sum]
      omega

theorem us_sum_nonneg (l : List (Nat × Item))
    (h : ∀ w, 0 ≤ us_sum (l.filter (fun p => decide (p.1 = w)))) : 0 ≤ us_sum l :=
  us_sum_nonneg_aux l.length l (Nat.le_refl _) h

/-- `OwnCovered`: every prefix sum is non-negative. -/
theorem us_own_prefix : ∀ (a b : List (Nat × Item)) (acc : Int), 0 ≤ acc →
    OwnCovered acc ((a ++ b).map (·.2)) → 0 ≤ acc + us_sum a := by
  intro a
  induction a with
  | nil => intro b acc h _; simp [us_sum]; exact h
  | cons p t ih =>
    intro b acc h hc
    simp only [List.cons_append, List.map_cons, OwnCovered] at hc
    have := ih b (acc + delta p.2) hc.1 hc.2
    simp [us_sum]; omega

theorem us_cov_prefix (pre suf : List (Nat × Item)) (v : Nat)
    (h : OwnCovered 0 (((pre ++ suf).filter (fun p => decide (p.1 = v))).map (·.2))) :
    0 ≤ us_sum (pre.filter (fun p => decide (p.1 = v))) := by
  rw [List.filter_append] at h
  have := us_own_prefix _ _ 0 (Int.le_refl 0) h
  omega

/-- A unit's own balance is at most what the other units (without `u`) have on board together. -/
theorem us_bal_le (pre : List (Nat × Item)) (u v : Nat) (hvu : v ≠ u)
    (h : ∀ w, 0 ≤ us_sum (pre.filter (fun p => decide (p.1 = w)))) :
    us_sum (pre.filter (fun p => decide (p.1 = v))) ≤ us_sum (pre.filter (fun p => !decide (p.1 = u))) := by
  have hs := us_sum_split (fun x => decide (x = v)) (pre.filter (fun p => !decide (p.1 = u)))
  have h1 := us_filter_filter (fun x => !decide (x = u)) v pre
  simp only [hvu, decide_false, Bool.not_false, if_true] at h1
  rw [h1] at hs
  have h2 : 0 ≤ us_sum ((pre.filter (fun p => !decide (p.1 = u))).filter (fun p => !decide (p.1 = v))) := by
    apply us_sum_nonneg
    intro w
    rw [us_filter_filter (fun x => !decide (x = v)) w, us_filter_filter (fun x => !decide (x = u)) w]
    split
    · split
      · exact h w
      · simp [us_sum]
    · simp [us_sum]
  omega

/-- Total = the removed unit's balance + the rest. -/
theorem us_total (pre : List (Nat × Item)) (u : Nat) :
    us_sum pre = us_sum (pre.filter (fun p => decide (p.1 = u))) + us_sum (pre.filter (fun p => !decide (p.1 = u))) :=
  us_sum_split (fun x => decide (x = u)) pre

theorem us_run_cons (s : St) (it : Item) (l : List Item) (h : (run s (it :: l)).isSome = true) :
    ∃ s', upd s it = some s' ∧ (run s' l).isSome = true := by
  simp only [run] at h
  cases hu : upd s it with
  | none => simp [hu] at h
  | some s' => exact ⟨s', rfl, by simpa [hu] using h⟩

/-- The simulation: `O` runs on the whole route, `F` on the route without `u`. -/
theorem us_main (u : Nat) : ∀ (suf pre : List (Nat × Item)) (O F : St),
    (∀ p ∈ suf, ItemPos p.2) →
    (∀ v, OwnCovered 0 (((pre ++ suf).filter (fun p => decide (p.1 = v))).map (·.2))) →
    (O.qty : Int) = us_sum pre →
    (F.qty : Int) = us_sum (pre.filter (fun p => !decide (p.1 = u))) →
    (0 < F.qty → F.name = O.name) →
    (run O (suf.map (·.2))).isSome = true →
    (run F ((suf.filter (fun p => !decide (p.1 = u))).map (·.2))).isSome = true := by
  intro suf
  induction suf with
  | nil => intro pre O F _ _ _ _ _ _; simp [run]
  | cons x t ih =>
    intro pre O F hpos hcov hO hF hname hrun
    obtain ⟨v, it⟩ := x
    simp only [List.map_cons] at hrun
    obtain ⟨O', hupd, hrun'⟩ := us_run_cons _ _ _ hrun
    have hpos' : ∀ p ∈ t, ItemPos p.2 := fun p hp => hpos p (List.mem_cons_of_mem _ hp)
    have hcov' : ∀ w, OwnCovered 0 ((((pre ++ [(v, it)]) ++ t).filter (fun p => decide (p.1 = w))).map (·.2)) := by
      intro w; simpa using hcov w
    have hpre : ∀ w, 0 ≤ us_sum (pre.filter (fun p => decide (p.1 = w))) :=
      fun w => us_cov_prefix pre _ w (hcov w)
    have hpre' : ∀ w, 0 ≤ us_sum ((pre ++ [(v, it)]).filter (fun p => decide (p.1 = w))) :=
      fun w => us_cov_prefix _ t w (hcov' w)
    have htot := us_total pre u
    have hitpos : ItemPos it := hpos (v, it) (List.mem_cons_self)
    by_cases hvu : v = u
    · -- a stop of the removed unit: `F` stays
      subst hvu
      have hfil : ((v, it) :: t).filter (fun p => !decide (p.1 = v)) = t.filter (fun p => !decide (p.1 = v)) := by
        simp
      rw [hfil]
      have hu0 := hpre v
      apply ih (pre ++ [(v, it)]) O' F hpos' hcov'
      · rw [us_sum_append]; simp only [us_sum]
        cases it with
        | none => simp [upd] at hupd; subst hupd; simp [delta]; omega
        | ins n q =>
          simp only [upd] at hupd; split at hupd
          · cases hupd
          · cases hupd; simp [delta]; omega
        | rem n q =>
          simp only [upd] at hupd; split at hupd
          · cases hupd
          · cases hupd; simp [delta]; omega
      · rw [List.filter_append]; simpa using hF
      · intro hq
        have hn := hname hq
        cases it with
        | none =>
          simp [upd] at hupd; subst hupd
          have : O.qty ≠ 0 := by omega
          simp [this, hn]
        | ins n q =>
          simp only [upd] at hupd; split at hupd
          · cases hupd
          · rename_i hc
            cases hupd
            have : O.qty ≠ 0 := by omega
            simp [this] at hc
            simp [hn, hc]
        | rem n q =>
          simp only [upd] at hupd; split at hupd
          · cases hupd
          · cases hupd; simp [hn]
      · exact hrun'
    · -- a stop of another unit: `F` makes the same step
      have hfil : ((v, it) :: t).filter (fun p => !decide (p.1 = u)) = (v, it) :: t.filter (fun p => !decide (p.1 = u)) := by
        simp [hvu]
      rw [hfil]
      have hu0 := hpre u
      have hbal := us_bal_le pre u v hvu hpre
      have hv' := hpre' v
      rw [List.filter_append, us_sum_append] at hv'
      simp [us_sum] at hv'
      have hFpre : us_sum ((pre ++ [(v, it)]).filter (fun p => !decide (p.1 = u)))
          = us_sum (pre.filter (fun p => !decide (p.1 = u))) + delta it := by
        rw [List.filter_append, us_sum_append]; simp [hvu, us_sum]
      have hOpre : us_sum (pre ++ [(v, it)]) = us_sum pre + delta it := by
        rw [us_sum_append]; simp [us_sum]
      simp only [List.map_cons, run]
      cases it with
      | none =>
        simp [upd] at hupd; subst hupd
        simp only [upd, Option.bind_some]
        refine ih (pre ++ [(v, Item.none)]) _ _ hpos' hcov' ?_ ?_ ?_ hrun'
        · rw [hOpre]; simp [delta]; omega
        · rw [hFpre]; simp [delta]; omega
        · intro hq
          simp at hq
          have hn := hname hq
          have h1 : O.qty ≠ 0 := by omega
          have h2 : F.qty ≠ 0 := by omega
          simp [h1, h2, hn]
      | ins n q =>
        simp only [upd] at hupd; split at hupd
        · cases hupd
        · rename_i hc
          cases hupd
          have hFc : ¬ (F.name ≠ n ∧ F.qty ≠ 0) := by
            intro ⟨h1, h2⟩
            have hn := hname (by omega)
            have : O.qty ≠ 0 := by omega
            simp [this] at hc
            exact h1 (hn.trans hc)
          simp only [upd, if_neg hFc, Option.bind_some]
          refine ih (pre ++ [(v, Item.ins n q)]) _ _ hpos' hcov' ?_ ?_ ?_ hrun'
          · rw [hOpre]; simp [delta]; omega
          · rw [hFpre]; simp [delta]; omega
          · intro _; rfl
      | rem n q =>
        simp only [upd] at hupd; split at hupd
        · cases hupd
        · rename_i hc
          cases hupd
          simp only [delta] at hv'
          have hq : 0 < q := hitpos
          have hFq : q ≤ F.qty := by omega
          have hFc : ¬ (F.name ≠ n ∨ F.qty < q) := by
            intro h
            rcases h with h1 | h2
            · have hn := hname (by omega)
              have : O.name = n := by
                false_or_by_contra; rename_i hx; exact hc (Or.inl hx)
              exact h1 (hn.trans this)
            · omega
          have hOq : q ≤ O.qty := by
            false_or_by_contra; rename_i hx; exact hc (Or.inr (by omega))
          simp only [upd, if_neg hFc, Option.bind_some]
          refine ih (pre ++ [(v, Item.rem n q)]) _ _ hpos' hcov' ?_ ?_ ?_ hrun'
          · rw [hOpre]; simp [delta]; omega
          · rw [hFpre]; simp [delta]; omega
          · intro hq'
            simp at hq'
            exact hname (by omega)

theorem us_covered_filter (r : List (Nat × Item)) (u : Nat) (hcov : Covered r) :
    Covered (r.filter (fun p => p.1 ≠ u)) := by
  intro v
  have h := us_filter_filter (fun x => !decide (x = u)) v r
  have e : (r.filter (fun p => decide (p.1 ≠ u))) = r.filter (fun p => !decide (p.1 = u)) := by
    apply List.filter_congr; intro x _; simp
  rw [e, h]
  split
  · exact hcov v
  · simp [OwnCovered]

-- end of helpers for unplan_safe --------------------------------------------------------------------------------------

/-- C07 / C16 for the no-mix constraint: on a route whose units are all covered, removing ANY unit leaves a route on
which the updater still succeeds at every stop, and whose units are still covered — un-planning cannot fail with
"cannot remove stop …". -/
theorem unplan_safe (r : List (Nat × Item)) (u : Nat)
    (hpos : ∀ p ∈ r, ItemPos p.2)
    (hcov : Covered r)
    (hrun : (run init (r.map (·.2))).isSome = true) :
    (run init ((r.filter (fun p => p.1 ≠ u)).map (·.2))).isSome = true ∧ Covered (r.filter (fun p => p.1 ≠ u)) := by
  refine ⟨?_, us_covered_filter r u hcov⟩
  have e : (r.filter (fun p => decide (p.1 ≠ u))) = r.filter (fun p => !decide (p.1 = u)) := by
    apply List.filter_congr; intro x _; simp
  rw [e]
  exact us_main u r [] init init hpos (fun v => by simpa using hcov v) (by simp [init, us_sum]) (by simp [init, us_sum])
    (fun _ => rfl) hrun

end NR.Proofs.Mix
