import NR.Heap
namespace NR.Proofs.Heap
open NR.Heap

theorem total_cons (n : Nat) (ns : List Nat) : total (n :: ns) = n + total ns := by
  simp only [total, List.foldl_cons, Nat.zero_add]
  have : ∀ (a : Nat) (l : List Nat), l.foldl (· + ·) a = a + l.foldl (· + ·) 0 := by
    intro a l
    induction l generalizing a with
    | nil => simp
    | cons x xs ih => simp only [List.foldl_cons]; rw [ih (a + x), ih (0 + x)]; omega
  exact this n ns

theorem total_nil : total [] = 0 := rfl

theorem total_append (a b : List Nat) : total (a ++ b) = total a + total b := by
  induction a with
  | nil => simp [total_nil]
  | cons x xs ih => simp only [List.cons_append, total_cons, ih]; omega

theorem carve_within (off : Nat) (ns : List Nat) :
    ∀ r ∈ carve off ns, off ≤ r.1 ∧ r.1 + r.2 ≤ off + total ns := by
  induction ns generalizing off with
  | nil => intro r hr; simp [carve] at hr
  | cons n ns ih =>
    intro r hr
    simp only [carve, List.mem_cons] at hr
    rw [total_cons]
    rcases hr with rfl | hr
    · simp
    · have := ih (off + n) r hr
      omega

theorem carve_pairwise_disjoint (off : Nat) (ns : List Nat) :
    (carve off ns).Pairwise Disjoint := by
  induction ns generalizing off with
  | nil => simp [carve]
  | cons n ns ih =>
    simp only [carve, List.pairwise_cons]
    refine ⟨?_, ih (off + n)⟩
    intro r hr
    have := carve_within (off + n) ns r hr
    left
    simp
    omega

theorem lengths_total_aux (isV : String → Bool) (fields : List String) (nS nV : Nat) :
    total (lengths isV nS nV fields) =
      (fields.filter (fun f => !isV f)).length * nS + (fields.filter isV).length * nV := by
  induction fields with
  | nil => simp [lengths, total_nil]
  | cons f fs ih =>
    have ih' : total (List.map (fun f => if isV f = true then nV else nS) fs) =
        (fs.filter (fun f => !isV f)).length * nS + (fs.filter isV).length * nV := by
      simpa [lengths] using ih
    by_cases hf : isV f = true
    · simp only [lengths, List.map_cons, total_cons, hf, ite_true, List.filter_cons, Bool.not_true,
        Bool.false_eq_true, ite_false, List.length_cons, ih', Nat.succ_mul]
      omega
    · simp only [Bool.not_eq_true] at hf
      simp only [lengths, List.map_cons, total_cons, hf, Bool.false_eq_true, ite_false, List.filter_cons,
        Bool.not_false, ite_true, List.length_cons, ih', Nat.succ_mul]
      omega

theorem lengths_total (isV : String → Bool) (fields : List String) (nS nV a b : Nat)
    (hV : (fields.filter isV).length = a) (hS : (fields.filter (fun f => !isV f)).length = b) :
    total (lengths isV nS nV fields) = b * nS + a * nV := by
  rw [lengths_total_aux, hV, hS]

theorem total_replicate (k n : Nat) : total (List.replicate k n) = k * n := by
  induction k with
  | zero => simp [total_nil]
  | succ k ih => simp only [List.replicate_succ, total_cons, ih, Nat.add_mul]; omega

theorem floats_total (nS nE : Nat) :
    total (List.replicate 5 nS ++ (List.replicate nE [nS, nS]).flatten) = (5 + 2 * nE) * nS := by
  rw [total_append, total_replicate]
  have : total ((List.replicate nE [nS, nS]).flatten) = 2 * nE * nS := by
    induction nE with
    | zero => simp [total_nil]
    | succ k ih =>
      simp only [List.replicate_succ, List.flatten_cons, total_append, ih, total_cons, total_nil]
      rw [Nat.mul_add, Nat.add_mul]; omega
  rw [this, Nat.add_mul]

end NR.Proofs.Heap
