import NR.Proofs.UnitsBasic
/-! The two kinds of transition of `step` (a relation joins one unit / two units are merged) and what they preserve. -/
namespace NR.Units

/-- the invariant in positional form: the table is right, the units are sets, pairwise disjoint -/
structure Good (st : St) : Prop where
  table : ∀ s i, look st.inUnit s = some i ↔ At st.units i s
  nodup : ∀ (k : Nat) (u : List Nat), st.units[k]? = some u → u.Nodup
  disj : ∀ i j s, At st.units i s → At st.units j s → i = j

/-- the history part: no unit is empty, stops of one unit are linked by the relations processed so far, and the
endpoints of every processed relation share a unit -/
structure Hist (rels : List (Nat × Nat)) (st : St) : Prop where
  ne : ∀ (k : Nat) (u : List Nat), st.units[k]? = some u → u ≠ []
  conn : ∀ k s t, At st.units k s → At st.units k t → Conn rels s t
  cov : ∀ a b, (a, b) ∈ rels → ∃ k, At st.units k a ∧ At st.units k b

theorem mem_rels_append_left {rels : List (Nat × Nat)} {r : Nat × Nat} : ∀ x ∈ rels, x ∈ rels ++ [r] := by
  intro x hx; simp [hx]

/-! ### a relation joins the unit at index `i` (a new unit at the end, or an existing one) -/

structure AddT (st st' : St) (i a b : Nat) : Prop where
  hm : st'.inUnit = (b, i) :: (a, i) :: st.inUnit
  hat : ∀ k s, At st'.units k s ↔ At st.units k s ∨ (k = i ∧ (s = a ∨ s = b))
  ha : ∀ k, At st.units k a → k = i
  hb : ∀ k, At st.units k b → k = i
  hu : ∀ (k : Nat) (u' : List Nat), st'.units[k]? = some u' → st.units[k]? = some u' ∨ ∃ u, u.Nodup ∧ u' = ins (ins u a) b

theorem AddT.good {st st' : St} {i a b : Nat} (T : AddT st st' i a b) (h : Good st) : Good st' := by
  refine ⟨?_, ?_, ?_⟩
  · intro s k
    rw [T.hm, look_cons, look_cons, T.hat]
    by_cases hb : b = s
    · subst hb
      rw [if_pos rfl]
      constructor
      · intro e
        have : i = k := by simpa using e
        subst this; exact Or.inr ⟨rfl, Or.inr rfl⟩
      · rintro (h' | ⟨h', _⟩)
        · rw [T.hb k h']
        · rw [h']
    · by_cases ha : a = s
      · subst ha
        rw [if_neg hb, if_pos rfl]
        constructor
        · intro e
          have : i = k := by simpa using e
          subst this; exact Or.inr ⟨rfl, Or.inl rfl⟩
        · rintro (h' | ⟨h', _⟩)
          · rw [T.ha k h']
          · rw [h']
      · simp only [hb, ha, if_false]
        rw [h.table]
        constructor
        · exact Or.inl
        · rintro (h' | ⟨_, h' | h'⟩)
          · exact h'
          · exact absurd h'.symm ha
          · exact absurd h'.symm hb
  · intro k u' hu'
    rcases T.hu k u' hu' with h' | ⟨u, hu, rfl⟩
    · exact h.nodup k u' h'
    · exact nodup_ins (nodup_ins hu)
  · intro k k' s h1 h2
    rw [T.hat] at h1 h2
    rcases h1 with h1 | ⟨rfl, h1⟩ <;> rcases h2 with h2 | ⟨rfl, h2⟩
    · exact h.disj _ _ _ h1 h2
    · rcases h2 with rfl | rfl
      · exact T.ha _ h1
      · exact T.hb _ h1
    · rcases h1 with rfl | rfl
      · exact (T.ha _ h2).symm
      · exact (T.hb _ h2).symm
    · rfl

theorem AddT.hist {st st' : St} {i a b : Nat} {rels : List (Nat × Nat)} (T : AddT st st' i a b)
    (hh : Hist rels st) (hc : ∀ s, At st.units i s → Conn (rels ++ [(a, b)]) s a) :
    Hist (rels ++ [(a, b)]) st' := by
  have hab : Conn (rels ++ [(a, b)]) a b := Conn.rel (by simp)
  have key : ∀ x, At st'.units i x → Conn (rels ++ [(a, b)]) x a := by
    intro x hx
    rw [T.hat] at hx
    rcases hx with hx | ⟨_, rfl | rfl⟩
    · exact hc x hx
    · exact Conn.trans hab (Conn.symm hab)
    · exact Conn.symm hab
  refine ⟨?_, ?_, ?_⟩
  · intro k u' hu'
    rcases T.hu k u' hu' with h' | ⟨u, _, rfl⟩
    · exact hh.ne k u' h'
    · exact ins_ne_nil
  · intro k s t hs ht
    by_cases hk : k = i
    · subst hk
      exact Conn.trans (key s hs) (Conn.symm (key t ht))
    · have hs' := hs
      have ht' := ht
      rw [T.hat] at hs' ht'
      rcases hs' with hs' | ⟨e, _⟩
      · rcases ht' with ht' | ⟨e, _⟩
        · exact Conn.mono mem_rels_append_left (hh.conn k s t hs' ht')
        · exact absurd e hk
      · exact absurd e hk
  · intro x y hxy
    rw [List.mem_append] at hxy
    rcases hxy with hxy | hxy
    · obtain ⟨k, h1, h2⟩ := hh.cov x y hxy
      exact ⟨k, (T.hat k x).2 (Or.inl h1), (T.hat k y).2 (Or.inl h2)⟩
    · simp at hxy
      obtain ⟨rfl, rfl⟩ := hxy
      exact ⟨i, (T.hat i x).2 (Or.inr ⟨rfl, Or.inl rfl⟩), (T.hat i y).2 (Or.inr ⟨rfl, Or.inr rfl⟩)⟩

theorem ins_nil (a : Nat) : ins [] a = [a] := by simp [ins]

/-- both stops unknown: a new unit at the end -/
theorem addT_new (st : St) (a b : Nat) (h : Good st) (h1 : look st.inUnit a = none) (h2 : look st.inUnit b = none) :
    AddT st { units := st.units ++ [ins [a] b],
              inUnit := (b, st.units.length) :: (a, st.units.length) :: st.inUnit } st.units.length a b := by
  refine ⟨rfl, ?_, ?_, ?_, ?_⟩
  · intro k s
    show At (st.units ++ [ins [a] b]) k s ↔ _
    rw [at_append_single, mem_ins]
    simp
  · intro k hk
    rw [← h.table, h1] at hk; cases hk
  · intro k hk
    rw [← h.table, h2] at hk; cases hk
  · intro k u' hu'
    have hu'' : (st.units ++ [ins [a] b])[k]? = some u' := hu'
    rw [List.getElem?_append] at hu''
    by_cases hk : k < st.units.length
    · simp only [hk, if_true] at hu''
      exact Or.inl hu''
    · simp only [hk, if_false] at hu''
      refine Or.inr ⟨[], List.nodup_nil, ?_⟩
      rw [ins_nil]
      have := List.mem_of_getElem? hu''
      simp at this
      exact this

/-- one stop known (in the unit at `i`), or at least neither known elsewhere: the relation joins unit `i` -/
theorem addT_ext (st : St) (i a b : Nat) (h : Good st) (hi : i < st.units.length)
    (ha : ∀ k, At st.units k a → k = i) (hb : ∀ k, At st.units k b → k = i) :
    AddT st (toExisting st i a b) i a b := by
  refine ⟨rfl, ?_, ha, hb, ?_⟩
  · intro k s
    show At (st.units.modify i (fun u => ins (ins u a) b)) k s ↔ _
    rw [at_modify st.units i _ (fun x => x = a ∨ x = b)]
    · constructor
      · rintro (h' | ⟨h1, _, h3⟩)
        · exact Or.inl h'
        · exact Or.inr ⟨h1, h3⟩
      · rintro (h' | ⟨h1, h3⟩)
        · exact Or.inl h'
        · exact Or.inr ⟨h1, by omega, h3⟩
    · intro u x
      simp only [mem_ins]
      constructor
      · rintro ((h' | h') | h')
        · exact Or.inl h'
        · exact Or.inr (Or.inl h')
        · exact Or.inr (Or.inr h')
      · rintro (h' | h' | h')
        · exact Or.inl (Or.inl h')
        · exact Or.inl (Or.inr h')
        · exact Or.inr h'
  · intro k u' hu'
    obtain ⟨v, hv, rfl | rfl⟩ := getElem?_modify_some (us := st.units) hu'
    · exact Or.inl hv
    · exact Or.inr ⟨v, h.nodup k v hv, rfl⟩

/-! ### two units are merged -/

/-- `merge` with the two indices in order -/
def mergeLt (st : St) (i1 i2 : Nat) : St :=
  { units := (st.units.eraseIdx i2).modify i1 (fun u => (st.units.getD i2 []).foldl ins u),
    inUnit := (st.units.getD i2 []).map (fun s => (s, i1)) ++ refresh (st.units.eraseIdx i2) st.inUnit }

theorem merge_eq (st : St) (i j : Nat) : merge st i j = mergeLt st (min i j) (max i j) := rfl

theorem at_merge (us : List (List Nat)) (i1 i2 : Nat) (h12 : i1 < i2) (h2 : i2 < us.length) (k s : Nat) :
    At ((us.eraseIdx i2).modify i1 (fun u => (us.getD i2 []).foldl ins u)) k s ↔
      At us (if k < i2 then k else k + 1) s ∨ (k = i1 ∧ At us i2 s) := by
  rw [at_modify (us.eraseIdx i2) i1 _ (fun x => x ∈ us.getD i2 []) (fun u x => mem_foldl_ins), at_eraseIdx,
    List.length_eraseIdx, ← at_iff_getD us i2 s]
  simp only [h2, if_true, true_and]
  constructor
  · rintro (h | ⟨h, _, h'⟩)
    · exact Or.inl h
    · exact Or.inr ⟨h, h'⟩
  · rintro (h | ⟨h, h'⟩)
    · exact Or.inl h
    · exact Or.inr ⟨h, by omega, h'⟩

theorem getElem?_merge {us : List (List Nat)} {i1 i2 k : Nat} {u : List Nat}
    (hu : ((us.eraseIdx i2).modify i1 (fun u => (us.getD i2 []).foldl ins u))[k]? = some u) :
    ∃ (k' : Nat) (v : List Nat), us[k']? = some v ∧ (u = v ∨ u = (us.getD i2 []).foldl ins v) := by
  obtain ⟨v, hv, h⟩ := getElem?_modify_some hu
  rw [List.getElem?_eraseIdx] at hv
  split at hv
  · exact ⟨_, v, hv, h⟩
  · exact ⟨_, v, hv, h⟩

theorem mergeLt_good (st : St) (i1 i2 : Nat) (h : Good st) (h12 : i1 < i2) (h2 : i2 < st.units.length) :
    Good (mergeLt st i1 i2) := by
  have hat : ∀ k s, At (mergeLt st i1 i2).units k s ↔
      At st.units (if k < i2 then k else k + 1) s ∨ (k = i1 ∧ At st.units i2 s) := at_merge st.units i1 i2 h12 h2
  have hdisj : ∀ k k' s, At (mergeLt st i1 i2).units k s → At (mergeLt st i1 i2).units k' s → k = k' := by
    intro k k' s hk hk'
    have hk1 := (hat k s).1 hk
    have hk2 := (hat k' s).1 hk'
    rcases hk1 with hk1 | ⟨rfl, hk1⟩ <;> rcases hk2 with hk2 | ⟨rfl, hk2⟩
    · have := h.disj _ _ _ hk1 hk2
      split at this <;> split at this <;> omega
    · have := h.disj _ _ _ hk1 hk2
      split at this <;> omega
    · have := h.disj _ _ _ hk1 hk2
      split at this <;> omega
    · rfl
  refine ⟨?_, ?_, hdisj⟩
  · intro s k
    have hL : ∀ s k, (s, k) ∈ (st.units.getD i2 []).map (fun s => (s, i1)) ++
        (List.range (st.units.eraseIdx i2).length).flatMap
          (fun i => ((st.units.eraseIdx i2).getD i []).map (fun s => (s, i))) ↔
        At (mergeLt st i1 i2).units k s := by
      intro s k
      rw [List.mem_append, mem_refresh_part, hat, at_eraseIdx, ← at_iff_getD st.units i2 s]
      simp only [List.mem_map, Prod.mk.injEq, h2, true_and]
      constructor
      · rintro (⟨x, hx, rfl, rfl⟩ | h')
        · exact Or.inr ⟨rfl, hx⟩
        · exact Or.inl h'
      · rintro (h' | ⟨rfl, h'⟩)
        · exact Or.inr h'
        · exact Or.inl ⟨s, h', rfl, rfl⟩
    show look ((st.units.getD i2 []).map (fun s => (s, i1)) ++ refresh (st.units.eraseIdx i2) st.inUnit) s = some k ↔ _
    unfold refresh
    rw [← List.append_assoc, look_append_iff, hL]
    · constructor
      · rintro (h' | ⟨hn, hl⟩)
        · exact h'
        · exfalso
          have hk := (h.table s k).1 hl
          by_cases e : k = i2
          · subst e
            exact hn i1 ((hL s i1).2 ((hat i1 s).2 (Or.inr ⟨rfl, hk⟩)))
          · by_cases lt : k < i2
            · refine hn k ((hL s k).2 ((hat k s).2 (Or.inl ?_)))
              simpa [lt] using hk
            · refine hn (k - 1) ((hL s (k - 1)).2 ((hat (k - 1) s).2 (Or.inl ?_)))
              have h1 : ¬ (k - 1 < i2) := by omega
              have h2 : k - 1 + 1 = k := by omega
              simpa [h1, h2] using hk
      · exact Or.inl
    · intro k k' hk hk'
      exact hdisj k k' s ((hL s k).1 hk) ((hL s k').1 hk')
  · intro k u hu
    obtain ⟨k', v, hv, rfl | rfl⟩ := getElem?_merge (us := st.units) hu
    · exact h.nodup k' _ hv
    · exact nodup_foldl_ins (h.nodup k' v hv)

theorem mergeLt_hist (st : St) (i1 i2 a b : Nat) (rels : List (Nat × Nat)) (hh : Hist rels st)
    (h12 : i1 < i2) (h2 : i2 < st.units.length)
    (hab : (At st.units i1 a ∧ At st.units i2 b) ∨ (At st.units i1 b ∧ At st.units i2 a)) :
    Hist (rels ++ [(a, b)]) (mergeLt st i1 i2) := by
  have hat : ∀ k s, At (mergeLt st i1 i2).units k s ↔
      At st.units (if k < i2 then k else k + 1) s ∨ (k = i1 ∧ At st.units i2 s) := at_merge st.units i1 i2 h12 h2
  have hrel : Conn (rels ++ [(a, b)]) a b := Conn.rel (by simp)
  have hold : ∀ k s t, At st.units k s → At st.units k t → Conn (rels ++ [(a, b)]) s t :=
    fun k s t hs ht => Conn.mono mem_rels_append_left (hh.conn k s t hs ht)
  -- old index ↦ new index
  have hmove : ∀ k0 z, At st.units k0 z →
      At (mergeLt st i1 i2).units (if k0 = i2 then i1 else if k0 < i2 then k0 else k0 - 1) z := by
    intro k0 z hz
    rw [hat]
    by_cases e : k0 = i2
    · subst e; rw [if_pos rfl]; exact Or.inr ⟨rfl, hz⟩
    · by_cases lt : k0 < i2
      · simp only [e, lt, if_false, if_true]; exact Or.inl hz
      · have h1 : ¬ (k0 - 1 < i2) := by omega
        have h2 : k0 - 1 + 1 = k0 := by omega
        simp only [e, lt, if_false, h1, h2]; exact Or.inl hz
  obtain ⟨x, y, hx, hy, hxy⟩ : ∃ x y, At st.units i1 x ∧ At st.units i2 y ∧ Conn (rels ++ [(a, b)]) x y := by
    rcases hab with ⟨h1, h2⟩ | ⟨h1, h2⟩
    · exact ⟨a, b, h1, h2, hrel⟩
    · exact ⟨b, a, h1, h2, Conn.symm hrel⟩
  have key : ∀ z, At (mergeLt st i1 i2).units i1 z → Conn (rels ++ [(a, b)]) z x := by
    intro z hz
    rw [hat] at hz
    simp only [h12, if_true] at hz
    rcases hz with hz | ⟨_, hz⟩
    · exact hold i1 z x hz hx
    · exact Conn.trans (hold i2 z y hz hy) (Conn.symm hxy)
  refine ⟨?_, ?_, ?_⟩
  · intro k u hu
    obtain ⟨k', v, hv, rfl | rfl⟩ := getElem?_merge (us := st.units) hu
    · exact hh.ne k' _ hv
    · exact foldl_ins_ne_nil (hh.ne k' v hv)
  · intro k s t hs ht
    by_cases hk : k = i1
    · subst hk
      exact Conn.trans (key s hs) (Conn.symm (key t ht))
    · rw [hat] at hs ht
      rcases hs with hs | ⟨e, _⟩
      · rcases ht with ht | ⟨e, _⟩
        · exact hold _ s t hs ht
        · exact absurd e hk
      · exact absurd e hk
  · intro p q hpq
    rw [List.mem_append] at hpq
    rcases hpq with hpq | hpq
    · obtain ⟨k, h1, h2⟩ := hh.cov p q hpq
      exact ⟨_, hmove k p h1, hmove k q h2⟩
    · simp at hpq
      obtain ⟨rfl, rfl⟩ := hpq
      have e1 : (if i1 = i2 then i1 else if i1 < i2 then i1 else i1 - 1) = i1 := by
        simp [h12, Nat.ne_of_lt h12]
      have e2 : (if i2 = i2 then i1 else if i2 < i2 then i2 else i2 - 1) = i1 := by simp
      rcases hab with ⟨h1, h2⟩ | ⟨h1, h2⟩
      · have := hmove i1 p h1
        have := hmove i2 q h2
        rw [e1] at *; rw [e2] at *
        exact ⟨i1, by assumption, by assumption⟩
      · have := hmove i1 q h1
        have := hmove i2 p h2
        rw [e1] at *; rw [e2] at *
        exact ⟨i1, by assumption, by assumption⟩

end NR.Units
