/-
  Proofs about NR.Gen.genDis (the position generator under disallowed successors).
-/
import NR.Gen
namespace NR.Proofs.GenDis
open NR.Gen

/-- The specification without the condition on the stop in front of the FIRST unit stop: the state of the recursion with
the unit's stop placed last (`ps` in gap `pg`) reads `Tail … (ps :: rest) (pg :: c)`. -/
def Tail (dis : Nat → Nat → Bool) (tgt : List Nat) (m : Nat) (src c : List Nat) : Prop :=
  c.length = src.length ∧ c.Pairwise (· ≤ ·) ∧ (∀ x ∈ c, 1 ≤ x ∧ x ≤ m) ∧
  (∀ j, 0 < j → j < src.length → dis (prevElem src tgt c j) (src.getD j 0) = false) ∧
  (∀ j, j + 1 < src.length → dis (src.getD j 0) (nextElem src tgt c j) = false)

theorem prevElem_succ (a b : Nat) (src tgt c : List Nat) (j : Nat) (hj : 0 < j) :
    prevElem (a :: src) tgt (b :: c) (j + 1) = prevElem src tgt c j := by
  obtain ⟨k, rfl⟩ : ∃ k, j = k + 1 := ⟨j - 1, by omega⟩
  simp [prevElem]

theorem prevElem_one (a s b g : Nat) (src tgt c : List Nat) :
    prevElem (a :: s :: src) tgt (b :: g :: c) 1 = if g = b then a else tgt.getD (g - 1) 0 := by
  simp [prevElem]

theorem nextElem_succ (a b : Nat) (src tgt c : List Nat) (j : Nat) :
    nextElem (a :: src) tgt (b :: c) (j + 1) = nextElem src tgt c j := by
  simp [nextElem]

theorem nextElem_zero (a s b g : Nat) (src tgt c : List Nat) :
    nextElem (a :: s :: src) tgt (b :: g :: c) 0 = if g = b then s else tgt.getD b 0 := by
  simp [nextElem]

theorem tail_cons (dis : Nat → Nat → Bool) (tgt : List Nat) (m ps s pg g : Nat) (rest t : List Nat) :
    Tail dis tgt m (ps :: s :: rest) (pg :: g :: t) ↔
      (1 ≤ pg ∧ pg ≤ g) ∧
      dis ps (if g = pg then s else tgt.getD pg 0) = false ∧
      dis (if g = pg then ps else tgt.getD (g - 1) 0) s = false ∧
      Tail dis tgt m (s :: rest) (g :: t) := by
  unfold Tail
  constructor
  · rintro ⟨hlen, hpw, hall, hprev, hnext⟩
    rw [List.pairwise_cons] at hpw
    refine ⟨⟨(hall pg (List.mem_cons_self ..)).1, hpw.1 g (List.mem_cons_self ..)⟩, ?_, ?_, ?_, hpw.2,
      fun x hx => hall x (List.mem_cons_of_mem _ hx), ?_, ?_⟩
    · have := hnext 0 (by simp)
      rwa [nextElem_zero] at this
    · have := hprev 1 (by omega) (by simp)
      rwa [prevElem_one] at this
    · simpa using hlen
    · intro j hj0 hj
      have := hprev (j + 1) (by omega) (by simpa using hj)
      rwa [prevElem_succ _ _ _ _ _ _ hj0, List.getD_cons_succ] at this
    · intro j hj
      have := hnext (j + 1) (by simpa using hj)
      rwa [nextElem_succ, List.getD_cons_succ] at this
  · rintro ⟨⟨h1, hle⟩, hA, hB, hlen, hpw, hall, hprev, hnext⟩
    have hg := hall g (List.mem_cons_self ..)
    refine ⟨by simpa using hlen, ?_, ?_, ?_, ?_⟩
    · rw [List.pairwise_cons]
      refine ⟨?_, hpw⟩
      intro y hy
      rcases List.mem_cons.mp hy with rfl | hy
      · exact hle
      · rw [List.pairwise_cons] at hpw
        exact Nat.le_trans hle (hpw.1 y hy)
    · intro x hx
      rcases List.mem_cons.mp hx with rfl | hx
      · exact ⟨h1, by omega⟩
      · exact hall x hx
    · intro j hj0 hj
      obtain ⟨k, rfl⟩ : ∃ k, j = k + 1 := ⟨j - 1, by omega⟩
      cases k with
      | zero => rw [prevElem_one]; simpa using hB
      | succ k =>
        rw [prevElem_succ _ _ _ _ _ _ (by omega), List.getD_cons_succ]
        exact hprev (k + 1) (by omega) (by simpa using hj)
    · intro j hj
      cases j with
      | zero => rw [nextElem_zero]; simpa using hA
      | succ k =>
        rw [nextElem_succ, List.getD_cons_succ]
        exact hnext k (by simpa using hj)

theorem mem_genDisFrom_some (dis : Nat → Nat → Bool) (tgt : List Nat) (m : Nat) :
    ∀ (rest : List Nat) (pg ps : Nat) (c : List Nat), 1 ≤ pg → pg ≤ m →
      (c ∈ genDisFrom false dis tgt m rest (some (pg, ps)) ↔ Tail dis tgt m (ps :: rest) (pg :: c)) := by
  intro rest
  induction rest with
  | nil =>
    intro pg ps c h1 hm
    simp only [genDisFrom, List.mem_singleton]
    constructor
    · rintro rfl
      refine ⟨rfl, by simp, ?_, ?_, ?_⟩
      · intro x hx
        simp only [List.mem_singleton] at hx
        subst hx
        exact ⟨h1, hm⟩
      · intro j hj0 hj
        simp at hj
        omega
      · intro j hj
        simp at hj
    · rintro ⟨hlen, -⟩
      simpa using hlen
  | cons s rest ih =>
    intro pg ps c h1 hm
    simp only [genDisFrom, List.mem_flatMap, List.mem_map, List.mem_filter, List.mem_range'_1,
      Bool.and_eq_true, Bool.not_eq_true', Bool.false_and, Bool.not_false, Bool.and_true]
    constructor
    · rintro ⟨g, ⟨⟨hlo, hg⟩, hA, hB⟩, t, ht, rfl⟩
      rw [ih g s t (by omega) (by omega)] at ht
      rw [tail_cons]
      refine ⟨⟨h1, hlo⟩, ?_, ?_, ht⟩
      · split at hA <;> simp_all
      · split at hB <;> simp_all
    · intro h
      cases c with
      | nil =>
        have := h.1
        simp at this
      | cons g t =>
        rw [tail_cons] at h
        obtain ⟨⟨_, hle⟩, hA, hB, ht⟩ := h
        have hg := ht.2.2.1 g (List.mem_cons_self ..)
        refine ⟨g, ⟨⟨hle, by omega⟩, ?_, ?_⟩, t, ?_, rfl⟩
        · split at hA <;> simp_all
        · split at hB <;> simp_all
        · rw [ih g s t (by omega) (by omega)]
          exact ht

theorem allowed_cons_iff (dis : Nat → Nat → Bool) (tgt : List Nat) (s : Nat) (rest c : List Nat) :
    IsAllowedDis dis (s :: rest) tgt c ↔
      Tail dis tgt (tgt.length - 1) (s :: rest) c ∧ dis (tgt.getD (c.getD 0 0 - 1) 0) s = false := by
  unfold IsAllowedDis IsPlacement Tail
  have h0 : prevElem (s :: rest) tgt c 0 = tgt.getD (c.getD 0 0 - 1) 0 := by simp [prevElem]
  constructor
  · rintro ⟨⟨hlen, hpw, hall⟩, hprev, hnext⟩
    refine ⟨⟨hlen, hpw, hall, fun j _ hj => hprev j hj, hnext⟩, ?_⟩
    have := hprev 0 (by simp)
    rwa [h0] at this
  · rintro ⟨⟨hlen, hpw, hall, hprev, hnext⟩, hfirst⟩
    refine ⟨⟨hlen, hpw, hall⟩, ?_, hnext⟩
    intro j hj
    cases j with
    | zero => rw [h0]; simpa using hfirst
    | succ k => exact hprev (k + 1) (by omega) hj

/-- `genDis` enumerates exactly the allowed ascending placements. -/
theorem mem_genDis_iff (dis : Nat → Nat → Bool) (src tgt c : List Nat) :
    c ∈ genDis dis src tgt ↔ IsAllowedDis dis src tgt c := by
  cases src with
  | nil =>
    simp only [genDis, genDisFrom, List.mem_singleton, IsAllowedDis, IsPlacement, List.length_nil]
    constructor
    · rintro rfl
      simp
    · rintro ⟨⟨h, -⟩, -⟩
      exact List.length_eq_zero_iff.mp h
  | cons s rest =>
    rw [allowed_cons_iff]
    simp only [genDis, genDisFrom, List.mem_flatMap, List.mem_map, List.mem_filter, List.mem_range'_1,
      Bool.not_eq_true', Bool.true_and]
    constructor
    · rintro ⟨g, ⟨⟨hlo, hg⟩, hB⟩, t, ht, rfl⟩
      rw [mem_genDisFrom_some dis tgt _ rest g s t hlo (by omega)] at ht
      exact ⟨ht, by simpa using hB⟩
    · rintro ⟨ht, hB⟩
      cases c with
      | nil =>
        have := ht.1
        simp at this
      | cons g t =>
        have hg := ht.2.2.1 g (List.mem_cons_self ..)
        refine ⟨g, ⟨⟨hg.1, by omega⟩, by simpa using hB⟩, t, ?_, rfl⟩
        rw [mem_genDisFrom_some dis tgt _ rest g s t hg.1 hg.2]
        exact ht

end NR.Proofs.GenDis
