import NR.Closest
/-! Proofs for NR.Closest: the repaired query does not depend on the visiting order. -/
namespace NR.Closest
open List

theorem le2_trans (a b c : Cand) : le2 a b = true → le2 b c = true → le2 a c = true := by
  simp only [le2, Bool.or_eq_true, Bool.and_eq_true, decide_eq_true_eq, beq_iff_eq]
  omega

theorem le2_total (a b : Cand) : (le2 a b || le2 b a) = true := by
  simp only [le2, Bool.or_eq_true, Bool.and_eq_true, decide_eq_true_eq, beq_iff_eq]
  omega

theorem le2_antisymm (a b : Cand) : le2 a b = true → le2 b a = true → a = b := by
  simp only [le2, Bool.or_eq_true, Bool.and_eq_true, decide_eq_true_eq, beq_iff_eq]
  intro h1 h2
  have : a.1 = b.1 ∧ a.2 = b.2 := by omega
  exact Prod.ext this.1 this.2

/-- sorting by a total, transitive, antisymmetric order gives the same list for every arrangement of the input -/
theorem sort_le2_perm {l₁ l₂ : List Cand} (h : l₁.Perm l₂) : l₁.mergeSort le2 = l₂.mergeSort le2 := by
  apply Perm.eq_of_pairwise (le := fun a b => le2 a b = true)
  · intro a b _ _; exact le2_antisymm a b
  · exact pairwise_mergeSort le2_trans le2_total l₁
  · exact pairwise_mergeSort le2_trans le2_total l₂
  · exact (mergeSort_perm l₁ le2).trans (h.trans (mergeSort_perm l₂ le2).symm)

theorem sort_nat_perm {l₁ l₂ : List Nat} (h : l₁.Perm l₂) :
    l₁.mergeSort (fun a b => decide (a ≤ b)) = l₂.mergeSort (fun a b => decide (a ≤ b)) := by
  apply Perm.eq_of_pairwise (le := fun a b => decide (a ≤ b) = true)
  · intro a b _ _ h1 h2; simp only [decide_eq_true_eq] at h1 h2; omega
  · exact pairwise_mergeSort (by intro a b c; simp only [decide_eq_true_eq]; omega)
      (by intro a b; simp only [Bool.or_eq_true, decide_eq_true_eq]; omega) l₁
  · exact pairwise_mergeSort (by intro a b c; simp only [decide_eq_true_eq]; omega)
      (by intro a b; simp only [Bool.or_eq_true, decide_eq_true_eq]; omega) l₂
  · exact (mergeSort_perm l₁ _).trans (h.trans (mergeSort_perm l₂ _).symm)

theorem farthest_perm {n : Nat} {l₁ l₂ : List Cand} (h : l₁.Perm l₂) : farthest n l₁ = farthest n l₂ := by
  unfold farthest
  rw [sort_nat_perm (h.map _)]

theorem nearest_perm {n self : Nat} {l₁ l₂ : List Cand} (h : l₁.Perm l₂) :
    nearest n self l₁ = nearest n self l₂ := by
  unfold nearest
  split
  · rfl
  · rw [farthest_perm h, sort_le2_perm (h.filter _)]

theorem nearest_length_le (n self : Nat) (l : List Cand) : (nearest n self l).length ≤ n := by
  unfold nearest
  split
  · simp
  · simp [List.length_take]; omega

theorem nearest_sorted (n self : Nat) (l : List Cand) : (nearest n self l).Pairwise (fun a b => le2 a b = true) := by
  unfold nearest
  split
  · simp
  · exact (pairwise_mergeSort le2_trans le2_total _).sublist (List.take_sublist _ _) |>.imp id

theorem nearest_mem {n self : Nat} {l : List Cand} {c : Cand} (h : c ∈ nearest n self l) : c ∈ l ∧ c.2 ≠ self := by
  unfold nearest at h
  split at h
  · simp at h
  · have h1 := List.mem_of_mem_take h
    have h2 := (mergeSort_perm _ le2).subset h1
    simp only [List.mem_filter, Bool.and_eq_true, decide_eq_true_eq, bne_iff_ne] at h2
    exact ⟨h2.1, h2.2.2⟩

end NR.Closest
