/-
  NR.Proofs.TimeDep — proofs for C17 (time-dependent travel durations).
-/
import NR.TimeDep
import Mathlib.Tactic.Linarith
import Mathlib.Tactic.Ring
import Mathlib.Tactic.FieldSimp
import Mathlib.Tactic.Positivity
import Mathlib.Tactic.NormNum
import Mathlib.Algebra.Order.Field.Basic

namespace NR.Proofs.TimeDep
open NR.TimeDep

/-! ### `minuteOf` on aligned boundaries -/

theorem minuteOf_le (v : Rat) : minuteOf v ≤ v := by
  unfold minuteOf
  have h := Rat.floor_le (v / 60)
  have : ((v / 60).floor : Rat) * 60 ≤ v / 60 * 60 :=
    mul_le_mul_of_nonneg_right h (by norm_num)
  have h2 : v / 60 * 60 = v := by ring
  linarith

theorem le_minuteOf_iff {a v : Rat} (ha : minuteOf a = a) : a ≤ minuteOf v ↔ a ≤ v := by
  constructor
  · intro h; exact le_trans h (minuteOf_le v)
  · intro h
    have h1 : a / 60 ≤ v / 60 := by linarith
    have h2 : (a / 60).floor ≤ (v / 60).floor := Rat.floor_monotone h1
    have h3 : ((a / 60).floor : Rat) ≤ ((v / 60).floor : Rat) := by exact_mod_cast h2
    rw [← ha]
    unfold minuteOf
    linarith

theorem minuteOf_lt_iff {a v : Rat} (ha : minuteOf a = a) : minuteOf v < a ↔ v < a := by
  rw [← not_le, ← not_le, le_minuteOf_iff ha]

theorem minuteOf_zero : minuteOf 0 = 0 := by
  unfold minuteOf
  have : ((0 : Rat) / 60) = ((0 : Int) : Rat) := by norm_num
  rw [this, Rat.floor_intCast]
  norm_num

/-! ### The remaining-time function -/

/-- Time still needed from the start of the list when a fraction `r` of the trip remains. -/
def rem (durs : Nat → Rat) : List Elem → Rat → Rat
  | [], r => r * durs 0
  | el :: rest, r =>
    if r * durs el.expr = 0 then 0
    else if r * durs el.expr ≤ el.stop - el.start then r * durs el.expr
    else (el.stop - el.start) + rem durs rest (r - (el.stop - el.start) / durs el.expr)

theorem walk_eq_rem (durs : Nat → Rat) (hd : NonnegDurs durs) :
    ∀ (l : List Elem) (fc d : Rat), fc ≤ 1 → walk durs l fc d = d + rem durs l (1 - fc) := by
  intro l
  induction l with
  | nil =>
    intro fc d _
    simp only [walk, rem]
    split_ifs with h
    · rw [h]; ring
    · rfl
  | cons el rest ih =>
    intro fc d hfc
    simp only [walk, rem]
    by_cases h0 : (1 - fc) * durs el.expr = 0
    · simp [h0]
    · have hD : 0 < durs el.expr := by
        rcases lt_or_eq_of_le (hd el.expr) with h | h
        · exact h
        · exfalso; apply h0; rw [← h]; ring
      have hr : 0 < 1 - fc := by
        rcases lt_or_eq_of_le (sub_nonneg.mpr hfc) with h | h
        · exact h
        · exfalso; apply h0; rw [← h]; ring
      have hreq : 0 < (1 - fc) * durs el.expr := mul_pos hr hD
      rw [if_neg h0, if_neg h0]
      by_cases h1 : (el.stop - el.start) / ((1 - fc) * durs el.expr) ≥ 1
      · have h1' : (1 - fc) * durs el.expr ≤ el.stop - el.start := by
          rwa [ge_iff_le, le_div_iff₀ hreq, one_mul] at h1
        rw [if_pos h1, if_pos h1']
      · have h1' : ¬ (1 - fc) * durs el.expr ≤ el.stop - el.start := by
          intro hh; apply h1
          rw [ge_iff_le, le_div_iff₀ hreq, one_mul]; exact hh
        rw [if_neg h1, if_neg h1']
        have hcan : (el.stop - el.start) / ((1 - fc) * durs el.expr) < 1 := lt_of_not_ge h1
        have e1 : (el.stop - el.start) / ((1 - fc) * durs el.expr) * (1 - fc)
            = (el.stop - el.start) / durs el.expr := by
          field_simp
        have e2 : (el.stop - el.start) / ((1 - fc) * durs el.expr) * ((1 - fc) * durs el.expr)
            = el.stop - el.start := by
          field_simp
        have hle : fc + (el.stop - el.start) / ((1 - fc) * durs el.expr) * (1 - fc) ≤ 1 := by
          have : (el.stop - el.start) / ((1 - fc) * durs el.expr) * (1 - fc) ≤ 1 * (1 - fc) :=
            mul_le_mul_of_nonneg_right (le_of_lt hcan) (le_of_lt hr)
          linarith
        rw [ih _ _ hle, e1, e2]
        have : 1 - (fc + (el.stop - el.start) / durs el.expr)
            = 1 - fc - (el.stop - el.start) / durs el.expr := by ring
        rw [this]; ring

/-! ### Properties of `rem` -/

theorem dur_pos_of_mul_ne {durs : Nat → Rat} (hd : NonnegDurs durs) {r : Rat} {i : Nat}
    (h : r * durs i ≠ 0) : 0 < durs i := by
  rcases lt_or_eq_of_le (hd i) with h1 | h1
  · exact h1
  · exfalso; apply h; rw [← h1]; ring

theorem rem_nonneg (durs : Nat → Rat) (hd : NonnegDurs durs) :
    ∀ (l : List Elem) (a b r : Rat), Contig a l b → 0 ≤ r → 0 ≤ rem durs l r := by
  intro l
  induction l with
  | nil => intro a b r _ hr; simp only [rem]; exact mul_nonneg hr (hd 0)
  | cons el rest ih =>
    intro a b r hc hr
    obtain ⟨_, hlen, hrest⟩ := hc
    simp only [rem]
    split_ifs with h0 h1
    · exact le_refl _
    · exact mul_nonneg hr (hd _)
    · have hD := dur_pos_of_mul_ne hd h0
      have h2 : (el.stop - el.start) / durs el.expr ≤ r := by
        rw [div_le_iff₀ hD]; linarith
      have := ih _ _ (r - (el.stop - el.start) / durs el.expr) hrest (by linarith)
      linarith

theorem rem_mono (durs : Nat → Rat) (hd : NonnegDurs durs) :
    ∀ (l : List Elem) (a b r r' : Rat), Contig a l b → 0 ≤ r → r ≤ r' →
      rem durs l r ≤ rem durs l r' := by
  intro l
  induction l with
  | nil =>
    intro a b r r' _ _ hrr
    simp only [rem]
    exact mul_le_mul_of_nonneg_right hrr (hd 0)
  | cons el rest ih =>
    intro a b r r' hc hr hrr
    have hnn' := rem_nonneg durs hd (el :: rest) a b r' hc (le_trans hr hrr)
    obtain ⟨_, hlen, hrest⟩ := hc
    by_cases h0 : r * durs el.expr = 0
    · have : rem durs (el :: rest) r = 0 := by simp only [rem, if_pos h0]
      rw [this]; exact hnn'
    · have hD := dur_pos_of_mul_ne hd h0
      have hmul : r * durs el.expr ≤ r' * durs el.expr :=
        mul_le_mul_of_nonneg_right hrr (le_of_lt hD)
      have hrpos : 0 < r * durs el.expr :=
        lt_of_le_of_ne (mul_nonneg hr (le_of_lt hD)) (Ne.symm h0)
      have h0' : r' * durs el.expr ≠ 0 := ne_of_gt (lt_of_lt_of_le hrpos hmul)
      simp only [rem, if_neg h0, if_neg h0']
      by_cases h1' : r' * durs el.expr ≤ el.stop - el.start
      · have h1 : r * durs el.expr ≤ el.stop - el.start := le_trans hmul h1'
        rw [if_pos h1, if_pos h1']; exact hmul
      · rw [if_neg h1']
        have h2' : (el.stop - el.start) / durs el.expr ≤ r' := by
          rw [div_le_iff₀ hD]; linarith
        by_cases h1 : r * durs el.expr ≤ el.stop - el.start
        · rw [if_pos h1]
          have := rem_nonneg durs hd rest _ _ (r' - (el.stop - el.start) / durs el.expr)
            hrest (by linarith)
          linarith
        · rw [if_neg h1]
          have h2 : (el.stop - el.start) / durs el.expr ≤ r := by
            rw [div_le_iff₀ hD]; linarith
          have := ih _ _ (r - (el.stop - el.start) / durs el.expr)
            (r' - (el.stop - el.start) / durs el.expr) hrest (by linarith) (by linarith)
          linarith

/-- Passing an element boundary never makes the arrival earlier. -/
theorem rem_step (durs : Nat → Rat) (hd : NonnegDurs durs) (el : Elem) (rest : List Elem)
    (b r : Rat) (hlen : el.start ≤ el.stop) (hrest : Contig el.stop rest b) (hr : 0 ≤ r) :
    el.start + rem durs (el :: rest) r ≤ el.stop + rem durs rest r := by
  have hnn := rem_nonneg durs hd rest _ _ r hrest hr
  simp only [rem]
  split_ifs with h0 h1
  · linarith
  · have := mul_nonneg hr (hd el.expr)
    linarith
  · have hD := dur_pos_of_mul_ne hd h0
    have h2 : (el.stop - el.start) / durs el.expr ≤ r := by
      rw [div_le_iff₀ hD]; linarith
    have h3 : 0 ≤ (el.stop - el.start) / durs el.expr :=
      div_nonneg (by linarith) (le_of_lt hD)
    have := rem_mono durs hd rest _ _ (r - (el.stop - el.start) / durs el.expr) r hrest
      (by linarith) (by linarith)
    linarith

/-- Entering the same element later never makes the arrival earlier. -/
theorem rem_shrink (durs : Nat → Rat) (hd : NonnegDurs durs) (s s' stop : Rat) (x : Nat)
    (rest : List Elem) (b r : Rat) (hss : s ≤ s') (hrest : Contig stop rest b) :
    s + rem durs (⟨s, stop, x⟩ :: rest) r ≤ s' + rem durs (⟨s', stop, x⟩ :: rest) r := by
  simp only [rem]
  by_cases h0 : r * durs x = 0
  · rw [if_pos h0, if_pos h0]; linarith
  · rw [if_neg h0, if_neg h0]
    have hD := dur_pos_of_mul_ne hd h0
    by_cases h1' : r * durs x ≤ stop - s'
    · have h1 : r * durs x ≤ stop - s := by linarith
      rw [if_pos h1, if_pos h1']; linarith
    · rw [if_neg h1']
      have h2' : (stop - s') / durs x ≤ r := by
        rw [div_le_iff₀ hD]; linarith
      have hnn' := rem_nonneg durs hd rest _ _ (r - (stop - s') / durs x) hrest (by linarith)
      by_cases h1 : r * durs x ≤ stop - s
      · rw [if_pos h1]; linarith
      · rw [if_neg h1]
        have h2 : (stop - s) / durs x ≤ r := by
          rw [div_le_iff₀ hD]; linarith
        have h3 : (stop - s') / durs x ≤ (stop - s) / durs x :=
          div_le_div_of_nonneg_right (by linarith) (le_of_lt hD)
        have := rem_mono durs hd rest _ _ (r - (stop - s) / durs x) (r - (stop - s') / durs x)
          hrest (by linarith) (by linarith)
        linarith

theorem fromElem_eq_rem (durs : Nat → Rat) (hd : NonnegDurs durs) (v : Rat) (el : Elem)
    (rest : List Elem) :
    fromElem durs v el rest = rem durs (⟨v, el.stop, el.expr⟩ :: rest) 1 := by
  simp only [fromElem, rem, one_mul]
  by_cases h0 : durs el.expr = 0
  · rw [if_pos h0, if_pos h0]
  · rw [if_neg h0, if_neg h0]
    have hD : 0 < durs el.expr := lt_of_le_of_ne (hd _) (Ne.symm h0)
    by_cases h1 : (el.stop - v) / durs el.expr ≥ 1
    · have h1' : durs el.expr ≤ el.stop - v := by
        rwa [ge_iff_le, le_div_iff₀ hD, one_mul] at h1
      rw [if_pos h1, if_pos h1']
    · have h1' : ¬ durs el.expr ≤ el.stop - v := by
        intro hh; apply h1; rw [ge_iff_le, le_div_iff₀ hD, one_mul]; exact hh
      rw [if_neg h1, if_neg h1']
      rw [walk_eq_rem durs hd rest _ _ (le_of_lt (lt_of_not_ge h1))]
      have : (el.stop - v) / durs el.expr * durs el.expr = el.stop - v := by
        field_simp
      rw [this]

/-! ### Arrival time as a function of the departure time -/

/-- Arrival time when leaving at `v`, looking the element up by `v` itself. -/
def arrL (durs : Nat → Rat) : List Elem → Rat → Rat
  | [], v => v + durs 0
  | el :: rest, v => if v < el.stop then v + fromElem durs v el rest else arrL durs rest v

theorem arrL_ge (durs : Nat → Rat) (hd : NonnegDurs durs) :
    ∀ (l : List Elem) (a b v : Rat), Contig a l b → v ≤ arrL durs l v := by
  intro l
  induction l with
  | nil => intro a b v _; simp only [arrL]; linarith [hd 0]
  | cons el rest ih =>
    intro a b v hc
    obtain ⟨_, hlen, hrest⟩ := hc
    simp only [arrL]
    split_ifs with h
    · rw [fromElem_eq_rem durs hd]
      have := rem_nonneg durs hd (⟨v, el.stop, el.expr⟩ :: rest) v b 1
        ⟨rfl, le_of_lt h, hrest⟩ (by norm_num)
      linarith
    · exact ih _ _ v hrest

/-- Leaving exactly at the start of a contiguous list is the earliest way through it. -/
theorem arrL_base (durs : Nat → Rat) (hd : NonnegDurs durs) :
    ∀ (l : List Elem) (a b v : Rat), Contig a l b → a ≤ v →
      a + rem durs l 1 ≤ arrL durs l v := by
  intro l
  induction l with
  | nil =>
    intro a b v _ hav
    simp only [arrL, rem]; linarith
  | cons el rest ih =>
    intro a b v hc hav
    obtain ⟨hst, hlen, hrest⟩ := hc
    simp only [arrL]
    split_ifs with h
    · rw [fromElem_eq_rem durs hd]
      have := rem_shrink durs hd el.start v el.stop el.expr rest b 1 (by linarith) hrest
      rw [← hst]
      exact this
    · have h1 := rem_step durs hd el rest b 1 hlen hrest (by norm_num)
      have h2 := ih el.stop b v hrest (le_of_not_gt h)
      rw [← hst]; linarith

theorem arrL_mono (durs : Nat → Rat) (hd : NonnegDurs durs) :
    ∀ (l : List Elem) (a b v₁ v₂ : Rat), Contig a l b → a ≤ v₁ → v₁ ≤ v₂ →
      arrL durs l v₁ ≤ arrL durs l v₂ := by
  intro l
  induction l with
  | nil => intro a b v₁ v₂ _ _ h; simp only [arrL]; linarith
  | cons el rest ih =>
    intro a b v₁ v₂ hc hav hvv
    obtain ⟨hst, hlen, hrest⟩ := hc
    simp only [arrL]
    by_cases h1 : v₁ < el.stop
    · rw [if_pos h1]
      by_cases h2 : v₂ < el.stop
      · rw [if_pos h2, fromElem_eq_rem durs hd, fromElem_eq_rem durs hd]
        exact rem_shrink durs hd v₁ v₂ el.stop el.expr rest b 1 hvv hrest
      · rw [if_neg h2, fromElem_eq_rem durs hd]
        have h3 := rem_step durs hd ⟨v₁, el.stop, el.expr⟩ rest b 1 (le_of_lt h1) hrest
          (by norm_num)
        have h4 := arrL_base durs hd rest el.stop b v₂ hrest (le_of_not_gt h2)
        exact le_trans h3 h4
    · have h2 : ¬ v₂ < el.stop := fun h => h1 (lt_of_le_of_lt hvv h)
      rw [if_neg h1, if_neg h2]
      exact ih el.stop b v₁ v₂ hrest (le_of_not_gt h1) hvv

/-! ### `Contig` helpers and the element lookup -/

theorem contig_le : ∀ (l : List Elem) (a b : Rat), Contig a l b → a ≤ b := by
  intro l
  induction l with
  | nil => intro a b h; exact le_of_eq h
  | cons el rest ih =>
    intro a b h
    obtain ⟨hst, hlen, hrest⟩ := h
    have := ih _ _ hrest
    linarith

theorem contig_mem : ∀ (l : List Elem) (a b : Rat), Contig a l b → ∀ el ∈ l,
    a ≤ el.start ∧ el.start ≤ el.stop ∧ el.stop ≤ b := by
  intro l
  induction l with
  | nil => intro a b _ el hel; cases hel
  | cons e rest ih =>
    intro a b h el hel
    obtain ⟨hst, hlen, hrest⟩ := h
    rcases List.mem_cons.mp hel with rfl | hmem
    · exact ⟨le_of_eq hst.symm, hlen, contig_le _ _ _ hrest⟩
    · obtain ⟨h1, h2, h3⟩ := ih _ _ hrest el hmem
      exact ⟨by linarith, h2, h3⟩

theorem contig_append : ∀ (l₁ l₂ : List Elem) (a b : Rat),
    Contig a (l₁ ++ l₂) b ↔ ∃ m, Contig a l₁ m ∧ Contig m l₂ b := by
  intro l₁
  induction l₁ with
  | nil =>
    intro l₂ a b
    constructor
    · intro h; exact ⟨a, rfl, h⟩
    · rintro ⟨m, h1, h2⟩
      have : a = m := h1
      subst this; exact h2
  | cons e rest ih =>
    intro l₂ a b
    constructor
    · intro h
      obtain ⟨hst, hlen, hrest⟩ := h
      obtain ⟨m, h1, h2⟩ := (ih l₂ _ _).mp hrest
      exact ⟨m, ⟨hst, hlen, h1⟩, h2⟩
    · rintro ⟨m, ⟨hst, hlen, h1⟩, h2⟩
      exact ⟨hst, hlen, (ih l₂ _ _).mpr ⟨m, h1, h2⟩⟩

theorem lookupMid_none : ∀ (l : List Elem) (a b m : Rat), Contig a l b → m < a →
    lookupMid m l = none := by
  intro l
  induction l with
  | nil => intro a b m _ _; rfl
  | cons el rest ih =>
    intro a b m h hma
    obtain ⟨hst, hlen, hrest⟩ := h
    have h1 := ih _ _ m hrest (by linarith)
    simp only [lookupMid, h1]
    have : ¬ (el.start ≤ m ∧ m < el.stop) := by
      rintro ⟨h2, _⟩; linarith
    rw [if_neg this]

theorem arrL_after (durs : Nat → Rat) : ∀ (l : List Elem) (a b v : Rat), Contig a l b → b ≤ v →
    arrL durs l v = v + durs 0 := by
  intro l
  induction l with
  | nil => intro a b v _ _; rfl
  | cons el rest ih =>
    intro a b v h hbv
    obtain ⟨hst, hlen, hrest⟩ := h
    have := contig_le _ _ _ hrest
    simp only [arrL]
    rw [if_neg (by linarith)]
    exact ih _ _ v hrest hbv

theorem lookupMid_spec (durs : Nat → Rat) : ∀ (l : List Elem) (a b v : Rat), Contig a l b →
    (∀ el ∈ l, minuteOf el.start = el.start ∧ minuteOf el.stop = el.stop) →
    a ≤ v → v < b →
    ∃ el rest, lookupMid (minuteOf v) l = some (el, rest) ∧
      arrL durs l v = v + fromElem durs v el rest := by
  intro l
  induction l with
  | nil =>
    intro a b v h _ hav hvb
    have : a = b := h
    linarith
  | cons el rest ih =>
    intro a b v h hal hav hvb
    obtain ⟨hst, hlen, hrest⟩ := h
    obtain ⟨ha1, ha2⟩ := hal el (List.mem_cons_self ..)
    by_cases hv : v < el.stop
    · have hnone := lookupMid_none rest _ _ (minuteOf v) hrest
        (lt_of_le_of_lt (minuteOf_le v) hv)
      refine ⟨el, rest, ?_, ?_⟩
      · simp only [lookupMid, hnone]
        rw [if_pos]
        exact ⟨(le_minuteOf_iff ha1).mpr (by linarith), (minuteOf_lt_iff ha2).mpr hv⟩
      · simp only [arrL]; rw [if_pos hv]
    · obtain ⟨el', rest', h1, h2⟩ := ih _ _ v hrest
        (fun e he => hal e (List.mem_cons_of_mem _ he)) (le_of_not_gt hv) hvb
      refine ⟨el', rest', ?_, ?_⟩
      · simp only [lookupMid, h1]
      · simp only [arrL]; rw [if_neg hv]; exact h2

/-- `valueAt` is `arrL` minus the departure time. -/
theorem valueAt_eq (durs : Nat → Rat) (c : Chain) (v : Rat)
    (hc : WF c) (ha : Aligned c) :
    valueAt durs (some c) v = some (arrL durs c.elems v - v) := by
  obtain ⟨elems, lastStart, ear, lat⟩ := c
  obtain ⟨hal, hlast⟩ := ha
  simp only at hal hlast
  cases elems with
  | nil => simp [valueAt, arrL]
  | cons first mids =>
    obtain ⟨hst, hlen, hrest⟩ := hc
    simp only at hst hlen hrest
    obtain ⟨ha1, ha2⟩ := hal first (List.mem_cons_self ..)
    simp only [valueAt, arrL]
    by_cases h1 : minuteOf v < first.stop
    · have h1' : v < first.stop := (minuteOf_lt_iff ha2).mp h1
      rw [if_pos h1, if_pos h1']; congr 1; ring
    · have h1' : ¬ v < first.stop := fun h => h1 ((minuteOf_lt_iff ha2).mpr h)
      rw [if_neg h1, if_neg h1']
      by_cases h2 : minuteOf v ≥ lastStart
      · have h2' : lastStart ≤ v := (le_minuteOf_iff hlast).mp h2
        rw [if_pos h2, arrL_after durs mids _ _ v hrest h2']; congr 1; ring
      · have h2' : v < lastStart := by
          rw [ge_iff_le, le_minuteOf_iff hlast] at h2; exact lt_of_not_ge h2
        rw [if_neg h2]
        obtain ⟨el, rest, h3, h4⟩ := lookupMid_spec durs mids _ _ v hrest
          (fun e he => hal e (List.mem_cons_of_mem _ he)) (le_of_not_gt h1') h2'
        rw [h3, h4]; simp only; congr 1; ring

/-! ### The C17 lemmas about `valueAt` -/

theorem valueAt_total (durs : Nat → Rat) (c : Chain) (v : Rat)
    (hc : WF c) (ha : Aligned c) (hv : 0 ≤ v) :
    ∃ d, valueAt durs (some c) v = some d :=
  have _ := hv
  ⟨_, valueAt_eq durs c v hc ha⟩

theorem valueAt_nonneg (durs : Nat → Rat) (c : Chain) (v d : Rat)
    (hd : NonnegDurs durs) (hc : WF c) (ha : Aligned c) (hv : 0 ≤ v)
    (h : valueAt durs (some c) v = some d) : 0 ≤ d := by
  have _ := hv
  rw [valueAt_eq durs c v hc ha] at h
  have := arrL_ge durs hd c.elems 0 c.lastStart v hc
  have hh : arrL durs c.elems v - v = d := Option.some.inj h
  linarith

theorem valueAt_fifo (durs : Nat → Rat) (c : Chain) (v₁ v₂ d₁ d₂ : Rat)
    (hd : NonnegDurs durs) (hc : WF c) (ha : Aligned c) (hv : 0 ≤ v₁) (hle : v₁ ≤ v₂)
    (h₁ : valueAt durs (some c) v₁ = some d₁) (h₂ : valueAt durs (some c) v₂ = some d₂) :
    v₁ + d₁ ≤ v₂ + d₂ := by
  rw [valueAt_eq durs c v₁ hc ha] at h₁
  rw [valueAt_eq durs c v₂ hc ha] at h₂
  have e1 : arrL durs c.elems v₁ - v₁ = d₁ := Option.some.inj h₁
  have e2 : arrL durs c.elems v₂ - v₂ = d₂ := Option.some.inj h₂
  have := arrL_mono durs hd c.elems 0 c.lastStart v₁ v₂ hc hv hle
  linarith

theorem arrL_within (durs : Nat → Rat) (hd : NonnegDurs durs) :
    ∀ (l : List Elem) (a b v : Rat) (el : Elem), Contig a l b → el ∈ l →
      el.start ≤ v → v < el.stop → v + durs el.expr ≤ el.stop →
      arrL durs l v = v + durs el.expr := by
  intro l
  induction l with
  | nil => intro a b v el _ hel; cases hel
  | cons e rest ih =>
    intro a b v el h hel h1 h2 hfit
    obtain ⟨hst, hlen, hrest⟩ := h
    rcases List.mem_cons.mp hel with rfl | hmem
    · simp only [arrL]; rw [if_pos h2]
      congr 1
      simp only [fromElem]
      by_cases h0 : durs el.expr = 0
      · rw [if_pos h0, h0]
      · rw [if_neg h0]
        have hD : 0 < durs el.expr := lt_of_le_of_ne (hd _) (Ne.symm h0)
        rw [if_pos]
        rw [ge_iff_le, le_div_iff₀ hD]; linarith
    · have := (contig_mem rest _ _ hrest el hmem).1
      simp only [arrL]; rw [if_neg (by linarith)]
      exact ih _ _ v el hrest hmem h1 h2 hfit

theorem valueAt_within (durs : Nat → Rat) (c : Chain) (v : Rat) (el : Elem)
    (hd : NonnegDurs durs) (hc : WF c) (ha : Aligned c) (hv : 0 ≤ v)
    (hmem : el ∈ c.elems) (h1 : el.start ≤ v) (h2 : v < el.stop)
    (hfit : v + durs el.expr ≤ el.stop) :
    valueAt durs (some c) v = some (durs el.expr) := by
  have _ := hv
  rw [valueAt_eq durs c v hc ha,
    arrL_within durs hd c.elems 0 c.lastStart v el hc hmem h1 h2 hfit]
  congr 1; ring

theorem valueAt_after (durs : Nat → Rat) (c : Chain) (v : Rat)
    (hc : WF c) (ha : Aligned c) (hne : c.elems ≠ []) (h : c.lastStart ≤ v) :
    valueAt durs (some c) v = some (durs 0) := by
  have _ := hne
  rw [valueAt_eq durs c v hc ha, arrL_after durs c.elems 0 c.lastStart v hc h]
  congr 1; ring

/-! ### `SetExpression` -/

theorem findSplit_spec (s : Rat) : ∀ l : List Elem,
    l = (findSplit s l).1 ++ (findSplit s l).2 ∧
    (∀ p ∈ (findSplit s l).1, p.stop ≤ s) ∧
    (∀ el rest, (findSplit s l).2 = el :: rest → ¬ (el.start < s ∧ el.stop ≤ s)) := by
  intro l
  induction l with
  | nil =>
    refine ⟨rfl, ?_, ?_⟩
    · intro p hp; simp [findSplit] at hp
    · intro el rest h; simp [findSplit] at h
  | cons e rest ih =>
    obtain ⟨ih1, ih2, ih3⟩ := ih
    by_cases h : e.start < s ∧ e.stop ≤ s
    · have e1 : (findSplit s (e :: rest)).1 = e :: (findSplit s rest).1 := by
        simp only [findSplit, if_pos h]
      have e2 : (findSplit s (e :: rest)).2 = (findSplit s rest).2 := by
        simp only [findSplit, if_pos h]
      rw [e1, e2]
      refine ⟨?_, ?_, ih3⟩
      · rw [List.cons_append, ← ih1]
      · intro p hp
        rcases List.mem_cons.mp hp with rfl | hp
        · exact h.2
        · exact ih2 p hp
    · have e1 : (findSplit s (e :: rest)).1 = [] := by
        simp only [findSplit, if_neg h]
      have e2 : (findSplit s (e :: rest)).2 = e :: rest := by
        simp only [findSplit, if_neg h]
      rw [e1, e2]
      refine ⟨rfl, ?_, ?_⟩
      · intro p hp; cases hp
      · intro el r hh
        obtain ⟨rfl, _⟩ := List.cons.inj hh
        exact h

theorem contig_pre_le : ∀ (pre : List Elem) (a m s : Rat), Contig a pre m →
    (∀ p ∈ pre, p.stop ≤ s) → a ≤ s → m ≤ s := by
  intro pre
  induction pre with
  | nil => intro a m s h _ has; have : a = m := h; linarith
  | cons p rest ih =>
    intro a m s h hp _
    obtain ⟨_, _, hrest⟩ := h
    exact ih _ _ s hrest (fun q hq => hp q (List.mem_cons_of_mem _ hq))
      (hp p (List.mem_cons_self ..))

theorem alt_frame_pos : ∀ l : List Elem,
    (AltD l → ∀ el ∈ l, el.expr ≠ 0 → el.start < el.stop) ∧
    (AltF l → ∀ el ∈ l, el.expr ≠ 0 → el.start < el.stop) := by
  intro l
  induction l with
  | nil => exact ⟨fun _ el hel => (by cases hel), fun _ el hel => (by cases hel)⟩
  | cons e rest ih =>
    constructor
    · intro h el hel hx
      simp only [AltD] at h
      rcases List.mem_cons.mp hel with rfl | hmem
      · exact absurd h.1 hx
      · exact ih.2 h.2 el hmem hx
    · intro h el hel hx
      simp only [AltF] at h
      rcases List.mem_cons.mp hel with rfl | hmem
      · exact h.2.1
      · rcases h.2.2 with h3 | h3
        · subst h3; cases hmem
        · exact ih.1 h3 el hmem hx

theorem alt_replace (el : Elem) (rest : List Elem) (hel : el.expr = 0) : ∀ pre : List Elem,
    (AltD (pre ++ el :: rest) → AltF rest ∧ ∀ d1 f d2 : Elem, d1.expr = 0 → f.expr ≠ 0 →
      f.start < f.stop → d2.expr = 0 → AltD (pre ++ [d1, f, d2] ++ rest)) ∧
    (AltF (pre ++ el :: rest) → AltF rest ∧ ∀ d1 f d2 : Elem, d1.expr = 0 → f.expr ≠ 0 →
      f.start < f.stop → d2.expr = 0 → AltF (pre ++ [d1, f, d2] ++ rest)) := by
  intro pre
  induction pre with
  | nil =>
    constructor
    · intro h
      simp only [List.nil_append, AltD] at h
      refine ⟨h.2, ?_⟩
      intro d1 f d2 h1 h2 h3 h4
      simp only [List.nil_append, List.cons_append, AltD, AltF]
      exact ⟨h1, h2, h3, Or.inr ⟨h4, h.2⟩⟩
    · intro h
      simp only [List.nil_append, AltF] at h
      exact absurd hel h.1
  | cons p ps ih =>
    constructor
    · intro h
      simp only [List.cons_append, AltD] at h
      obtain ⟨h1, h2⟩ := ih.2 h.2
      refine ⟨h1, ?_⟩
      intro d1 f d2 a1 a2 a3 a4
      have := h2 d1 f d2 a1 a2 a3 a4
      simp only [List.cons_append, AltD] at this ⊢
      exact ⟨h.1, this⟩
    · intro h
      simp only [List.cons_append, AltF] at h
      obtain ⟨hx, hpos, h3⟩ := h
      rcases h3 with h3 | h3
      · exact absurd h3 (by simp)
      · obtain ⟨h1, h2⟩ := ih.1 h3
        refine ⟨h1, ?_⟩
        intro d1 f d2 a1 a2 a3 a4
        have := h2 d1 f d2 a1 a2 a3 a4
        simp only [List.cons_append, AltF] at this ⊢
        exact ⟨hx, hpos, Or.inr this⟩

theorem alt_append (d f : Elem) (hd : d.expr = 0) (hf : f.expr ≠ 0) (hpos : f.start < f.stop) :
    ∀ pre : List Elem,
    (AltD pre → AltD (pre ++ [d, f])) ∧ (AltF pre → AltF (pre ++ [d, f])) := by
  intro pre
  induction pre with
  | nil =>
    constructor
    · intro h; simp only [AltD] at h
    · intro h; simp only [AltF] at h
  | cons p ps ih =>
    constructor
    · intro h
      simp only [List.cons_append, AltD] at h ⊢
      exact ⟨h.1, ih.2 h.2⟩
    · intro h
      simp only [List.cons_append, AltF] at h ⊢
      obtain ⟨hx, hp, h3⟩ := h
      refine ⟨hx, hp, Or.inr ?_⟩
      rcases h3 with h3 | h3
      · subst h3
        show d.expr = 0 ∧ f.expr ≠ 0 ∧ f.start < f.stop ∧ (([] : List Elem) = [] ∨ AltD [])
        exact ⟨hd, hf, hpos, Or.inl rfl⟩
      · exact ih.1 h3

/-- The facts about the element in which the new frame starts. -/
theorem split_elem_facts (pre : List Elem) (el : Elem) (rest : List Elem) (b s e : Rat)
    (hc : Contig 0 (pre ++ el :: rest) b) (hD : AltD (pre ++ el :: rest))
    (hpre : ∀ p ∈ pre, p.stop ≤ s) (hstop : ¬ (el.start < s ∧ el.stop ≤ s))
    (hs0 : 0 ≤ s) (hlt : s < e)
    (hdis : ∀ q ∈ pre ++ el :: rest, q.expr ≠ 0 → e ≤ q.start ∨ q.stop ≤ s) :
    el.expr = 0 ∧ el.start ≤ s ∧ e ≤ el.stop := by
  obtain ⟨m, hc1, hc2⟩ := (contig_append _ _ _ _).mp hc
  obtain ⟨hst, hlen, hrest⟩ := hc2
  have hms : m ≤ s := contig_pre_le pre 0 m s hc1 hpre hs0
  have hstart : el.start ≤ s := by rw [hst]; exact hms
  have hmem : el ∈ pre ++ el :: rest := by simp
  have hexpr : el.expr = 0 := by
    by_contra hx
    have hpos := (alt_frame_pos _).1 hD el hmem hx
    rcases hdis el hmem hx with h | h
    · linarith
    · apply hstop
      constructor
      · linarith
      · exact h
  refine ⟨hexpr, hstart, ?_⟩
  obtain ⟨hF, _⟩ := (alt_replace el rest hexpr pre).1 hD
  cases rest with
  | nil => simp only [AltF] at hF
  | cons f rest' =>
    simp only [AltF] at hF
    obtain ⟨hfx, hfpos, _⟩ := hF
    obtain ⟨hfst, _, _⟩ := hrest
    have hfmem : f ∈ pre ++ el :: f :: rest' := by simp
    rcases hdis f hfmem hfx with h | h
    · linarith
    · exfalso; apply hstop
      constructor <;> linarith

theorem normalise_of_WF (c : Chain) (hc : WF c) : normalise c = c := by
  obtain ⟨elems, lastStart, ear, lat⟩ := c
  cases elems with
  | nil => rfl
  | cons first mids =>
    obtain ⟨hst, hlen, hrest⟩ := hc
    simp only at hst hlen hrest
    cases mids with
    | nil => simp [normalise]
    | cons m ms =>
      obtain ⟨hmst, hmlen, hmrest⟩ := hrest
      have hlast : ∀ (l : List Elem) (m : Elem) (b : Rat), Contig m.stop l b →
          ((m :: l).getLast?.map (·.stop)) = some b := by
        intro l
        induction l with
        | nil => intro m b h; have : m.stop = b := h; simp [this]
        | cons q qs ih =>
          intro m b h
          obtain ⟨_, _, h3⟩ := h
          have := ih q b h3
          rw [List.getLast?_cons_cons]; exact this
      have h1 := hlast ms m lastStart hmrest
      simp only [normalise]
      cases hg : (m :: ms).getLast? with
      | none => simp [hg] at h1
      | some z =>
        rw [hg] at h1
        simp only [Option.map_some, Option.some.injEq] at h1
        simp only [h1]
        rw [hmst]

/-- What a successful / overlapping `setExpression` on an initialised chain looks like. -/
theorem setExpression_cases (c : Chain) (s e : Rat) (x : Nat) :
    setExpression (some c) s e x = .badArg ∨
    (0 ≤ s ∧ s ≤ e ∧ minuteOf s = s ∧ minuteOf e = e ∧
      (((findSplit s c.elems).2 = [] ∧ ∃ ear lat, setExpression (some c) s e x = .ok
          { elems := (findSplit s c.elems).1 ++ [⟨c.lastStart, s, 0⟩, ⟨s, e, x⟩],
            lastStart := e, earliest := ear, latest := lat }) ∨
       (∃ el rest, (findSplit s c.elems).2 = el :: rest ∧
          ((((el.expr ≠ 0 ∧ el.start < e) ∨ el.stop < e) ∧
              setExpression (some c) s e x = .overlap) ∨
           (¬ (el.expr ≠ 0 ∧ el.start < e) ∧ e ≤ el.stop ∧
              ∃ ear lat, setExpression (some c) s e x = .ok
              { elems := (findSplit s c.elems).1 ++
                  [⟨el.start, s, el.expr⟩, ⟨s, e, x⟩, ⟨e, el.stop, el.expr⟩] ++ rest,
                lastStart := c.lastStart, earliest := ear, latest := lat }))))) := by
  unfold setExpression
  simp only [Option.map_some, Option.getD_some]
  generalize (if s < c.earliest ∨ c.earliest = 0 then s else c.earliest) = ear
  generalize (if e > c.latest ∨ c.latest = 0 then e else c.latest) = lat
  by_cases hargs : s < 0 ∨ e < s ∨ minuteOf s ≠ s ∨ minuteOf e ≠ e
  · left; rw [if_pos hargs]
  · rw [if_neg hargs]
    simp only [not_or, not_lt, ne_eq, not_not] at hargs
    obtain ⟨a1, a2, a3, a4⟩ := hargs
    by_cases hweek : lat - ear > week
    · left; rw [if_pos hweek]
    · right
      rw [if_neg hweek]
      refine ⟨a1, a2, a3, a4, ?_⟩
      cases hpost : (findSplit s c.elems).2 with
      | nil => left; exact ⟨rfl, _, _, rfl⟩
      | cons el rest =>
        right
        refine ⟨el, rest, rfl, ?_⟩
        by_cases hov : el.expr ≠ 0 ∧ el.start < e
        · left; simp only [if_pos hov]; exact ⟨Or.inl hov, trivial⟩
        · by_cases hov2 : el.stop < e
          · left; simp only [if_neg hov, if_pos hov2]; exact ⟨Or.inr hov2, trivial⟩
          · right; simp only [if_neg hov, if_neg hov2]
            exact ⟨hov, le_of_not_gt hov2, _, _, rfl⟩

theorem setExpr_ok_iff (c : Option Chain) (s e : Rat) (x : Nat) (c' : Chain) :
    setExpr c s e x = .ok c' ↔ ∃ c'', setExpression c s e x = .ok c'' ∧ c' = normalise c'' := by
  unfold setExpr
  cases h : setExpression c s e x with
  | ok c'' =>
    simp only [SetResult.ok.injEq]
    constructor
    · intro hh; exact ⟨c'', rfl, hh.symm⟩
    · rintro ⟨c3, h1, h2⟩; rw [h2, h1]
  | overlap =>
    simp only
    constructor
    · intro hh; cases hh
    · rintro ⟨c3, h1, _⟩; cases h1
  | badArg =>
    simp only
    constructor
    · intro hh; cases hh
    · rintro ⟨c3, h1, _⟩; cases h1

theorem setExpr_overlap_iff (c : Option Chain) (s e : Rat) (x : Nat) :
    setExpr c s e x = .overlap ↔ setExpression c s e x = .overlap := by
  unfold setExpr
  cases h : setExpression c s e x with
  | ok c'' => simp only; constructor <;> (intro hh; cases hh)
  | overlap => simp only
  | badArg => exact Iff.rfl

theorem good_normalise (c : Chain) (h : Good c) : Good (normalise c) := by
  rw [normalise_of_WF c h.1]; exact h

theorem setExpr_first (s e : Rat) (x : Nat) (c' : Chain)
    (hx : x ≠ 0) (hlt : s < e) (h : setExpr none s e x = .ok c') : Good c' := by
  obtain ⟨c'', h1, rfl⟩ := (setExpr_ok_iff _ _ _ _ _).mp h
  apply good_normalise
  unfold setExpression at h1
  simp only [Option.map_none, Option.getD_none] at h1
  by_cases hargs : s < 0 ∨ e < s ∨ minuteOf s ≠ s ∨ minuteOf e ≠ e
  · rw [if_pos hargs] at h1; cases h1
  · rw [if_neg hargs] at h1
    simp only [not_or, not_lt, ne_eq, not_not] at hargs
    obtain ⟨a1, a2, a3, a4⟩ := hargs
    have key : ∀ (ear lat : Rat),
        (if lat - ear > week then SetResult.badArg else SetResult.ok
          { elems := [⟨0, s, 0⟩, ⟨s, e, x⟩], lastStart := e, earliest := ear, latest := lat })
          = SetResult.ok c'' → Good c'' := by
      intro ear lat h2
      by_cases hweek : lat - ear > week
      · rw [if_pos hweek] at h2; cases h2
      · rw [if_neg hweek] at h2
        simp only [SetResult.ok.injEq] at h2
        subst h2
        refine ⟨?_, ⟨?_, a4⟩, ?_⟩
        · exact ⟨rfl, a1, rfl, a2, rfl⟩
        · intro q hq
          simp only [List.mem_cons, List.not_mem_nil, or_false] at hq
          rcases hq with rfl | rfl
          · exact ⟨minuteOf_zero, a3⟩
          · exact ⟨a3, a4⟩
        · show (0 : Nat) = 0 ∧ x ≠ 0 ∧ s < e ∧ (([] : List Elem) = [] ∨ AltD [])
          exact ⟨rfl, hx, hlt, Or.inl rfl⟩
    exact key _ _ h1

/-- Whatever `setExpression` accepts on a good chain is good again (no disjointness needed:
the two overlap tests reject everything else). -/
theorem setExpression_accepts_only_good (c : Chain) (s e : Rat) (x : Nat) (c' : Chain)
    (hc : Good c) (hx : x ≠ 0) (hlt : s < e)
    (h : setExpression (some c) s e x = .ok c') : Good c' := by
  obtain ⟨hwf, ⟨hal, hls⟩, hD⟩ := hc
  have hwf : Contig 0 c.elems c.lastStart := hwf
  obtain ⟨hsplit, hpre, hstop⟩ := findSplit_spec s c.elems
  rcases setExpression_cases c s e x with hb | ⟨a1, a2, a3, a4, hcase⟩
  · rw [hb] at h; cases h
  rcases hcase with ⟨hpost, ear, lat, hok⟩ | ⟨el, rest, hpost, hcase⟩
  · -- the new frame starts in the open-ended last element
    rw [hok] at h
    simp only [SetResult.ok.injEq] at h
    subst h
    rw [hpost, List.append_nil] at hsplit
    rw [← hsplit] at hpre ⊢
    have hle : c.lastStart ≤ s := contig_pre_le c.elems 0 c.lastStart s hwf hpre a1
    refine ⟨?_, ⟨?_, a4⟩, ?_⟩
    · exact (contig_append _ _ _ _).mpr ⟨c.lastStart, hwf, rfl, hle, rfl, a2, rfl⟩
    · intro q hq
      simp only [List.mem_append, List.mem_cons, List.not_mem_nil, or_false] at hq
      rcases hq with hq | rfl | rfl
      · exact hal q hq
      · exact ⟨hls, a3⟩
      · exact ⟨a3, a4⟩
    · exact (alt_append ⟨c.lastStart, s, 0⟩ ⟨s, e, x⟩ rfl hx hlt c.elems).1 hD
  · rw [hpost] at hsplit
    rw [hsplit] at hwf hD
    rcases hcase with ⟨_, hov⟩ | ⟨hnov, hend, ear, lat, hok⟩
    · rw [hov] at h; cases h
    · rw [hok] at h
      simp only [SetResult.ok.injEq] at h
      subst h
      have hmem : ∀ q, q ∈ (findSplit s c.elems).1 ++ el :: rest → q ∈ c.elems := by
        intro q hq; rw [hsplit]; exact hq
      obtain ⟨m, hc1, hc2⟩ := (contig_append _ _ _ _).mp hwf
      obtain ⟨hst2, hlen, hrest⟩ := hc2
      have hstart : el.start ≤ s := by
        rw [hst2]; exact contig_pre_le _ 0 m s hc1 hpre a1
      have hexpr : el.expr = 0 := by
        by_contra hne
        exact hnov ⟨hne, lt_of_le_of_lt hstart hlt⟩
      obtain ⟨hel1, hel2⟩ := hal el (hmem el (by simp))
      refine ⟨?_, ⟨?_, hls⟩, ?_⟩
      · refine (contig_append _ _ _ _).mpr ⟨el.stop, ?_, hrest⟩
        exact (contig_append _ _ _ _).mpr ⟨m, hc1, hst2, hstart, rfl, a2, rfl, hend, rfl⟩
      · intro q hq
        simp only [List.mem_append, List.mem_cons, List.not_mem_nil, or_false] at hq
        rcases hq with (hq | rfl | rfl | rfl) | hq
        · exact hal q (hmem q (by simp [hq]))
        · exact ⟨hel1, a3⟩
        · exact ⟨a3, a4⟩
        · exact ⟨a4, hel2⟩
        · exact hal q (hmem q (by simp [hq]))
      · exact ((alt_replace el rest hexpr _).1 hD).2 ⟨el.start, s, el.expr⟩ ⟨s, e, x⟩
          ⟨e, el.stop, el.expr⟩ hexpr hx hlt hexpr

theorem setExpr_accepts_only_good (c : Chain) (s e : Rat) (x : Nat) (c' : Chain)
    (hc : Good c) (hx : x ≠ 0) (hlt : s < e)
    (h : setExpr (some c) s e x = .ok c') : Good c' := by
  obtain ⟨c'', h1, rfl⟩ := (setExpr_ok_iff _ _ _ _ _).mp h
  exact good_normalise _ (setExpression_accepts_only_good c s e x c'' hc hx hlt h1)

theorem setExpr_preserves (c : Chain) (s e : Rat) (x : Nat) (c' : Chain)
    (hc : Good c) (hx : x ≠ 0) (hlt : s < e)
    (hdis : ∀ el ∈ c.elems, el.expr ≠ 0 → e ≤ el.start ∨ el.stop ≤ s)
    (h : setExpr (some c) s e x = .ok c') : Good c' := by
  have _ := hdis
  exact setExpr_accepts_only_good c s e x c' hc hx hlt h

theorem setExpr_disjoint_not_overlap (c : Chain) (s e : Rat) (x : Nat)
    (hc : Good c) (hlt : s < e)
    (hdis : ∀ el ∈ c.elems, el.expr ≠ 0 → e ≤ el.start ∨ el.stop ≤ s) :
    (match setExpr (some c) s e x with | .overlap => False | _ => True) := by
  have hno : setExpr (some c) s e x ≠ .overlap := by
    intro hov
    rw [setExpr_overlap_iff] at hov
    obtain ⟨hwf, ⟨hal, hls⟩, hD⟩ := hc
    have hwf : Contig 0 c.elems c.lastStart := hwf
    obtain ⟨hsplit, hpre, hstop⟩ := findSplit_spec s c.elems
    rcases setExpression_cases c s e x with hb | ⟨a1, a2, a3, a4, hcase⟩
    · rw [hb] at hov; cases hov
    rcases hcase with ⟨hpost, ear, lat, hok⟩ | ⟨el, rest, hpost, hcase⟩
    · rw [hok] at hov; cases hov
    · rw [hpost] at hsplit
      have hst := hstop el rest hpost
      rw [hsplit] at hwf hD hdis
      obtain ⟨hexpr, _, hend⟩ :=
        split_elem_facts _ el rest c.lastStart s e hwf hD hpre hst a1 hlt hdis
      rcases hcase with ⟨hbad, _⟩ | ⟨_, _, ear, lat, hok⟩
      · rcases hbad with ⟨hne, _⟩ | hlt2
        · exact absurd hexpr hne
        · exact absurd hend (not_le.mpr hlt2)
      · rw [hok] at hov; cases hov
  cases hres : setExpr (some c) s e x with
  | ok c' => trivial
  | overlap => exact absurd hres hno
  | badArg => trivial

/-! ### Every chain built from non-empty frames is good -/

theorem build_some_good : ∀ (frames : List (Rat × Rat × Nat)) (c0 c : Chain),
    (∀ f ∈ frames, f.1 < f.2.1 ∧ f.2.2 ≠ 0) → Good c0 →
    build (some c0) frames = .ok (some c) → Good c := by
  intro frames
  induction frames with
  | nil =>
    intro c0 c _ hg h
    simp only [build] at h
    injection h with h
    injection h with h
    rw [← h]; exact hg
  | cons f rest ih =>
    intro c0 c hne hg h
    obtain ⟨s, e, x⟩ := f
    obtain ⟨hlt, hx⟩ := hne (s, e, x) (List.mem_cons_self ..)
    simp only at hlt hx
    cases hr : setExpr (some c0) s e x with
    | ok c1 =>
      simp only [build, hr] at h
      exact ih c1 c (fun g hgm => hne g (List.mem_cons_of_mem _ hgm))
        (setExpr_accepts_only_good c0 s e x c1 hg hx hlt hr) h
    | overlap => simp only [build, hr] at h; cases h
    | badArg => simp only [build, hr] at h; cases h

theorem build_good (frames : List (Rat × Rat × Nat)) (c : Chain)
    (hne : ∀ f ∈ frames, f.1 < f.2.1 ∧ f.2.2 ≠ 0)
    (h : build none frames = .ok (some c)) : Good c := by
  cases frames with
  | nil =>
    simp only [build] at h
    injection h with h
    cases h
  | cons f rest =>
    obtain ⟨s, e, x⟩ := f
    obtain ⟨hlt, hx⟩ := hne (s, e, x) (List.mem_cons_self ..)
    simp only at hlt hx
    cases hr : setExpr none s e x with
    | ok c1 =>
      simp only [build, hr] at h
      exact build_some_good rest c1 c (fun g hgm => hne g (List.mem_cons_of_mem _ hgm))
        (setExpr_first s e x c1 hx hlt hr) h
    | overlap => simp only [build, hr] at h; cases h
    | badArg => simp only [build, hr] at h; cases h

/-! ### Non-vacuity -/

theorem exampleChain_good : Good exampleChain := by
  refine ⟨by decide +kernel, ⟨?_, by decide +kernel⟩, ?_⟩
  · decide +kernel
  · simp only [exampleChain, AltD, AltF]
    norm_num

end NR.Proofs.TimeDep
