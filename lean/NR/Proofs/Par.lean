/-
  NR.Proofs.Par — proofs for the parallel-solver protocol model (`NR.Par`), used by C13 and C15.
  Core + Batteries.Data.List.Basic only (no Mathlib).
-/
import NR.Par
import Batteries.Data.List.Basic  -- `List.Forall₂` (used by the C15 statement file)
namespace NR.Proofs.Par
open NR.Par

/-! ### (1) budget -/

theorem sumNat_eq_sum (l : List Nat) : sumNat l = l.sum := by
  unfold sumNat
  exact (List.sum_eq_foldl (xs := l)).symm

theorem sumNat_cons (x : Nat) (xs : List Nat) : sumNat (x :: xs) = x + sumNat xs := by
  simp [sumNat_eq_sum]

theorem grants_le_request (left : Int) (reqs : List Nat) :
    List.Forall₂ (fun g r => g ≤ r) (grants left reqs) reqs := by
  induction reqs generalizing left with
  | nil => exact List.Forall₂.nil
  | cons n ns ih =>
    refine List.Forall₂.cons ?_ (ih _)
    unfold grab
    simp only
    split
    · exact Nat.zero_le _
    · split
      · simp only; omega
      · exact Nat.le_refl _

theorem grants_sum_int (left : Int) (reqs : List Nat) :
    sumNat (grants left reqs) = min left.toNat (sumNat reqs) := by
  induction reqs generalizing left with
  | nil => simp [grants, sumNat]
  | cons n ns ih =>
    simp only [grants, sumNat_cons, ih]
    unfold grab
    simp only
    split
    · simp only; omega
    · split
      · simp only; omega
      · simp only; omega

theorem grants_sum (budget : Nat) (reqs : List Nat) :
    sumNat (grants (budget : Int) reqs) = min budget (sumNat reqs) := by
  rw [grants_sum_int]; simp

theorem grants_sum_perm (budget : Nat) (reqs reqs' : List Nat) (h : reqs.Perm reqs') :
    sumNat (grants (budget : Int) reqs) = sumNat (grants (budget : Int) reqs') := by
  rw [grants_sum, grants_sum, sumNat_eq_sum, sumNat_eq_sum, h.sum_nat]

/-! ### (2) shutdown -/

theorem step_inv (s s' : Sh) (h : ShInv s) (st : Step s s') : ShInv s' := by
  obtain ⟨disp, active, toSend, inFlight, syncClosed, resultClosed⟩ := s
  obtain ⟨h1, h2, h3, h4, h5⟩ := h
  simp only at h1 h2 h3 h4 h5
  cases st <;> simp only [ShInv] <;> refine ⟨?_, ?_, ?_, ?_, ?_⟩ <;> intros <;>
    cases syncClosed <;> cases resultClosed <;> simp_all <;> omega

theorem step_measure (s s' : Sh) (h : ShInv s) (st : Step s s') : measure s' < measure s := by
  obtain ⟨disp, active, toSend, inFlight, syncClosed, resultClosed⟩ := s
  cases st <;> simp_all [ShInv, NR.Par.measure, dispRank] <;> omega

theorem progress (s : Sh) (h : ShInv s) (hopen : s.resultClosed = false) : ∃ s', Step s s' := by
  obtain ⟨disp, active, toSend, inFlight, syncClosed, resultClosed⟩ := s
  obtain ⟨h1, h2, h3, h4, h5⟩ := h
  simp only at h1 h2 h3 h4 h5 hopen
  -- a pending message can always be forwarded
  by_cases hf : inFlight = 1
  · exact ⟨_, Step.collectorForwards _ hf⟩
  have hf0 : inFlight = 0 := by omega
  cases disp with
  | spawning => exact ⟨_, Step.dispSeesDone _ rfl⟩
  | blockedOnSemaphore => exact ⟨_, Step.dispSpawnsLast _ rfl⟩
  | exited => exact ⟨_, Step.collectorCloses _ (h5 rfl) hf0 hopen⟩
  | cycleBarrier =>
    by_cases ha : active = 0
    · exact ⟨_, Step.barrierReleases _ rfl ha⟩
    · by_cases hs : toSend = 0
      · exact ⟨_, Step.workerExits _ (by simp only; omega) (Or.inl hs)⟩
      · exact ⟨_, Step.workerSends _ (by simp only; omega) hf0 (by simp only; omega)⟩
  | waiting =>
    by_cases ha : active = 0
    · exact ⟨_, Step.dispExits _ rfl ha⟩
    · by_cases hs : toSend = 0
      · exact ⟨_, Step.workerExits _ (by simp only; omega) (Or.inl hs)⟩
      · exact ⟨_, Step.workerSends _ (by simp only; omega) hf0 (by simp only; omega)⟩

/-- A path of consecutive steps starting at `s`. -/
def IsRun : Sh → List Sh → Prop
  | _, [] => True
  | s, s' :: rest => Step s s' ∧ IsRun s' rest

theorem run_length_le (s : Sh) (h : ShInv s) (path : List Sh) (hr : IsRun s path) :
    path.length ≤ measure s := by
  induction path generalizing s with
  | nil => exact Nat.zero_le _
  | cons s' rest ih =>
    obtain ⟨st, hr'⟩ := hr
    have h1 := ih s' (step_inv s s' h st) hr'
    have h2 := step_measure s s' h st
    simp only [List.length_cons]; omega

theorem run_bounded (s : Sh) (h : ShInv s) :
    ∃ n, n ≤ measure s ∧ ∀ (path : List Sh), IsRun s path → path.length ≤ n :=
  ⟨measure s, Nat.le_refl _, fun path hr => run_length_le s h path hr⟩

/-! ### (3) deterministic mode -/

theorem collect_right_comm (b x y : Rat) : collect (collect b x) y = collect (collect b y) x := by
  unfold collect
  grind

theorem collect_fold_perm (best : Rat) (xs ys : List Rat) (h : xs.Perm ys) :
    xs.foldl collect best = ys.foldl collect best :=
  h.foldl_eq' (fun x _ y _ z => collect_right_comm z x y) best

theorem lag_counterexample :
    twoCycles ({ run := fun s _ => [s - 1, s - 2] } : RunFn) 10 100 true
      ≠ twoCycles ({ run := fun s _ => [s - 1, s - 2] } : RunFn) 10 100 false := by
  decide +kernel

/-! ### (4) the per-cycle barrier -/

theorem cstep_noOverlap (runs : Nat) (s t : Cyc) (h : NoOverlap s) (st : CStep runs false s t) : NoOverlap t := by
  cases st with
  | spawn _ _ =>
    intro c hc
    simp only [List.mem_cons] at hc
    rcases hc with hc | hc
    · exact hc
    · exact h c hc
  | cycleEnd _ _ _ => exact h
  | cycleEndSkipping _ _ h3 => exact absurd h3 (by decide)
  | workerEnds c hc =>
    intro d hd
    exact h d (List.mem_of_mem_erase hd)
  | release h1 h2 =>
    intro c hc
    simp only [h2] at hc
    exact absurd hc List.not_mem_nil

theorem reach_noOverlap (runs : Nat) (s : Cyc) (h : CReach runs false s) : NoOverlap s := by
  induction h with
  | init => intro c hc; exact absurd hc List.not_mem_nil
  | step s t _ st ih => exact cstep_noOverlap runs s t ih st

/-- Without the wait a run of cycle 1 is still running while a run of cycle 2 starts. -/
theorem skip_overlaps : ∃ s, CReach 1 true s ∧ ¬ NoOverlap s := by
  refine ⟨{ cur := 2, spawned := 1, active := [2, 1], atBarrier := false }, ?_, ?_⟩
  · have h0 : CReach 1 true {} := CReach.init
    have h1 := CReach.step _ _ h0 (CStep.spawn (runs := 1) (skipBarrier := true) {} rfl (by decide))
    have h2 := CReach.step _ _ h1 (CStep.cycleEndSkipping (runs := 1) (skipBarrier := true) _ rfl rfl rfl)
    have h3 := CReach.step _ _ h2 (CStep.spawn (runs := 1) (skipBarrier := true) _ rfl (by decide))
    exact h3
  · intro h
    have := h 1 (by simp)
    simp at this

end NR.Proofs.Par
