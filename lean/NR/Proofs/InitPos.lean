/-
  Proofs about the stored-position checks of NR.Init (`moveRefused`, the position tests of `newMoveStops`): with a FRESH
  position table no move computed by `stopPositions` is refused.
-/
import NR.Init
namespace NR.Proofs.InitPos
open NR.Init

/-- the stored positions agree with the route: `i + 1` for the stop at index `i`, `route.length + 1` for the last stop -/
def Fresh (st : St) (route : List Nat) : Prop :=
  (∀ i (h : i < route.length), getPos st route[i] = i + 1) ∧ getPos st lastId = route.length + 1

/-- planned: the stop's unit is attached -/
def plB (c : Cfg) (att : List Nat) (x : Nat) : Bool := att.contains (c.unitOf x)
/-- planned or own -/
def qB (c : Cfg) (att : List Nat) (u : Nat) (y : Nat) : Bool := att.contains (c.unitOf y) || decide (c.unitOf y = u)

/-- number of planned stops in a list -/
def cnt (c : Cfg) (att : List Nat) (l : List Nat) : Nat := (l.filter (plB c att)).length

/-- `stopPositions` by recursion over the initial stops: `rp` = the stops in front, reversed -/
def spsAux (c : Cfg) (att : List Nat) (u : Nat) : List Nat → List Nat → List SP
  | _, [] => []
  | rp, x :: post =>
    if c.unitOf x = u then (rp.find? (qB c att u), x, post.find? (qB c att u)) :: spsAux c att u (x :: rp) post
    else spsAux c att u (x :: rp) post

/-- the `planned` of `moveRefused` -/
def plannedM (c : Cfg) (u : Nat) (x : Option Nat) : Bool := match x with
  | none => true
  | some y => c.unitOf y != u
/-- the `posOf` of `moveRefused` -/
def posOfM (st : St) (x : Option Nat) (first : Bool) : Nat := match x with
  | none => if first then 0 else getPos st lastId
  | some y => getPos st y

theorem moveRefused_eq (c : Cfg) (st : St) (u : Nat) (sps : List SP) :
    moveRefused c st u sps =
      match sps with
      | [] => true
      | (p0, _, _) :: _ => moveRefused.go (plannedM c u) (posOfM st) (posOfM st p0 true) (posOfM st p0 true) sps := by
  cases sps <;> rfl

theorem sps_range' (c : Cfg) (att : List Nat) (u : Nat) :
    ∀ (post pre : List Nat), c.L = pre ++ post →
      (List.range' pre.length post.length).filterMap (fun i =>
        match c.L[i]? with
        | none => none
        | some x =>
          if c.unitOf x = u then
            some (((c.L.take i).reverse.find? (qB c att u)), x, ((c.L.drop (i + 1)).find? (qB c att u)))
          else none) = spsAux c att u pre.reverse post := by
  intro post
  induction post with
  | nil => intro pre _; simp [spsAux]
  | cons x post ih =>
    intro pre hL
    have h1 : c.L[pre.length]? = some x := by rw [hL]; simp
    have h2 : c.L.take pre.length = pre := by rw [hL]; simp
    have h3 : c.L.drop (pre.length + 1) = post := by rw [hL]; simp
    have ih' := ih (pre ++ [x]) (by rw [hL]; simp)
    simp only [List.length_append, List.length_cons, List.length_nil, List.reverse_append,
      List.reverse_cons, List.reverse_nil, List.nil_append, List.cons_append] at ih'
    simp only [List.length_cons, List.range'_succ, List.filterMap_cons, h1, h2, h3, spsAux]
    by_cases hx : c.unitOf x = u
    · simp only [hx, if_true]; rw [ih']
    · simp only [hx, if_false]; rw [ih']

theorem stopPositions_eq (c : Cfg) (att : List Nat) (u : Nat) :
    stopPositions c att u = spsAux c att u [] c.L := by
  have := sps_range' c att u c.L [] rfl
  simp only [List.length_nil, List.reverse_nil] at this
  rw [← this, ← List.range_eq_range']
  unfold stopPositions
  dsimp only
  have hq : (fun y => att.contains (c.unitOf y) || decide (c.unitOf y = u)) = qB c att u := rfl
  simp only [hq]
  congr 1
  funext i
  cases c.L[i]? with
  | none => rfl
  | some x => by_cases hx : c.unitOf x = u <;> simp [hx]

theorem filter_nil_of_notq (c : Cfg) (att : List Nat) (u : Nat) (l : List Nat)
    (h : ∀ a ∈ l, qB c att u a = false) : l.filter (plB c att) = [] := by
  rw [List.filter_eq_nil_iff]
  intro a ha hp
  have := h a ha
  simp only [qB, plB] at this hp
  rw [hp] at this
  simp at this

theorem fresh_at (st : St) (route a b : List Nat) (y : Nat) (h : Fresh st route) (hr : route = a ++ y :: b) :
    getPos st y = a.length + 1 := by
  subst hr
  have := h.1 a.length (by simp)
  simpa using this

/-- a planned-or-own stop that `moveRefused` counts as planned is planned -/
theorem pl_of_q (c : Cfg) (st : St) (u y : Nat) (hq : qB c st.att u y = true)
    (hp : plannedM c u (some y) = true) : plB c st.att y = true := by
  simp only [plannedM, bne_iff_ne, ne_eq] at hp
  simpa [qB, plB, hp] using hq

theorem pos_prev (c : Cfg) (st : St) (u : Nat) (pre rest : List Nat) (hL : c.L = pre ++ rest)
    (hfresh : Fresh st (routeOf c st.att))
    (hp : plannedM c u (pre.reverse.find? (qB c st.att u)) = true) :
    posOfM st (pre.reverse.find? (qB c st.att u)) true = cnt c st.att pre := by
  cases h : pre.reverse.find? (qB c st.att u) with
  | none =>
    rw [List.find?_eq_none] at h
    have : pre.filter (plB c st.att) = [] :=
      filter_nil_of_notq c st.att u pre (by intro a ha; simpa using h a (by simpa using ha))
    simp [posOfM, cnt, this]
  | some y =>
    rw [h] at hp
    rw [List.find?_eq_some_iff_append] at h
    obtain ⟨hq, as, bs, hrev, has⟩ := h
    have hpre : pre = bs.reverse ++ y :: as.reverse := by
      have := congrArg List.reverse hrev
      simpa using this
    have hy : plB c st.att y = true := pl_of_q c st u y hq hp
    have has' : as.reverse.filter (plB c st.att) = [] :=
      filter_nil_of_notq c st.att u _ (by intro a ha; simpa using has a (by simpa using ha))
    have hroute : routeOf c st.att =
        bs.reverse.filter (plB c st.att) ++ y :: rest.filter (plB c st.att) := by
      show c.L.filter (plB c st.att) = _
      rw [hL, hpre]
      simp [hy, has']
    have := fresh_at st _ _ _ y hfresh hroute
    simp [posOfM, cnt, hpre, hy, has', this]

theorem pos_next (c : Cfg) (st : St) (u : Nat) (pre post : List Nat) (x : Nat) (hL : c.L = pre ++ x :: post)
    (hfresh : Fresh st (routeOf c st.att)) (hxp : plB c st.att x = false)
    (hn : plannedM c u (post.find? (qB c st.att u)) = true) :
    posOfM st (post.find? (qB c st.att u)) false = cnt c st.att pre + 1 := by
  cases h : post.find? (qB c st.att u) with
  | none =>
    rw [List.find?_eq_none] at h
    have hpost : post.filter (plB c st.att) = [] :=
      filter_nil_of_notq c st.att u post (by intro a ha; simpa using h a ha)
    have hroute : routeOf c st.att = pre.filter (plB c st.att) := by
      show c.L.filter (plB c st.att) = _
      rw [hL]
      simp [hxp, hpost]
    have := hfresh.2
    rw [hroute] at this
    simp [posOfM, cnt, this]
  | some y =>
    rw [h] at hn
    rw [List.find?_eq_some_iff_append] at h
    obtain ⟨hq, as, bs, hpost, has⟩ := h
    have hy : plB c st.att y = true := pl_of_q c st u y hq hn
    have has' : as.filter (plB c st.att) = [] :=
      filter_nil_of_notq c st.att u _ (by intro a ha; simpa using has a ha)
    have hroute : routeOf c st.att =
        pre.filter (plB c st.att) ++ y :: bs.filter (plB c st.att) := by
      show c.L.filter (plB c st.att) = _
      rw [hL, hpost]
      simp [hxp, hy, has']
    have := fresh_at st _ _ _ y hfresh hroute
    simp [posOfM, cnt, this]

/-- slack of the running `position`: 1 unless the next planned-or-own stop is an own one -/
def bonus (c : Cfg) (att : List Nat) (u : Nat) (post : List Nat) : Nat :=
  match post.find? (qB c att u) with
  | some y => if c.unitOf y = u then 0 else 1
  | none => 1

theorem go_false (c : Cfg) (st : St) (u : Nat) (hfresh : Fresh st (routeOf c st.att)) (hu : u ∉ st.att) :
    ∀ (post pre : List Nat) (position lastPrev : Nat), c.L = pre ++ post →
      position ≤ cnt c st.att pre + bonus c st.att u post →
      (∀ y, pre.reverse.find? (qB c st.att u) = some y → c.unitOf y = u → lastPrev = cnt c st.att pre) →
      moveRefused.go (plannedM c u) (posOfM st) position lastPrev (spsAux c st.att u pre.reverse post) = false := by
  intro post
  induction post with
  | nil => intros; simp [spsAux, moveRefused.go]
  | cons x post ih =>
    intro pre position lastPrev hL hpos hlp
    have hL' : c.L = (pre ++ [x]) ++ post := by simp [hL]
    have ih' := ih (pre ++ [x])
    rw [show (pre ++ [x]).reverse = x :: pre.reverse by simp] at ih'
    by_cases hx : c.unitOf x = u
    · -- an own stop
      have hxq : qB c st.att u x = true := by simp [qB, hx]
      have hxp : plB c st.att x = false := by
        simp only [plB, hx]; simpa using hu
      have hb : bonus c st.att u (x :: post) = 0 := by simp [bonus, hxq, hx]
      have hcnt : cnt c st.att (pre ++ [x]) = cnt c st.att pre := by simp [cnt, hxp]
      rw [hb] at hpos
      simp only [spsAux, hx, if_true]
      rw [moveRefused.go.eq_2]
      have hP := pos_prev c st u pre (x :: post) hL hfresh
      have hN := pos_next c st u pre post x hL hfresh hxp
      have hP' : plannedM c u (pre.reverse.find? (qB c st.att u)) = false → lastPrev = cnt c st.att pre := by
        intro h
        cases hf : pre.reverse.find? (qB c st.att u) with
        | none => rw [hf] at h; simp [plannedM] at h
        | some y =>
          rw [hf] at h
          exact hlp y hf (by simpa [plannedM] using h)
      have hNb : bonus c st.att u post = if plannedM c u (post.find? (qB c st.att u)) then 1 else 0 := by
        unfold bonus
        cases post.find? (qB c st.att u) with
        | none => simp [plannedM]
        | some y => by_cases hy : c.unitOf y = u <;> simp [plannedM, hy]
      have hgo := ih' (if plannedM c u (post.find? (qB c st.att u)) = true then posOfM st (post.find? (qB c st.att u)) false
          else if plannedM c u (pre.reverse.find? (qB c st.att u)) = true then posOfM st (pre.reverse.find? (qB c st.att u)) true else position)
        (if plannedM c u (pre.reverse.find? (qB c st.att u)) = true then posOfM st (pre.reverse.find? (qB c st.att u)) true else lastPrev)
        hL'
        (by
          rw [hcnt, hNb]
          cases hn : plannedM c u (post.find? (qB c st.att u)) <;>
          cases hp : plannedM c u (pre.reverse.find? (qB c st.att u)) <;>
          simp [hn, hp] at hP hN hP' ⊢ <;> omega)
        (by
          intro y _ _
          rw [hcnt]
          cases hp : plannedM c u (pre.reverse.find? (qB c st.att u)) <;>
          simp [hp] at hP hP' ⊢ <;> omega)
      rw [hgo]
      generalize plannedM c u (post.find? (qB c st.att u)) = N at *
      generalize plannedM c u (pre.reverse.find? (qB c st.att u)) = P at *
      generalize posOfM st (post.find? (qB c st.att u)) false = pn at *
      generalize posOfM st (pre.reverse.find? (qB c st.att u)) true = pp at *
      cases N <;> cases P <;> simp at hP hN hP' ⊢ <;> omega
    · -- a stop of another unit
      simp only [spsAux, hx, if_false]
      by_cases hxp : plB c st.att x = true
      · have hxq : qB c st.att u x = true := by
          simp only [plB] at hxp; simp only [qB, hxp, Bool.true_or]
        have hb : bonus c st.att u (x :: post) = 1 := by simp [bonus, hxq, hx]
        have hcnt : cnt c st.att (pre ++ [x]) = cnt c st.att pre + 1 := by simp [cnt, hxp]
        apply ih' position lastPrev hL'
        · rw [hcnt]; rw [hb] at hpos; omega
        · intro y hy hyu
          rw [List.find?_cons, hxq] at hy
          simp only [Option.some.injEq] at hy
          subst hy
          exact absurd hyu hx
      · have hxp' : plB c st.att x = false := by simpa using hxp
        have hxq : qB c st.att u x = false := by
          simp only [plB] at hxp'; simp only [qB, hxp', hx, decide_false, Bool.or_false]
        have hb : bonus c st.att u (x :: post) = bonus c st.att u post := by simp [bonus, hxq]
        have hcnt : cnt c st.att (pre ++ [x]) = cnt c st.att pre := by simp [cnt, hxp']
        apply ih' position lastPrev hL'
        · rw [hcnt, ← hb]; exact hpos
        · intro y hy hyu
          rw [List.find?_cons, hxq] at hy
          rw [hcnt]
          exact hlp y hy hyu

theorem spsAux_skip (c : Cfg) (att : List Nat) (u : Nat) :
    ∀ (pre0 rp post : List Nat), (∀ a ∈ pre0, c.unitOf a ≠ u) →
      spsAux c att u rp (pre0 ++ post) = spsAux c att u (pre0.reverse ++ rp) post := by
  intro pre0
  induction pre0 with
  | nil => intros; simp
  | cons a pre0 ih =>
    intro rp post h
    have ha : c.unitOf a ≠ u := h a (by simp)
    simp only [List.cons_append, spsAux, ha, if_false]
    rw [ih (a :: rp) post (fun b hb => h b (by simp [hb]))]
    simp

/-- With a fresh position table the move that `stopPositions` computes for a unit that is not attached is not refused. -/
theorem fresh_move_not_refused (c : Cfg) (st : St) (u : Nat)
    (hfresh : Fresh st (routeOf c st.att)) (hu : u ∉ st.att) (hl : ∃ s ∈ c.L, c.unitOf s = u) :
    moveRefused c st u (stopPositions c st.att u) = false := by
  obtain ⟨s, hs, hsu⟩ := hl
  -- the first own stop
  have hsome : (c.L.find? (fun s => decide (c.unitOf s = u))).isSome := by
    rw [List.find?_isSome]; exact ⟨s, hs, by simpa using hsu⟩
  obtain ⟨x, hxf⟩ := Option.isSome_iff_exists.mp hsome
  rw [List.find?_eq_some_iff_append] at hxf
  obtain ⟨hx, pre0, post, hL, hpre0⟩ := hxf
  have hx : c.unitOf x = u := by simpa using hx
  have hpre0 : ∀ a ∈ pre0, c.unitOf a ≠ u := by intro a ha; simpa using hpre0 a ha
  have hxp : plB c st.att x = false := by simp only [plB, hx]; simpa using hu
  have hxq : qB c st.att u x = true := by simp [qB, hx]
  -- the previous stop of the first own stop is a planned one
  have hp0 : plannedM c u (pre0.reverse.find? (qB c st.att u)) = true := by
    cases hf : pre0.reverse.find? (qB c st.att u) with
    | none => rfl
    | some y =>
      have := List.mem_of_find?_eq_some hf
      simpa [plannedM] using hpre0 y (by simpa using this)
  have hsps : spsAux c st.att u [] c.L = spsAux c st.att u pre0.reverse (x :: post) := by
    rw [hL, spsAux_skip c st.att u pre0 [] (x :: post) hpre0]; simp
  rw [stopPositions_eq, moveRefused_eq, hsps]
  have hgo := go_false c st u hfresh hu (x :: post) pre0
  simp only [spsAux, hx, if_true] at hgo ⊢
  apply hgo _ _ hL
  · rw [pos_prev c st u pre0 (x :: post) hL hfresh hp0]
    simp [bonus, hxq, hx]
  · intro y hy hyu
    have := List.mem_of_find?_eq_some hy
    exact absurd hyu (hpre0 y (by simpa using this))

end NR.Proofs.InitPos

#print axioms NR.Proofs.InitPos.fresh_move_not_refused
