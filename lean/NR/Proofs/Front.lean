import NR.Front
import Mathlib.Data.List.Perm.Subperm
namespace NR.Proofs.Front
open NR.Front

/-- One step of the inner loop of `idsLoop`. -/
private abbrev step (acc : Option (List String)) (id : String) : Option (List String) :=
  acc.bind (fun s => if s.contains id then none else some (id :: s))

private theorem fold_none (ids : List String) : ids.foldl step none = none := by
  induction ids with
  | nil => rfl
  | cons a t ih => simpa [List.foldl_cons, step] using ih

private theorem fold_facts (ids : List String) : ∀ (s out : List String),
    ids.foldl step (some s) = some out →
      (∀ x ∈ s, x ∈ out) ∧ (∀ id ∈ ids, id ∈ out) ∧ (∀ x ∈ out, x ∈ s ∨ x ∈ ids) ∧ (s.Nodup → out.Nodup) := by
  induction ids with
  | nil =>
    intro s out h
    simp only [List.foldl_nil, Option.some.injEq] at h
    subst h
    simp
  | cons a t ih =>
    intro s out h
    rw [List.foldl_cons] at h
    by_cases hc : a ∈ s
    · have : step (some s) a = none := by simp [step, hc]
      rw [this, fold_none] at h
      cases h
    · have hs : step (some s) a = some (a :: s) := by simp [step, hc]
      rw [hs] at h
      obtain ⟨h1, h2, h3, h4⟩ := ih (a :: s) out h
      have hna : a ∉ s := hc
      refine ⟨fun x hx => h1 x (List.mem_cons_of_mem _ hx), ?_, ?_, ?_⟩
      · intro id hid
        rcases List.mem_cons.mp hid with rfl | hid
        · exact h1 _ List.mem_cons_self
        · exact h2 id hid
      · intro x hx
        rcases h3 x hx with hx | hx
        · rcases List.mem_cons.mp hx with rfl | hx
          · exact Or.inr List.mem_cons_self
          · exact Or.inl hx
        · exact Or.inr (List.mem_cons_of_mem _ hx)
      · intro hnd
        exact h4 (List.nodup_cons.mpr ⟨hna, hnd⟩)

private theorem loop_facts (mats : List (List String)) : ∀ (seen out : List String),
    idsLoop seen mats = some out →
      (∀ x ∈ seen, x ∈ out) ∧ (∀ ids ∈ mats, ∀ id ∈ ids, id ∈ out) ∧
      (∀ x ∈ out, x ∈ seen ∨ ∃ ids ∈ mats, x ∈ ids) ∧ (seen.Nodup → out.Nodup) := by
  induction mats with
  | nil =>
    intro seen out h
    simp only [idsLoop, Option.some.injEq] at h
    subst h
    simp
  | cons ids rest ih =>
    intro seen out h
    unfold idsLoop at h
    split at h
    · cases h
    · split at h
      · cases h
      · rename_i s hs
        obtain ⟨f1, f2, f3, f4⟩ := fold_facts ids seen s hs
        obtain ⟨l1, l2, l3, l4⟩ := ih s out h
        refine ⟨fun x hx => l1 x (f1 x hx), ?_, ?_, fun hnd => l4 (f4 hnd)⟩
        · intro ids' hids' id hid
          rcases List.mem_cons.mp hids' with rfl | hm
          · exact l1 id (f2 id hid)
          · exact l2 ids' hm id hid
        · intro x hx
          rcases l3 x hx with hx | ⟨ids', hm, hx⟩
          · rcases f3 x hx with hx | hx
            · exact Or.inl hx
            · exact Or.inr ⟨ids, List.mem_cons_self, hx⟩
          · exact Or.inr ⟨ids', List.mem_cons_of_mem _ hm, hx⟩

private theorem validateIds_unfold (vehicles : List String) (mats : List (List String))
    (h : validateIds vehicles mats = true) :
    ∃ out, idsLoop [] mats = some out ∧ (∀ v ∈ vehicles, v ∈ out) ∧ out.length = vehicles.length := by
  unfold validateIds validateIdsG at h
  split at h
  · cases h
  · rename_i out ho
    simp only [Bool.false_or, Bool.and_eq_true, List.all_eq_true, beq_iff_eq] at h
    exact ⟨out, ho, fun v hv => List.contains_iff_mem.mp (h.1 v hv), h.2⟩

theorem validateIds_covers (vehicles : List String) (mats : List (List String))
    (h : validateIds vehicles mats = true) : ∀ v ∈ vehicles, (matrixOf mats v).isSome = true := by
  obtain ⟨out, ho, hall, _⟩ := validateIds_unfold vehicles mats h
  obtain ⟨_, _, l3, _⟩ := loop_facts mats [] out ho
  intro v hv
  rcases l3 v (hall v hv) with hx | ⟨ids, hm, hx⟩
  · cases hx
  · unfold matrixOf
    rw [List.findIdx?_isSome, List.any_eq_true]
    exact ⟨ids, hm, List.contains_iff_mem.mpr hx⟩

theorem validateIds_exact (vehicles : List String) (mats : List (List String))
    (hnd : vehicles.Nodup) (h : validateIds vehicles mats = true) : ∀ ids ∈ mats, ∀ id ∈ ids, id ∈ vehicles := by
  obtain ⟨out, ho, hall, hlen⟩ := validateIds_unfold vehicles mats h
  obtain ⟨_, l2, _, l4⟩ := loop_facts mats [] out ho
  have hsp : vehicles.Subperm out := List.subperm_of_subset hnd hall
  have hperm : vehicles.Perm out := hsp.perm_of_length_le (Nat.le_of_eq hlen)
  intro ids hm id hid
  exact hperm.mem_iff.mpr (l2 ids hm id hid)

end NR.Proofs.Front
