/-
  NR.Proofs.RangeCheck — proofs for NR.Props.C02W: the minute-slot table answers exactly the
  window-lookup specification, and whatever `SetWindows` accepts is well formed.
-/
import NR.RangeCheck
import Mathlib.Tactic.Linarith
import Mathlib.Tactic.Ring
namespace NR.Proofs.RangeCheck
open NR.RangeCheck

/-! ### The specification as a function of the list suffix -/

/-- right-hand side of `check_spec` -/
def specS (l : List Iv) (s : Rat) : Bool × Rat :=
  (l.any (fun w => decide (w.1 ≤ s ∧ s < w.2)),
   if l.any (fun w => decide (w.1 ≤ s ∧ s < w.2)) then -1
   else match l.find? (fun w => decide (s < w.1)) with
     | some w => w.1
     | none => -1)

theorem specS_nil (s : Rat) : specS [] s = (false, -1) := by simp [specS]

theorem specS_in (iv : Iv) (rest : List Iv) (s : Rat) (h1 : iv.1 ≤ s) (h2 : s < iv.2) :
    specS (iv :: rest) s = (true, -1) := by simp [specS, h1, h2]

theorem specS_cons_false (iv : Iv) (rest : List Iv) (s : Rat)
    (h1 : decide (iv.1 ≤ s ∧ s < iv.2) = false) (h2 : decide (s < iv.1) = false) :
    specS (iv :: rest) s = specS rest s := by
  simp only [specS, List.any_cons, List.find?_cons, h1, h2, Bool.false_or]

theorem specS_skip (iv : Iv) (rest : List Iv) (s : Rat) (h1 : iv.1 ≤ s) (h2 : iv.2 ≤ s) :
    specS (iv :: rest) s = specS rest s := by
  apply specS_cons_false
  · exact decide_eq_false (fun hc => absurd hc.2 (not_lt.mpr h2))
  · exact decide_eq_false (not_lt.mpr h1)

theorem specS_lt (iv : Iv) (rest : List Iv) (s : Rat) (hs : ∀ w ∈ rest, iv.2 ≤ w.1)
    (hle : iv.1 ≤ iv.2) (h : s < iv.1) : specS (iv :: rest) s = (false, iv.1) := by
  have h1 : decide (iv.1 ≤ s ∧ s < iv.2) = false :=
    decide_eq_false (fun hc => absurd hc.1 (not_le.mpr h))
  have h2 : rest.any (fun w => decide (w.1 ≤ s ∧ s < w.2)) = false := by
    rw [List.any_eq_false]
    intro w hw
    have := hs w hw
    simp only [decide_eq_true_eq, not_and]
    intro h'
    linarith
  have h3 : decide (s < iv.1) = true := decide_eq_true h
  simp only [specS, List.any_cons, List.find?_cons, h1, h2, h3, Bool.false_or]
  rfl

theorem specS_past (l : List Iv) (s : Rat) (h : ∀ w ∈ l, w.1 ≤ s ∧ w.2 ≤ s) :
    specS l s = (false, -1) := by
  induction l with
  | nil => exact specS_nil s
  | cons w l ih =>
    rw [specS_skip w l s (h w (by simp)).1 (h w (by simp)).2]
    exact ih (fun w' hw' => h w' (by simp [hw']))

theorem specS_congr (l : List Iv) (s t : Rat)
    (h : ∀ w ∈ l, (w.1 ≤ s ↔ w.1 ≤ t) ∧ (w.2 ≤ s ↔ w.2 ≤ t)) : specS l s = specS l t := by
  induction l with
  | nil => rw [specS_nil, specS_nil]
  | cons w l ih =>
    have ih' := ih (fun w' hw' => h w' (by simp [hw']))
    obtain ⟨h1, h2⟩ := h w (by simp)
    have h3 : (s < w.2 ↔ t < w.2) := by rw [← not_le, ← not_le, h2]
    have h4 : (s < w.1 ↔ t < w.1) := by rw [← not_le, ← not_le, h1]
    have e1 : decide (w.1 ≤ s ∧ s < w.2) = decide (w.1 ≤ t ∧ t < w.2) :=
      decide_eq_decide.mpr (and_congr h1 h3)
    have e2 : decide (s < w.1) = decide (t < w.1) := decide_eq_decide.mpr h4
    cases c1 : decide (w.1 ≤ t ∧ t < w.2) with
    | true =>
      have hc := of_decide_eq_true c1
      rw [specS_in w l t hc.1 hc.2, specS_in w l s (h1.mpr hc.1) (h3.mpr hc.2)]
    | false =>
      cases c2 : decide (t < w.1) with
      | false => rw [specS_cons_false w l t c1 c2, specS_cons_false w l s (e1 ▸ c1) (e2 ▸ c2), ih']
      | true =>
        simp only [specS, List.any_cons, List.find?_cons, e1, e2, c1, c2, Bool.false_or]
        simp only [specS, Prod.mk.injEq] at ih'
        rw [ih'.1]

/-! ### The loop -/

theorem third_cases (ws : List Iv) (k : Nat) (iv : Iv) (s : Rat) :
    third ws k iv s (k : Int) = .next ∨
    ∃ nx, ws[k + 1]? = some nx ∧ iv.2 ≤ s ∧ s < nx.1 ∧
      third ws k iv s (k : Int) = .done ⟨false, some nx.1⟩ := by
  unfold third
  by_cases h : s ≥ iv.2 ∧ (k : Int) + 1 < (ws.length : Int)
  · rw [if_pos h]
    cases hnx : ws[k + 1]? with
    | none =>
      rw [List.getElem?_eq_none_iff] at hnx
      omega
    | some nx =>
      by_cases h2 : s < nx.1
      · right
        exact ⟨nx, rfl, h.1, h2, by simp [h2]⟩
      · left
        simp [h2]
  · left
    rw [if_neg h]

theorem slotLoopG_step (ws : List Iv) (i : Int) (fuel k : Nat) (iv : Iv) (h : ws[k]? = some iv) :
    slotLoopG false ws i (fuel + 1) k =
      if (i : Rat) * 60 ≥ iv.1 ∧ (i : Rat) * 60 < iv.2 then some ⟨true, none⟩
      else match secondThird ws k iv ((i : Rat) * 60) (k : Int) with
        | .done s => some s
        | .panic => none
        | .next => slotLoopG false ws i fuel (k + 1) := by
  rw [slotLoopG]
  simp only [h]
  rfl

theorem loop_spec (ws : List Iv) (i : Int) (hle : ∀ w ∈ ws, w.1 ≤ w.2)
    (hp : ws.Pairwise (fun a b => a.2 ≤ b.1))
    (hfirst : ∀ f, ws[0]? = some f → f.1 ≤ (i : Rat) * 60) :
    ∀ fuel k, ws.length ≤ fuel + k →
      (∀ j (hj : j < ws.length), j < k → ws[j].2 ≤ (i : Rat) * 60) →
      ∃ sl, slotLoopG false ws i fuel k = some sl ∧
        (sl.inInterval, sl.next.getD (-1)) = specS (ws.drop k) ((i : Rat) * 60) := by
  intro fuel
  induction fuel with
  | zero =>
    intro k hk _
    refine ⟨⟨false, none⟩, rfl, ?_⟩
    rw [List.drop_eq_nil_of_le (by omega), specS_nil]
    rfl
  | succ fuel ih =>
    intro k hk hinv
    cases h : ws[k]? with
    | none =>
      refine ⟨⟨false, none⟩, ?_, ?_⟩
      · rw [slotLoopG]
        simp only [h]
      · rw [List.getElem?_eq_none_iff] at h
        rw [List.drop_eq_nil_of_le h, specS_nil]
        rfl
    | some iv =>
      obtain ⟨hkl, hiv⟩ := List.getElem?_eq_some_iff.mp h
      have hdrop : ws.drop k = iv :: ws.drop (k + 1) := by
        rw [List.drop_eq_getElem_cons hkl, hiv]
      have hpd : (iv :: ws.drop (k + 1)).Pairwise (fun a b => a.2 ≤ b.1) := by
        rw [← hdrop]
        exact List.Pairwise.sublist (List.drop_sublist k ws) hp
      have hrest : ∀ w ∈ ws.drop (k + 1), iv.2 ≤ w.1 := (List.pairwise_cons.mp hpd).1
      have hivle : iv.1 ≤ iv.2 := hle iv (hiv ▸ List.getElem_mem hkl)
      rw [slotLoopG_step ws i fuel k iv h, hdrop]
      by_cases hA : (i : Rat) * 60 ≥ iv.1 ∧ (i : Rat) * 60 < iv.2
      · rw [if_pos hA]
        exact ⟨_, rfl, by rw [specS_in iv _ _ hA.1 hA.2]; rfl⟩
      · rw [if_neg hA]
        by_cases hB : (i : Rat) * 60 < iv.1
        · -- before window `k`: the previous window exists and is over
          have hk1 : 1 ≤ k := by
            rcases Nat.eq_zero_or_pos k with h0 | h0
            · subst h0
              have := hfirst iv h
              linarith
            · exact h0
          have hpv : ivAt ws ((k : Int) - 1) = some (ws[k - 1]'(by omega)) := by
            unfold ivAt
            rw [if_neg (by omega)]
            have : ((k : Int) - 1).toNat = k - 1 := by omega
            rw [this]
            exact List.getElem?_eq_getElem (by omega)
          have hpv2 : (ws[k - 1]'(by omega)).2 ≤ (i : Rat) * 60 := hinv (k - 1) (by omega) (by omega)
          have hst : secondThird ws k iv ((i : Rat) * 60) (k : Int) = .done ⟨false, some iv.1⟩ := by
            unfold secondThird
            rw [if_pos ⟨hB, by omega⟩, hpv]
            simp only
            rw [if_pos hpv2]
          rw [hst]
          exact ⟨_, rfl, by rw [specS_lt iv _ _ hrest hivle hB]; rfl⟩
        · -- window `k` is over
          have h1 : iv.1 ≤ (i : Rat) * 60 := not_lt.mp hB
          have h2 : iv.2 ≤ (i : Rat) * 60 := by
            by_contra hc
            exact hA ⟨h1, not_le.mp hc⟩
          have hst : secondThird ws k iv ((i : Rat) * 60) (k : Int) =
              third ws k iv ((i : Rat) * 60) (k : Int) := by
            unfold secondThird
            rw [if_neg (fun hc => hB hc.1)]
          rw [hst, specS_skip iv _ _ h1 h2]
          rcases third_cases ws k iv ((i : Rat) * 60) with hn | ⟨nx, hnx, _, hlt, hd⟩
          · rw [hn]
            apply ih (k + 1) (by omega)
            intro j hj hjk
            rcases Nat.lt_succ_iff_lt_or_eq.mp hjk with hjk' | rfl
            · exact hinv j hj hjk'
            · rw [hiv]; exact h2
          · rw [hd]
            obtain ⟨hkl', hnx'⟩ := List.getElem?_eq_some_iff.mp hnx
            have hdrop' : ws.drop (k + 1) = nx :: ws.drop (k + 1 + 1) := by
              rw [List.drop_eq_getElem_cons hkl', hnx']
            have hpd' : (nx :: ws.drop (k + 1 + 1)).Pairwise (fun a b => a.2 ≤ b.1) := by
              rw [← hdrop']
              exact List.Pairwise.sublist (List.drop_sublist (k + 1) ws) hp
            have hnxle : nx.1 ≤ nx.2 := hle nx (hnx' ▸ List.getElem_mem hkl')
            rw [hdrop', specS_lt nx _ _ (List.pairwise_cons.mp hpd').1 hnxle hlt]
            exact ⟨_, rfl, rfl⟩

/-! ### Minutes -/

theorem minuteOf_le (t : Rat) : ((minuteOf t : Int) : Rat) * 60 ≤ t := by
  have := Rat.floor_le (t / 60)
  unfold minuteOf
  linarith

theorem lt_minuteOf (t : Rat) : t < ((minuteOf t : Int) : Rat) * 60 + 60 := by
  have := Rat.lt_floor_add_one (t / 60)
  unfold minuteOf
  push_cast at this
  linarith

theorem minuteOf_mul (m : Int) : minuteOf ((m : Rat) * 60) = m := by
  unfold minuteOf
  have : (m : Rat) * 60 / 60 = m := by ring
  rw [this, Rat.floor_intCast]

theorem aligned_le_iff (m i : Int) (t : Rat) (h1 : (i : Rat) * 60 ≤ t) (h2 : t < (i : Rat) * 60 + 60) :
    ((m : Rat) * 60 ≤ (i : Rat) * 60 ↔ (m : Rat) * 60 ≤ t) := by
  constructor
  · intro h
    linarith
  · intro h
    have h3 : (m : Rat) < (i : Rat) + 1 := by linarith
    have h4 : m < i + 1 := by exact_mod_cast h3
    have h5 : m ≤ i := by omega
    have h6 : (m : Rat) ≤ (i : Rat) := by exact_mod_cast h5
    linarith

theorem le_last (ws : List Iv) (last : Iv) (hle : ∀ w ∈ ws, w.1 ≤ w.2)
    (hp : ws.Pairwise (fun a b => a.2 ≤ b.1)) (hl : ws.getLast? = some last) :
    ∀ w ∈ ws, w.2 ≤ last.2 := by
  obtain ⟨ys, rfl⟩ := List.getLast?_eq_some_iff.mp hl
  intro w hw
  rw [List.pairwise_append] at hp
  rcases List.mem_append.mp hw with h | h
  · have h1 := hp.2.2 w h last (by simp)
    have h2 := hle last (by simp)
    linarith
  · rw [List.mem_singleton] at h
    rw [h]

/-! ### The theorems -/

theorem check_spec (ws : List Iv) (t : Rat) (hwf : WF ws) (ht : 0 ≤ t) :
    check ws t = some
      (ws.any (fun w => decide (w.1 ≤ t ∧ t < w.2)),
       if ws.any (fun w => decide (w.1 ≤ t ∧ t < w.2)) then -1
       else match ws.find? (fun w => decide (t < w.1)) with
         | some w => w.1
         | none => -1) := by
  change check ws t = some (specS ws t)
  have _ := ht  -- not needed: the floor brackets negative times as well
  obtain ⟨hne, hw, hp⟩ := hwf
  obtain ⟨first, tl, rfl⟩ := List.exists_cons_of_ne_nil hne
  have hle : ∀ w ∈ first :: tl, w.1 ≤ w.2 := fun w h => (hw w h).2.1
  cases hl : (first :: tl).getLast? with
  | none => simp at hl
  | some last =>
    have hlm : last ∈ first :: tl := by
      obtain ⟨ys, hys⟩ := List.getLast?_eq_some_iff.mp hl
      rw [hys]
      simp
    obtain ⟨m0, hm0⟩ := (hw first (by simp)).2.2.1
    obtain ⟨m1, hm1⟩ := (hw last hlm).2.2.2
    have hmin : minuteOf first.1 = m0 := by rw [hm0, minuteOf_mul]
    have hmax : minuteOf last.2 = m1 := by rw [hm1, minuteOf_mul]
    have hlo := minuteOf_le t
    have hhi := lt_minuteOf t
    unfold check checkG
    simp only [List.head?_cons, hl, hmin, hmax]
    by_cases h1 : minuteOf t - m0 < 0
    · rw [if_pos h1]
      have h2 : minuteOf t + 1 ≤ m0 := by omega
      have h3 : ((minuteOf t : Int) : Rat) + 1 ≤ (m0 : Rat) := by exact_mod_cast h2
      have h4 : t < first.1 := by rw [hm0]; linarith
      rw [specS_lt first tl t (List.pairwise_cons.mp hp).1 (hle first (by simp)) h4]
    · rw [if_neg h1]
      by_cases h2 : minuteOf t - m0 ≥ m1 + 1 - m0
      · rw [if_pos h2]
        have h3 : m1 + 1 ≤ minuteOf t := by omega
        have h4 : (m1 : Rat) + 1 ≤ ((minuteOf t : Int) : Rat) := by exact_mod_cast h3
        have h5 : last.2 ≤ t := by rw [hm1]; linarith
        rw [specS_past]
        intro w hwm
        have h6 := le_last _ last hle hp hl w hwm
        have h7 := hle w hwm
        exact ⟨by linarith, by linarith⟩
      · rw [if_neg h2]
        have h3 : m0 ≤ minuteOf t := by omega
        have h4 : (m0 : Rat) ≤ ((minuteOf t : Int) : Rat) := by exact_mod_cast h3
        have hfirst : ∀ f, (first :: tl)[0]? = some f →
            f.1 ≤ ((minuteOf t : Int) : Rat) * 60 := by
          intro f hf
          simp only [List.getElem?_cons_zero, Option.some.injEq] at hf
          rw [← hf, hm0]
          linarith
        obtain ⟨sl, hsl, hspec⟩ := loop_spec (first :: tl) (minuteOf t) hle hp hfirst
          ((first :: tl).length + 1) 0 (by omega) (by intro j _ hj; omega)
        rw [hsl]
        simp only
        rw [hspec, List.drop_zero]
        congr 1
        apply specS_congr
        intro w hwm
        obtain ⟨a, ha⟩ := (hw w hwm).2.2.1
        obtain ⟨b, hb⟩ := (hw w hwm).2.2.2
        rw [ha, hb]
        exact ⟨aligned_le_iff a _ t hlo hhi, aligned_le_iff b _ t hlo hhi⟩

theorem window_lookup (ws : List Iv) (a : Rat) (hwf : WF ws) (ha : 0 ≤ a) :
    toEarliestStart ws a = some (earliestStart ws a) := by
  unfold toEarliestStart earliestStart
  rw [check_spec ws a hwf ha]
  simp only
  cases hany : ws.any (fun w => decide (w.1 ≤ a ∧ a < w.2)) with
  | true => simp
  | false =>
    cases hf : ws.find? (fun w => decide (a < w.1)) with
    | none => simp
    | some w =>
      have h0 := List.find?_some hf
      have h1 : a < w.1 := of_decide_eq_true h0
      have h2 : w.1 > 0 := by linarith
      simp [h2]

/-! ### What `SetWindows` accepts is well formed -/

theorem aligned_mul (x : Rat) (h : aligned x = true) : ∃ m : Int, x = m * 60 :=
  ⟨(x / 60).floor, (of_decide_eq_true h).symm⟩

theorem setWindowsLoop_spec : ∀ (ws : List Iv) (prev : Option Iv), setWindowsLoop prev ws = true →
    (∀ w ∈ ws, w.1 ≤ w.2 ∧ aligned w.1 = true ∧ aligned w.2 = true) ∧
    ws.Pairwise (fun a b => a.2 ≤ b.1) ∧
    (∀ p, prev = some p → ∀ w ∈ ws, p.2 ≤ w.1) := by
  intro ws
  induction ws with
  | nil =>
    intro prev _
    exact ⟨by simp, List.Pairwise.nil, by simp⟩
  | cons w rest ih =>
    intro prev h
    simp only [setWindowsLoop, Bool.and_eq_true, decide_eq_true_eq] at h
    obtain ⟨⟨⟨⟨h1, h2⟩, h3⟩, h4⟩, h5⟩ := h
    obtain ⟨i1, i2, i3⟩ := ih (some w) h5
    have i4 : ∀ x ∈ rest, w.2 ≤ x.1 := i3 w rfl
    refine ⟨?_, List.pairwise_cons.mpr ⟨i4, i2⟩, ?_⟩
    · intro x hx
      rcases List.mem_cons.mp hx with rfl | hx
      · exact ⟨h1, h3, h4⟩
      · exact i1 x hx
    · intro p hp x hx
      subst hp
      have h2' : p.2 ≤ w.1 := by simpa using h2
      rcases List.mem_cons.mp hx with rfl | hx
      · exact h2'
      · have := i4 x hx
        linarith

theorem accepts_wf (ws : List Iv) (h : accepts ws = true) : WF ws := by
  unfold accepts at h
  simp only [Bool.and_eq_true, Bool.not_eq_true', List.isEmpty_eq_false_iff] at h
  obtain ⟨⟨h1, h2⟩, h3⟩ := h
  obtain ⟨s1, s2, _⟩ := setWindowsLoop_spec ws none h2
  unfold processOK at h3
  rw [Bool.and_eq_true] at h3
  have h4 := List.all_eq_true.mp h3.2
  refine ⟨h1, ?_, s2⟩
  intro w hw
  obtain ⟨a1, a2, a3⟩ := s1 w hw
  have h5 := of_decide_eq_true (h4 w hw)
  exact ⟨h5.1, a1, aligned_mul _ a2, aligned_mul _ a3⟩

end NR.Proofs.RangeCheck
