/-
  Proofs about NR.Init (the bookkeeping of `addInitialSolution`).

  Layout: `stepUnit` is cut into `stepTail` / `rejectF` (definitional copies, `stepUnit_eq` is `rfl`), each with a
  lemma that lists its possible results without the position table (`rejectF_cases`, `stepTail_cases`); the invariant
  `Inv` (+ `BadNF`: no rejected root is fixed) is carried through the fold over the initial stops (`fold_ok`) and through
  the repair loop (`repair_ok`); `run_final` collects what holds of a returned state.

  ONE-OF roots (`Cfg.oneOf`): `stepTail` has the extra error branch (a second alternative while one is attached); the
  attach case of `stepTail_cases` records that no member of a one-of root was attached before, `Inv.one_of` carries
  "at most one attached member" through the fold and the repair loop (`oneof_at_most_one`). Coverage no longer implies
  that all the members are listed for a one-of root: `covered_listed`, `on_route_of_root`, `units_whole` are for roots
  that are not one-of (`ho`); `unit_whole_L` / `unit_whole` (stops of one stops-unit) hold for every root.

  FLAGGED: `filed_iff` as first stated (without `hL : ∀ s ∈ c.L, s ∈ c.stops`) is false of the model — counterexample
  `cxFiled` / theorem `filed_iff_needs_hL`. `filed_iff_L` is the variant that holds with no extra hypothesis.
-/
import NR.Init
namespace NR.Proofs.Init
open NR.Init

@[simp] theorem setRange_att (r : List Nat) (k u : Nat) (st : St) : (setRange r k u st).att = st.att := rfl
@[simp] theorem setRange_bad (r : List Nat) (k u : Nat) (st : St) : (setRange r k u st).bad = st.bad := rfl
@[simp] theorem setRange_ord (r : List Nat) (k u : Nat) (st : St) : (setRange r k u st).ord = st.ord := rfl
@[simp] theorem setRange_done (r : List Nat) (k u : Nat) (st : St) : (setRange r k u st).done = st.done := rfl
@[simp] theorem setRange_err (r : List Nat) (k u : Nat) (st : St) : (setRange r k u st).err = st.err := rfl

theorem mem_routeOf (c : Cfg) (att : List Nat) (s : Nat) : s ∈ routeOf c att ↔ s ∈ c.L ∧ c.unitOf s ∈ att := by
  simp [routeOf, List.mem_filter]

/-- the local function `reject` of `stepUnit` -/
def rejectF (c : Cfg) (r : Nat) (fixedNow : Bool) (st : St) : St :=
  if fixedNow then { st with err := true }
  else if c.detachMembers && st.att.any (fun m => c.rootOf m = r) then
    let att := dropRoot c r st.att
    let route := routeOf c att
    let upto := (fullViol c route).getD route.length
    setRange route 0 upto { st with bad := r :: st.bad, att := att }
  else { st with bad := r :: st.bad }

/-- `stepUnit` behind the two early exits -/
def stepTail (c : Cfg) (st : St) (u r : Nat) : St :=
  if c.skipRejected && st.bad.contains r then st else
  if c.coverCheck && !rootCovered c r then
    (if rootFixed c r then { st with err := true } else { st with bad := r :: st.bad })
  else if c.oneOf.contains r && st.att.any (fun m => c.rootOf m = r) then { st with err := true }
  else if moveRefused c st u (stopPositions c st.att u) then { st with err := true }
  else
    if c.sc.est.contains u then rejectF c r (rootFixed c r) st
    else
      let route' := routeOf c (u :: st.att)
      let k := route'.findIdx (fun x => c.unitOf x = u)
      match firstViol (violAt c.sc.nt c.sc.ntAfter route') route'.length k with
      | some i => rejectF c r (if c.rootFixedAtAttach then rootFixed c r else unitFixed c u) (setRange route' k i st)
      | none => setRange route' k route'.length { st with att := u :: st.att }

theorem stepUnit_eq (c : Cfg) (st : St) (s : Nat) :
    stepUnit c st s =
      if st.err then st else
      if st.done.contains (c.unitOf s) then st else
      stepTail c { st with done := c.unitOf s :: st.done,
                           ord := if st.ord.contains (c.rootOf (c.unitOf s)) then st.ord else c.rootOf (c.unitOf s) :: st.ord }
        (c.unitOf s) (c.rootOf (c.unitOf s)) := rfl

theorem dropRoot_eq_self (c : Cfg) (r : Nat) (att : List Nat) (h : att.any (fun m => c.rootOf m = r) = false) :
    dropRoot c r att = att := by
  unfold dropRoot
  rw [List.filter_eq_self]
  intro a ha
  simp only [List.any_eq_false, decide_eq_true_eq] at h
  simpa using h a ha

theorem rejectF_cases (c : Cfg) (h2 : c.detachMembers = true) (r : Nat) (f : Bool) (st : St) :
    (rejectF c r f st).err = true ∨
      (f = false ∧ (rejectF c r f st).err = st.err ∧ (rejectF c r f st).done = st.done ∧ (rejectF c r f st).ord = st.ord ∧
        (rejectF c r f st).bad = r :: st.bad ∧ (rejectF c r f st).att = dropRoot c r st.att) := by
  unfold rejectF
  cases f
  · right
    simp only [h2, Bool.true_and, Bool.false_eq_true, if_false]
    by_cases ha : st.att.any (fun m => c.rootOf m = r) = true
    · simp [ha]
    · have ha' : st.att.any (fun m => c.rootOf m = r) = false := by simpa using ha
      simp [ha', dropRoot_eq_self c r st.att ha']
  · left; simp

theorem stepTail_cases (c : Cfg) (h1 : c.skipRejected = true) (h2 : c.detachMembers = true) (h3 : c.coverCheck = true)
    (st : St) (u r : Nat) :
    (stepTail c st u r).err = true ∨
    ((stepTail c st u r).err = st.err ∧ (stepTail c st u r).done = st.done ∧ (stepTail c st u r).ord = st.ord ∧
      (((stepTail c st u r).att = st.att ∧ (stepTail c st u r).bad = st.bad ∧ r ∈ st.bad) ∨
       ((stepTail c st u r).att = st.att ∧ (stepTail c st u r).bad = r :: st.bad ∧
          rootCovered c r = false ∧ rootFixed c r = false) ∨
       ((stepTail c st u r).att = dropRoot c r st.att ∧ (stepTail c st u r).bad = r :: st.bad ∧
          (c.rootFixedAtAttach = true → rootFixed c r = false)) ∨
       ((stepTail c st u r).att = u :: st.att ∧ (stepTail c st u r).bad = st.bad ∧ r ∉ st.bad ∧
          rootCovered c r = true ∧ (r ∈ c.oneOf → ∀ m ∈ st.att, c.rootOf m ≠ r)))) := by
  unfold stepTail
  simp only [h1, h3, Bool.true_and]
  by_cases hb : st.bad.contains r = true
  · right
    rw [if_pos hb]
    refine ⟨rfl, rfl, rfl, Or.inl ⟨rfl, rfl, ?_⟩⟩
    simpa using hb
  rw [if_neg hb]
  have hb' : r ∉ st.bad := by simpa using hb
  by_cases hc : rootCovered c r = true
  · have : ¬ ((!rootCovered c r) = true) := by simp [hc]
    rw [if_neg this]
    by_cases ho : (c.oneOf.contains r && st.att.any (fun m => c.rootOf m = r)) = true
    · left; rw [if_pos ho]
    rw [if_neg ho]
    have ho' : r ∈ c.oneOf → ∀ m ∈ st.att, c.rootOf m ≠ r := by
      intro hr m hm hmr
      apply ho
      simp only [Bool.and_eq_true, List.contains_eq_mem, decide_eq_true_eq, List.any_eq_true]
      exact ⟨hr, m, hm, hmr⟩
    by_cases hm : moveRefused c st u (stopPositions c st.att u) = true
    · left; rw [if_pos hm]
    rw [if_neg hm]
    by_cases he : c.sc.est.contains u = true
    · rw [if_pos he]
      rcases rejectF_cases c h2 r (rootFixed c r) st with h | ⟨hf, h5, h6, h7, h8, h9⟩
      · exact Or.inl h
      · exact Or.inr ⟨h5, h6, h7, Or.inr (Or.inr (Or.inl ⟨h9, h8, fun _ => hf⟩))⟩
    rw [if_neg he]
    split
    · rename_i i _
      rcases rejectF_cases c h2 r (if c.rootFixedAtAttach = true then rootFixed c r else unitFixed c u)
        (setRange (routeOf c (u :: st.att)) (List.findIdx (fun x => decide (c.unitOf x = u)) (routeOf c (u :: st.att))) i st)
        with h | ⟨hf, h5, h6, h7, h8, h9⟩
      · exact Or.inl h
      · refine Or.inr ⟨h5, h6, h7, Or.inr (Or.inr (Or.inl ⟨h9, h8, fun h4 => ?_⟩))⟩
        simpa [h4] using hf
    · right
      exact ⟨rfl, rfl, rfl, Or.inr (Or.inr (Or.inr ⟨rfl, rfl, hb', hc, ho'⟩))⟩
  · have hc' : rootCovered c r = false := by simpa using hc
    have : (!rootCovered c r) = true := by simp [hc']
    rw [if_pos this]
    by_cases hf : rootFixed c r = true
    · left; rw [if_pos hf]
    · rw [if_neg hf]
      right
      exact ⟨rfl, rfl, rfl, Or.inr (Or.inl ⟨rfl, rfl, hc', by simpa using hf⟩)⟩


/-! ### the invariant -/

structure Inv (c : Cfg) (st : St) : Prop where
  att_good : ∀ u ∈ st.att, c.rootOf u ∉ st.bad ∧ c.rootOf u ∈ st.ord ∧ u ∈ st.done ∧ rootCovered c (c.rootOf u) = true
  done_att : ∀ u ∈ st.done, c.rootOf u ∈ st.ord ∧ (c.rootOf u ∉ st.bad → u ∈ st.att)
  ord_done : ∀ r ∈ st.ord, ∃ u ∈ st.done, c.rootOf u = r
  done_L : ∀ u ∈ st.done, ∃ s ∈ c.L, c.unitOf s = u
  /-- at most one attached member of a one-of root -/
  one_of : ∀ u ∈ st.att, ∀ u' ∈ st.att, c.rootOf u ∈ c.oneOf → c.rootOf u = c.rootOf u' → u = u'

def BadNF (c : Cfg) (st : St) : Prop := ∀ r ∈ st.bad, rootFixed c r = false

theorem mem_dropRoot (c : Cfg) (r : Nat) (att : List Nat) (u : Nat) :
    u ∈ dropRoot c r att ↔ u ∈ att ∧ c.rootOf u ≠ r := by
  simp [dropRoot, List.mem_filter]

theorem mem_ordUpd (ord : List Nat) (r x : Nat) :
    x ∈ (if ord.contains r = true then ord else r :: ord) ↔ x = r ∨ x ∈ ord := by
  by_cases h : ord.contains r = true
  · rw [if_pos h]
    have : r ∈ ord := by simpa using h
    constructor
    · exact Or.inr
    · rintro (rfl | h') <;> assumption
  · rw [if_neg h]; simp

theorem Inv_init (c : Cfg) : Inv c {} := by
  constructor <;> simp

theorem Inv_drop (c : Cfg) (st st' : St) (r : Nat) (hinv : Inv c st)
    (hatt : st'.att = dropRoot c r st.att) (hbad : st'.bad = r :: st.bad) (hord : st'.ord = st.ord)
    (hdone : st'.done = st.done) : Inv c st' := by
  obtain ⟨a, b, o, l, e⟩ := hinv
  constructor
  · intro u hu
    rw [hatt, mem_dropRoot] at hu
    obtain ⟨h1, h2, h3, h4⟩ := a u hu.1
    rw [hbad, hord, hdone]
    refine ⟨?_, h2, h3, h4⟩
    simp only [List.mem_cons, not_or]
    exact ⟨hu.2, h1⟩
  · intro u hu
    rw [hdone] at hu
    rw [hbad, hord, hatt, mem_dropRoot]
    refine ⟨(b u hu).1, fun h => ?_⟩
    simp only [List.mem_cons, not_or] at h
    exact ⟨(b u hu).2 h.2, h.1⟩
  · rw [hord, hdone]; exact o
  · rw [hdone]; exact l
  · intro u hu u' hu'
    rw [hatt, mem_dropRoot] at hu hu'
    exact e u hu.1 u' hu'.1

theorem Inv_step (c : Cfg) (st st' : St) (u : Nat) (hinv : Inv c st) (huL : ∃ s ∈ c.L, c.unitOf s = u)
    (hdone : st'.done = u :: st.done)
    (hord : st'.ord = (if st.ord.contains (c.rootOf u) = true then st.ord else c.rootOf u :: st.ord))
    (hc : (st'.att = st.att ∧ st'.bad = st.bad ∧ c.rootOf u ∈ st.bad) ∨
       (st'.att = st.att ∧ st'.bad = c.rootOf u :: st.bad ∧
          rootCovered c (c.rootOf u) = false ∧ rootFixed c (c.rootOf u) = false) ∨
       (st'.att = dropRoot c (c.rootOf u) st.att ∧ st'.bad = c.rootOf u :: st.bad ∧
          (c.rootFixedAtAttach = true → rootFixed c (c.rootOf u) = false)) ∨
       (st'.att = u :: st.att ∧ st'.bad = st.bad ∧ c.rootOf u ∉ st.bad ∧
          rootCovered c (c.rootOf u) = true ∧ (c.rootOf u ∈ c.oneOf → ∀ m ∈ st.att, c.rootOf m ≠ c.rootOf u))) :
    Inv c st' := by
  obtain ⟨a, b, o, l, e⟩ := hinv
  have ho : ∀ x, x ∈ st'.ord ↔ x = c.rootOf u ∨ x ∈ st.ord := by
    intro x; rw [hord]; exact mem_ordUpd _ _ _
  have hd : ∀ x, x ∈ st'.done ↔ x = u ∨ x ∈ st.done := by
    intro x; rw [hdone]; simp
  have hO : ∀ r ∈ st'.ord, ∃ u ∈ st'.done, c.rootOf u = r := by
    intro r hr
    rcases (ho r).1 hr with rfl | hr
    · exact ⟨u, (hd u).2 (Or.inl rfl), rfl⟩
    · obtain ⟨v, hv, hvr⟩ := o r hr
      exact ⟨v, (hd v).2 (Or.inr hv), hvr⟩
  have hL : ∀ u ∈ st'.done, ∃ s ∈ c.L, c.unitOf s = u := by
    intro v hv
    rcases (hd v).1 hv with rfl | hv
    · exact huL
    · exact l v hv
  rcases hc with ⟨h1, h2, h3⟩ | ⟨h1, h2, h3, _⟩ | ⟨h1, h2, _⟩ | ⟨h1, h2, h3, h4, h5⟩
  · refine ⟨?_, ?_, hO, hL, by rw [h1]; exact e⟩
    · intro v hv
      rw [h1] at hv
      obtain ⟨p1, p2, p3, p4⟩ := a v hv
      rw [h2]
      exact ⟨p1, (ho _).2 (Or.inr p2), (hd _).2 (Or.inr p3), p4⟩
    · intro v hv
      rw [h1, h2]
      rcases (hd v).1 hv with rfl | hv
      · exact ⟨(ho _).2 (Or.inl rfl), fun h => absurd h3 h⟩
      · exact ⟨(ho _).2 (Or.inr (b v hv).1), (b v hv).2⟩
  · refine ⟨?_, ?_, hO, hL, by rw [h1]; exact e⟩
    · intro v hv
      rw [h1] at hv
      obtain ⟨p1, p2, p3, p4⟩ := a v hv
      rw [h2]
      refine ⟨?_, (ho _).2 (Or.inr p2), (hd _).2 (Or.inr p3), p4⟩
      simp only [List.mem_cons, not_or]
      refine ⟨fun h => ?_, p1⟩
      rw [h, h3] at p4
      exact Bool.noConfusion p4
    · intro v hv
      rw [h1, h2]
      simp only [List.mem_cons, not_or]
      rcases (hd v).1 hv with rfl | hv
      · exact ⟨(ho _).2 (Or.inl rfl), fun h => absurd rfl h.1⟩
      · exact ⟨(ho _).2 (Or.inr (b v hv).1), fun h => (b v hv).2 h.2⟩
  · refine ⟨?_, ?_, hO, hL, ?_⟩
    rotate_left 2
    · intro v hv v' hv'
      rw [h1, mem_dropRoot] at hv hv'
      exact e v hv.1 v' hv'.1
    · intro v hv
      rw [h1, mem_dropRoot] at hv
      obtain ⟨p1, p2, p3, p4⟩ := a v hv.1
      rw [h2]
      refine ⟨?_, (ho _).2 (Or.inr p2), (hd _).2 (Or.inr p3), p4⟩
      simp only [List.mem_cons, not_or]
      exact ⟨hv.2, p1⟩
    · intro v hv
      rw [h1, h2, mem_dropRoot]
      simp only [List.mem_cons, not_or]
      rcases (hd v).1 hv with rfl | hv
      · exact ⟨(ho _).2 (Or.inl rfl), fun h => absurd rfl h.1⟩
      · exact ⟨(ho _).2 (Or.inr (b v hv).1), fun h => ⟨(b v hv).2 h.2, h.1⟩⟩
  · refine ⟨?_, ?_, hO, hL, ?_⟩
    rotate_left 2
    · intro v hv v' hv' hvo hvv
      rw [h1] at hv hv'
      rcases List.mem_cons.1 hv with e1 | m1 <;> rcases List.mem_cons.1 hv' with e2 | m2
      · rw [e1, e2]
      · rw [e1] at hvo hvv; exact absurd hvv.symm (h5 hvo v' m2)
      · rw [e2] at hvv; rw [hvv] at hvo; exact absurd hvv (h5 hvo v m1)
      · exact e v m1 v' m2 hvo hvv
    · intro v hv
      rw [h1] at hv
      rw [h2]
      rcases List.mem_cons.1 hv with rfl | hv
      · exact ⟨h3, (ho _).2 (Or.inl rfl), (hd _).2 (Or.inl rfl), h4⟩
      · obtain ⟨p1, p2, p3, p4⟩ := a v hv
        exact ⟨p1, (ho _).2 (Or.inr p2), (hd _).2 (Or.inr p3), p4⟩
    · intro v hv
      rw [h1, h2]
      rcases (hd v).1 hv with rfl | hv
      · exact ⟨(ho _).2 (Or.inl rfl), fun _ => List.mem_cons_self⟩
      · exact ⟨(ho _).2 (Or.inr (b v hv).1), fun h => List.mem_cons_of_mem _ ((b v hv).2 h)⟩


/-! ### `stepUnit` and the fold over the initial stops -/

theorem stepUnit_err (c : Cfg) (st : St) (s : Nat) (h : st.err = true) : stepUnit c st s = st := by
  rw [stepUnit_eq, if_pos h]

theorem fold_err (c : Cfg) (l : List Nat) (st : St) (h : st.err = true) : (l.foldl (stepUnit c) st).err = true := by
  induction l generalizing st with
  | nil => exact h
  | cons s l ih => rw [List.foldl_cons, stepUnit_err c st s h]; exact ih st h

/-- one step, for a state that is no error before and after -/
theorem stepUnit_ok (c : Cfg) (h1 : c.skipRejected = true) (h2 : c.detachMembers = true) (h3 : c.coverCheck = true)
    (st : St) (s : Nat) (hs : s ∈ c.L) (hinv : Inv c st) (hok : (stepUnit c st s).err = false) :
    Inv c (stepUnit c st s) ∧ (∀ u ∈ st.done, u ∈ (stepUnit c st s).done) ∧ c.unitOf s ∈ (stepUnit c st s).done ∧
      (c.rootFixedAtAttach = true → BadNF c st → BadNF c (stepUnit c st s)) := by
  rw [stepUnit_eq] at hok ⊢
  by_cases he : st.err = true
  · rw [if_pos he] at hok; rw [hok] at he; exact Bool.noConfusion he
  rw [if_neg he] at hok ⊢
  by_cases hd : st.done.contains (c.unitOf s) = true
  · rw [if_pos hd]
    exact ⟨hinv, fun _ h => h, by simpa using hd, fun _ h => h⟩
  rw [if_neg hd] at hok ⊢
  rcases stepTail_cases c h1 h2 h3 { st with
      done := c.unitOf s :: st.done,
      ord := if st.ord.contains (c.rootOf (c.unitOf s)) then st.ord else c.rootOf (c.unitOf s) :: st.ord }
      (c.unitOf s) (c.rootOf (c.unitOf s)) with h | ⟨_, q2, q3, hc⟩
  · rw [h] at hok; exact Bool.noConfusion hok
  dsimp only at hc q2 q3
  refine ⟨Inv_step c st _ (c.unitOf s) hinv ⟨s, hs, rfl⟩ q2 q3 hc, ?_, ?_, ?_⟩
  · intro u hu; rw [q2]; exact List.mem_cons_of_mem _ hu
  · rw [q2]; exact List.mem_cons_self
  · intro h4 hnf r hr
    rcases hc with ⟨_, p2, _⟩ | ⟨_, p2, _, p4⟩ | ⟨_, p2, p3⟩ | ⟨_, p2, _⟩
    · rw [p2] at hr; exact hnf r hr
    · rw [p2] at hr
      rcases List.mem_cons.1 hr with rfl | hr
      · exact p4
      · exact hnf r hr
    · rw [p2] at hr
      rcases List.mem_cons.1 hr with rfl | hr
      · exact p3 h4
      · exact hnf r hr
    · rw [p2] at hr; exact hnf r hr

theorem fold_ok (c : Cfg) (h1 : c.skipRejected = true) (h2 : c.detachMembers = true) (h3 : c.coverCheck = true)
    (l : List Nat) (st : St) (hl : ∀ s ∈ l, s ∈ c.L) (hinv : Inv c st) (hok : (l.foldl (stepUnit c) st).err = false) :
    Inv c (l.foldl (stepUnit c) st) ∧ (∀ u ∈ st.done, u ∈ (l.foldl (stepUnit c) st).done) ∧
      (∀ s ∈ l, c.unitOf s ∈ (l.foldl (stepUnit c) st).done) ∧
      (c.rootFixedAtAttach = true → BadNF c st → BadNF c (l.foldl (stepUnit c) st)) := by
  induction l generalizing st with
  | nil => exact ⟨hinv, fun _ h => h, fun _ h => (nomatch h), fun _ h => h⟩
  | cons s l ih =>
    rw [List.foldl_cons] at hok ⊢
    have hok1 : (stepUnit c st s).err = false := by
      cases h : (stepUnit c st s).err
      · rfl
      · rw [fold_err c l _ h] at hok; exact Bool.noConfusion hok
    obtain ⟨i1, d1, m1, n1⟩ := stepUnit_ok c h1 h2 h3 st s (hl s List.mem_cons_self) hinv hok1
    obtain ⟨i2, d2, m2, n2⟩ := ih (stepUnit c st s) (fun x hx => hl x (List.mem_cons_of_mem _ hx)) i1 hok
    refine ⟨i2, fun u hu => d2 u (d1 u hu), ?_, fun h4 h => n2 h4 (n1 h4 h)⟩
    intro x hx
    rcases List.mem_cons.1 hx with rfl | hx
    · exact d2 _ m1
    · exact m2 x hx

/-! ### the repair loop -/

theorem repair_err (c : Cfg) (fuel : Nat) (st : St) (h : st.err = true) : (repair c fuel st).err = true := by
  cases fuel with
  | zero => rfl
  | succ n => unfold repair; rw [if_pos h]; exact h

theorem walkBack_nf (c : Cfg) (h5 : c.rootFixedWalk = true) (route : List Nat) (i : Nat) (s : Nat)
    (h : walkBack c route i = some s) : rootFixed c (root c s) = false := by
  induction i with
  | zero => simp [walkBack] at h
  | succ i ih =>
    unfold walkBack at h
    split at h
    · exact ih h
    · rename_i x _
      simp only [h5, if_true] at h
      by_cases hf : rootFixed c (root c x) = true
      · rw [if_pos hf] at h; exact ih h
      · rw [if_neg hf] at h
        cases h
        simpa using hf

theorem repair_ok (c : Cfg) (fuel : Nat) (st : St) (hinv : Inv c st) (hok : (repair c fuel st).err = false) :
    Inv c (repair c fuel st) ∧ (repair c fuel st).done = st.done ∧
      fullViol c (routeOf c (repair c fuel st).att) = none ∧
      (c.rootFixedWalk = true → BadNF c st → BadNF c (repair c fuel st)) := by
  induction fuel generalizing st with
  | zero => exact Bool.noConfusion hok
  | succ n ih =>
    unfold repair at hok ⊢
    by_cases he : st.err = true
    · rw [if_pos he] at hok; rw [hok] at he; exact Bool.noConfusion he
    rw [if_neg he] at hok ⊢
    simp only [] at hok ⊢
    split at hok
    · rename_i hv
      exact ⟨⟨hinv.1, hinv.2, hinv.3, hinv.4, hinv.5⟩, rfl, hv, fun _ h => h⟩
    · rename_i i hv
      split at hok
      · exact Bool.noConfusion hok
      · rename_i x hw
        have hinv' := Inv_drop c st (r := root c x) (hinv := hinv)
          (st' := { setRange (routeOf c st.att) 0 i st with att := dropRoot c (root c x) st.att, bad := root c x :: st.bad })
          rfl rfl rfl rfl
        obtain ⟨j1, j2, j3, j4⟩ := ih _ hinv' hok
        refine ⟨j1, j2, j3, fun h5 hnf => j4 h5 ?_⟩
        intro r hr
        rcases List.mem_cons.1 hr with rfl | hr
        · exact walkBack_nf c h5 _ _ _ hw
        · exact hnf r hr


/-! ### the whole function -/

theorem run_ok (c : Cfg) (hok : (run c).err = false) :
    validate c = true ∧ run c = repair c (c.L.length + 1) (c.L.foldl (stepUnit c) {}) := by
  unfold run at hok ⊢
  by_cases hv : validate c = true
  · rw [if_pos hv]; exact ⟨hv, rfl⟩
  · rw [if_neg hv] at hok; exact Bool.noConfusion hok

/-- what holds of a returned state -/
structure Final (c : Cfg) (st : St) : Prop where
  inv : Inv c st
  all_done : ∀ s ∈ c.L, c.unitOf s ∈ st.done
  feasible : fullViol c (routeOf c st.att) = none
  bad_nf : c.rootFixedAtAttach = true → c.rootFixedWalk = true → BadNF c st

theorem run_final (c : Cfg) (h1 : c.skipRejected = true) (h2 : c.detachMembers = true) (h3 : c.coverCheck = true)
    (hok : (run c).err = false) : validate c = true ∧ Final c (run c) := by
  obtain ⟨hv, he⟩ := run_ok c hok
  refine ⟨hv, ?_⟩
  rw [he] at hok ⊢
  have hf : (c.L.foldl (stepUnit c) {}).err = false := by
    cases h : (c.L.foldl (stepUnit c) {}).err
    · rfl
    · rw [repair_err c _ _ h] at hok; exact Bool.noConfusion hok
  obtain ⟨i1, _, m1, n1⟩ := fold_ok c h1 h2 h3 c.L {} (fun _ h => h) (Inv_init c) hf
  obtain ⟨i2, d2, f2, n2⟩ := repair_ok c _ _ i1 hok
  refine ⟨i2, ?_, f2, fun h4 h5 => n2 h5 (n1 h4 (fun r hr => nomatch hr))⟩
  intro s hs
  rw [d2]; exact m1 s hs

theorem covered_listed (c : Cfg) (hv : validate c = true) (r : Nat) (hc : rootCovered c r = true)
    (ho : r ∉ c.oneOf) (s : Nat) (hs : s ∈ c.stops) (hr : root c s = r) : s ∈ c.L := by
  unfold rootCovered at hc
  have ho' : c.oneOf.contains r = false := by simpa using ho
  rw [ho', Bool.false_or, List.all_eq_true] at hc
  have := hc s hs
  simp only [hr, bne_self_eq_false, Bool.false_or, List.any_eq_true, decide_eq_true_eq] at this
  obtain ⟨l, hl, hlu⟩ := this
  unfold validate at hv
  rw [List.all_eq_true] at hv
  have h := hv l hl
  unfold unitListed at h
  rw [List.all_eq_true] at h
  have := h s hs
  simpa [hlu] using this

theorem route_sublist (c : Cfg) : (routeOf c (run c).att).Sublist c.L := by
  unfold routeOf
  exact List.filter_sublist

theorem final_feasible (c : Cfg) (hok : (run c).err = false) : fullViol c (routeOf c (run c).att) = none := by
  obtain ⟨_, he⟩ := run_ok c hok
  rw [he] at hok ⊢
  have hf : (c.L.foldl (stepUnit c) {}).err = false := by
    cases h : (c.L.foldl (stepUnit c) {}).err
    · rfl
    · rw [repair_err c _ _ h] at hok; exact Bool.noConfusion hok
  -- the feasibility part of `repair_ok` does not need the invariant; reprove it directly
  generalize c.L.length + 1 = fuel at hok ⊢
  generalize c.L.foldl (stepUnit c) {} = st at hok ⊢
  clear hf he
  induction fuel generalizing st with
  | zero => exact Bool.noConfusion hok
  | succ n ih =>
    unfold repair at hok ⊢
    by_cases he : st.err = true
    · rw [if_pos he] at hok; rw [hok] at he; exact Bool.noConfusion he
    rw [if_neg he] at hok ⊢
    simp only [] at hok ⊢
    split at hok
    · rename_i hv; exact hv
    · split at hok
      · exact Bool.noConfusion hok
      · exact ih _ hok

theorem on_route_of_root (c : Cfg) (st : St) (hv : validate c = true) (hF : Final c st)
    (s s' : Nat) (hs' : s' ∈ c.stops) (hr : root c s = root c s') (ho : root c s ∉ c.oneOf)
    (h : s ∈ routeOf c st.att) : s' ∈ routeOf c st.att := by
  rw [mem_routeOf] at h ⊢
  obtain ⟨p1, _, _, p4⟩ := hF.inv.att_good _ h.2
  have hl' : s' ∈ c.L := covered_listed c hv _ p4 ho s' hs' hr.symm
  refine ⟨hl', (hF.inv.done_att _ (hF.all_done s' hl')).2 ?_⟩
  have : c.rootOf (c.unitOf s') = c.rootOf (c.unitOf s) := hr.symm
  rw [this]; exact p1

theorem units_whole (c : Cfg) (h1 : c.skipRejected = true) (h2 : c.detachMembers = true) (h3 : c.coverCheck = true)
    (hok : (run c).err = false) (s s' : Nat) (hs : s ∈ c.stops) (hs' : s' ∈ c.stops) (hr : root c s = root c s')
    (ho : root c s ∉ c.oneOf) :
    s ∈ routeOf c (run c).att ↔ s' ∈ routeOf c (run c).att := by
  obtain ⟨hv, hF⟩ := run_final c h1 h2 h3 hok
  exact ⟨on_route_of_root c _ hv hF s s' hs' hr ho, on_route_of_root c _ hv hF s' s hs hr.symm (hr ▸ ho)⟩

/-- NOTE the extra hypothesis `hL` (the initial stops are stops of the model): without it the statement is false,
see `filed_iff_needs_hL`. -/
theorem filed_iff (c : Cfg) (h1 : c.skipRejected = true) (h2 : c.detachMembers = true) (h3 : c.coverCheck = true)
    (hL : ∀ s ∈ c.L, s ∈ c.stops)
    (hok : (run c).err = false) (r : Nat) :
    r ∈ filed (run c) ↔ ∃ s ∈ c.stops, root c s = r ∧ s ∈ routeOf c (run c).att := by
  obtain ⟨_, hF⟩ := run_final c h1 h2 h3 hok
  unfold filed
  simp only [List.mem_filter, Bool.not_eq_true', List.contains_eq_mem, decide_eq_false_iff_not]
  constructor
  · rintro ⟨ho, hb⟩
    obtain ⟨u, hu, hur⟩ := hF.inv.ord_done r ho
    obtain ⟨s, hs, hsu⟩ := hF.inv.done_L u hu
    refine ⟨s, hL s hs, ?_, ?_⟩
    · unfold root; rw [hsu, hur]
    · rw [mem_routeOf]
      refine ⟨hs, ?_⟩
      rw [hsu]
      exact (hF.inv.done_att u hu).2 (by rw [hur]; exact hb)
  · rintro ⟨s, _, hr, hs⟩
    rw [mem_routeOf] at hs
    obtain ⟨p1, p2, _, _⟩ := hF.inv.att_good _ hs.2
    subst hr
    exact ⟨p2, p1⟩

/-- The direction "route → filed" of `filed_iff` holds without `hL`. -/
theorem filed_of_on_route (c : Cfg) (h1 : c.skipRejected = true) (h2 : c.detachMembers = true) (h3 : c.coverCheck = true)
    (hok : (run c).err = false) (s : Nat) (hs : s ∈ routeOf c (run c).att) : root c s ∈ filed (run c) := by
  obtain ⟨_, hF⟩ := run_final c h1 h2 h3 hok
  unfold filed
  simp only [List.mem_filter, Bool.not_eq_true', List.contains_eq_mem, decide_eq_false_iff_not]
  rw [mem_routeOf] at hs
  obtain ⟨p1, p2, _, _⟩ := hF.inv.att_good _ hs.2
  exact ⟨p2, p1⟩

/-- Without `hL` a filed root always has a stop among the INITIAL stops on the route (which need not be in `c.stops`). -/
theorem filed_iff_L (c : Cfg) (h1 : c.skipRejected = true) (h2 : c.detachMembers = true) (h3 : c.coverCheck = true)
    (hok : (run c).err = false) (r : Nat) :
    r ∈ filed (run c) ↔ ∃ s ∈ c.L, root c s = r ∧ s ∈ routeOf c (run c).att := by
  obtain ⟨_, hF⟩ := run_final c h1 h2 h3 hok
  constructor
  · intro h
    unfold filed at h
    simp only [List.mem_filter, Bool.not_eq_true', List.contains_eq_mem, decide_eq_false_iff_not] at h
    obtain ⟨ho, hb⟩ := h
    obtain ⟨u, hu, hur⟩ := hF.inv.ord_done r ho
    obtain ⟨s, hs, hsu⟩ := hF.inv.done_L u hu
    refine ⟨s, hs, ?_, ?_⟩
    · unfold root; rw [hsu, hur]
    · rw [mem_routeOf]
      refine ⟨hs, ?_⟩
      rw [hsu]
      exact (hF.inv.done_att u hu).2 (by rw [hur]; exact hb)
  · rintro ⟨s, _, hr, hs⟩
    subst hr
    exact filed_of_on_route c h1 h2 h3 hok s hs

/-- counterexample to `filed_iff` without `hL`: the one initial stop 0 is not a stop of the model -/
def cxFiled : Cfg := { L := [0], stops := [], unitOf := id, rootOf := id, fixedStops := [] }

theorem filed_iff_needs_hL :
    cxFiled.skipRejected = true ∧ cxFiled.detachMembers = true ∧ cxFiled.coverCheck = true ∧
      cxFiled.rootFixedAtAttach = true ∧ cxFiled.rootFixedWalk = true ∧ (run cxFiled).err = false ∧
      0 ∈ filed (run cxFiled) ∧ ¬ ∃ s ∈ cxFiled.stops, root cxFiled s = 0 ∧ s ∈ routeOf cxFiled (run cxFiled).att := by
  decide

theorem fixed_stay (c : Cfg) (h1 : c.skipRejected = true) (h2 : c.detachMembers = true) (h3 : c.coverCheck = true)
    (h4 : c.rootFixedAtAttach = true) (h5 : c.rootFixedWalk = true)
    (hok : (run c).err = false) (s : Nat) (hs : s ∈ c.stops) (hl : s ∈ c.L) (hf : s ∈ c.fixedStops) :
    s ∈ routeOf c (run c).att := by
  obtain ⟨_, hF⟩ := run_final c h1 h2 h3 hok
  rw [mem_routeOf]
  refine ⟨hl, (hF.inv.done_att _ (hF.all_done s hl)).2 fun hb => ?_⟩
  have hnf := hF.bad_nf h4 h5 _ hb
  have : rootFixed c (c.rootOf (c.unitOf s)) = true := by
    unfold rootFixed
    rw [List.any_eq_true]
    exact ⟨s, hs, by simp [root, hf]⟩
  rw [this] at hnf
  exact Bool.noConfusion hnf

/-! ### one-of roots -/

/-- at most one alternative of a one-of root is attached in a returned state -/
theorem oneof_at_most_one (c : Cfg) (h1 : c.skipRejected = true) (h2 : c.detachMembers = true) (h3 : c.coverCheck = true)
    (hok : (run c).err = false) (r : Nat) (hr : r ∈ c.oneOf) :
    ∀ u u', u ∈ (run c).att → u' ∈ (run c).att → c.rootOf u = r → c.rootOf u' = r → u = u' := by
  obtain ⟨_, hF⟩ := run_final c h1 h2 h3 hok
  intro u u' hu hu' hur hur'
  exact hF.inv.one_of u hu u' hu' (hur ▸ hr) (hur.trans hur'.symm)

/-- … hence all the stops of a one-of root that are on the route belong to ONE stops-unit -/
theorem oneof_route_one_unit (c : Cfg) (h1 : c.skipRejected = true) (h2 : c.detachMembers = true) (h3 : c.coverCheck = true)
    (hok : (run c).err = false) (s s' : Nat) (hr : root c s ∈ c.oneOf) (hrr : root c s = root c s')
    (hs : s ∈ routeOf c (run c).att) (hs' : s' ∈ routeOf c (run c).att) : c.unitOf s = c.unitOf s' := by
  rw [mem_routeOf] at hs hs'
  exact oneof_at_most_one c h1 h2 h3 hok _ hr _ _ hs.2 hs'.2 rfl hrr.symm

/-- two initial stops of the same stops-unit: both on the route or both off it (any attached set, any root) -/
theorem unit_whole_L (c : Cfg) (att : List Nat) (s s' : Nat) (hs : s ∈ c.L) (hs' : s' ∈ c.L)
    (hu : c.unitOf s = c.unitOf s') : s ∈ routeOf c att ↔ s' ∈ routeOf c att := by
  rw [mem_routeOf, mem_routeOf, hu]
  exact ⟨fun h => ⟨hs', h.2⟩, fun h => ⟨hs, h.2⟩⟩

theorem validate_listed (c : Cfg) (hv : validate c = true) (s s' : Nat) (hs : s ∈ c.L) (hs' : s' ∈ c.stops)
    (hu : c.unitOf s = c.unitOf s') : s' ∈ c.L := by
  unfold validate at hv
  rw [List.all_eq_true] at hv
  have h := hv s hs
  unfold unitListed at h
  rw [List.all_eq_true] at h
  have := h s' hs'
  simpa [hu] using this

/-- the same for two stops of the MODEL (a returned state has passed `validate`: a listed stops-unit is listed whole) -/
theorem unit_whole (c : Cfg) (hok : (run c).err = false) (s s' : Nat) (hs : s ∈ c.stops) (hs' : s' ∈ c.stops)
    (hu : c.unitOf s = c.unitOf s') : s ∈ routeOf c (run c).att ↔ s' ∈ routeOf c (run c).att := by
  obtain ⟨hv, _⟩ := run_ok c hok
  constructor
  · intro h
    have hl := ((mem_routeOf c _ s).1 h).1
    exact (unit_whole_L c _ s s' hl (validate_listed c hv s s' hl hs' hu) hu).1 h
  · intro h
    have hl := ((mem_routeOf c _ s').1 h).1
    exact (unit_whole_L c _ s s' (validate_listed c hv s' s hl hs hu.symm) hl hu).2 h

end NR.Proofs.Init
