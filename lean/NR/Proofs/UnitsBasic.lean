import NR.Units
/-! Helper lemmas for NR.Proofs.Units: `look`, `ins`, positional membership `At`. -/
namespace NR.Units

/-! ### look -/

theorem look_cons (x i : Nat) (m : List (Nat × Nat)) (s : Nat) :
    look ((x, i) :: m) s = if x = s then some i else look m s := by
  unfold look
  by_cases h : x = s
  · simp [h]
  · have : (x == s) = false := by simpa using h
    simp [this, h]

theorem look_append (l m : List (Nat × Nat)) (s : Nat) :
    look (l ++ m) s = (look l s).or (look m s) := by
  unfold look
  rw [List.find?_append]
  cases List.find? (fun p => p.1 == s) l <;> simp

theorem look_some_mem {l : List (Nat × Nat)} {s k : Nat} (h : look l s = some k) : (s, k) ∈ l := by
  unfold look at h
  cases hf : List.find? (fun p => p.1 == s) l with
  | none => simp [hf] at h
  | some p =>
    rw [hf] at h
    have h1 := List.find?_some hf
    have h2 := List.mem_of_find?_eq_some hf
    simp at h h1
    obtain ⟨p1, p2⟩ := p
    simp at h h1
    subst h h1
    exact h2

theorem look_none_iff {l : List (Nat × Nat)} {s : Nat} : look l s = none ↔ ∀ k, (s, k) ∉ l := by
  unfold look
  simp only [Option.map_eq_none_iff, List.find?_eq_none]
  constructor
  · intro h k hk
    have := h _ hk
    simp at this
  · intro h p hp
    obtain ⟨p1, p2⟩ := p
    intro hc
    simp at hc
    subst hc
    exact h _ hp

/-- on a list that holds at most one entry for `s`, `look` is membership -/
theorem look_iff_of_fun {l : List (Nat × Nat)} {s : Nat}
    (hf : ∀ k k', (s, k) ∈ l → (s, k') ∈ l → k = k') (k : Nat) : look l s = some k ↔ (s, k) ∈ l := by
  constructor
  · exact look_some_mem
  · intro h
    cases hl : look l s with
    | none => exact absurd h (look_none_iff.1 hl k)
    | some k' => rw [hf k' k (look_some_mem hl) h]

theorem look_append_iff {l m : List (Nat × Nat)} {s : Nat}
    (hf : ∀ k k', (s, k) ∈ l → (s, k') ∈ l → k = k') (k : Nat) :
    look (l ++ m) s = some k ↔ (s, k) ∈ l ∨ ((∀ k', (s, k') ∉ l) ∧ look m s = some k) := by
  rw [look_append]
  cases hl : look l s with
  | none =>
    have hn := look_none_iff.1 hl
    simp only [Option.none_or]
    constructor
    · intro h; exact Or.inr ⟨hn, h⟩
    · rintro (h | ⟨_, h⟩)
      · exact absurd h (hn k)
      · exact h
  | some k' =>
    have hm := look_some_mem hl
    simp only [Option.some_or]
    constructor
    · intro h
      have : k' = k := by simpa using h
      subst this; exact Or.inl hm
    · rintro (h | ⟨h, _⟩)
      · rw [hf k' k hm h]
      · exact absurd hm (h k')

/-! ### ins -/

theorem ins_def (u : List Nat) (s : Nat) : ins u s = if s ∈ u then u else u ++ [s] := by
  simp [ins]

theorem mem_ins {u : List Nat} {s x : Nat} : x ∈ ins u s ↔ x ∈ u ∨ x = s := by
  rw [ins_def]
  by_cases h : s ∈ u
  · simp only [h, if_true]
    constructor
    · exact Or.inl
    · rintro (h' | h')
      · exact h'
      · subst h'; exact h
  · simp [h]

theorem nodup_ins {u : List Nat} {s : Nat} (h : u.Nodup) : (ins u s).Nodup := by
  rw [ins_def]
  by_cases hc : s ∈ u
  · simp [hc, h]
  · simp only [hc, if_false]
    rw [List.nodup_append]
    refine ⟨h, by simp, ?_⟩
    intro a ha b hb
    simp at hb
    subst hb
    intro e; subst e; exact hc ha

theorem ins_ne_nil {u : List Nat} {s : Nat} : ins u s ≠ [] := by
  intro h
  have : s ∈ ins u s := mem_ins.2 (Or.inr rfl)
  rw [h] at this
  cases this

theorem mem_foldl_ins {old u : List Nat} {x : Nat} : x ∈ old.foldl ins u ↔ x ∈ u ∨ x ∈ old := by
  induction old generalizing u with
  | nil => simp
  | cons a t ih =>
    simp only [List.foldl_cons, ih, mem_ins, List.mem_cons]
    constructor
    · rintro ((h | h) | h)
      · exact Or.inl h
      · exact Or.inr (Or.inl h)
      · exact Or.inr (Or.inr h)
    · rintro (h | h | h)
      · exact Or.inl (Or.inl h)
      · exact Or.inl (Or.inr h)
      · exact Or.inr h

theorem nodup_foldl_ins {old u : List Nat} (h : u.Nodup) : (old.foldl ins u).Nodup := by
  induction old generalizing u with
  | nil => simpa
  | cons a t ih => exact ih (nodup_ins h)

theorem foldl_ins_ne_nil {old u : List Nat} (h : u ≠ []) : old.foldl ins u ≠ [] := by
  induction old generalizing u with
  | nil => simpa
  | cons a t ih => exact ih ins_ne_nil

/-! ### positional membership -/

/-- stop `s` is in the unit at index `k` -/
def At (us : List (List Nat)) (k s : Nat) : Prop := ∃ u, us[k]? = some u ∧ s ∈ u

theorem at_iff_getD (us : List (List Nat)) (k s : Nat) :
    (k < us.length ∧ s ∈ us.getD k []) ↔ At us k s := by
  unfold At
  rw [List.getD_eq_getElem?_getD]
  cases h : us[k]? with
  | none =>
    have : us.length ≤ k := by simpa using h
    simp
  | some u =>
    have := (List.getElem?_eq_some_iff.1 h).1
    simp [this]

theorem At.lt {us : List (List Nat)} {k s : Nat} (h : At us k s) : k < us.length := by
  obtain ⟨u, hu, _⟩ := h
  exact (List.getElem?_eq_some_iff.1 hu).1

theorem at_append_single (us : List (List Nat)) (v : List Nat) (k s : Nat) :
    At (us ++ [v]) k s ↔ At us k s ∨ (k = us.length ∧ s ∈ v) := by
  unfold At
  rw [List.getElem?_append]
  by_cases hk : k < us.length
  · simp only [hk, if_true]
    constructor
    · exact Or.inl
    · rintro (h | ⟨h, _⟩)
      · exact h
      · omega
  · simp only [hk, if_false]
    have hn : us[k]? = none := by simp; omega
    rw [hn]
    by_cases h0 : k = us.length
    · subst h0; simp
    · have : ([v] : List (List Nat))[k - us.length]? = none := by simp; omega
      rw [this]; simp [h0]

theorem at_modify (us : List (List Nat)) (i : Nat) (f : List Nat → List Nat) (Q : Nat → Prop)
    (hf : ∀ u x, x ∈ f u ↔ x ∈ u ∨ Q x) (k s : Nat) :
    At (us.modify i f) k s ↔ At us k s ∨ (k = i ∧ k < us.length ∧ Q s) := by
  unfold At
  rw [List.getElem?_modify]
  cases h : us[k]? with
  | none =>
    have : us.length ≤ k := by simpa using h
    simp; omega
  | some u =>
    have := (List.getElem?_eq_some_iff.1 h).1
    by_cases hik : i = k
    · subst hik; simp [hf, this]
    · simp [hik]; omega

theorem getElem?_modify_some {us : List (List Nat)} {i : Nat} {f : List Nat → List Nat} {k : Nat} {u : List Nat}
    (h : (us.modify i f)[k]? = some u) : ∃ v, us[k]? = some v ∧ (u = v ∨ u = f v) := by
  rw [List.getElem?_modify] at h
  cases hv : us[k]? with
  | none => simp [hv] at h
  | some v =>
    rw [hv] at h
    refine ⟨v, rfl, ?_⟩
    by_cases hik : i = k
    · simp [hik] at h; exact Or.inr h.symm
    · simp [hik] at h; exact Or.inl h.symm

theorem at_eraseIdx (us : List (List Nat)) (i k s : Nat) :
    At (us.eraseIdx i) k s ↔ At us (if k < i then k else k + 1) s := by
  unfold At
  rw [List.getElem?_eraseIdx]
  split <;> rfl

/-- the fresh entries of `refresh` are exactly the positional memberships -/
theorem mem_refresh_part (us : List (List Nat)) (s k : Nat) :
    (s, k) ∈ (List.range us.length).flatMap (fun i => (us.getD i []).map (fun s => (s, i))) ↔ At us k s := by
  rw [← at_iff_getD]
  simp only [List.mem_flatMap, List.mem_range, List.mem_map, Prod.mk.injEq]
  constructor
  · rintro ⟨i, hi, x, hx, rfl, rfl⟩
    exact ⟨hi, hx⟩
  · rintro ⟨h1, h2⟩
    exact ⟨k, h1, s, h2, rfl, rfl⟩

/-! ### Conn -/

theorem Conn.mono {rels rels' : List (Nat × Nat)} (h : ∀ r ∈ rels, r ∈ rels') {s t : Nat}
    (c : Conn rels s t) : Conn rels' s t := by
  induction c with
  | rel hr => exact Conn.rel (h _ hr)
  | symm _ ih => exact Conn.symm ih
  | trans _ _ ih1 ih2 => exact Conn.trans ih1 ih2

theorem Conn.mentioned {rels : List (Nat × Nat)} {s t : Nat} (c : Conn rels s t) :
    (∃ r ∈ rels, r.1 = s ∨ r.2 = s) ∧ (∃ r ∈ rels, r.1 = t ∨ r.2 = t) := by
  induction c with
  | rel hr => exact ⟨⟨_, hr, Or.inl rfl⟩, ⟨_, hr, Or.inr rfl⟩⟩
  | symm _ ih => exact ⟨ih.2, ih.1⟩
  | trans _ _ ih1 ih2 => exact ⟨ih1.1, ih2.2⟩

theorem Conn.refl_of_mentioned {rels : List (Nat × Nat)} {s : Nat} (h : ∃ r ∈ rels, r.1 = s ∨ r.2 = s) :
    Conn rels s s := by
  obtain ⟨⟨a, b⟩, hr, h | h⟩ := h
  · simp at h; subst h
    exact Conn.trans (Conn.rel hr) (Conn.symm (Conn.rel hr))
  · simp at h; subst h
    exact Conn.trans (Conn.symm (Conn.rel hr)) (Conn.rel hr)

end NR.Units
