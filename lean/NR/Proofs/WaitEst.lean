/-
  NR.Proofs.WaitEst — proofs for NR.Props.C09W: the waiting-time estimates are exact.
-/
import NR.WaitEst
import Mathlib.Tactic.Linarith
import Mathlib.Tactic.Ring
namespace NR.Proofs.WaitEst
open NR.WaitEst

/-! ### basic facts -/

theorem startOf_ge (it : Item) (arr : Rat) : arr ≤ startOf it arr := by
  unfold startOf
  exact le_max_left _ _

theorem waitOf_nonneg (it : Item) (arr : Rat) : 0 ≤ waitOf it arr := by
  unfold waitOf
  have := startOf_ge it arr
  linarith

theorem totalWaitFrom_nil (pe : Rat) : totalWaitFrom pe [] = 0 := rfl

theorem totalWaitFrom_cons (pe : Rat) (it : Item) (r : List Item) :
    totalWaitFrom pe (it :: r) =
      waitOf it (arrOf pe it) + totalWaitFrom (endOf it (arrOf pe it)) r := rfl

theorem totalWaitFrom_nonneg (pe : Rat) (walk : List Item) : 0 ≤ totalWaitFrom pe walk := by
  induction walk generalizing pe with
  | nil => simp [totalWaitFrom_nil]
  | cons it r ih =>
    rw [totalWaitFrom_cons]
    have h1 := waitOf_nonneg it (arrOf pe it)
    have h2 := ih (endOf it (arrOf pe it))
    linarith

theorem exactVehicleOK_nil (max pe acc : Rat) : exactVehicleOK max pe acc [] = true := rfl

theorem exactVehicleOK_cons (max pe acc : Rat) (it : Item) (r : List Item) :
    exactVehicleOK max pe acc (it :: r) =
      (decide (acc + waitOf it (arrOf pe it) ≤ max) &&
        exactVehicleOK max (endOf it (arrOf pe it)) (acc + waitOf it (arrOf pe it)) r) := rfl

theorem exactStopOK_nil (pe : Rat) : exactStopOK pe [] = true := rfl

theorem exactStopOK_cons (pe : Rat) (it : Item) (r : List Item) :
    exactStopOK pe (it :: r) =
      (decide (waitOf it (arrOf pe it) ≤ it.maxWait) &&
        exactStopOK (endOf it (arrOf pe it)) r) := rfl

/-- Accumulated waits are monotone: starting within the limit, all are within the limit iff the
last one is. -/
theorem exactVehicleOK_iff_total (max pe acc : Rat) (walk : List Item) (hacc : acc ≤ max) :
    exactVehicleOK max pe acc walk = true ↔ acc + totalWaitFrom pe walk ≤ max := by
  induction walk generalizing pe acc with
  | nil => simp [exactVehicleOK_nil, totalWaitFrom_nil, hacc]
  | cons it r ih =>
    rw [exactVehicleOK_cons, totalWaitFrom_cons, Bool.and_eq_true, decide_eq_true_iff]
    have hw := waitOf_nonneg it (arrOf pe it)
    have ht := totalWaitFrom_nonneg (endOf it (arrOf pe it)) r
    constructor
    · rintro ⟨h1, h2⟩
      have := (ih (endOf it (arrOf pe it)) (acc + waitOf it (arrOf pe it)) h1).mp h2
      linarith
    · intro h
      have h1 : acc + waitOf it (arrOf pe it) ≤ max := by linarith
      refine ⟨h1, (ih (endOf it (arrOf pe it)) (acc + waitOf it (arrOf pe it)) h1).mpr ?_⟩
      linarith

theorem exactVehicleOK_cons_eq_total (max pe acc : Rat) (it : Item) (r : List Item) :
    exactVehicleOK max pe acc (it :: r) = decide (acc + totalWaitFrom pe (it :: r) ≤ max) := by
  rw [Bool.eq_iff_iff, decide_eq_true_iff, exactVehicleOK_cons, totalWaitFrom_cons,
    Bool.and_eq_true, decide_eq_true_iff]
  have hw := waitOf_nonneg it (arrOf pe it)
  have ht := totalWaitFrom_nonneg (endOf it (arrOf pe it)) r
  constructor
  · rintro ⟨h1, h2⟩
    have := (exactVehicleOK_iff_total max (endOf it (arrOf pe it)) _ r h1).mp h2
    linarith
  · intro h
    have h1 : acc + waitOf it (arrOf pe it) ≤ max := by linarith
    refine ⟨h1, (exactVehicleOK_iff_total max (endOf it (arrOf pe it)) _ r h1).mpr ?_⟩
    linarith

theorem estVehicle_cons (max lastAcc : Rat) (timeDep : Bool) (pe acc : Rat) (cnt : Nat)
    (it : Item) (r : List Item) :
    estVehicle max lastAcc timeDep pe acc cnt (it :: r) =
      if (!timeDep && (if it.planned then cnt else cnt - 1) == 0 && it.planned &&
            arrOf pe it == it.cArr && endOf it (arrOf pe it) == it.cEnd) = true then
        decide (acc + (lastAcc - it.cPrevAcc) > max)
      else
        if acc + waitOf it (arrOf pe it) > max then true
        else estVehicle max lastAcc timeDep (endOf it (arrOf pe it))
          (acc + waitOf it (arrOf pe it)) (if it.planned then cnt else cnt - 1) r := rfl

theorem estStop_cons (timeDep : Bool) (pe : Rat) (cnt : Nat) (it : Item) (r : List Item) :
    estStop timeDep pe cnt (it :: r) =
      if (!timeDep && (if it.planned then cnt else cnt - 1) == 0 && it.planned &&
            arrOf pe it == it.cArr && endOf it (arrOf pe it) == it.cEnd) = true then false
      else if waitOf it (arrOf pe it) > it.maxWait then true
      else estStop timeDep (endOf it (arrOf pe it)) (if it.planned then cnt else cnt - 1) r := rfl

theorem behind_cons (P : List Item → Prop) (cnt : Nat) (it : Item) (r : List Item) :
    Behind P cnt (it :: r) ↔
      (((if it.planned then cnt else cnt - 1) = 0 ∧ it.planned = true) → P (it :: r)) ∧
        Behind P (if it.planned then cnt else cnt - 1) r := Iff.rfl

/-! ### the main theorems -/

theorem wait_vehicle_exact (max lastAcc : Rat) (timeDep : Bool) (pe acc : Rat) (cnt : Nat)
    (walk : List Item) (h : Behind (StoredAcc lastAcc) cnt walk) :
    estVehicle max lastAcc timeDep pe acc cnt walk = !exactVehicleOK max pe acc walk := by
  induction walk generalizing pe acc cnt with
  | nil => rfl
  | cons it r ih =>
    rw [behind_cons] at h
    obtain ⟨hP, hB⟩ := h
    rw [estVehicle_cons]
    by_cases hc : (!timeDep && (if it.planned then cnt else cnt - 1) == 0 && it.planned &&
            arrOf pe it == it.cArr && endOf it (arrOf pe it) == it.cEnd) = true
    · -- early exit
      rw [if_pos hc]
      simp only [Bool.and_eq_true, beq_iff_eq] at hc
      obtain ⟨⟨⟨⟨_, hcnt⟩, hpl⟩, harr⟩, hend⟩ := hc
      have hS := hP ⟨hcnt, hpl⟩
      change lastAcc - it.cPrevAcc = waitOf it it.cArr + totalWaitFrom it.cEnd r at hS
      rw [← harr, ← hend] at hS
      rw [exactVehicleOK_cons_eq_total, totalWaitFrom_cons, hS]
      rw [Bool.eq_iff_iff]
      simp only [decide_eq_true_iff, Bool.not_eq_true', decide_eq_false_iff_not, not_le, gt_iff_lt]
    · rw [if_neg hc, exactVehicleOK_cons]
      by_cases hgt : acc + waitOf it (arrOf pe it) > max
      · rw [if_pos hgt]
        have : decide (acc + waitOf it (arrOf pe it) ≤ max) = false :=
          decide_eq_false (not_le.mpr hgt)
        rw [this]; rfl
      · rw [if_neg hgt]
        have : decide (acc + waitOf it (arrOf pe it) ≤ max) = true :=
          decide_eq_true (not_lt.mp hgt)
        rw [this, Bool.true_and]
        exact ih _ _ _ hB

theorem wait_stop_exact (timeDep : Bool) (pe : Rat) (cnt : Nat) (walk : List Item)
    (h : Behind StoredWaits cnt walk) :
    estStop timeDep pe cnt walk = !exactStopOK pe walk := by
  induction walk generalizing pe cnt with
  | nil => rfl
  | cons it r ih =>
    rw [behind_cons] at h
    obtain ⟨hP, hB⟩ := h
    rw [estStop_cons]
    by_cases hc : (!timeDep && (if it.planned then cnt else cnt - 1) == 0 && it.planned &&
            arrOf pe it == it.cArr && endOf it (arrOf pe it) == it.cEnd) = true
    · rw [if_pos hc]
      simp only [Bool.and_eq_true, beq_iff_eq] at hc
      obtain ⟨⟨⟨⟨_, hcnt⟩, hpl⟩, harr⟩, hend⟩ := hc
      have hS := hP ⟨hcnt, hpl⟩
      change waitOf it it.cArr ≤ it.maxWait ∧ exactStopOK it.cEnd r = true at hS
      rw [← harr, ← hend] at hS
      rw [exactStopOK_cons, hS.2, decide_eq_true hS.1]; rfl
    · rw [if_neg hc, exactStopOK_cons]
      by_cases hgt : waitOf it (arrOf pe it) > it.maxWait
      · rw [if_pos hgt]
        have : decide (waitOf it (arrOf pe it) ≤ it.maxWait) = false :=
          decide_eq_false (not_le.mpr hgt)
        rw [this]; rfl
      · rw [if_neg hgt]
        have : decide (waitOf it (arrOf pe it) ≤ it.maxWait) = true :=
          decide_eq_true (not_lt.mp hgt)
        rw [this, Bool.true_and]
        exact ih _ _ hB

theorem wait_vehicle_exact_timedep (max lastAcc pe acc : Rat) (cnt : Nat) (walk : List Item) :
    estVehicle max lastAcc true pe acc cnt walk = !exactVehicleOK max pe acc walk := by
  induction walk generalizing pe acc cnt with
  | nil => rfl
  | cons it r ih =>
    rw [estVehicle_cons]
    simp only [Bool.not_true, Bool.false_and, Bool.false_eq_true, if_false]
    rw [exactVehicleOK_cons]
    by_cases hgt : acc + waitOf it (arrOf pe it) > max
    · rw [if_pos hgt]
      have : decide (acc + waitOf it (arrOf pe it) ≤ max) = false :=
        decide_eq_false (not_le.mpr hgt)
      rw [this]; rfl
    · rw [if_neg hgt]
      have : decide (acc + waitOf it (arrOf pe it) ≤ max) = true :=
        decide_eq_true (not_lt.mp hgt)
      rw [this, Bool.true_and]
      exact ih _ _ _

/-! ### decidability of the hypotheses on concrete walks -/

instance storedAccDecidable (lastAcc : Rat) : (l : List Item) → Decidable (StoredAcc lastAcc l)
  | [] => isTrue trivial
  | it :: r =>
    inferInstanceAs (Decidable (lastAcc - it.cPrevAcc = waitOf it it.cArr + totalWaitFrom it.cEnd r))

instance storedWaitsDecidable : (l : List Item) → Decidable (StoredWaits l)
  | [] => isTrue trivial
  | it :: r =>
    inferInstanceAs (Decidable (waitOf it it.cArr ≤ it.maxWait ∧ exactStopOK it.cEnd r = true))

instance behindDecidable (P : List Item → Prop) [DecidablePred P] :
    (cnt : Nat) → (l : List Item) → Decidable (Behind P cnt l)
  | _, [] => isTrue trivial
  | cnt, it :: r =>
    have := behindDecidable P (if it.planned then cnt else cnt - 1) r
    inferInstanceAs (Decidable
      ((((if it.planned then cnt else cnt - 1) = 0 ∧ it.planned = true) → P (it :: r)) ∧
        Behind P (if it.planned then cnt else cnt - 1) r))

/-! ### the counterexamples for the estimates before the repairs -/

/-- Same contents as `NR.Props.C09W.e8Walk`. -/
def e8Walk : List Item :=
  [{ travel := 10, windows := [(60, 1000)], dur := 0, planned := false },
   { travel := 40, windows := [(150, 1000)], dur := 0, planned := true, cArr := 100, cEnd := 150, cPrevAcc := 0 },
   { travel := 100, windows := [(400, 1000)], dur := 0, planned := true, cArr := 250, cEnd := 400, cPrevAcc := 50 }]

theorem e8_counterexample :
    Behind (StoredAcc 200) 1 e8Walk ∧
    estVehicleE8 200 false 0 0 1 e8Walk = false ∧ exactVehicleOK 200 0 0 e8Walk = false ∧
    estVehicle 200 200 false 0 0 1 e8Walk = true := by
  refine ⟨?_, ?_, ?_, ?_⟩ <;> decide +kernel

/-- Same contents as `NR.Props.C09W.e23Walk`. -/
def e23Walk : List Item :=
  [{ travel := 0, windows := [], dur := 0, planned := false, maxWait := 100000 },
   { travel := 120, windows := [], dur := 600, planned := true, maxWait := 100000, cArr := 840, cEnd := 840, cPrevAcc := 0 },
   { travel := 120, windows := [(900, 1020), (3000, 4200)], dur := 0, planned := true, maxWait := 100, cArr := 960, cEnd := 960, cPrevAcc := 0 }]

theorem e23_counterexample :
    Behind (StoredAcc 0) 1 e23Walk ∧
    estVehicleE23 1000 0 false 720 0 1 e23Walk = false ∧ exactVehicleOK 1000 720 0 e23Walk = false ∧
    estVehicle 1000 0 false 720 0 1 e23Walk = true ∧
    estStop false 720 1 e23Walk = true ∧ exactStopOK 720 e23Walk = false := by
  refine ⟨?_, ?_, ?_, ?_, ?_, ?_⟩ <;> decide +kernel

end NR.Proofs.WaitEst
