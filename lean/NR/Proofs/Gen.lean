/-
  NR.Proofs.Gen — proofs for C10 (enumeration of insertion positions, best-move selection).
-/
import NR.Gen
import Mathlib.Data.List.Nodup
import Mathlib.Tactic.Linarith

namespace NR.Proofs.Gen
open NR.Gen

/-! ### Generic: nodup of `flatMap` over heads -/

theorem nodup_flatMap_cons {l : List Nat} (f : Nat → List (List Nat))
    (hl : l.Nodup) (hf : ∀ x ∈ l, (f x).Nodup) :
    (l.flatMap (fun x => (f x).map (x :: ·))).Nodup := by
  rw [List.nodup_flatMap]
  refine ⟨?_, ?_⟩
  · intro x hx
    exact (hf x hx).map (fun a b h => by simpa using h)
  · refine hl.imp ?_
    intro a b hab
    show List.Disjoint _ _
    rw [List.disjoint_left]
    intro c hc hc'
    simp only [List.mem_map] at hc hc'
    obtain ⟨t, _, rfl⟩ := hc
    obtain ⟨t', _, h⟩ := hc'
    simp only [List.cons.injEq] at h
    exact hab h.1.symm

/-! ### `combineAscending` -/

theorem mem_combFrom (m : Nat) : ∀ (k lo : Nat) (c : List Nat),
    c ∈ combFrom m k lo ↔
      c.length = k ∧ c.Pairwise (· ≤ ·) ∧ ∀ x ∈ c, lo ≤ x ∧ x ≤ m := by
  intro k
  induction k with
  | zero =>
    intro lo c
    simp only [combFrom, List.mem_singleton]
    constructor
    · rintro rfl; simp
    · rintro ⟨h, -, -⟩; exact List.length_eq_zero_iff.mp h
  | succ k ih =>
    intro lo c
    simp only [combFrom, List.mem_flatMap, List.mem_map, List.mem_range'_1]
    constructor
    · rintro ⟨x, ⟨hlo, hx⟩, t, ht, rfl⟩
      obtain ⟨hlen, hpw, hall⟩ := (ih x t).mp ht
      refine ⟨by simp [hlen], ?_, ?_⟩
      · rw [List.pairwise_cons]
        exact ⟨fun y hy => (hall y hy).1, hpw⟩
      · intro y hy
        rcases List.mem_cons.mp hy with rfl | hy
        · exact ⟨hlo, by omega⟩
        · have := hall y hy
          exact ⟨by omega, this.2⟩
    · rintro ⟨hlen, hpw, hall⟩
      cases c with
      | nil => simp at hlen
      | cons x t =>
        rw [List.pairwise_cons] at hpw
        have hx := hall x (List.mem_cons_self ..)
        refine ⟨x, ⟨hx.1, by omega⟩, t, ?_, rfl⟩
        rw [ih]
        refine ⟨by simpa using hlen, hpw.2, ?_⟩
        intro y hy
        exact ⟨hpw.1 y hy, (hall y (List.mem_cons_of_mem _ hy)).2⟩

theorem nodup_combFrom (m : Nat) : ∀ (k lo : Nat), (combFrom m k lo).Nodup := by
  intro k
  induction k with
  | zero => intro lo; simp [combFrom]
  | succ k ih =>
    intro lo
    simp only [combFrom]
    exact nodup_flatMap_cons (fun x => combFrom m k x) (List.nodup_range' 1) (fun x _ => ih x)

theorem combine_mem_iff (n m : Nat) (c : List Nat) :
    c ∈ combineAscending n m ↔ IsPlacement n m c := by
  unfold combineAscending IsPlacement
  exact mem_combFrom m n 1 c

theorem combine_nodup (n m : Nat) : (combineAscending n m).Nodup :=
  nodup_combFrom m n 1

/-! ### `generate` -/

theorem mem_genFrom (m : Nat) (sb ms : Nat → Bool) : ∀ (k idx : Nat) (prev : Option Nat)
    (c : List Nat),
    c ∈ genFrom m sb ms k idx prev ↔
      c.length = k ∧ c.Pairwise (· ≤ ·) ∧
      (∀ x ∈ c, prev.getD 1 ≤ x ∧ x ≤ m ∧ sb x = false) ∧
      (∀ p, prev = some p → ms idx = true → ∀ x t, c = x :: t → x = p) ∧
      (∀ j, j + 1 < c.length → ms (idx + j + 1) = true → c.getD j 0 = c.getD (j + 1) 0) := by
  intro k
  induction k with
  | zero =>
    intro idx prev c
    simp only [genFrom, List.mem_singleton]
    constructor
    · rintro rfl; simp
    · rintro ⟨h, -⟩; exact List.length_eq_zero_iff.mp h
  | succ k ih =>
    intro idx prev c
    simp only [genFrom, List.mem_flatMap, List.mem_map, List.mem_filter, List.mem_range'_1,
      Bool.and_eq_true, Bool.not_eq_true']
    constructor
    · rintro ⟨x, ⟨⟨hlo, hx⟩, hsb, hprev⟩, t, ht, rfl⟩
      obtain ⟨hlen, hpw, hall, hfirst, hadj⟩ := (ih (idx + 1) (some x) t).mp ht
      simp only [Option.getD_some] at hall
      refine ⟨by simp [hlen], ?_, ?_, ?_, ?_⟩
      · rw [List.pairwise_cons]
        exact ⟨fun y hy => (hall y hy).1, hpw⟩
      · intro y hy
        rcases List.mem_cons.mp hy with rfl | hy
        · exact ⟨hlo, by omega, hsb⟩
        · have := hall y hy
          exact ⟨by omega, this.2⟩
      · rintro p rfl hms y t' h
        simp only [List.cons.injEq] at h
        obtain ⟨rfl, -⟩ := h
        simpa [hms] using hprev
      · intro j hj hms
        cases j with
        | zero =>
          cases t with
          | nil => simp at hj
          | cons y t' =>
            simp only [List.getD_cons_zero, List.getD_cons_succ]
            exact (hfirst x rfl (by simpa using hms) y t' rfl).symm
        | succ j =>
          simp only [List.getD_cons_succ]
          apply hadj j
          · simpa using hj
          · rw [← hms]; congr 1; omega
    · rintro ⟨hlen, hpw, hall, hfirst, hadj⟩
      cases c with
      | nil => simp at hlen
      | cons x t =>
        rw [List.pairwise_cons] at hpw
        have hx := hall x (List.mem_cons_self ..)
        refine ⟨x, ⟨⟨hx.1, by omega⟩, hx.2.2, ?_⟩, t, ?_, rfl⟩
        · cases prev with
          | none => rfl
          | some p =>
            simp only [Bool.or_eq_true, Bool.not_eq_true', decide_eq_true_eq]
            cases hms : ms idx with
            | false => exact Or.inl rfl
            | true => exact Or.inr (hfirst p rfl hms x t rfl)
        · rw [ih]
          refine ⟨by simpa using hlen, hpw.2, ?_, ?_, ?_⟩
          · intro y hy
            have := hall y (List.mem_cons_of_mem _ hy)
            exact ⟨hpw.1 y hy, this.2⟩
          · rintro p hp hms y t' rfl
            simp only [Option.some.injEq] at hp
            subst hp
            have := hadj 0 (by simp) (by simpa using hms)
            simpa using this.symm
          · intro j hj hms
            have := hadj (j + 1) (by simpa using hj) (by rw [← hms]; congr 1; omega)
            simpa using this

theorem nodup_genFrom (m : Nat) (sb ms : Nat → Bool) : ∀ (k idx : Nat) (prev : Option Nat),
    (genFrom m sb ms k idx prev).Nodup := by
  intro k
  induction k with
  | zero => intro idx prev; simp [genFrom]
  | succ k ih =>
    intro idx prev
    simp only [genFrom]
    exact nodup_flatMap_cons (fun x => genFrom m sb ms k (idx + 1) (some x))
      ((List.nodup_range' 1).filter _) (fun x _ => ih (idx + 1) (some x))

theorem generate_mem_iff (n m : Nat) (splitBad mustSame : Nat → Bool) (c : List Nat) :
    c ∈ generate n m splitBad mustSame ↔ IsAllowedPlacement n m splitBad mustSame c := by
  unfold generate IsAllowedPlacement IsPlacement
  rw [mem_genFrom]
  simp only [Option.getD_none, Nat.zero_add]
  constructor
  · rintro ⟨hlen, hpw, hall, -, hadj⟩
    exact ⟨⟨hlen, hpw, fun x hx => ⟨(hall x hx).1, (hall x hx).2.1⟩⟩,
      fun x hx => (hall x hx).2.2, hadj⟩
  · rintro ⟨⟨hlen, hpw, hall⟩, hsb, hadj⟩
    exact ⟨hlen, hpw, fun x hx => ⟨(hall x hx).1, (hall x hx).2, hsb x hx⟩,
      fun p hp => by simp at hp, hadj⟩

theorem generate_nodup (n m : Nat) (splitBad mustSame : Nat → Bool) :
    (generate n m splitBad mustSame).Nodup :=
  nodup_genFrom m splitBad mustSame n 0 none

theorem genFrom_false_eq (m : Nat) : ∀ (k idx : Nat) (prev : Option Nat),
    genFrom m (fun _ => false) (fun _ => false) k idx prev = combFrom m k (prev.getD 1) := by
  intro k
  induction k with
  | zero => intro idx prev; rfl
  | succ k ih =>
    intro idx prev
    simp only [genFrom, combFrom]
    rw [List.filter_eq_self.mpr]
    · congr 1
      funext x
      rw [ih]
      rfl
    · intro a _
      cases prev <;> simp

theorem generate_eq_combine (n m : Nat) :
    generate n m (fun _ => false) (fun _ => false) = combineAscending n m :=
  genFrom_false_eq m n 0 none

/-! ### `takeBest` / `bestOf` -/

theorem takeBest_spec (b c : Cand) (k : Bool) :
    ((takeBest b c k).exec = (b.exec || c.exec)) ∧
    (((takeBest b c k).value = b.value ∧ (takeBest b c k).tag = b.tag ∧
        (takeBest b c k).exec = b.exec) ∨
      ((takeBest b c k).value = c.value ∧ (takeBest b c k).tag = c.tag ∧ c.exec = true)) ∧
    (b.exec = true → (takeBest b c k).value ≤ b.value) ∧
    (c.exec = true → (takeBest b c k).value ≤ c.value) := by
  unfold takeBest
  cases hc : c.exec with
  | false => simp
  | true =>
    cases hb : b.exec with
    | false => simp [hc]
    | true =>
      simp only [Bool.not_true, Bool.false_eq_true, if_false, Bool.or_true]
      rcases lt_trichotomy b.value c.value with h | h | h
      · simp only [h, if_true]
        simp [hb, le_of_lt h]
      · have h1 : ¬ b.value < c.value := by rw [h]; exact lt_irrefl _
        have h2 : ¬ b.value > c.value := by rw [h]; exact lt_irrefl _
        simp only [h1, h2, if_false]
        cases k <;> simp [h]
      · have h1 : ¬ b.value < c.value := not_lt.mpr (le_of_lt h)
        simp only [h1, if_false, h, if_true]
        simp [hc, le_of_lt h]

theorem bestOf_cons (b c : Cand) (cs : List Cand) (ts : List Bool) :
    bestOf b (c :: cs) ts = bestOf (takeBest b c (ts.headD false)) cs ts.tail := by
  cases ts <;> rfl

theorem bestOf_spec : ∀ (cs : List Cand) (b : Cand) (ts : List Bool),
    ((bestOf b cs ts).exec = true ↔ (b.exec = true ∨ ∃ c ∈ cs, c.exec = true)) ∧
    (b.exec = true → (bestOf b cs ts).value ≤ b.value) ∧
    (∀ c ∈ cs, c.exec = true → (bestOf b cs ts).value ≤ c.value) ∧
    (((bestOf b cs ts).value = b.value ∧ (bestOf b cs ts).tag = b.tag ∧
        (bestOf b cs ts).exec = b.exec) ∨
      ∃ c ∈ cs, c.exec = true ∧ c.value = (bestOf b cs ts).value ∧
        c.tag = (bestOf b cs ts).tag) := by
  intro cs
  induction cs with
  | nil =>
    intro b ts
    simp [bestOf]
  | cons c cs ih =>
    intro b ts
    rw [bestOf_cons]
    obtain ⟨i1, i2, i3, i4⟩ := ih (takeBest b c (ts.headD false)) ts.tail
    obtain ⟨t1, t2, t3, t4⟩ := takeBest_spec b c (ts.headD false)
    refine ⟨?_, ?_, ?_, ?_⟩
    · rw [i1, t1]
      simp only [Bool.or_eq_true, List.mem_cons, exists_eq_or_imp, or_assoc]
    · intro hb
      exact le_trans (i2 (by rw [t1, hb]; rfl)) (t3 hb)
    · intro d hd hde
      rcases List.mem_cons.mp hd with rfl | hd
      · exact le_trans (i2 (by rw [t1, hde]; simp)) (t4 hde)
      · exact i3 d hd hde
    · rcases i4 with ⟨hv, ht, he⟩ | ⟨d, hd, hde, hdv, hdt⟩
      · rcases t2 with ⟨hv', ht', he'⟩ | ⟨hv', ht', he'⟩
        · exact Or.inl ⟨hv.trans hv', ht.trans ht', he.trans he'⟩
        · exact Or.inr ⟨c, List.mem_cons_self .., he', (hv.trans hv').symm, (ht.trans ht').symm⟩
      · exact Or.inr ⟨d, List.mem_cons_of_mem _ hd, hde, hdv, hdt⟩

theorem best_exec_iff (cs : List Cand) (ts : List Bool) :
    (bestOf notExecutable cs ts).exec = true ↔ ∃ c ∈ cs, c.exec = true := by
  rw [(bestOf_spec cs notExecutable ts).1]
  simp [notExecutable]

theorem best_is_min (cs : List Cand) (ts : List Bool) (c : Cand)
    (hc : c ∈ cs) (he : c.exec = true) : (bestOf notExecutable cs ts).value ≤ c.value :=
  (bestOf_spec cs notExecutable ts).2.2.1 c hc he

theorem best_attained (cs : List Cand) (ts : List Bool)
    (h : (bestOf notExecutable cs ts).exec = true) :
    ∃ c ∈ cs, c.exec = true ∧ c.value = (bestOf notExecutable cs ts).value ∧
      c.tag = (bestOf notExecutable cs ts).tag := by
  rcases (bestOf_spec cs notExecutable ts).2.2.2 with ⟨-, -, he⟩ | h'
  · rw [he] at h
    simp [notExecutable] at h
  · exact h'

end NR.Proofs.Gen
