/-
  Proofs for NR.Group: a units move is all-or-nothing when the executed members are undone last-in-first-out.
-/
import NR.Group
import NR.Proofs.Engine
namespace NR.Proofs.Group
open NR.Engine NR.Group

variable {S σ τ : Type} [DecidableEq S]

open NR.Proofs.Engine

/-! ### List facts -/

omit [DecidableEq S] in
/-- Keeping the part in front of the first stop satisfying `q` and dropping the stops satisfying `q` from the rest is
the same as dropping them from the whole list. -/
theorem take_findIdx_filter (q : S → Bool) (l : List S) :
    l.take ((l.findIdx? q).getD l.length) ++
        (l.drop ((l.findIdx? q).getD l.length)).filter (fun s => !q s) =
      l.filter (fun s => !q s) := by
  induction l with
  | nil => simp
  | cons a t ih =>
    rw [List.findIdx?_cons]
    cases hq : q a with
    | true => simp [hq]
    | false =>
      have hk : (Option.map (fun i => i + 1) (List.findIdx? q t)).getD (a :: t).length =
          (List.findIdx? q t).getD t.length + 1 := by
        cases List.findIdx? q t <;> simp
      simp only [Bool.false_eq_true, if_false, hk, List.take_succ_cons, List.drop_succ_cons,
        List.cons_append]
      rw [ih, List.filter_cons]
      simp [hq]

omit [DecidableEq S] in
theorem routes_of_cachedObs (routes : List (List S)) (vals : S → σ) :
    (cachedObs routes vals).map (fun r => r.map Prod.fst) = routes := by
  unfold cachedObs
  rw [List.map_map]
  conv => rhs; rw [← List.map_id routes]
  apply List.map_congr_left
  intro r _
  simp [List.map_map, Function.comp_def]

omit [DecidableEq S] in
theorem routes_of_mobs (a b : MState S σ τ) (h : mobs a = mobs b) : a.routes = b.routes := by
  have h1 : cachedObs a.routes a.vals = cachedObs b.routes b.vals := congrArg Prod.fst h
  rw [← routes_of_cachedObs a.routes a.vals, ← routes_of_cachedObs b.routes b.vals, h1]

/-! ### One operation -/

theorem change_true_route (e : Eng S σ) (init : σ) (pre old new : List S) (vals : S → σ)
    (vs : VState S σ) (d : Bool) (h : change e init pre old new vals = (vs, true, d)) :
    vs.route = pre ++ new := by
  rcases hp : prop e (valAfter e init pre) new vals with ⟨vals', b⟩
  cases b with
  | true =>
    rw [change_eq_true e init pre old new vals vals' hp] at h
    simp only [Prod.mk.injEq] at h
    rw [← h.1]
  | false =>
    rcases hq : prop e (valAfter e init pre) old vals' with ⟨vals'', b'⟩
    rw [change_eq_false e init pre old new vals vals' vals'' b' hp hq] at h
    simp at h

/-- An accepted operation relinks the route as asked. -/
theorem applyOp_true_routes (m : Model S σ τ) (st st' : MState S σ τ) (op : Op S)
    (h : applyOp m st op = (st', true)) :
    ∃ r, st.routes[op.v]? = some r ∧ st'.routes = st.routes.set op.v (r.take op.k ++ op.new) := by
  rcases hr : st.routes[op.v]? with _ | r
  · simp [applyOp, hr] at h
  rcases hi : m.inits[op.v]? with _ | init
  · simp [applyOp, hr, hi] at h
  rcases hc : change m.eng init (r.take op.k) (r.drop op.k) op.new st.vals with ⟨vs, res, done⟩
  rw [applyOp_eq m st op r init vs res done hr hi hc] at h
  simp only [Prod.mk.injEq] at h
  obtain ⟨rfl, rfl⟩ := h
  exact ⟨r, rfl, by rw [change_true_route _ _ _ _ _ _ _ _ hc]⟩

/-- An operation whose whole new route passes every exact check is accepted. -/
theorem applyOp_accept (m : Model S σ τ) (st : MState S σ τ) (op : Op S) (r : List S) (init : σ)
    (hr : st.routes[op.v]? = some r) (hi : m.inits[op.v]? = some init)
    (hok : AllOk m.eng init (r.take op.k ++ op.new)) : (applyOp m st op).2 = true := by
  have h2 := ((allOk_append ..).mp hok).2
  have hp := prop_of_allOk m.eng _ op.new st.vals h2
  rcases hq : prop m.eng (valAfter m.eng init (r.take op.k)) op.new st.vals with ⟨vals', b⟩
  rw [hq] at hp
  simp only at hp
  subst hp
  rw [applyOp_eq m st op r init _ _ _ hr hi (change_eq_true _ _ _ _ _ _ _ hq)]

/-! ### Un-planning the most recent member -/

/-- An operation that puts back the routes of a state satisfying the invariant is accepted, from any state satisfying
the invariant, and gives exactly those routes. -/
theorem apply_restore (m : Model S σ τ) (sp st : MState S σ τ) (op : Op S) (rn : List S)
    (hsp : MInv m sp) (hst : MInv m st) (hstr : st.routes[op.v]? = some rn)
    (hset : st.routes.set op.v (rn.take op.k ++ op.new) = sp.routes) :
    (applyOp m st op).2 = true ∧ MInv m (applyOp m st op).1 ∧
      (applyOp m st op).1.routes = sp.routes := by
  obtain ⟨hlen, hnd, hall, _⟩ := hsp
  obtain ⟨hv, _⟩ := List.getElem?_eq_some_iff.mp hstr
  have hvp : op.v < sp.routes.length := by rw [← hset]; simpa using hv
  have hv' : op.v < m.inits.length := hlen ▸ hvp
  have hi : m.inits[op.v]? = some m.inits[op.v] := List.getElem?_eq_getElem hv'
  have hrp : sp.routes[op.v] = rn.take op.k ++ op.new := by
    simp [← hset]
  have hadm : Admissible st op := by
    unfold Admissible
    rw [hstr]
    dsimp only
    rw [hset]
    exact hnd
  have hacc := applyOp_accept m st op rn _ hstr hi (by rw [← hrp]; exact (hall _ hvp hv').2)
  refine ⟨hacc, applyOp_inv m st _ hst hadm, ?_⟩
  obtain ⟨r', hr', hres⟩ := applyOp_true_routes m st _ op (Prod.ext rfl hacc)
  rw [hstr] at hr'
  cases hr'
  rw [hres, hset]

/-- Un-planning the member that was executed last — from ANY state that satisfies the invariant and has the routes the
member's move produced — is accepted and gives back the routes from before the member's move. -/
theorem undo_one (m : Model S σ τ) (sp sn st : MState S σ τ) (mb : Member S)
    (hsp : MInv m sp) (hins : IsInsertion sp mb) (happ : applyOp m sp mb.op = (sn, true))
    (hst : MInv m st) (hroutes : st.routes = sn.routes) :
    (applyOp m st (removeOp st mb.op.v mb.ins)).2 = true ∧
      MInv m (applyOp m st (removeOp st mb.op.v mb.ins)).1 ∧
      (applyOp m st (removeOp st mb.op.v mb.ins)).1.routes = sp.routes := by
  obtain ⟨r, hr, hsn⟩ := applyOp_true_routes m sp sn mb.op happ
  obtain ⟨_, _, hmatch⟩ := hins
  rw [hr] at hmatch
  obtain ⟨hfilter, _, _⟩ := hmatch
  obtain ⟨hv, hrv⟩ := List.getElem?_eq_some_iff.mp hr
  -- the route of the vehicle in `st`
  have hstr : st.routes[mb.op.v]? = some (r.take mb.op.k ++ mb.op.new) := by
    rw [hroutes, hsn]; simp [hv]
  -- the un-plan operation
  have hop : removeOp st mb.op.v mb.ins =
      ⟨mb.op.v, ((r.take mb.op.k ++ mb.op.new).findIdx? (fun s => mb.ins.contains s)).getD
          (r.take mb.op.k ++ mb.op.new).length,
        ((r.take mb.op.k ++ mb.op.new).drop
          (((r.take mb.op.k ++ mb.op.new).findIdx? (fun s => mb.ins.contains s)).getD
            (r.take mb.op.k ++ mb.op.new).length)).filter (fun s => !mb.ins.contains s)⟩ := by
    simp only [removeOp, hstr]
  have hnewroute := take_findIdx_filter (fun s => mb.ins.contains s) (r.take mb.op.k ++ mb.op.new)
  rw [hfilter] at hnewroute
  have hset : st.routes.set mb.op.v r = sp.routes := by
    rw [hroutes, hsn, List.set_set, ← hrv, List.set_getElem_self]
  rw [hop]
  refine apply_restore m sp st _ _ hsp hst hstr ?_
  dsimp only
  rw [hnewroute, hset]

/-! ### The chain of executed members -/

/-- `done` (most recent first) was executed from `st0` and led to `st`: every member move was an insertion in the state
it was applied to, was accepted, and that state satisfied the invariant. -/
def Chain (m : Model S σ τ) (st0 : MState S σ τ) : List (Member S) → MState S σ τ → Prop
  | [], st => st = st0
  | mb :: done, st => ∃ sp, MInv m sp ∧ Chain m st0 done sp ∧ IsInsertion sp mb ∧
      applyOp m sp mb.op = (st, true)

/-- Last-in-first-out rollback of a chain always goes through, from any state with the routes of its end. -/
theorem undoAll_chain (m : Model S σ τ) (st0 : MState S σ τ) (done : List (Member S))
    (sn st : MState S σ τ) (hchain : Chain m st0 done sn) (hst : MInv m st)
    (hroutes : st.routes = sn.routes) :
    (undoAll m st done).2 = true ∧ MInv m (undoAll m st done).1 ∧
      (undoAll m st done).1.routes = st0.routes := by
  induction done generalizing sn st with
  | nil =>
    have : sn = st0 := hchain
    subst this
    exact ⟨rfl, hst, hroutes⟩
  | cons mb rest ih =>
    obtain ⟨sp, hsp, hch, hins, happ⟩ := hchain
    obtain ⟨hacc, hinv1, hr1⟩ := undo_one m sp sn st mb hsp hins happ hst hroutes
    rcases hu : applyOp m st (removeOp st mb.op.v mb.ins) with ⟨s1, b⟩
    rw [hu] at hacc hinv1 hr1
    dsimp only at hacc hinv1 hr1
    subst hacc
    simp only [undoAll, hu]
    exact ih sp s1 hch hinv1 hr1

theorem execGroup_ok_gen (m : Model S σ τ) (st st' : MState S σ τ) (done mbs : List (Member S))
    (u lifo : Bool) (hinv : MInv m st) (hadm : InsertionGroup m st mbs)
    (h : execGroup m lifo st done mbs = (st', true, u)) : MInv m st' := by
  induction mbs generalizing st done with
  | nil =>
    simp only [execGroup, Prod.mk.injEq] at h
    rw [← h.1]; exact hinv
  | cons mb rest ih =>
    obtain ⟨hins, hrest⟩ := hadm
    have hinv1 := applyOp_inv m st mb.op hinv hins.1
    rcases ha : applyOp m st mb.op with ⟨s1, b⟩
    rw [ha] at hinv1 hrest
    cases b with
    | true =>
      simp only [execGroup, ha] at h
      exact ih s1 (mb :: done) hinv1 hrest h
    | false =>
      simp [execGroup, ha] at h

theorem execGroup_rejected_gen (m : Model S σ τ) (st0 st st' : MState S σ τ)
    (done mbs : List (Member S)) (u : Bool)
    (hinv0 : MInv m st0) (hchain : Chain m st0 done st)
    (hinv : MInv m st) (hadm : InsertionGroup m st mbs)
    (h : execGroup m true st done mbs = (st', false, u)) :
    u = true ∧ mobs st' = mobs st0 ∧ MInv m st' := by
  induction mbs generalizing st done with
  | nil => simp [execGroup] at h
  | cons mb rest ih =>
    obtain ⟨hins, hrest⟩ := hadm
    obtain ⟨hinv1, hfail⟩ := applyOp_spec m st mb.op hinv hins.1
    rcases ha : applyOp m st mb.op with ⟨s1, b⟩
    rw [ha] at hinv1 hrest hfail
    cases b with
    | true =>
      simp only [execGroup, ha] at h
      exact ih s1 (mb :: done) ⟨st, hinv, hchain, hins, ha⟩ hinv1 hrest h
    | false =>
      have hroutes : s1.routes = st.routes := routes_of_mobs _ _ (hfail rfl)
      obtain ⟨hu, hinvu, hru⟩ := undoAll_chain m st0 done st s1 hchain hinv1 hroutes
      simp only [execGroup, ha, if_true, Prod.mk.injEq] at h
      obtain ⟨rfl, _, rfl⟩ := h
      refine ⟨hu, ?_, hinvu⟩
      rw [mobs_of_minv m _ hinvu, mobs_of_minv m _ hinv0, hru]

/-- A units move that plans every member leaves the invariant intact. -/
theorem execGroup_ok (m : Model S σ τ) (st st' : MState S σ τ) (mbs : List (Member S)) (u : Bool)
    (hinv : MInv m st) (hadm : InsertionGroup m st mbs)
    (h : execGroup m true st [] mbs = (st', true, u)) : MInv m st' :=
  execGroup_ok_gen m st st' [] mbs u true hinv hadm h

/-- All-or-nothing: when some member is rejected, the last-in-first-out rollback always goes through (the Go's error
branch "failed to unplan" is unreachable), and the observable solution — routes, cached values of every planned stop,
score — is exactly what it was before the move; the invariant still holds. -/
theorem execGroup_rejected (m : Model S σ τ) (st st' : MState S σ τ) (mbs : List (Member S)) (u : Bool)
    (hinv : MInv m st) (hadm : InsertionGroup m st mbs)
    (h : execGroup m true st [] mbs = (st', false, u)) :
    u = true ∧ mobs st' = mobs st ∧ MInv m st' :=
  execGroup_rejected_gen m st st st' [] mbs u hinv rfl hinv hadm h

/-- Undoing in EXECUTION order is not safe: members a (+10) and b (−5) on a resource that must stay within [0, 10];
the third member is rejected; taking a off while b is still there is refused — the rollback fails and the unit is left
half planned. With the last-in-first-out order the same move is rolled back completely. -/
def trapModel : Model Nat Int Unit :=
  { eng := { step := fun p s => p + (if s = 1 then 10 else if s = 2 then -5 else if s = 3 then 7 else 0),
             ok := fun v _ => decide (0 ≤ v ∧ v ≤ 10) },
    inits := [0], scoreOf := fun _ => () }

def trapStart : MState Nat Int Unit := { routes := [[]], vals := fun _ => 0, score := () }

def trapOps : List (Member Nat) := [⟨⟨0, 0, [1]⟩, [1]⟩, ⟨⟨0, 1, [2]⟩, [2]⟩, ⟨⟨0, 2, [3]⟩, [3]⟩]

theorem fifo_rollback_counterexample :
    (execGroup trapModel false trapStart [] trapOps).2 = (false, false) ∧
    (execGroup trapModel false trapStart [] trapOps).1.routes = [[1, 2]] ∧
    (execGroup trapModel true trapStart [] trapOps).2 = (false, true) ∧
    (execGroup trapModel true trapStart [] trapOps).1.routes = [[]] ∧
    InsertionGroup trapModel trapStart trapOps := by
  refine ⟨by decide, by decide, by decide, by decide, ?_⟩
  have h0 : trapStart.routes = [[]] := rfl
  have h1 : (applyOp trapModel trapStart ⟨0, 0, [1]⟩).1.routes = [[1]] := by decide
  have h2 : (applyOp trapModel (applyOp trapModel trapStart ⟨0, 0, [1]⟩).1 ⟨0, 1, [2]⟩).1.routes =
      [[1, 2]] := by decide
  unfold trapOps
  simp only [InsertionGroup, and_true]
  refine ⟨?_, ?_, ?_⟩
  · simp [IsInsertion, Admissible, h0]
  · simp [IsInsertion, Admissible, h1]
  · simp [IsInsertion, Admissible, h2]

/-! ### un-plan of a unit of units -/

omit [DecidableEq S] in
theorem findIdx_getD_le (q : S → Bool) (l : List S) : (l.findIdx? q).getD l.length ≤ l.length := by
  induction l with
  | nil => simp
  | cons a t ih =>
    rw [List.findIdx?_cons]
    cases hq : q a with
    | true => simp
    | false =>
      simp only [Bool.false_eq_true, if_false]
      cases h : List.findIdx? q t with
      | none => simp
      | some i => rw [h] at ih; simp at ih ⊢; omega

omit [DecidableEq S] in
/-- Replacing one route by a sublist of it gives a sublist of all stops. -/
theorem flatten_set_sublist (L : List (List S)) (v : Nat) (r r' : List S) (h : L[v]? = some r)
    (hs : r'.Sublist r) : (L.set v r').flatten.Sublist L.flatten := by
  obtain ⟨hv, hrv⟩ := List.getElem?_eq_some_iff.mp h
  rw [List.set_eq_take_append_cons_drop, if_pos hv]
  conv => rhs; rw [← List.take_append_drop v L, List.drop_eq_getElem_cons hv, hrv]
  simp only [List.flatten_append, List.flatten_cons]
  exact List.Sublist.append (List.Sublist.refl _) (List.Sublist.append hs (List.Sublist.refl _))

/-- Taking a member's stops off an existing route is always admissible. -/
theorem removeOp_adm (st : MState S σ τ) (v : Nat) (ins : List S) (r : List S)
    (hnd : st.routes.flatten.Nodup) (hr : st.routes[v]? = some r) :
    Admissible st (removeOp st v ins) := by
  have hop : removeOp st v ins =
      ⟨v, (r.findIdx? (fun s => ins.contains s)).getD r.length,
        (r.drop ((r.findIdx? (fun s => ins.contains s)).getD r.length)).filter
          (fun s => !ins.contains s)⟩ := by
    simp only [removeOp, hr]
  rw [hop]
  unfold Admissible
  dsimp only
  rw [hr]
  dsimp only
  rw [take_findIdx_filter (fun s => ins.contains s) r]
  exact List.Nodup.sublist (flatten_set_sublist _ _ _ _ hr List.filter_sublist) hnd

theorem removeOp_k_le (st : MState S σ τ) (v : Nat) (ins : List S) (r : List S)
    (hr : st.routes[(removeOp st v ins).v]? = some r) : (removeOp st v ins).k ≤ r.length := by
  have hv : (removeOp st v ins).v = v := by
    unfold removeOp; split <;> rfl
  rw [hv] at hr
  simp only [removeOp, hr]
  exact findIdx_getD_le _ _

/-- Un-planning one member, from a state satisfying the invariant: the invariant is kept, and a rejected un-plan
changes nothing observable (a vehicle that does not exist is rejected without touching anything). -/
theorem removeOp_spec (m : Model S σ τ) (st : MState S σ τ) (v : Nat) (ins : List S)
    (hinv : MInv m st) :
    MInv m (applyOp m st (removeOp st v ins)).1 ∧
      ((applyOp m st (removeOp st v ins)).2 = false →
        mobs (applyOp m st (removeOp st v ins)).1 = mobs st) := by
  rcases hr : st.routes[v]? with _ | r
  · have hop : removeOp st v ins = ⟨v, 0, []⟩ := by simp only [removeOp, hr]
    have happ : applyOp m st (removeOp st v ins) = (st, false) := by
      rw [hop]; simp only [applyOp, hr]
    rw [happ]
    exact ⟨hinv, fun _ => rfl⟩
  · exact applyOp_spec m st _ hinv (removeOp_adm st v ins r hinv.2.1 hr)

/-- `done` (most recent first) are the restoring operations of accepted operations that led from `st0` to `st`, each
applied to a state satisfying the invariant. -/
def RChain (m : Model S σ τ) (st0 : MState S σ τ) : List (Op S) → MState S σ τ → Prop
  | [], st => st = st0
  | op :: done, st => ∃ sp rm r, MInv m sp ∧ RChain m st0 done sp ∧ sp.routes[rm.v]? = some r ∧
      rm.k ≤ r.length ∧ op = restoreOp sp rm ∧ applyOp m sp rm = (st, true)

/-- Restoring what the most recent accepted operation took off — from ANY state that satisfies the invariant and has
the routes that operation produced — is accepted and gives back the routes from before. -/
theorem redo_one (m : Model S σ τ) (sp sn st : MState S σ τ) (rm : Op S) (r : List S)
    (hsp : MInv m sp) (hr : sp.routes[rm.v]? = some r) (hk : rm.k ≤ r.length)
    (happ : applyOp m sp rm = (sn, true)) (hst : MInv m st) (hroutes : st.routes = sn.routes) :
    (applyOp m st (restoreOp sp rm)).2 = true ∧ MInv m (applyOp m st (restoreOp sp rm)).1 ∧
      (applyOp m st (restoreOp sp rm)).1.routes = sp.routes := by
  obtain ⟨r', hr', hsn⟩ := applyOp_true_routes m sp sn rm happ
  rw [hr] at hr'
  cases hr'
  obtain ⟨hv, hrv⟩ := List.getElem?_eq_some_iff.mp hr
  have hstr : st.routes[rm.v]? = some (r.take rm.k ++ rm.new) := by
    rw [hroutes, hsn]; simp [hv]
  have hop : restoreOp sp rm = ⟨rm.v, rm.k, r.drop rm.k⟩ := by
    simp only [restoreOp, hr, Option.getD_some]
  rw [hop]
  refine apply_restore m sp st _ _ hsp hst hstr ?_
  dsimp only
  have htake : (r.take rm.k ++ rm.new).take rm.k = r.take rm.k := by
    rw [List.take_append_of_le_length (by rw [List.length_take]; omega), List.take_take]
    simp
  rw [htake, List.take_append_drop, hroutes, hsn, List.set_set, ← hrv, List.set_getElem_self]

/-- Last-in-first-out re-planning of a chain always goes through, from any state with the routes of its end. -/
theorem redoAll_chain (m : Model S σ τ) (st0 : MState S σ τ) (done : List (Op S))
    (sn st : MState S σ τ) (hchain : RChain m st0 done sn) (hst : MInv m st)
    (hroutes : st.routes = sn.routes) :
    (redoAll m st done).2 = true ∧ MInv m (redoAll m st done).1 ∧
      (redoAll m st done).1.routes = st0.routes := by
  induction done generalizing sn st with
  | nil =>
    have : sn = st0 := hchain
    subst this
    exact ⟨rfl, hst, hroutes⟩
  | cons op rest ih =>
    obtain ⟨sp, rm, r, hsp, hch, hr, hk, rfl, happ⟩ := hchain
    obtain ⟨hacc, hinv1, hr1⟩ := redo_one m sp sn st rm r hsp hr hk happ hst hroutes
    rcases hu : applyOp m st (restoreOp sp rm) with ⟨s1, b⟩
    rw [hu] at hacc hinv1 hr1
    dsimp only at hacc hinv1 hr1
    subst hacc
    simp only [redoAll, hu]
    exact ih sp s1 hch hinv1 hr1

theorem unplanGroup_ok_gen (m : Model S σ τ) (st st' : MState S σ τ) (done : List (Op S))
    (mbs : List (Nat × List S)) (u : Bool) (hinv : MInv m st)
    (h : unplanGroup m st done mbs = (st', true, u)) : MInv m st' := by
  induction mbs generalizing st done with
  | nil =>
    simp only [unplanGroup, Prod.mk.injEq] at h
    rw [← h.1]; exact hinv
  | cons mb rest ih =>
    obtain ⟨v, ins⟩ := mb
    have hinv1 := (removeOp_spec m st v ins hinv).1
    rcases ha : applyOp m st (removeOp st v ins) with ⟨s1, b⟩
    rw [ha] at hinv1
    cases b with
    | true =>
      simp only [unplanGroup, ha] at h
      exact ih s1 _ hinv1 h
    | false =>
      simp [unplanGroup, ha] at h

theorem unplanGroup_rejected_gen (m : Model S σ τ) (st0 st st' : MState S σ τ)
    (done : List (Op S)) (mbs : List (Nat × List S)) (u : Bool)
    (hinv0 : MInv m st0) (hchain : RChain m st0 done st) (hinv : MInv m st)
    (h : unplanGroup m st done mbs = (st', false, u)) :
    u = true ∧ mobs st' = mobs st0 ∧ MInv m st' := by
  induction mbs generalizing st done with
  | nil => simp [unplanGroup] at h
  | cons mb rest ih =>
    obtain ⟨v, ins⟩ := mb
    obtain ⟨hinv1, hfail⟩ := removeOp_spec m st v ins hinv
    rcases ha : applyOp m st (removeOp st v ins) with ⟨s1, b⟩
    rw [ha] at hinv1 hfail
    cases b with
    | true =>
      simp only [unplanGroup, ha] at h
      obtain ⟨r, hr, _⟩ := applyOp_true_routes m st s1 _ ha
      have hch1 : RChain m st0 (restoreOp st (removeOp st v ins) :: done) s1 :=
        ⟨st, removeOp st v ins, r, hinv, hchain, hr, removeOp_k_le st v ins r hr, rfl, ha⟩
      exact ih s1 _ hch1 hinv1 h
    | false =>
      have hroutes : s1.routes = st.routes := routes_of_mobs _ _ (hfail rfl)
      obtain ⟨hu, hinvu, hru⟩ := redoAll_chain m st0 done st s1 hchain hinv1 hroutes
      simp only [unplanGroup, ha, Prod.mk.injEq] at h
      obtain ⟨rfl, _, rfl⟩ := h
      refine ⟨hu, ?_, hinvu⟩
      rw [mobs_of_minv m _ hinvu, mobs_of_minv m _ hinv0, hru]

/-- A rejected group un-plan restores everything: the rollback always goes through, routes, cached values of every
planned stop and score are what they were. -/
theorem unplanGroup_rejected (m : Model S σ τ) (st st' : MState S σ τ) (mbs : List (Nat × List S)) (u : Bool)
    (hinv : MInv m st) (h : unplanGroup m st [] mbs = (st', false, u)) :
    u = true ∧ mobs st' = mobs st ∧ MInv m st' :=
  unplanGroup_rejected_gen m st st st' [] mbs u hinv rfl hinv h

theorem unplanGroup_ok (m : Model S σ τ) (st st' : MState S σ τ) (mbs : List (Nat × List S)) (u : Bool)
    (hinv : MInv m st) (h : unplanGroup m st [] mbs = (st', true, u)) : MInv m st' :=
  unplanGroup_ok_gen m st st' [] mbs u hinv h

end NR.Proofs.Group

#print axioms NR.Proofs.Group.unplanGroup_rejected
#print axioms NR.Proofs.Group.unplanGroup_ok
