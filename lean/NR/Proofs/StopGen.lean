/-
  NR.Proofs.StopGen — proofs for C09G (the hypothetical-route iterator yields the new route).
-/
import NR.StopGen
import Mathlib.Data.List.Basic
import Mathlib.Data.List.Nodup
import Mathlib.Data.List.GetD

namespace NR.Proofs.StopGen
open NR.StopGen

/-! ### Abbreviations -/

/-- gap of the `j`-th insertion -/
def g (ins : Ins) (j : Nat) : Nat := (ins.getD j (0, 0)).1
/-- stop of the `j`-th insertion -/
def x (ins : Ins) (j : Nat) : Nat := (ins.getD j (0, 0)).2
/-- `i`-th stop of the route -/
def rt (route : List Nat) (i : Nat) : Nat := route.getD i 0

theorem g_eq {ins : Ins} {j : Nat} (h : j < ins.length) : g ins j = ins[j].1 := by
  simp [g, h]
theorem x_eq {ins : Ins} {j : Nat} (h : j < ins.length) : x ins j = ins[j].2 := by
  simp [x, h]
theorem rt_eq {route : List Nat} {i : Nat} (h : i < route.length) : rt route i = route[i] := by
  simp [rt, h]

/-! ### Facts from `WF` -/

theorem g_mono {route : List Nat} {ins : Ins} (hwf : WF route ins) {j j' : Nat} (h : j ≤ j')
    (h' : j' < ins.length) : g ins j ≤ g ins j' := by
  obtain ⟨_, _, _, _, _, hp⟩ := hwf
  rcases Nat.eq_or_lt_of_le h with rfl | hlt
  · exact Nat.le_refl _
  · rw [g_eq (by omega), g_eq h']
    exact (List.pairwise_iff_getElem.mp hp) j j' (by omega) h' hlt

theorem g_range {route : List Nat} {ins : Ins} (hwf : WF route ins) {j : Nat} (h : j < ins.length) :
    1 ≤ g ins j ∧ g ins j < route.length := by
  obtain ⟨_, _, _, _, hm, _⟩ := hwf
  rw [g_eq h]
  exact (hm _ (List.getElem_mem h)).2

theorem x_notin {route : List Nat} {ins : Ins} (hwf : WF route ins) {j : Nat} (h : j < ins.length) :
    x ins j ∉ route := by
  obtain ⟨_, _, _, _, hm, _⟩ := hwf
  rw [x_eq h]
  exact (hm _ (List.getElem_mem h)).1

theorem x_inj {route : List Nat} {ins : Ins} (hwf : WF route ins) {j j' : Nat} (h : j < ins.length)
    (h' : j' < ins.length) (he : x ins j = x ins j') : j = j' := by
  obtain ⟨_, _, _, hnd, _, _⟩ := hwf
  rw [x_eq h, x_eq h'] at he
  have h1 : j < (ins.map (·.2)).length := by simpa using h
  have h2 : j' < (ins.map (·.2)).length := by simpa using h'
  have : (ins.map (·.2))[j] = (ins.map (·.2))[j'] := by simpa using he
  exact (List.Nodup.getElem_inj_iff hnd).mp this

theorem rt_mem {route : List Nat} {i : Nat} (h : i < route.length) : rt route i ∈ route := by
  rw [rt_eq h]; exact List.getElem_mem h

theorem rt_ne_x {route : List Nat} {ins : Ins} (hwf : WF route ins) {i j : Nat}
    (hi : i < route.length) (hj : j < ins.length) : rt route i ≠ x ins j := by
  intro he
  exact x_notin hwf hj (he ▸ rt_mem hi)

theorem rt_inj {route : List Nat} (hnd : route.Nodup) {i i' : Nat} (h : i < route.length)
    (h' : i' < route.length) (he : rt route i = rt route i') : i = i' := by
  rw [rt_eq h, rt_eq h'] at he
  exact (List.Nodup.getElem_inj_iff hnd).mp he

/-! ### `succ`, `planned`, `isLast` on route stops -/

theorem succ_getD : ∀ (route : List Nat), route.Nodup → ∀ i, i + 1 < route.length →
    succ route (route.getD i 0) = route.getD (i + 1) 0
  | [], _, i, h => by simp at h
  | [_], _, i, h => by simp at h
  | a :: b :: r, hnd, 0, _ => by simp [succ]
  | a :: b :: r, hnd, i + 1, h => by
    have hnd' : (b :: r).Nodup := (List.nodup_cons.mp hnd).2
    have hi : i + 1 < (b :: r).length := by simpa using h
    have ih := succ_getD (b :: r) hnd' i hi
    have hmem : (b :: r).getD i 0 ∈ (b :: r) := by
      have : i < (b :: r).length := by omega
      rw [List.getD_eq_getElem _ _ this]; exact List.getElem_mem this
    have hne : a ≠ (b :: r).getD i 0 := by
      intro he; exact (List.nodup_cons.mp hnd).1 (he ▸ hmem)
    have e1 : (a :: b :: r).getD (i + 1) 0 = (b :: r).getD i 0 := by simp
    have e2 : (a :: b :: r).getD (i + 1 + 1) 0 = (b :: r).getD (i + 1) 0 := by simp
    rw [e1, e2, ← ih]
    simp only [succ, if_neg hne]

theorem succ_rt {route : List Nat} (hnd : route.Nodup) {i : Nat} (h : i + 1 < route.length) :
    succ route (rt route i) = rt route (i + 1) := succ_getD route hnd i h

theorem planned_rt {route : List Nat} {i : Nat} (h : i < route.length) :
    planned route (rt route i) = true := by
  simp [planned, rt_mem h]

theorem planned_x {route : List Nat} {ins : Ins} (hwf : WF route ins) {j : Nat}
    (h : j < ins.length) : planned route (x ins j) = false := by
  simp [planned, x_notin hwf h]

theorem isLast_rt {route : List Nat} (hnd : route.Nodup) {i : Nat} (h : i < route.length) :
    isLast route (rt route i) = decide (i = route.length - 1) := by
  unfold isLast
  rw [rt_eq h, List.getLast?_eq_getElem?]
  have h' : route.length - 1 < route.length := by omega
  rw [List.getElem?_eq_getElem h']
  by_cases hi : i = route.length - 1
  · subst hi; simp
  · have : route[route.length - 1] ≠ route[i] := by
      intro he; exact hi ((List.Nodup.getElem_inj_iff hnd).mp he).symm
    simp [hi, this]

/-! ### The stop positions -/

theorem positions_length (route : List Nat) (ins : Ins) : (positions route ins).length = ins.length := by
  simp [positions]

theorem pos_eq (route : List Nat) (ins : Ins) {j : Nat} (h : j < ins.length) :
    posAt (positions route ins) j =
      ⟨if 0 < j ∧ g ins (j - 1) = g ins j then x ins (j - 1) else rt route (g ins j - 1),
       x ins j,
       if j + 1 < ins.length ∧ g ins (j + 1) = g ins j then x ins (j + 1) else rt route (g ins j)⟩ := by
  unfold posAt positions
  rw [List.getD_eq_getElem _ _ (by simpa using h)]
  simp only [List.getElem_map, List.getElem_range]
  rfl

theorem pos_stop (route : List Nat) (ins : Ins) {j : Nat} (h : j < ins.length) :
    (posAt (positions route ins) j).stop = x ins j := by rw [pos_eq route ins h]

theorem pos_prev (route : List Nat) (ins : Ins) {j : Nat} (h : j < ins.length) :
    (posAt (positions route ins) j).prev =
      if 0 < j ∧ g ins (j - 1) = g ins j then x ins (j - 1) else rt route (g ins j - 1) := by
  rw [pos_eq route ins h]

theorem pos_next (route : List Nat) (ins : Ins) {j : Nat} (h : j < ins.length) :
    (posAt (positions route ins) j).next =
      if j + 1 < ins.length ∧ g ins (j + 1) = g ins j then x ins (j + 1) else rt route (g ins j) := by
  rw [pos_eq route ins h]

/-! ### Blocks of the new route -/

/-- the insertions into gap `m` followed by route stop `m` -/
def block (route : List Nat) (ins : Ins) (m : Nat) : List Nat :=
  ((ins.filter (·.1 = m)).map (·.2)) ++ [rt route m]

/-- the new route along a list of route indices -/
def F (route : List Nat) (ins : Ins) (l : List Nat) : List Nat := l.flatMap (block route ins)

theorem splice_eq (route : List Nat) (ins : Ins) :
    splice route ins = F route ins (List.range route.length) := rfl

/-- the inserted stops from `j` on that go into the gap of `j` -/
def SB (ins : Ins) (j : Nat) : List Nat := ((ins.drop j).filter (·.1 = g ins j)).map (·.2)

theorem block_single (route : List Nat) (ins : Ins) (m : Nat)
    (h : ∀ j, j < ins.length → g ins j ≠ m) : block route ins m = [rt route m] := by
  have : ins.filter (·.1 = m) = [] := by
    rw [List.filter_eq_nil_iff]
    intro p hp
    obtain ⟨j, hj, rfl⟩ := List.getElem_of_mem hp
    have := h j hj
    rw [g_eq hj] at this
    simpa using this
  simp [block, this]

theorem filter_drop_of_lt (ins : Ins) (j m : Nat) (h : ∀ j', j' < j → j' < ins.length → g ins j' < m) :
    ins.filter (·.1 = m) = (ins.drop j).filter (·.1 = m) := by
  have : (ins.take j).filter (·.1 = m) = [] := by
    rw [List.filter_eq_nil_iff]
    intro p hp
    obtain ⟨j', hj', rfl⟩ := List.getElem_of_mem hp
    have hj'' : j' < j ∧ j' < ins.length := by
      have := hj'; rw [List.length_take] at this; omega
    have := h j' hj''.1 hj''.2
    rw [g_eq (by omega)] at this
    rw [List.getElem_take]
    simp; omega
  conv_lhs => rw [← List.take_append_drop j ins]
  rw [List.filter_append, this, List.nil_append]

theorem block_gap (route : List Nat) (ins : Ins) {j : Nat}
    (h : ∀ j', j' < j → j' < ins.length → g ins j' < g ins j) :
    block route ins (g ins j) = SB ins j ++ [rt route (g ins j)] := by
  unfold block SB
  rw [filter_drop_of_lt ins j (g ins j) h]

theorem SB_cons_same (ins : Ins) {j : Nat} (hj : j + 1 < ins.length) (hg : g ins (j + 1) = g ins j) :
    SB ins j = x ins j :: SB ins (j + 1) := by
  unfold SB
  have hj' : j < ins.length := by omega
  rw [List.drop_eq_getElem_cons hj', hg]
  generalize ins.drop (j + 1) = tl
  rw [List.filter_cons, x_eq hj']
  simp [g_eq hj']

theorem SB_single {route : List Nat} {ins : Ins} (hwf : WF route ins) {j : Nat} (hj : j < ins.length)
    (hg : j + 1 < ins.length → g ins (j + 1) ≠ g ins j) :
    SB ins j = [x ins j] := by
  unfold SB
  rw [List.drop_eq_getElem_cons hj]
  have h2 : (ins.drop (j + 1)).filter (·.1 = g ins j) = [] := by
    rw [List.filter_eq_nil_iff]
    intro p hp
    obtain ⟨j', hj', rfl⟩ := List.getElem_of_mem hp
    rw [List.length_drop] at hj'
    rw [List.getElem_drop]
    have hlt : j + 1 + j' < ins.length := by omega
    have hne := hg (by omega)
    have hm1 := g_mono hwf (show j ≤ j + 1 by omega) (show j + 1 < ins.length by omega)
    have hm2 := g_mono hwf (show j + 1 ≤ j + 1 + j' by omega) hlt
    rw [g_eq hlt] at hm2
    simp; omega
  rw [List.filter_cons, h2, x_eq hj]
  simp [g_eq hj]

theorem F_range'_succ (route : List Nat) (ins : Ins) (s m : Nat) :
    F route ins (List.range' s (m + 1)) = block route ins s ++ F route ins (List.range' (s + 1) m) := by
  simp [F, List.range'_succ]

theorem F_length (route : List Nat) (ins : Ins) (m : Nat) :
    (F route ins (List.range m)).length = m + (ins.filter (·.1 < m)).length := by
  induction m with
  | zero => simp [F]
  | succ m ih =>
    have hsplit : ∀ l : Ins, (l.filter (·.1 < m + 1)).length =
        (l.filter (·.1 < m)).length + (l.filter (·.1 = m)).length := by
      intro l
      induction l with
      | nil => simp
      | cons p l ihl =>
        simp only [List.filter_cons]
        by_cases h1 : p.1 < m
        · have h2 : p.1 < m + 1 := by omega
          have h3 : ¬ p.1 = m := by omega
          simp [h1, h2, h3, ihl]; omega
        · by_cases h3 : p.1 = m
          · simp [h3, ihl]; omega
          · have h2 : ¬ p.1 < m + 1 := by omega
            simp [h1, h2, h3, ihl]
    unfold F at ih ⊢
    rw [List.range_succ, List.flatMap_append, List.length_append, ih, hsplit]
    simp [block]; omega

/-! ### The branches of `step` -/

section Step
variable (route : List Nat) (ps : List Pos) (a j : Nat) (eal : Bool)

theorem step_A_hit (h : a = (posAt ps j).prev) :
    step route ps ⟨a, j, true, eal, false⟩ = (some a, ⟨(posAt ps j).stop, j, false, eal, false⟩) := by
  simp only [step, Bool.false_eq_true, if_false, if_true, if_pos h]

theorem step_A_miss (h : a ≠ (posAt ps j).prev) :
    step route ps ⟨a, j, true, eal, false⟩ = (some a, ⟨succ route a, j, true, eal, false⟩) := by
  simp only [step, Bool.false_eq_true, if_false, if_true, if_neg h]

theorem step_B_stop (hj : j < ps.length) (h : a = (posAt ps j).stop) :
    step route ps ⟨a, j, false, eal, false⟩ = (some a, ⟨(posAt ps j).next, j + 1, false, eal, false⟩) := by
  simp only [step, Bool.false_eq_true, if_false, if_pos hj, if_pos h]

theorem step_B_prev (hj : j < ps.length) (h : a ≠ (posAt ps j).stop) (h2 : a = (posAt ps j).prev) :
    step route ps ⟨a, j, false, eal, false⟩ = (some a, ⟨(posAt ps j).stop, j + 1, false, eal, false⟩) := by
  simp only [step, Bool.false_eq_true, if_false, if_pos hj, if_neg h, if_pos h2]

theorem step_B_unplanned (hj : j < ps.length) (h : a ≠ (posAt ps j).stop) (h2 : a ≠ (posAt ps j).prev)
    (h3 : planned route a = false) :
    step route ps ⟨a, j, false, eal, false⟩ = (some a, ⟨(posAt ps (j - 1)).next, j, false, eal, false⟩) := by
  simp only [step, Bool.false_eq_true, if_false, if_pos hj, if_neg h, if_neg h2, h3, Bool.not_false, if_true]

theorem step_B_succ (hj : j < ps.length) (h : a ≠ (posAt ps j).stop) (h2 : a ≠ (posAt ps j).prev)
    (h3 : planned route a = true) (h4 : isLast route a = false) :
    step route ps ⟨a, j, false, eal, false⟩ = (some a, ⟨succ route a, j, false, eal, false⟩) := by
  simp only [step, Bool.false_eq_true, if_false, if_pos hj, if_neg h, if_neg h2, h3, h4, Bool.not_true]

theorem step_C_unplanned (hj : ¬ j < ps.length) (h3 : planned route a = false) :
    step route ps ⟨a, j, false, eal, false⟩ = (some a, ⟨(posAt ps (j - 1)).next, j, false, eal, false⟩) := by
  simp only [step, Bool.false_eq_true, if_false, if_neg hj, h3, Bool.not_false, if_true]

theorem step_C_last (hj : ¬ j < ps.length) (h3 : planned route a = true) (h4 : isLast route a = true) :
    step route ps ⟨a, j, false, true, false⟩ = (some a, ⟨a, j, false, false, true⟩) := by
  simp only [step, Bool.false_eq_true, if_false, if_neg hj, h3, h4, Bool.not_true, if_true]

theorem step_C_succ (hj : ¬ j < ps.length) (h3 : planned route a = true) (h4 : isLast route a = false) :
    step route ps ⟨a, j, false, true, false⟩ = (some a, ⟨succ route a, j, false, true, false⟩) := by
  simp only [step, Bool.false_eq_true, if_false, if_neg hj, h3, h4, Bool.not_true, if_true]

theorem step_C_end (hj : ¬ j < ps.length) (h3 : planned route a = true) :
    step route ps ⟨a, j, false, false, false⟩ = (some a, ⟨a, j, false, false, true⟩) := by
  simp only [step, Bool.false_eq_true, if_false, if_neg hj, h3, Bool.not_true]

theorem step_done (st : St) (h : st.endReached = true) : step route ps st = (none, st) := by
  simp only [step, h, if_true]

end Step

/-! ### The invariant -/

/-- index in `route` of the last stop yielded -/
def upto (route : List Nat) (ins : Ins) (eal : Bool) : Nat :=
  if eal then route.length - 1 else g ins (ins.length - 1)

/-- what remains to be yielded when the iterator is about to yield route stop `i` -/
def RemR (route : List Nat) (ins : Ins) (eal : Bool) (i : Nat) : List Nat :=
  rt route i :: F route ins (List.range' (i + 1) (upto route ins eal - i))

theorem ins_pos {route : List Nat} {ins : Ins} (hwf : WF route ins) : 0 < ins.length := by
  obtain ⟨_, _, hne, _⟩ := hwf
  exact List.length_pos_of_ne_nil hne

theorem upto_lt {route : List Nat} {ins : Ins} (hwf : WF route ins) (eal : Bool) :
    upto route ins eal < route.length := by
  unfold upto
  cases eal
  · simp only [Bool.false_eq_true, if_false]
    exact (g_range hwf (by have := ins_pos hwf; omega)).2
  · have := hwf.2.1
    simp only [if_true]; omega

theorem g_le_upto {route : List Nat} {ins : Ins} (hwf : WF route ins) (eal : Bool) {j : Nat}
    (hj : j < ins.length) : g ins j ≤ upto route ins eal := by
  unfold upto
  cases eal
  · simp only [Bool.false_eq_true, if_false]
    exact g_mono hwf (by omega) (by omega)
  · have := (g_range hwf hj).2
    simp only [if_true]; omega

theorem RemR_last (route : List Nat) (ins : Ins) (eal : Bool) {i : Nat}
    (h : upto route ins eal ≤ i) : RemR route ins eal i = [rt route i] := by
  unfold RemR
  have : upto route ins eal - i = 0 := by omega
  rw [this]; simp [F]

theorem RemR_step_single (route : List Nat) (ins : Ins) (eal : Bool) {i : Nat}
    (h : i < upto route ins eal) (hg : ∀ j, j < ins.length → g ins j ≠ i + 1) :
    RemR route ins eal i = rt route i :: RemR route ins eal (i + 1) := by
  unfold RemR
  have : upto route ins eal - i = (upto route ins eal - (i + 1)) + 1 := by omega
  rw [this, F_range'_succ, block_single route ins (i + 1) hg]
  rfl

theorem RemR_step_gap {route : List Nat} {ins : Ins} (hwf : WF route ins) (eal : Bool) {i j : Nat}
    (hj : j < ins.length) (hg : g ins j = i + 1)
    (hlt : ∀ j', j' < j → j' < ins.length → g ins j' < g ins j) :
    RemR route ins eal i = rt route i :: (SB ins j ++ RemR route ins eal (g ins j)) := by
  have hle := g_le_upto hwf eal hj
  unfold RemR
  have : upto route ins eal - i = (upto route ins eal - g ins j) + 1 := by omega
  rw [this, ← hg, F_range'_succ, block_gap route ins hlt]
  simp

/-- The iterator state `st` is on the new route with `rem` still to be yielded. -/
inductive Inv (route : List Nat) (ins : Ins) (eal : Bool) : St → List Nat → Prop
  | done (st : St) : st.endReached = true → Inv route ins eal st []
  | A (i : Nat) : i < g ins 0 → Inv route ins eal ⟨rt route i, 0, true, eal, false⟩ (RemR route ins eal i)
  | R (i j : Nat) : j ≤ ins.length → i ≤ upto route ins eal → (∀ j', j' < j → g ins j' ≤ i) →
      (∀ j', j ≤ j' → j' < ins.length → i < g ins j') →
      Inv route ins eal ⟨rt route i, j, false, eal, false⟩ (RemR route ins eal i)
  | S0 (j : Nat) : j < ins.length →
      Inv route ins eal ⟨x ins j, j, false, eal, false⟩ (SB ins j ++ RemR route ins eal (g ins j))
  | S1 (j : Nat) : j < ins.length →
      Inv route ins eal ⟨x ins j, j + 1, false, eal, false⟩ (SB ins j ++ RemR route ins eal (g ins j))

theorem step_inv {route : List Nat} {ins : Ins} (hwf : WF route ins) {eal : Bool} {st : St}
    {rem : List Nat} (h : Inv route ins eal st rem) :
    (st.endReached = true ∧ rem = []) ∨
    ∃ y st' rem', step route (positions route ins) st = (some y, st') ∧ rem = y :: rem' ∧
      Inv route ins eal st' rem' := by
  have hnd : route.Nodup := hwf.1
  have hk := ins_pos hwf
  have hup := upto_lt hwf eal
  have hlen := positions_length route ins
  cases h with
  | done st h => exact Or.inl ⟨h, rfl⟩
  | A i hi =>
    have hg0 := g_range hwf hk
    have hprev : (posAt (positions route ins) 0).prev = rt route (g ins 0 - 1) := by
      rw [pos_prev route ins hk]; simp
    by_cases hc : i = g ins 0 - 1
    · exact Or.inr ⟨rt route i, ⟨x ins 0, 0, false, eal, false⟩, SB ins 0 ++ RemR route ins eal (g ins 0),
        by rw [step_A_hit route _ _ _ eal (by rw [hprev, hc]), pos_stop route ins hk],
        RemR_step_gap hwf eal hk (by omega) (by intro j' h; omega),
        Inv.S0 0 hk⟩
    · have hne : rt route i ≠ (posAt (positions route ins) 0).prev := by
        rw [hprev]; intro he
        exact hc (rt_inj hnd (by omega) (by omega) he)
      have hle := g_le_upto hwf eal hk
      exact Or.inr ⟨rt route i, ⟨rt route (i + 1), 0, true, eal, false⟩, RemR route ins eal (i + 1),
        by rw [step_A_miss route _ _ _ eal hne, succ_rt hnd (by omega)],
        RemR_step_single route ins eal (by omega) (by
          intro j hj
          have := g_mono hwf (Nat.zero_le j) hj
          omega),
        Inv.A (i + 1) (by omega)⟩
  | R i j hj hi hlo hhi =>
    have hin : i < route.length := by omega
    by_cases hjk : j < ins.length
    · have hjk' : j < (positions route ins).length := by omega
      have hgj := g_range hwf hjk
      have hij := hhi j (Nat.le_refl j) hjk
      have hstop : rt route i ≠ (posAt (positions route ins) j).stop := by
        rw [pos_stop route ins hjk]; exact rt_ne_x hwf hin hjk
      have hprev : (posAt (positions route ins) j).prev = rt route (g ins j - 1) := by
        rw [pos_prev route ins hjk]
        have : ¬ (0 < j ∧ g ins (j - 1) = g ins j) := by
          intro ⟨h0, he⟩
          have := hlo (j - 1) (by omega)
          omega
        rw [if_neg this]
      by_cases hc : i = g ins j - 1
      · exact Or.inr ⟨rt route i, ⟨x ins j, j + 1, false, eal, false⟩,
          SB ins j ++ RemR route ins eal (g ins j),
          by rw [step_B_prev route _ _ _ eal hjk' hstop (by rw [hprev, hc]), pos_stop route ins hjk],
          RemR_step_gap hwf eal hjk (by omega) (by
            intro j' h1 h2
            have := hlo j' h1
            omega),
          Inv.S1 j hjk⟩
      · have hne : rt route i ≠ (posAt (positions route ins) j).prev := by
          rw [hprev]; intro he
          exact hc (rt_inj hnd hin (by omega) he)
        have hle := g_le_upto hwf eal hjk
        have hnl : isLast route (rt route i) = false := by
          rw [isLast_rt hnd hin]; simp; omega
        exact Or.inr ⟨rt route i, ⟨rt route (i + 1), j, false, eal, false⟩, RemR route ins eal (i + 1),
          by rw [step_B_succ route _ _ _ eal hjk' hstop hne (planned_rt hin) hnl, succ_rt hnd (by omega)],
          RemR_step_single route ins eal (by omega) (by
            intro j' hj'
            by_cases h : j' < j
            · have := hlo j' h; omega
            · have := g_mono hwf (show j ≤ j' by omega) hj'
              omega),
          Inv.R (i + 1) j hj (by omega) (by
            intro j' h
            have := hlo j' h; omega) (by
            intro j' h1 h2
            have := g_mono hwf h1 h2
            omega)⟩
    · have hjk' : ¬ j < (positions route ins).length := by omega
      have hje : j = ins.length := by omega
      cases eal with
      | true =>
        have hu : upto route ins true = route.length - 1 := by simp [upto]
        by_cases hc : i = route.length - 1
        · have hl : isLast route (rt route i) = true := by
            rw [isLast_rt hnd hin]; simp [hc]
          exact Or.inr ⟨rt route i, ⟨rt route i, j, false, false, true⟩, [],
            step_C_last route _ _ _ hjk' (planned_rt hin) hl,
            RemR_last route ins true (by omega),
            Inv.done _ rfl⟩
        · have hnl : isLast route (rt route i) = false := by
            rw [isLast_rt hnd hin]; simp [hc]
          exact Or.inr ⟨rt route i, ⟨rt route (i + 1), j, false, true, false⟩, RemR route ins true (i + 1),
            by rw [step_C_succ route _ _ _ hjk' (planned_rt hin) hnl, succ_rt hnd (by omega)],
            RemR_step_single route ins true (by omega) (by
              intro j' hj'
              have := hlo j' (by omega); omega),
            Inv.R (i + 1) j hj (by omega) (by
              intro j' h
              have := hlo j' h; omega) (by
              intro j' h1 h2
              omega)⟩
      | false =>
        have hu : upto route ins false = g ins (ins.length - 1) := by simp [upto]
        have := hlo (ins.length - 1) (by omega)
        exact Or.inr ⟨rt route i, ⟨rt route i, j, false, false, true⟩, [],
          step_C_end route _ _ _ hjk' (planned_rt hin),
          RemR_last route ins false (by omega),
          Inv.done _ rfl⟩
  | S0 j hj =>
    have hjk' : j < (positions route ins).length := by omega
    by_cases hc : j + 1 < ins.length ∧ g ins (j + 1) = g ins j
    · exact Or.inr ⟨x ins j, ⟨x ins (j + 1), j + 1, false, eal, false⟩,
        SB ins (j + 1) ++ RemR route ins eal (g ins (j + 1)),
        by rw [step_B_stop route _ _ _ eal hjk' (pos_stop route ins hj).symm, pos_next route ins hj, if_pos hc],
        by rw [SB_cons_same ins hc.1 hc.2, hc.2]; rfl,
        Inv.S0 (j + 1) hc.1⟩
    · have hne : j + 1 < ins.length → g ins (j + 1) ≠ g ins j := fun h1 h2 => hc ⟨h1, h2⟩
      exact Or.inr ⟨x ins j, ⟨rt route (g ins j), j + 1, false, eal, false⟩,
        RemR route ins eal (g ins j),
        by rw [step_B_stop route _ _ _ eal hjk' (pos_stop route ins hj).symm, pos_next route ins hj, if_neg hc],
        by rw [SB_single hwf hj hne]; rfl,
        Inv.R (g ins j) (j + 1) (by omega) (g_le_upto hwf eal hj) (by
          intro j' h
          exact g_mono hwf (by omega) hj) (by
          intro j' h1 h2
          have h3 := g_mono hwf (show j ≤ j + 1 by omega) (show j + 1 < ins.length by omega)
          have h4 := g_mono hwf h1 h2
          have := hne (by omega)
          omega)⟩
  | S1 j hj =>
    have hpl := planned_x hwf hj
    have hnext : ¬ (j + 1 < ins.length ∧ g ins (j + 1) = g ins j) →
        (posAt (positions route ins) (j + 1 - 1)).next = rt route (g ins j) := by
      intro hc
      rw [Nat.add_sub_cancel, pos_next route ins hj, if_neg hc]
    have hR : ¬ (j + 1 < ins.length ∧ g ins (j + 1) = g ins j) →
        Inv route ins eal ⟨rt route (g ins j), j + 1, false, eal, false⟩ (RemR route ins eal (g ins j)) := by
      intro hc
      have hne : j + 1 < ins.length → g ins (j + 1) ≠ g ins j := fun h1 h2 => hc ⟨h1, h2⟩
      exact Inv.R (g ins j) (j + 1) (by omega) (g_le_upto hwf eal hj) (by
          intro j' h
          exact g_mono hwf (by omega) hj) (by
          intro j' h1 h2
          have h3 := g_mono hwf (show j ≤ j + 1 by omega) (show j + 1 < ins.length by omega)
          have h4 := g_mono hwf h1 h2
          have := hne (by omega)
          omega)
    by_cases hjk : j + 1 < ins.length
    · have hjk' : j + 1 < (positions route ins).length := by omega
      have hstop : x ins j ≠ (posAt (positions route ins) (j + 1)).stop := by
        rw [pos_stop route ins hjk]; intro he
        have := x_inj hwf hj hjk he
        omega
      by_cases hc : g ins (j + 1) = g ins j
      · have hprev : x ins j = (posAt (positions route ins) (j + 1)).prev := by
          rw [pos_prev route ins hjk, Nat.add_sub_cancel, if_pos ⟨by omega, hc.symm⟩]
        exact Or.inr ⟨x ins j, ⟨x ins (j + 1), j + 1 + 1, false, eal, false⟩,
          SB ins (j + 1) ++ RemR route ins eal (g ins (j + 1)),
          by rw [step_B_prev route _ _ _ eal hjk' hstop hprev, pos_stop route ins hjk],
          by rw [SB_cons_same ins hjk hc, hc]; rfl,
          Inv.S1 (j + 1) hjk⟩
      · have hc' : ¬ (j + 1 < ins.length ∧ g ins (j + 1) = g ins j) := fun h => hc h.2
        have hgr := g_range hwf hjk
        have hprev : x ins j ≠ (posAt (positions route ins) (j + 1)).prev := by
          rw [pos_prev route ins hjk, Nat.add_sub_cancel, if_neg (fun h => hc h.2.symm)]
          exact (rt_ne_x hwf (by omega) hj).symm
        have hne : j + 1 < ins.length → g ins (j + 1) ≠ g ins j := fun _ => hc
        exact Or.inr ⟨x ins j, ⟨rt route (g ins j), j + 1, false, eal, false⟩,
          RemR route ins eal (g ins j),
          by rw [step_B_unplanned route _ _ _ eal hjk' hstop hprev hpl, hnext hc'],
          by rw [SB_single hwf hj hne]; rfl,
          hR hc'⟩
    · have hjk' : ¬ j + 1 < (positions route ins).length := by omega
      have hc' : ¬ (j + 1 < ins.length ∧ g ins (j + 1) = g ins j) := fun h => hjk h.1
      have hne : j + 1 < ins.length → g ins (j + 1) ≠ g ins j := fun h => absurd h hjk
      exact Or.inr ⟨x ins j, ⟨rt route (g ins j), j + 1, false, eal, false⟩,
        RemR route ins eal (g ins j),
        by rw [step_C_unplanned route _ _ _ eal hjk' hpl, hnext hc'],
        by rw [SB_single hwf hj hne]; rfl,
        hR hc'⟩

/-! ### Draining the iterator, and the specification -/

theorem drain_inv {route : List Nat} {ins : Ins} (hwf : WF route ins) {eal : Bool} :
    ∀ (fuel : Nat) (st : St) (rem : List Nat), Inv route ins eal st rem → rem.length + 1 ≤ fuel →
      drain route (positions route ins) fuel st = rem
  | 0, _, _, _, hf => by omega
  | fuel + 1, st, rem, h, hf => by
    rcases step_inv hwf h with ⟨he, hr⟩ | ⟨y, st', rem', hs, hr, hi⟩
    · subst hr
      simp only [drain, step_done route _ st he]
    · subst hr
      simp only [drain, hs]
      rw [drain_inv hwf fuel st' rem' hi (by simp at hf; omega)]

theorem F_append (route : List Nat) (ins : Ins) (l₁ l₂ : List Nat) :
    F route ins (l₁ ++ l₂) = F route ins l₁ ++ F route ins l₂ := by
  simp [F]

theorem drop_take_F (route : List Nat) (ins : Ins) {lo up n a b : Nat} (h1 : lo ≤ up) (h2 : up < n)
    (hP : (F route ins (List.range lo)).length = a)
    (hM : (F route ins (List.range (up + 1))).length = a + b) :
    ((F route ins (List.range n)).drop a).take b = F route ins (List.range' lo (up + 1 - lo)) := by
  have e1 : List.range n = List.range (up + 1) ++ List.range' (up + 1) (n - (up + 1)) := by
    rw [List.range_eq_range', List.range_eq_range']
    have := List.range'_append_1 (s := 0) (m := up + 1) (n := n - (up + 1))
    rw [Nat.zero_add] at this
    rw [this]; congr 1; omega
  have e2 : List.range (up + 1) = List.range lo ++ List.range' lo (up + 1 - lo) := by
    rw [List.range_eq_range', List.range_eq_range']
    have := List.range'_append_1 (s := 0) (m := lo) (n := up + 1 - lo)
    rw [Nat.zero_add] at this
    rw [this]; congr 1; omega
  have hM' : (F route ins (List.range' lo (up + 1 - lo))).length = b := by
    rw [e2, F_append, List.length_append, hP] at hM
    omega
  rw [e1, e2, F_append, F_append, List.append_assoc, ← hP, List.drop_left, ← hM', List.take_left]

theorem headD_gap {ins : Ins} (h : 0 < ins.length) : (ins.headD (1, 0)).1 = g ins 0 := by
  cases ins with
  | nil => simp at h
  | cons a l => simp [g]

theorem getLastD_gap {ins : Ins} (h : 0 < ins.length) : (ins.getLastD (1, 0)).1 = g ins (ins.length - 1) := by
  have hne : ins ≠ [] := List.ne_nil_of_length_pos h
  rw [g_eq (by omega), List.getLastD_eq_getLast?, List.getLast?_eq_some_getLast hne, Option.getD_some,
    List.getLast_eq_getElem]

theorem count_le_eq (ins : Ins) (i : Nat) :
    (ins.filter (·.1 ≤ i)).length = (ins.filter (·.1 < i + 1)).length := by
  congr 2
  funext p
  simp [Nat.lt_succ_iff]

theorem count_lt_zero {route : List Nat} {ins : Ins} (hwf : WF route ins) {m : Nat} (h : m ≤ g ins 0) :
    (ins.filter (·.1 < m)).length = 0 := by
  rw [List.length_eq_zero_iff, List.filter_eq_nil_iff]
  intro p hp
  obtain ⟨j, hj, rfl⟩ := List.getElem_of_mem hp
  have := g_mono hwf (Nat.zero_le j) hj
  rw [g_eq hj] at this
  simp; omega

/-- `expected`, as a walk over the route indices `lo … upto`. -/
theorem expected_eq {route : List Nat} {ins : Ins} (hwf : WF route ins) (saf eal : Bool) :
    expected route ins saf eal =
      RemR route ins eal (if saf then 0 else g ins 0 - 1) := by
  have hk := ins_pos hwf
  have hg0 := g_range hwf hk
  have hup := upto_lt hwf eal
  have hle := g_le_upto hwf eal hk
  generalize hlo : (if saf then 0 else g ins 0 - 1) = lo
  have hlo0 : lo < g ins 0 := by
    cases saf <;> simp at hlo <;> omega
  have hupto : (if eal then route.length - 1 else (ins.getLastD (1, 0)).1) = upto route ins eal := by
    rw [getLastD_gap hk]; rfl
  unfold expected
  simp only [headD_gap hk, hlo, hupto]
  have hoff : lo + (ins.filter (·.1 ≤ lo)).length = lo := by
    rw [count_le_eq, count_lt_zero hwf (show lo + 1 ≤ g ins 0 by omega), Nat.add_zero]
  rw [hoff, count_le_eq, splice_eq]
  have hP : (F route ins (List.range lo)).length = lo := by
    rw [F_length, count_lt_zero hwf (show lo ≤ g ins 0 by omega), Nat.add_zero]
  have hM : (F route ins (List.range (upto route ins eal + 1))).length =
      lo + (upto route ins eal + (ins.filter (·.1 < upto route ins eal + 1)).length - lo + 1) := by
    rw [F_length]; omega
  rw [drop_take_F route ins (show lo ≤ upto route ins eal by omega) hup hP hM]
  have : upto route ins eal + 1 - lo = (upto route ins eal - lo) + 1 := by omega
  rw [this, F_range'_succ, block_single route ins lo (by
    intro j hj
    have := g_mono hwf (Nat.zero_le j) hj
    omega)]
  rfl

theorem init_inv {route : List Nat} {ins : Ins} (hwf : WF route ins) (saf eal : Bool) :
    Inv route ins eal (init route (positions route ins) saf eal)
      (RemR route ins eal (if saf then 0 else g ins 0 - 1)) := by
  have hk := ins_pos hwf
  have hg0 := g_range hwf hk
  cases saf with
  | true =>
    have : route.headD 0 = rt route 0 := by
      cases route <;> simp [rt]
    simp only [init, if_true, this]
    exact Inv.A 0 (by omega)
  | false =>
    have hprev : (posAt (positions route ins) 0).prev = rt route (g ins 0 - 1) := by
      rw [pos_prev route ins hk]; simp
    simp only [init, Bool.false_eq_true, if_false, hprev]
    exact Inv.R (g ins 0 - 1) 0 (Nat.zero_le _) (by have := g_le_upto hwf eal hk; omega)
      (by intro j' h; omega) (by
        intro j' _ h2
        have := g_mono hwf (Nat.zero_le j') h2
        omega)

theorem expected_length_le {route : List Nat} {ins : Ins} (saf eal : Bool) :
    (expected route ins saf eal).length ≤ route.length + ins.length := by
  unfold expected
  simp only [List.length_take, List.length_drop]
  rw [splice_eq, F_length]
  have := List.length_filter_le (fun p : Nat × Nat => decide (p.1 < route.length)) ins
  omega

theorem generate_eq_expected (route : List Nat) (ins : Ins) (startAtFirst endAtLast : Bool)
    (hwf : WF route ins) :
    generate route (positions route ins) startAtFirst endAtLast =
      expected route ins startAtFirst endAtLast := by
  have hlen := expected_length_le (route := route) (ins := ins) startAtFirst endAtLast
  unfold generate
  rw [positions_length]
  rw [expected_eq hwf] at hlen ⊢
  exact drain_inv hwf _ _ _ (init_inv hwf startAtFirst endAtLast) (by omega)

theorem generate_full (route : List Nat) (ins : Ins) (hwf : WF route ins) :
    generate route (positions route ins) true true = splice route ins := by
  rw [generate_eq_expected route ins true true hwf]
  have hk := ins_pos hwf
  have hn := hwf.2.1
  unfold expected
  simp only [if_true]
  rw [count_le_eq, count_le_eq, count_lt_zero hwf (show 0 + 1 ≤ g ins 0 by have := g_range hwf hk; omega)]
  rw [List.drop_zero, List.take_of_length_le]
  rw [splice_eq, F_length]
  have : route.length - 1 + 1 = route.length := by omega
  rw [this]; omega

end NR.Proofs.StopGen
