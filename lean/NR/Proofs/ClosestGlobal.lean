import NR.Closest
import NR.Proofs.Closest
/-! To prove: the first stage of the repaired query (collect everything within the distance of the (n+1)-th nearest) loses
nothing — the answer is the n first of ALL other stops in (distance, index) order. -/
namespace NR.Closest
open List

/-- every stop index occurs at most once among the candidates -/
def IdxNodup (l : List Cand) : Prop := (l.map (·.2)).Nodup

/-- filtering commutes with sorting by `le2` -/
theorem sort_le2_filter (p : Cand → Bool) (l : List Cand) :
    (l.filter p).mergeSort le2 = (l.mergeSort le2).filter p := by
  apply Perm.eq_of_pairwise (le := fun a b => le2 a b = true)
  · intro a b _ _; exact le2_antisymm a b
  · exact pairwise_mergeSort le2_trans le2_total _
  · exact (pairwise_mergeSort le2_trans le2_total l).filter p
  · exact (mergeSort_perm _ le2).trans ((mergeSort_perm l le2).filter p).symm

/-- in a list sorted by (distance, index), the candidates within a distance form a prefix; if there are enough of them,
cutting at `n` does not see the difference -/
theorem take_filter_sorted (far : Nat) :
    ∀ (S : List Cand) (n : Nat), S.Pairwise (fun a b => le2 a b = true) →
      min n S.length ≤ (S.filter (fun c => decide (c.1 ≤ far))).length →
      (S.filter (fun c => decide (c.1 ≤ far))).take n = S.take n := by
  intro S
  induction S with
  | nil => intro n _ _; simp
  | cons a t ih =>
    intro n hp hlen
    cases n with
    | zero => simp
    | succ n =>
      rw [List.pairwise_cons] at hp
      by_cases ha : a.1 ≤ far
      · have hf : (a :: t).filter (fun c => decide (c.1 ≤ far)) = a :: t.filter (fun c => decide (c.1 ≤ far)) := by
          simp [ha]
        rw [hf] at hlen ⊢
        simp only [List.take_succ_cons, List.length_cons] at hlen ⊢
        rw [ih n hp.2 (by omega)]
      · exfalso
        have hf : (a :: t).filter (fun c => decide (c.1 ≤ far)) = [] := by
          rw [List.filter_eq_nil_iff]
          intro c hc
          rcases List.mem_cons.1 hc with rfl | hc
          · simpa using ha
          · have := hp.1 c hc
            simp only [le2, Bool.or_eq_true, Bool.and_eq_true, decide_eq_true_eq, beq_iff_eq] at this
            simp only [decide_eq_true_eq]
            omega
        rw [hf] at hlen
        simp only [List.length_cons, List.length_nil] at hlen
        omega

/-- every element of an ascending list is at most its last one -/
theorem le_getLast_of_sorted (L : List Nat) (hp : L.Pairwise (fun a b => a ≤ b)) :
    ∀ x ∈ L, x ≤ L.getLast?.getD 0 := by
  intro x hx
  have hne : L ≠ [] := List.ne_nil_of_mem hx
  rw [List.getLast?_eq_some_getLast hne, Option.getD_some]
  have hL := List.dropLast_concat_getLast hne
  rw [← hL, List.pairwise_append] at hp
  rw [← hL, List.mem_append, List.mem_singleton] at hx
  rcases hx with hx | hx
  · exact hp.2.2 x hx _ (List.mem_singleton.2 rfl)
  · omega

/-- at least `min (n+1) |l|` candidates lie within the distance `farthest n l` -/
theorem count_le_farthest (n : Nat) (l : List Cand) :
    min (n + 1) l.length ≤ l.countP (fun c => decide (c.1 ≤ farthest n l)) := by
  let D := (l.map (·.1)).mergeSort (fun a b => decide (a ≤ b))
  have hD : D.Pairwise (fun a b => a ≤ b) :=
    (pairwise_mergeSort (le := fun a b => decide (a ≤ b))
      (by intro a b c; simp only [decide_eq_true_eq]; omega)
      (by intro a b; simp only [Bool.or_eq_true, decide_eq_true_eq]; omega) (l.map (·.1))).imp
      (by intro a b h; simpa using h)
  have hfar : farthest n l = (D.take (n + 1)).getLast?.getD 0 := rfl
  have hall : ∀ x ∈ D.take (n + 1), decide (x ≤ farthest n l) = true := by
    intro x hx
    rw [hfar, decide_eq_true_eq]
    exact le_getLast_of_sorted _ (hD.sublist (List.take_sublist _ _)) x hx
  have h1 : (D.take (n + 1)).countP (fun x => decide (x ≤ farthest n l)) = (D.take (n + 1)).length :=
    List.countP_eq_length.2 hall
  have h2 := (List.take_sublist (n + 1) D).countP_le (p := fun x => decide (x ≤ farthest n l))
  have h3 : D.countP (fun x => decide (x ≤ farthest n l)) = (l.map (·.1)).countP (fun x => decide (x ≤ farthest n l)) :=
    (mergeSort_perm _ _).countP_eq _
  have h4 : (l.map (·.1)).countP (fun x => decide (x ≤ farthest n l)) = l.countP (fun c => decide (c.1 ≤ farthest n l)) := by
    rw [List.countP_map]; rfl
  have h5 : D.length = l.length := by
    rw [(mergeSort_perm _ _).length_eq, List.length_map]
  rw [List.length_take, h5] at h1
  omega

/-- at most one candidate carries the index `self` -/
theorem count_self_le_one (self : Nat) (l : List Cand) (hn : IdxNodup l) :
    l.countP (fun c => c.2 == self) ≤ 1 := by
  have h := (List.nodup_iff_count.1 hn) self
  rw [List.count_eq_countP, List.countP_map] at h
  exact h

theorem countP_split {α} (p q : α → Bool) (l : List α) :
    l.countP p = l.countP (fun a => p a && q a) + l.countP (fun a => p a && !q a) := by
  induction l with
  | nil => rfl
  | cons a t ih =>
    simp only [List.countP_cons, ih]
    cases p a <;> cases q a <;> simp <;> omega

theorem nearest_eq_global (n self : Nat) (l : List Cand) (hn : IdxNodup l) :
    nearest n self l = ((l.filter (fun c => c.2 != self)).mergeSort le2).take n := by
  unfold nearest
  split
  · next h0 => subst h0; simp
  · let p : Cand → Bool := fun c => decide (c.1 ≤ farthest n l)
    let q : Cand → Bool := fun c => c.2 != self
    have hpq : l.filter (fun c => decide (c.1 ≤ farthest n l) && c.2 != self) = (l.filter q).filter p :=
      (List.filter_filter (p := p) (q := q) (l := l)).symm
    rw [hpq, sort_le2_filter]
    apply take_filter_sorted
    · exact pairwise_mergeSort le2_trans le2_total _
    · -- counting
      have e1 : (((l.filter q).mergeSort le2).filter p).length = l.countP (fun a => q a && p a) := by
        rw [← List.countP_eq_length_filter, (mergeSort_perm _ le2).countP_eq, List.countP_eq_length_filter,
          List.filter_filter, ← List.countP_eq_length_filter]
        congr 1; funext a; exact Bool.and_comm _ _
      have e2 : ((l.filter q).mergeSort le2).length = l.countP q := by
        rw [(mergeSort_perm _ le2).length_eq, ← List.countP_eq_length_filter]
      have c0 : min (n + 1) l.length ≤ l.countP p := count_le_farthest n l
      have c1 : l.countP (fun a => !q a) ≤ 1 := by
        have h := count_self_le_one self l hn
        have e : (fun a : Cand => !q a) = (fun c => c.2 == self) := by
          funext a; simp [q, bne]
        rw [e]; exact h
      have s1 : l.countP p = l.countP (fun a => p a && q a) + l.countP (fun a => p a && !q a) :=
        countP_split p q l
      have s2 : l.countP q = l.countP (fun a => q a && p a) + l.countP (fun a => q a && !p a) :=
        countP_split q p l
      have s3 : l.length = l.countP q + l.countP (fun a => !q a) := by
        have := List.length_eq_countP_add_countP q (l := l)
        simpa using this
      have s4 : l.countP (fun a => p a && !q a) ≤ l.countP (fun a => !q a) :=
        List.countP_mono_left (by intro a _ h; simp only [Bool.and_eq_true] at h; exact h.2)
      have s5 : l.countP (fun a => p a && q a) = l.countP (fun a => q a && p a) := by
        congr 1; funext a; exact Bool.and_comm _ _
      rw [e1, e2]
      omega

end NR.Closest

