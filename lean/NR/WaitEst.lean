/-
  NR.WaitEst — the two waiting-time estimates (C09), branch for branch after the Go:

    `maximumWaitVehicleConstraintImpl.EstimateIsViolated`  (model_constraint_maximum_wait_vehicle.go)
    `maximumWaitStopConstraintImpl.EstimateIsViolated`     (model_constraint_maximum_wait_stop.go)

  Both walk the hypothetical route produced by `solutionStopGenerator` from the stop before the
  first inserted stop, recomputing arrival / start / end with `vehicleType.TemporalValues`, and —
  when the travel durations do not depend on time — STOP walking at the first planned stop behind
  the last inserted stop whose arrival AND end are what is stored for it.

  The walk is abstracted to the list of what `TemporalValues` reads per stop:
      travel    travel duration from the previous stop of the walk,
      windows   start time windows of the stop (`ToEarliestStartValue`),
      dur       process duration at the stop GIVEN its predecessor in the walk (duration groups make
                it depend on the predecessor),
      planned   is the stop already on the route (false = one of the inserted stops),
      maxWait   the stop's own wait limit (wait-stop constraint),
  plus what the early exit reads from the solution:
      cArr, cEnd   arrival and end stored for the stop,
      cPrevAcc     accumulated wait stored at its CURRENT predecessor,
  and `lastAcc`, the accumulated wait stored at the vehicle's last stop.

  `estVehicle` / `estStop` are the repaired estimates; `estVehicleE8` is the estimate before the
  repair of E8 (no remaining wait added at the early exit), `estVehicleE23` the one before the repair
  of E23 (early exit on equal arrival only) — kept for the counterexample theorems.
  `true` = violated.
-/
import NR.Basic
namespace NR.WaitEst

structure Item where
  travel   : Rat
  windows  : List (Rat × Rat)
  dur      : Rat
  planned  : Bool
  maxWait  : Rat := 0
  cArr     : Rat := 0
  cEnd     : Rat := 0
  cPrevAcc : Rat := 0
deriving Repr, DecidableEq

/-- `ToEarliestStartValue` (same definition as `NR.Spec.earliestStart`). -/
def earliestStart (ws : List (Rat × Rat)) (a : Rat) : Rat :=
  if ws.any (fun w => decide (w.1 ≤ a ∧ a < w.2)) then a
  else match ws.find? (fun w => decide (a < w.1)) with
    | some w => w.1
    | none => a

/-- `TemporalValues`: arrival, start, end of `it` when the previous stop ends at `pe`. -/
def arrOf (pe : Rat) (it : Item) : Rat := pe + it.travel
def startOf (it : Item) (arr : Rat) : Rat := max arr (earliestStart it.windows arr)
def endOf (it : Item) (arr : Rat) : Rat := startOf it arr + it.dur
def waitOf (it : Item) (arr : Rat) : Rat := startOf it arr - arr

/-! ### Exact values along the walk -/

/-- Accumulated wait at every stop of the walk (what `UpdateConstraintStopData` stores). -/
def exactAccs (pe acc : Rat) : List Item → List Rat
  | [] => []
  | it :: r =>
    let arr := arrOf pe it
    let a := acc + waitOf it arr
    a :: exactAccs (endOf it arr) a r

/-- The exact vehicle check (`DoesStopHaveViolations` at every stop of the walk). -/
def exactVehicleOK (max pe acc : Rat) (walk : List Item) : Bool :=
  (exactAccs pe acc walk).all (fun a => decide (a ≤ max))

/-- Waits at every stop of the walk, paired with the stop's own limit. -/
def exactWaits (pe : Rat) : List Item → List (Rat × Rat)
  | [] => []
  | it :: r => let arr := arrOf pe it; (waitOf it arr, it.maxWait) :: exactWaits (endOf it arr) r

def exactStopOK (pe : Rat) (walk : List Item) : Bool :=
  (exactWaits pe walk).all (fun p => decide (p.1 ≤ p.2))

/-- Total wait of a walk whose first stop is reached at `arr` (the rest follows from it). -/
def totalWaitFrom (pe : Rat) : List Item → Rat
  | [] => 0
  | it :: r => let arr := arrOf pe it; waitOf it arr + totalWaitFrom (endOf it arr) r

/-! ### The estimates -/

/-- `maximumWaitVehicle.EstimateIsViolated`. `cnt` = inserted stops not yet passed. -/
def estVehicle (max lastAcc : Rat) (timeDep : Bool) : (pe acc : Rat) → (cnt : Nat) → List Item → Bool
  | _, _, _, [] => false
  | pe, acc, cnt, it :: r =>
    let arr := arrOf pe it
    let cnt' := if it.planned then cnt else cnt - 1
    if !timeDep && cnt' == 0 && it.planned && arr == it.cArr && endOf it arr == it.cEnd then
      decide (acc + (lastAcc - it.cPrevAcc) > max)
    else
      let acc' := acc + waitOf it arr
      if acc' > max then true else estVehicle max lastAcc timeDep (endOf it arr) acc' cnt' r

/-- Before the repair of E8: the early exit answers "not violated" outright. -/
def estVehicleE8 (max : Rat) (timeDep : Bool) : (pe acc : Rat) → (cnt : Nat) → List Item → Bool
  | _, _, _, [] => false
  | pe, acc, cnt, it :: r =>
    let arr := arrOf pe it
    let cnt' := if it.planned then cnt else cnt - 1
    if !timeDep && cnt' == 0 && it.planned && arr == it.cArr then false
    else
      let acc' := acc + waitOf it arr
      if acc' > max then true else estVehicleE8 max timeDep (endOf it arr) acc' cnt' r

/-- Before the repair of E23: early exit on an unchanged ARRIVAL only. -/
def estVehicleE23 (max lastAcc : Rat) (timeDep : Bool) : (pe acc : Rat) → (cnt : Nat) → List Item → Bool
  | _, _, _, [] => false
  | pe, acc, cnt, it :: r =>
    let arr := arrOf pe it
    let cnt' := if it.planned then cnt else cnt - 1
    if !timeDep && cnt' == 0 && it.planned && arr == it.cArr then
      decide (acc + (lastAcc - it.cPrevAcc) > max)
    else
      let acc' := acc + waitOf it arr
      if acc' > max then true else estVehicleE23 max lastAcc timeDep (endOf it arr) acc' cnt' r

/-- `maximumWaitStop.EstimateIsViolated`. -/
def estStop (timeDep : Bool) : (pe : Rat) → (cnt : Nat) → List Item → Bool
  | _, _, [] => false
  | pe, cnt, it :: r =>
    let arr := arrOf pe it
    let cnt' := if it.planned then cnt else cnt - 1
    if !timeDep && cnt' == 0 && it.planned && arr == it.cArr && endOf it arr == it.cEnd then false
    else if waitOf it arr > it.maxWait then true
    else estStop timeDep (endOf it arr) cnt' r

/-! ### What the stored values are (the engine invariant, C04, on the stops behind the early exit) -/

/-- Stored accumulated waits: the wait accumulated from `it` to the vehicle's last stop is what the
engine computes when `it` is reached at its stored arrival and left at its stored end. -/
def StoredAcc (lastAcc : Rat) : List Item → Prop
  | [] => True
  | it :: r => lastAcc - it.cPrevAcc = waitOf it it.cArr + totalWaitFrom it.cEnd r

/-- Stored waits are within the stops' limits (the solution was feasible before the move). -/
def StoredWaits : List Item → Prop
  | [] => True
  | it :: r => waitOf it it.cArr ≤ it.maxWait ∧ exactStopOK it.cEnd r = true

/-- `P` holds of every suffix of the walk that starts at a planned stop behind the last inserted
one (the only places where the early exit can fire). -/
def Behind (P : List Item → Prop) : (cnt : Nat) → List Item → Prop
  | _, [] => True
  | cnt, it :: r =>
    let cnt' := if it.planned then cnt else cnt - 1
    ((cnt' = 0 ∧ it.planned = true) → P (it :: r)) ∧ Behind P cnt' r

end NR.WaitEst
