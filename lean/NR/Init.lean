/-
  NR.Init — the bookkeeping of `addInitialSolution` (solution.go) for ONE vehicle, branch for branch after the Go
  (C03, C08; defects E36 and E37 were found in this function, the seeded change C03-initial-repair-detaches-fixed-group-
  member and defect E33 next to it).

  What the constraints say is a SCRIPT (the harness registers user constraints that follow the same script, so the
  verdicts are the same on both sides):
    * `est`     stops-units whose move a non-temporal constraint's ESTIMATE rejects;
    * `nt`      stops a non-temporal at-each-stop check rejects wherever they are;  `ntAfter` (a, b): b is rejected when a
                is somewhere in front of it on the route;
    * `t`, `tAfter` the same for a TEMPORAL constraint (its estimate and its exact check are skipped while the units are
                attached one by one and looked at only in the final repair loop);
    * `tVeh`    a temporal at-each-vehicle check: violated while one of these stops is on the route.

  The function, per vehicle with initial stops `L` (after `Model.Lock` has checked that a stops-unit is listed with all
  its stops or not at all — `validate`; it has no such check for the members of a group, which was E37):
    1. the stops-units of `L` in order of first appearance; for each: its root unit is noted (`ord`); a unit whose root
       was rejected before is skipped [E36]; a root whose same-vehicle members are not all listed is rejected [E37];
       positions are computed (the new route is `L` restricted to the attached units and this one), the estimates are
       asked, the unit is attached and checked from its first stop on; on a rejection the root is marked (`bad`) and its
       attached members are taken off again [E36]; a rejected FIXED root is an error;
    2. the repair loop: while the full check finds a violated stop, walk back from it to the nearest stop whose root is not
       fixed (none: error), take the whole root off and mark it;
    3. every noted root that is not marked is filed as planned (fixed when fixed).
-/
namespace NR.Init

structure Script where
  est     : List Nat := []
  nt      : List Nat := []
  ntAfter : List (Nat × Nat) := []
  t       : List Nat := []
  tAfter  : List (Nat × Nat) := []
  tVeh    : List Nat := []

structure Cfg where
  /-- initial stops of the vehicle, in order -/
  L          : List Nat
  /-- all stops of the model -/
  stops      : List Nat
  unitOf     : Nat → Nat
  /-- root unit of a stops-unit (itself for a unit that is not a member of a group) -/
  rootOf     : Nat → Nat
  fixedStops : List Nat
  /-- roots that are ONE-OF units (alternates): at most one member may be planned; the members need not all be listed -/
  oneOf      : List Nat := []
  sc         : Script := {}
  /-- switches; the code as it is has all of them on. `skipRejected`, `detachMembers`: E36; `coverCheck`: E37;
  `rootFixedAtAttach`: the attach check asks the ROOT whether it is fixed (part of the repair of E36);
  `rootFixedWalk`: the repair loop asks the root (off: the seeded change, asks the stop's own unit). -/
  skipRejected      : Bool := true
  detachMembers     : Bool := true
  coverCheck        : Bool := true
  rootFixedAtAttach : Bool := true
  rootFixedWalk     : Bool := true

def root (c : Cfg) (s : Nat) : Nat := c.rootOf (c.unitOf s)

def unitFixed (c : Cfg) (u : Nat) : Bool := c.stops.any (fun s => c.unitOf s = u && c.fixedStops.contains s)
def rootFixed (c : Cfg) (r : Nat) : Bool := c.stops.any (fun s => root c s = r && c.fixedStops.contains s)

/-- every stop of the stops-unit is listed -/
def unitListed (c : Cfg) (u : Nat) : Bool := c.stops.all (fun s => c.unitOf s != u || c.L.contains s)
/-- every member unit of the root has a stop among the initial stops (`initialStopsCover`) -/
def rootCovered (c : Cfg) (r : Nat) : Bool :=
  c.oneOf.contains r ||
  c.stops.all (fun s => root c s != r || c.L.any (fun l => c.unitOf l = c.unitOf s))

structure St where
  att  : List Nat := []    -- attached stops-units
  bad  : List Nat := []    -- rejected roots (`infeasiblePlanUnits`)
  ord  : List Nat := []    -- roots noted, latest first (`orderedPlanUnits`)
  done : List Nat := []    -- stops-units already handled
  /-- the STORED position of a stop (`stopPosition`; latest entry first). The table is refreshed by the propagation of
  `isFeasible` only from its start to the stop where it stops: after a rejected unit the positions behind that stop are
  stale, and `newMoveStops` — which reads them to vet the positions of the next unit — may then refuse a sound move
  ("stop positions are not allowed …": `NewSolution` returns an error for an input it could have handled; no property
  forbids that, the model follows the code). -/
  pos  : List (Nat × Nat) := []
  err  : Bool := false
deriving Repr, DecidableEq

/-- the vehicle's last stop in the position table -/
def lastId : Nat := 1000000007

def getPos (st : St) (x : Nat) : Nat :=
  match st.pos.find? (fun p => p.1 = x) with
  | some p => p.2
  | none => if x = lastId then 1 else 0

/-- the propagation of `isFeasible` over positions `k … upto` of a route (`route.length` = the last stop): every stop gets
the position of its predecessor plus one, starting from the STORED position of the stop in front of `k`. -/
def setRange (route : List Nat) (k upto : Nat) (st : St) : St :=
  let base := if k = 0 then 0 else getPos st (route.getD (k - 1) 0)
  let upd := ((List.range (route.length + 1)).filter (fun i => k ≤ i && i ≤ upto)).map
    (fun i => (route.getD i lastId, base + (i - k + 1)))
  { st with pos := upd.reverse ++ st.pos }

def routeOf (c : Cfg) (att : List Nat) : List Nat := c.L.filter (fun s => att.contains (c.unitOf s))

/-- the at-each-stop verdict of one scripted constraint on position `i` of a route -/
def violAt (S : List Nat) (After : List (Nat × Nat)) (route : List Nat) (i : Nat) : Bool :=
  match route[i]? with
  | none => false
  | some s => S.contains s || After.any (fun p => p.2 = s && (route.take i).contains p.1)

/-- first position ≥ `k` that a check rejects -/
def firstViol (chk : Nat → Bool) (n : Nat) (k : Nat) : Option Nat :=
  ((List.range n).filter (fun i => k ≤ i && chk i)).head?

def dropRoot (c : Cfg) (r : Nat) (att : List Nat) : List Nat := att.filter (fun u => c.rootOf u != r)

/-- a stop position as `addInitialSolution` computes it: (previous, stop, next); `none` = the vehicle's first / last stop -/
abbrev SP := Option Nat × Nat × Option Nat

/-- the positions of the stops of unit `u`: previous = the later of (last planned stop, last own stop) in front of the
stop among the initial stops, next = the first planned or own stop behind it -/
def stopPositions (c : Cfg) (att : List Nat) (u : Nat) : List SP :=
  let planned (x : Nat) : Bool := att.contains (c.unitOf x)
  let own (x : Nat) : Bool := c.unitOf x = u
  (List.range c.L.length).filterMap (fun i =>
    match c.L[i]? with
    | none => none
    | some x =>
      if own x then
        some (((c.L.take i).reverse.find? (fun y => planned y || own y)), x,
              ((c.L.drop (i + 1)).find? (fun y => planned y || own y)))
      else none)

/-- the position checks of `newMoveStops` on the STORED positions (`true` = the move is refused) -/
def moveRefused (c : Cfg) (st : St) (u : Nat) (sps : List SP) : Bool :=
  let planned (x : Option Nat) : Bool := match x with
    | none => true
    | some y => c.unitOf y != u
  let posOf (x : Option Nat) (first : Bool) : Nat := match x with
    | none => if first then 0 else getPos st lastId
    | some y => getPos st y
  let rec go (position lastPrev : Nat) : List SP → Bool
    | [] => false
    | (p, _, n) :: rest =>
      let bad1 := planned p && posOf p true < position
      let position := if planned p then posOf p true else position
      let lastPrev := if planned p then posOf p true else lastPrev
      let bad2 := planned n && posOf n false < position
      let position := if planned n then posOf n false else position
      let bad3 := planned n && !planned p && lastPrev != posOf n false - 1
      let bad4 := planned n && planned p && posOf n false != posOf p true + 1
      bad1 || bad2 || bad3 || bad4 || go position lastPrev rest
  match sps with
  | [] => true
  | (p0, _, _) :: _ => go (posOf p0 true) (posOf p0 true) sps

/-- the full check of step 2: the first violated position (`route.length` stands for the vehicle's last stop) -/
def fullViol (c : Cfg) (route : List Nat) : Option Nat :=
  match firstViol (fun i => violAt c.sc.nt c.sc.ntAfter route i || violAt c.sc.t c.sc.tAfter route i) route.length 0 with
  | some i => some i
  | none => if route.any (fun s => c.sc.tVeh.contains s) then some route.length else none

/-- step 1 for the stops-unit of the initial stop `s` -/
def stepUnit (c : Cfg) (st : St) (s : Nat) : St :=
  if st.err then st else
  let u := c.unitOf s
  if st.done.contains u then st else
  let r := c.rootOf u
  let st := { st with done := u :: st.done, ord := if st.ord.contains r then st.ord else r :: st.ord }
  if c.skipRejected && st.bad.contains r then st else
  if c.coverCheck && !rootCovered c r then
    (if rootFixed c r then { st with err := true } else { st with bad := r :: st.bad })
  else if c.oneOf.contains r && st.att.any (fun m => c.rootOf m = r) then
    -- "… is part of one-of plan unit … which is already planned": an error, whatever the unit's flags
    { st with err := true }
  else if moveRefused c st u (stopPositions c st.att u) then { st with err := true }
  else
    let reject (fixedNow : Bool) (st : St) : St :=
      if fixedNow then { st with err := true }
      else if c.detachMembers && st.att.any (fun m => c.rootOf m = r) then
        -- members attached before are taken off and the vehicle is propagated from its first stop (as far as it gets)
        let att := dropRoot c r st.att
        let route := routeOf c att
        let upto := (fullViol c route).getD route.length
        setRange route 0 upto { st with bad := r :: st.bad, att := att }
      else { st with bad := r :: st.bad }
    if c.sc.est.contains u then reject (rootFixed c r) st
    else
      let route' := routeOf c (u :: st.att)
      let k := route'.findIdx (fun x => c.unitOf x = u)
      match firstViol (violAt c.sc.nt c.sc.ntAfter route') route'.length k with
      | some i => reject (if c.rootFixedAtAttach then rootFixed c r else unitFixed c u) (setRange route' k i st)
      | none => setRange route' k route'.length { st with att := u :: st.att }

/-- walk back from position `i` to the nearest stop that may be removed -/
def walkBack (c : Cfg) (route : List Nat) : Nat → Option Nat
  | 0 => none
  | i + 1 =>
    match route[i]? with
    | none => walkBack c route i          -- the vehicle's last stop
    | some s =>
      if (if c.rootFixedWalk then rootFixed c (root c s) else unitFixed c (c.unitOf s)) then walkBack c route i
      else some s

def repair (c : Cfg) : Nat → St → St
  | 0, st => { st with err := true }     -- not reached: every round removes a stop (theorem)
  | fuel + 1, st =>
    if st.err then st else
    let route := routeOf c st.att
    match fullViol c route with
    | none => setRange route 0 route.length st
    | some i =>
      let st := setRange route 0 i st
      match walkBack c route (i + 1) with
      | none => { st with err := true }
      | some s => repair c fuel { st with att := dropRoot c (root c s) st.att, bad := root c s :: st.bad }

/-- `Model.Lock` (model.go, "either all or no stops of a plan unit must be added as initial stops"): a stops-unit with
a stop among the initial stops has all its stops there. -/
def validate (c : Cfg) : Bool := c.L.all (fun s => unitListed c (c.unitOf s))

def run (c : Cfg) : St :=
  if validate c then repair c (c.L.length + 1) (c.L.foldl (stepUnit c) {}) else { err := true }

/-- what is filed as planned or fixed (step 3) -/
def filed (st : St) : List Nat := st.ord.filter (fun r => !st.bad.contains r)

/-- the outcome as the harness prints it -/
def render (c : Cfg) : String :=
  let st := run c
  if st.err then "init err"
  else
    let lst (xs : List Nat) := if xs.isEmpty then "-" else ",".intercalate (xs.map toString)
    let f := (filed st).mergeSort
    s!"init ok R={lst (routeOf c st.att)} P={lst (f.filter (fun r => !rootFixed c r))} F={lst (f.filter (rootFixed c))}"

end NR.Init
