/-
  NR.Seq — the stop-order generator of a multi-stop plan unit (`sequenceGenerator`,
  solution_sequence_generator.go), C10 / C12.

  The Go enumerates, by backtracking, the orders of the unit's stops that respect the unit's DAG:
  a stop can be placed when every stop with an arc into it has been placed (its in-degree is 0), and
  when the stop just placed has a DIRECT arc, the next stop must be that arc's destination. Every
  level walks the stops in a random order (`random.Perm`); the output is cut off after
  `SequenceSampleSize` sequences.

  The random order of a level is a parameter: `ord seq` is the order in which the level reached after
  placing `seq` walks the stops (any function into permutations of the stop list — every node of the
  recursion is visited once, so this covers every random stream). The theorems show that the SET of
  sequences does not depend on it. Stops and arc endpoints are natural numbers (solution stop indices).

  `gen`       the generator as repaired (E24): the forced successor is decided per candidate;
  `genStale`  the generator as found: the variable holding the forced successor is not cleared between
              the candidates of one level, so a candidate WITHOUT a direct arc inherits the forced
              successor of an earlier candidate — kept for the counterexample theorem.
-/
namespace NR.Seq

/-- An arc of the unit's DAG: origin, destination, direct? -/
structure Arc where
  o : Nat
  d : Nat
  direct : Bool
deriving Repr, DecidableEq

/-- `inDegree[s] == 0` after the stops of `placed` have released their outbound arcs. -/
def avail (arcs : List Arc) (placed : List Nat) (s : Nat) : Bool :=
  !placed.contains s && arcs.all (fun a => a.d != s || placed.contains a.o)

/-- The destination of the stop's direct outbound arc, if it has one. -/
def directSucc (arcs : List Arc) (s : Nat) : Option Nat :=
  (arcs.find? (fun a => a.o == s && a.direct)).map (·.d)

/-- The candidates of a level: all stops (in the level's order), or only the forced one. -/
def cands (order : List Nat) : Option Nat → List Nat
  | none => order
  | some f => order.filter (· == f)

/-- The generator (repaired). `n` = stops still to place. -/
def gen (arcs : List Arc) (ord : List Nat → List Nat) : Nat → List Nat → Option Nat → List (List Nat)
  | 0, seq, _ => [seq]
  | n + 1, seq, forced =>
    (cands (ord seq) forced).flatMap (fun s =>
      if avail arcs seq s then gen arcs ord n (seq ++ [s]) (directSucc arcs s) else [])

/-- All orders the generator produces for a unit of `k` stops. -/
def orders (arcs : List Arc) (ord : List Nat → List Nat) (k : Nat) : List (List Nat) := gen arcs ord k [] none

/-- What the channel delivers: at most `cap` of them. -/
def sample (arcs : List Arc) (ord : List Nat → List Nat) (k cap : Nat) : List (List Nat) := (orders arcs ord k).take cap

/-- The generator as found: one variable for the forced successor per level, overwritten only by
candidates that have a direct arc. -/
def genStale (arcs : List Arc) (ord : List Nat → List Nat) : Nat → List Nat → Option Nat → List (List Nat)
  | 0, seq, _ => [seq]
  | n + 1, seq, forced =>
    ((cands (ord seq) forced).foldl (fun (acc : List (List Nat) × Option Nat) s =>
      if avail arcs seq s then
        let ds := match directSucc arcs s with
          | some d => some d
          | none => acc.2
        (acc.1 ++ genStale arcs ord n (seq ++ [s]) ds, ds)
      else acc) ([], none)).1

/-! ### Specification -/

/-- Position of `s` in `seq`. -/
def pos (seq : List Nat) (s : Nat) : Nat := seq.idxOf s

/-- `seq` respects the DAG: every arc's origin comes before its destination, and a direct arc's
destination comes immediately after its origin. -/
def Respects (arcs : List Arc) (seq : List Nat) : Prop :=
  ∀ a ∈ arcs, pos seq a.o < pos seq a.d ∧ (a.direct = true → pos seq a.d = pos seq a.o + 1)

/-- A valid order of the unit: a permutation of its stops that respects the DAG. -/
def Valid (arcs : List Arc) (stops seq : List Nat) : Prop := seq.Perm stops ∧ Respects arcs seq

/-- Well-formed unit: distinct stops, arcs between distinct stops of the unit, at most one direct arc
out of a stop. -/
def WF (arcs : List Arc) (stops : List Nat) : Prop :=
  stops.Nodup ∧ (∀ a ∈ arcs, a.o ∈ stops ∧ a.d ∈ stops ∧ a.o ≠ a.d) ∧
  (∀ a ∈ arcs, ∀ b ∈ arcs, a.o = b.o → a.direct = true → b.direct = true → a.d = b.d)

end NR.Seq
