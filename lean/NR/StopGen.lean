/-
  NR.StopGen — the hypothetical-route iterator used by every estimate (C09):
  `solutionStopGeneratorImpl.next` (solution_stop_generator.go), transcribed branch for branch.

  A move inserts the stops `x₀ … x_{k-1}` of a unit into a vehicle's route; the move carries one stop
  position (previous, stop, next) per inserted stop, where previous / next are the neighbours the stop
  will have: a planned stop of the route or another stop of the same move. The iterator walks the route
  AS IT WOULD BE after the move, without performing it, starting at the vehicle's first stop
  (`startAtFirst`) or at the stop before the first inserted stop, and ending at the vehicle's last stop
  (`endAtLast`) or at the stop behind the last inserted stop.

  Stops are natural numbers. What the iterator reads from the solution is abstracted to the current
  route (`route`, first … last): `s.Next()` = `succ route s`, `s.IsPlanned()` = membership,
  `s.IsLast()` = being the last element.
-/
namespace NR.StopGen

structure Pos where
  prev : Nat
  stop : Nat
  next : Nat
deriving Repr, DecidableEq

structure St where
  nextStop     : Nat
  idx          : Nat
  startAtFirst : Bool
  endAtLast    : Bool
  endReached   : Bool
deriving Repr, DecidableEq

/-- `s.Next()` on the current route (the last stop is its own successor). -/
def succ : List Nat → Nat → Nat
  | [], s => s
  | [_], s => s
  | a :: b :: r, s => if a = s then b else succ (b :: r) s

def planned (route : List Nat) (s : Nat) : Bool := route.contains s
def isLast (route : List Nat) (s : Nat) : Bool := route.getLast? == some s

def posAt (ps : List Pos) (i : Nat) : Pos := ps.getD i ⟨0, 0, 0⟩

/-- One call of `next()`: the stop returned (none = exhausted) and the new state. -/
def step (route : List Nat) (ps : List Pos) (st : St) : Option Nat × St :=
  if st.endReached then (none, st)
  else
    let ret := st.nextStop
    if st.startAtFirst then
      if st.nextStop = (posAt ps st.idx).prev then
        (some ret, { st with startAtFirst := false, nextStop := (posAt ps st.idx).stop })
      else
        (some ret, { st with nextStop := succ route st.nextStop })
    else if st.idx < ps.length then
      if st.nextStop = (posAt ps st.idx).stop then
        (some ret, { st with nextStop := (posAt ps st.idx).next, idx := st.idx + 1 })
      else if st.nextStop = (posAt ps st.idx).prev then
        (some ret, { st with nextStop := (posAt ps st.idx).stop, idx := st.idx + 1 })
      else if !planned route st.nextStop then
        (some ret, { st with nextStop := (posAt ps (st.idx - 1)).next })
      else if isLast route st.nextStop then
        (some ret, { st with endReached := true })
      else
        (some ret, { st with nextStop := succ route st.nextStop })
    else if !planned route st.nextStop then
      (some ret, { st with nextStop := (posAt ps (st.idx - 1)).next })
    else if st.endAtLast then
      if isLast route st.nextStop then
        (some ret, { st with endReached := true, endAtLast := false })
      else
        (some ret, { st with nextStop := succ route st.nextStop })
    else
      (some ret, { st with endReached := true })

/-- Drain the iterator (at most `fuel` calls). -/
def drain (route : List Nat) (ps : List Pos) : Nat → St → List Nat
  | 0, _ => []
  | fuel + 1, st =>
    match step route ps st with
    | (none, _) => []
    | (some s, st') => s :: drain route ps fuel st'

/-- `newSolutionStopGenerator`. -/
def init (route : List Nat) (ps : List Pos) (startAtFirst endAtLast : Bool) : St :=
  { nextStop := if startAtFirst then route.headD 0 else (posAt ps 0).prev, idx := 0,
    startAtFirst := startAtFirst, endAtLast := endAtLast, endReached := false }

/-- Everything the iterator yields for a move. -/
def generate (route : List Nat) (ps : List Pos) (startAtFirst endAtLast : Bool) : List Nat :=
  drain route ps (route.length + 2 * ps.length + 2) (init route ps startAtFirst endAtLast)

/-! ### Specification: a move as gaps, and the route after it -/

/-- A move given as (gap, stop) pairs: `gap = g` means "directly before `route[g]`", gaps ascending,
`1 ≤ g < route.length` (never before the first stop, at most before the last). -/
abbrev Ins := List (Nat × Nat)

/-- The route after the move. -/
def splice (route : List Nat) (ins : Ins) : List Nat :=
  (List.range route.length).flatMap (fun i => ((ins.filter (·.1 = i)).map (·.2)) ++ [route.getD i 0])

/-- The stop positions the engine builds for the move: the neighbours each inserted stop will have. -/
def positions (route : List Nat) (ins : Ins) : List Pos :=
  (List.range ins.length).map (fun i =>
    let g := (ins.getD i (0, 0)).1
    let x := (ins.getD i (0, 0)).2
    let p := if 0 < i ∧ (ins.getD (i - 1) (0, 0)).1 = g then (ins.getD (i - 1) (0, 0)).2 else route.getD (g - 1) 0
    let n := if i + 1 < ins.length ∧ (ins.getD (i + 1) (0, 0)).1 = g then (ins.getD (i + 1) (0, 0)).2 else route.getD g 0
    ⟨p, x, n⟩)

/-- The part of the new route the iterator is specified to yield. -/
def expected (route : List Nat) (ins : Ins) (startAtFirst endAtLast : Bool) : List Nat :=
  let full := splice route ins
  let firstGap := (ins.headD (1, 0)).1
  let lastGap := (ins.getLastD (1, 0)).1
  let lo := if startAtFirst then 0 else firstGap - 1          -- index in `route` of the first stop yielded
  let upto := if endAtLast then route.length - 1 else lastGap   -- index in `route` of the last stop yielded
  -- positions in `full`: a route stop at index i sits behind all insertions with gap ≤ i
  let off (i : Nat) : Nat := i + (ins.filter (·.1 ≤ i)).length
  (full.drop (off lo)).take (off upto - off lo + 1)

/-- Well-formed move: route stops distinct, inserted stops distinct and not on the route, gaps
ascending and in range, at least one insertion, a route with first and last stop. -/
def WF (route : List Nat) (ins : Ins) : Prop :=
  route.Nodup ∧ 2 ≤ route.length ∧ ins ≠ [] ∧ (ins.map (·.2)).Nodup ∧
  (∀ p ∈ ins, p.2 ∉ route ∧ 1 ≤ p.1 ∧ p.1 < route.length) ∧
  ins.Pairwise (fun a b => a.1 ≤ b.1)

end NR.StopGen
