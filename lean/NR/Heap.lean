/-
  NR.Heap — address-level model of `solutionImpl.Copy`'s chunked allocation (C11): one backing
  array per element type is allocated and slices are carved from it one after the other with
  `common.CopySliceFrom(chunk, src)` (copy `len(src)` elements to the front of `chunk`, return
  `chunk[:len(src)]` and the remainder). A carved slice is an (offset, length) range of the fresh
  allocation; independence of the copy from the original and of the copy's fields from each other
  is disjointness of these ranges inside an allocation nobody else references.
-/
namespace NR.Heap

/-- Ranges carved one after the other, starting at offset `off`. -/
def carve (off : Nat) : List Nat → List (Nat × Nat)
  | [] => []
  | n :: ns => (off, n) :: carve (off + n) ns

def total (ns : List Nat) : Nat := ns.foldl (· + ·) 0

def Disjoint (a b : Nat × Nat) : Prop := a.1 + a.2 ≤ b.1 ∨ b.1 + b.2 ≤ a.1

/-- How many elements the carving consumes vs how many the chunk has: `CopySliceFrom` slices
`chunk[:n]`, which panics when the chunk is too short. -/
def Fits (chunk : Nat) (ns : List Nat) : Prop := total ns ≤ chunk

/-- Lengths for a field list: `isV f` fields have one entry per vehicle, the others one per stop. -/
def lengths (isV : String → Bool) (nS nV : Nat) (fields : List String) : List Nat :=
  fields.map (fun f => if isV f then nV else nS)

end NR.Heap
