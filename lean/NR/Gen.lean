/-
  NR.Gen — the enumeration side of best-move search (C10):

  * `combineAscending n m` — `solution_move_stops_generator.go:combineAscending`: for a unit of
    `n` stops and a target route with `m` gaps, all ways to choose a gap for every stop such that
    the stops keep their order (non-decreasing gap numbers, 1-based);
  * `generate n m splitBad mustSame` — `generate` of the same file for models with direct
    successors: the same enumeration, pruned by
       `splitBad i`   : gap `i` lies between a direct pair of the *target* route,
       `mustSame j`   : stops `j` and `j+1` of the unit are a direct pair (must share a gap);
  * `takeBest` — `solution_move.go:takeBestInPlace` folded over candidate moves, with the random
    tie-break as an explicit stream of Booleans.
-/
import NR.Basic
namespace NR.Gen

/-- `k` gaps still to choose, each ≥ `lo` (the Go: `start = combination[last] - 1`, appends `i+1`). -/
def combFrom (m : Nat) : Nat → Nat → List (List Nat)
  | 0, _ => [[]]
  | k + 1, lo => (List.range' lo (m + 1 - lo)).flatMap (fun x => (combFrom m k x).map (x :: ·))

def combineAscending (n m : Nat) : List (List Nat) := combFrom m n 1

/-- The sequences `combineAscending n m` must enumerate. -/
def IsPlacement (n m : Nat) (c : List Nat) : Prop :=
  c.length = n ∧ c.Pairwise (· ≤ ·) ∧ ∀ x ∈ c, 1 ≤ x ∧ x ≤ m

/-- The Go `generate`: position `idx` of the unit (0-based) is being placed, `prev` is the gap of
the previous stop of the unit (`none` for the first one). `splitBad i` says gap `i` (1-based)
separates a direct pair of the target route (`i > 1 && mustBeNeighbours(target[i-1], target[i])`);
`mustSame j` says unit stops `j-1`,`j` are a direct pair. The loop `break`s at the first gap
different from the previous stop's gap when the pair must stay together. -/
def genFrom (m : Nat) (splitBad : Nat → Bool) (mustSame : Nat → Bool) :
    (k : Nat) → (idx : Nat) → (prev : Option Nat) → List (List Nat)
  | 0, _, _ => [[]]
  | k + 1, idx, prev =>
    let lo := prev.getD 1
    ((List.range' lo (m + 1 - lo)).filter (fun x =>
        !(splitBad x) && (match prev with
          | some p => !(mustSame idx) || x = p
          | none => true))).flatMap
      (fun x => (genFrom m splitBad mustSame k (idx + 1) (some x)).map (x :: ·))

def generate (n m : Nat) (splitBad mustSame : Nat → Bool) : List (List Nat) :=
  genFrom m splitBad mustSame n 0 none

/-- What `generate` must enumerate: placements that split no direct pair. -/
def IsAllowedPlacement (n m : Nat) (splitBad mustSame : Nat → Bool) (c : List Nat) : Prop :=
  IsPlacement n m c ∧ (∀ x ∈ c, splitBad x = false) ∧
  (∀ j, j + 1 < c.length → mustSame (j + 1) = true → c.getD j 0 = c.getD (j + 1) 0)

/-! ### `generate` for models with disallowed successors (successor constraint, model API) -/

/-- The Go `generate` when the model has disallowed successors and no direct arcs: `src` = the unit's stops still to
place (in the order tried), `tgt` = the target route from the vehicle's first to its last stop, `m = tgt.length - 1` gaps,
`dis a b` = b must not directly follow a, `prev` = (gap, stop) of the unit's stop placed last.
For the gap `g` tried for stop `s`: the PREVIOUS unit stop is now followed by `s` (same gap) or by the planned stop behind
its gap (another gap) — that pair must be allowed; and `s` must be allowed behind the stop in front of it. Whether the stop
behind the LAST unit stop is allowed is not looked at here (the constraint's estimate does that).
`asGiven`: the code before the repair of E41 gave up on the stop altogether when the previous unit stop and `s` must not be
neighbours (instead of trying `s` further down). -/
def genDisFrom (asGiven : Bool) (dis : Nat → Nat → Bool) (tgt : List Nat) (m : Nat) :
    List Nat → Option (Nat × Nat) → List (List Nat)
  | [], _ => [[]]
  | s :: rest, prev =>
    let lo := match prev with
      | some (pg, _) => pg
      | none => 1
    ((List.range' lo (m + 1 - lo)).filter (fun g =>
        (match prev with
          | some (pg, ps) =>
            (if g = pg then !(dis ps s) else !(dis ps (tgt.getD pg 0))) && !(asGiven && dis ps s)
          | none => true) &&
        !(dis (match prev with
          | some (pg, ps) => if g = pg then ps else tgt.getD (g - 1) 0
          | none => tgt.getD (g - 1) 0) s))).flatMap
      (fun g => (genDisFrom asGiven dis tgt m rest (some (g, s))).map (g :: ·))

def genDis (dis : Nat → Nat → Bool) (src tgt : List Nat) : List (List Nat) :=
  genDisFrom false dis tgt (tgt.length - 1) src none

def genDisGiven (dis : Nat → Nat → Bool) (src tgt : List Nat) : List (List Nat) :=
  genDisFrom true dis tgt (tgt.length - 1) src none

/-- the stop in front of unit stop `j` under placement `c` -/
def prevElem (src tgt c : List Nat) (j : Nat) : Nat :=
  if j > 0 ∧ c.getD j 0 = c.getD (j - 1) 0 then src.getD (j - 1) 0 else tgt.getD (c.getD j 0 - 1) 0

/-- the stop behind unit stop `j` under placement `c` -/
def nextElem (src tgt c : List Nat) (j : Nat) : Nat :=
  if j + 1 < c.length ∧ c.getD (j + 1) 0 = c.getD j 0 then src.getD (j + 1) 0 else tgt.getD (c.getD j 0) 0

/-- What `genDis` must enumerate: the ascending placements in which no unit stop directly follows a stop it must not
follow and no unit stop but the last is directly followed by a stop that must not follow it. -/
def IsAllowedDis (dis : Nat → Nat → Bool) (src tgt c : List Nat) : Prop :=
  IsPlacement src.length (tgt.length - 1) c ∧
  (∀ j, j < src.length → dis (prevElem src tgt c j) (src.getD j 0) = false) ∧
  (∀ j, j + 1 < src.length → dis (src.getD j 0) (nextElem src tgt c j) = false)

/-! ### Selecting the best move -/

structure Cand where
  value : Rat
  exec  : Bool
  seen  : Nat := 1
  tag   : Nat := 0          -- identifies the candidate (position in the enumeration)
deriving Repr, DecidableEq, Inhabited

/-- `takeBestInPlace best that` with the outcome of `Random().Intn(best.seen + that.seen) == 0`
supplied as `keep`. -/
def takeBest (best that : Cand) (keep : Bool) : Cand :=
  if !that.exec then best
  else if !best.exec then that
  else if best.value < that.value then best
  else if best.value > that.value then that
  else if keep then { best with seen := best.seen + 1 }
  else { that with seen := best.seen + that.seen }

/-- Fold over candidates with a stream of tie-break outcomes. -/
def bestOf : Cand → List Cand → List Bool → Cand
  | b, [], _ => b
  | b, c :: cs, [] => bestOf (takeBest b c false) cs []
  | b, c :: cs, t :: ts => bestOf (takeBest b c t) cs ts

def notExecutable : Cand := { value := 0, exec := false, seen := 0, tag := 0 }

end NR.Gen
