/-
  NR.TimeDep — executable model of `model_expression_time_dependent.go`
  (`SetExpression`, `updateMap`, `getElementAtValue`, `ValueAtValue`).

  One (vehicle type, from, to) triple is fixed; an *expression* is then just a
  non-negative duration, referred to by an index into `durs` (index 0 = the default
  expression).  Times are values in model duration units (seconds since the epoch),
  `minute` = 60 units.

  The Go keeps a doubly linked chain `startElement → … → nil`, an `endElement`
  pointer and a per-minute map onto the middle elements.  The model keeps the chain
  as a list `chain` (every element but the open-ended last one) — see DESIGN §3.5 and
  the comments on `setExpression` for what is abstracted (the stale `previous`
  pointers, which only matter for zero-length frames; those are rejected here).
-/
import NR.Basic
namespace NR.TimeDep

structure Elem where
  start : Rat
  stop  : Rat
  expr  : Nat        -- 0 = default expression
deriving Repr, DecidableEq, Inhabited

/-- The chain: `elems` are all elements except the open-ended last one (always the
default expression), `lastStart` is where that last one begins (`endElement.start`). -/
structure Chain where
  elems     : List Elem
  lastStart : Rat
  earliest  : Rat := 0      -- `t.earliest` / `t.latest`: only used for the one-week limit
  latest    : Rat := 0
deriving Repr, DecidableEq, Inhabited

def week : Rat := 604800

def minuteOf (v : Rat) : Rat := ((v / 60).floor : Int) * 60

inductive SetResult
  | ok (c : Chain)
  | overlap
  | badArg
deriving Repr

/-- Where the search loop of `SetExpression` stops:
`for element.next != nil && element.start < s && element.end <= s { element = element.next }`.
Returns the elements walked past, and the remainder starting with the element found.
The open-ended last element (`next == nil`) is represented by an empty remainder. -/
def findSplit (s : Rat) : List Elem → List Elem × List Elem
  | [] => ([], [])
  | e :: rest =>
    if e.start < s ∧ e.stop ≤ s then
      let (pre, post) := findSplit s rest
      (e :: pre, post)
    else ([], e :: rest)

/-- `SetExpression(start,end,expr)` on an already initialised chain (the `else` branch),
and on the empty expression (`startElement == nil`, `c = none`). `s`,`e` are values. -/
def setExpression (c : Option Chain) (s e : Rat) (x : Nat) : SetResult :=
  -- argument checks, in the order of the Go: before epoch, start after end, minute boundaries
  if s < 0 ∨ e < s ∨ minuteOf s ≠ s ∨ minuteOf e ≠ e then .badArg else
  let ear0 := (c.map (·.earliest)).getD 0
  let lat0 := (c.map (·.latest)).getD 0
  let earliest := if s < ear0 ∨ ear0 = 0 then s else ear0
  let latest := if e > lat0 ∨ lat0 = 0 then e else lat0
  if latest - earliest > week then .badArg else
  match c with
  | none =>
    -- start element [0,s) default, new [s,e), end element [e,∞) default
    .ok { elems := [⟨0, s, 0⟩, ⟨s, e, x⟩], lastStart := e, earliest, latest }
  | some c =>
    let (pre, post) := findSplit s c.elems
    match post with
    | [] =>
      -- found the open-ended last element: always the default expression, no overlap test fires
      -- split1 = [lastStart, s) default, new, split2 = [e, ∞) default
      .ok { elems := pre ++ [⟨c.lastStart, s, 0⟩, ⟨s, e, x⟩], lastStart := e, earliest, latest }
    | el :: rest =>
      if el.expr ≠ 0 ∧ el.start < e then .overlap
      -- `element.next != nil && element.end < newElement.end` (every listed element has a successor):
      -- the interval starts in this gap but reaches into the frame that follows it
      else if el.stop < e then .overlap
      else
        .ok { elems := pre ++ [⟨el.start, s, el.expr⟩, ⟨s, e, x⟩, ⟨e, el.stop, el.expr⟩] ++ rest,
              lastStart := c.lastStart, earliest, latest }

/-- `updateMap` recomputes `startElement.end = startElement.next.start` and
`endElement.start = end of the last middle element`. The model applies the same fix-ups. -/
def normalise (c : Chain) : Chain :=
  match c.elems with
  | [] => c
  | first :: mids =>
    let first' : Elem := match mids with
      | [] => first
      | m :: _ => { first with stop := m.start }
    let lastStart := match mids.getLast? with
      | none => c.lastStart
      | some m => m.stop
    { c with elems := first' :: mids, lastStart := lastStart }

def setExpr (c : Option Chain) (s e : Rat) (x : Nat) : SetResult :=
  match setExpression c s e x with
  | .ok c' => .ok (normalise c')
  | r => r

/-- Fold a list of frames (as the factory does, in input order); stops at the first error. -/
def build : Option Chain → List (Rat × Rat × Nat) → Except String (Option Chain)
  | c, [] => .ok c
  | c, (s, e, x) :: rest =>
    match setExpr c s e x with
    | .ok c' => build (some c') rest
    | .overlap => .error "overlap"
    | .badArg => .error "badarg"

/-- The continuation of `ValueAtValue`'s loop over `element.next`:
`fc` = fraction covered so far, `d` = duration accumulated so far.
`[]` is the open-ended last element (default expression `dflt`). -/
def walk (durs : Nat → Rat) : List Elem → Rat → Rat → Rat
  | [], fc, d =>
    let req := (1 - fc) * durs 0
    if req = 0 then d else d + req
  | el :: rest, fc, d =>
    let req := (1 - fc) * durs el.expr
    if req = 0 then d else
    let can := (el.stop - el.start) / req
    if can ≥ 1 then d + req else
    walk durs rest (fc + can * (1 - fc)) (d + can * req)

/-- From the element found by `getElementAtValue`: the first part of `ValueAtValue`. -/
def fromElem (durs : Nat → Rat) (v : Rat) (el : Elem) (rest : List Elem) : Rat :=
  let dur := durs el.expr
  if dur = 0 then 0 else
  let fc := (el.stop - v) / dur
  if fc ≥ 1 then dur else
  walk durs rest fc (fc * dur)

/-- Suffixes of the middle elements whose head covers `minute` (the per-minute map of `updateMap`;
later elements overwrite earlier ones, so the *last* hit wins). -/
def lookupMid (minute : Rat) : List Elem → Option (Elem × List Elem)
  | [] => none
  | el :: rest =>
    match lookupMid minute rest with
    | some r => some r
    | none => if el.start ≤ minute ∧ minute < el.stop then some (el, rest) else none

/-- `ValueAtValue`. `none` = the Go dereferences a nil element (a minute no element covers). -/
def valueAt (durs : Nat → Rat) (c : Option Chain) (v : Rat) : Option Rat :=
  match c with
  | none => some (durs 0)
  | some c =>
    match c.elems with
    | [] => some (durs 0)
    | first :: mids =>
      let minute := minuteOf v
      if minute < first.stop then some (fromElem durs v first mids)
      else if minute ≥ c.lastStart then some (durs 0)      -- endElement: open ended, default
      else match lookupMid minute mids with
        | some (el, rest) => some (fromElem durs v el rest)
        | none => none

/-! ### Well-formedness -/

/-- Sorted, contiguous, non-negative lengths, starting at `from`, ending at `to`. -/
def Contig : Rat → List Elem → Rat → Prop
  | a, [], b => a = b
  | a, el :: rest, b => el.start = a ∧ el.start ≤ el.stop ∧ Contig el.stop rest b

instance decContig : (a : Rat) → (l : List Elem) → (b : Rat) → Decidable (Contig a l b)
  | a, [], b => inferInstanceAs (Decidable (a = b))
  | a, el :: rest, b =>
    have := decContig el.stop rest b
    inferInstanceAs (Decidable (el.start = a ∧ el.start ≤ el.stop ∧ Contig el.stop rest b))

def WF (c : Chain) : Prop := Contig 0 c.elems c.lastStart

instance (c : Chain) : Decidable (WF c) := decContig _ _ _

/-- What `SetExpression` enforces on its arguments: minute boundaries. -/
def Aligned (c : Chain) : Prop :=
  (∀ el ∈ c.elems, minuteOf el.start = el.start ∧ minuteOf el.stop = el.stop) ∧
  minuteOf c.lastStart = c.lastStart

mutual
/-- default element, then a frame -/
def AltD : List Elem → Prop
  | [] => False
  | el :: rest => el.expr = 0 ∧ AltF rest
/-- frame of positive length, then (nothing or) a default element -/
def AltF : List Elem → Prop
  | [] => False
  | el :: rest => el.expr ≠ 0 ∧ el.start < el.stop ∧ (rest = [] ∨ AltD rest)
end

/-- The chains `SetExpression` produces from pairwise disjoint frames. -/
def Good (c : Chain) : Prop := WF c ∧ Aligned c ∧ AltD c.elems

def NonnegDurs (durs : Nat → Rat) : Prop := ∀ i, 0 ≤ durs i


/-- A concrete chain (two adjacent frames and a gapped one) used for non-vacuity examples. -/
def exampleChain : Chain :=
  { elems := [⟨0, 600, 0⟩, ⟨600, 1200, 1⟩, ⟨1200, 1200, 0⟩, ⟨1200, 1800, 2⟩, ⟨1800, 3600, 0⟩, ⟨3600, 4200, 1⟩],
    lastStart := 4200, earliest := 600, latest := 4200 }


end NR.TimeDep
