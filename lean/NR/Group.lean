/-
  NR.Group — executing a move for a unit of units (`solutionMoveUnitsImpl.Execute`, solution_move_units.go; C07): the
  member moves are executed one after the other; at the first member that is rejected the members executed so far are
  un-planned again, LAST executed FIRST, and if one of those un-plans is refused the Go returns an ERROR and leaves the
  unit half planned. On the engine model a member move is an operation `Op` (keep a prefix of a route, replace the rest),
  its undo is the operation that puts the old suffix back.

  `lifo = true` is the code; `lifo = false` undoes in execution order (a seeded change, C07-group-rollback-in-execution-order):
  kept for the counterexample theorem.
-/
import NR.Engine
namespace NR.Group
open NR.Engine

variable {S σ τ : Type} [DecidableEq S]

/-- A member move: the operation on the route, and the stops it inserts (the member's own stops). -/
structure Member (S : Type) where
  op  : Op S
  ins : List S

/-- `UnPlan` of a member: take its stops off the route they are on, whatever else is on it — keep the part of the route
in front of the first of them, drop them from the rest. -/
def removeOp (st : MState S σ τ) (v : Nat) (ins : List S) : Op S :=
  match st.routes[v]? with
  | some r =>
    let k := (r.findIdx? (fun s => ins.contains s)).getD r.length
    ⟨v, k, (r.drop k).filter (fun s => !ins.contains s)⟩
  | none => ⟨v, 0, []⟩

/-- Un-plan the given members in the given order; the Boolean says whether every un-plan was accepted. -/
def undoAll (m : Model S σ τ) (st : MState S σ τ) : List (Member S) → MState S σ τ × Bool
  | [] => (st, true)
  | mb :: rest =>
    match applyOp m st (removeOp st mb.op.v mb.ins) with
    | (st', true) => undoAll m st' rest
    | (st', false) => (st', false)         -- "failed to unplan …": the Go returns an error here

/-- `Execute` of a units move: `done` = the members executed so far, most recent first.
Result: the state, whether the whole unit was planned, whether the rollback (if any) went through. -/
def execGroup (m : Model S σ τ) (lifo : Bool) (st : MState S σ τ) (done : List (Member S)) :
    List (Member S) → MState S σ τ × Bool × Bool
  | [] => (st, true, true)
  | mb :: rest =>
    match applyOp m st mb.op with
    | (st', true) => execGroup m lifo st' (mb :: done) rest
    | (st', false) =>
      let (st'', ok) := undoAll m st' (if lifo then done else done.reverse)
      (st'', false, ok)

/-- The member move only INSERTS its own stops into its route: taking them out of the new route gives the old one
back; they are on no route before (`Admissible`). -/
def IsInsertion (st : MState S σ τ) (mb : Member S) : Prop :=
  Admissible st mb.op ∧ mb.ins ≠ [] ∧
  match st.routes[mb.op.v]? with
  | some r => ((r.take mb.op.k ++ mb.op.new).filter (fun s => !mb.ins.contains s) = r) ∧
              (∀ s ∈ mb.ins, s ∈ mb.op.new) ∧ (∀ s ∈ mb.ins, s ∉ st.routes.flatten)
  | none => False

/-- Every member move is an insertion in the state it is applied to. -/
def InsertionGroup (m : Model S σ τ) (st : MState S σ τ) : List (Member S) → Prop
  | [] => True
  | mb :: rest => IsInsertion st mb ∧ InsertionGroup m (applyOp m st mb.op).1 rest

/-! ### `UnPlan` of a unit of units (as repaired, E16) -/

/-- the operation that puts back what `rm` (applied to `st`) took off: keep the same prefix, restore the old suffix -/
def restoreOp (st : MState S σ τ) (rm : Op S) : Op S :=
  ⟨rm.v, rm.k, ((st.routes[rm.v]?).getD []).drop rm.k⟩

/-- Plan the members again, in the given order; the Boolean says whether every move was accepted. -/
def redoAll (m : Model S σ τ) (st : MState S σ τ) : List (Op S) → MState S σ τ × Bool
  | [] => (st, true)
  | op :: rest =>
    match applyOp m st op with
    | (st', true) => redoAll m st' rest
    | (st', false) => (st', false)         -- "failed undoing failed unplan": the Go returns an error here

/-- `solutionPlanUnitsUnitImpl.UnPlan` of a plan-all unit: the members (each given by the vehicle it is on and its own
stops) are un-planned one after the other; at the first member whose un-plan is rejected the members un-planned so far
are planned again where they were, LAST un-planned FIRST (`done`: their restoring operations, most recent first).
Result: the state, whether the unit was un-planned, whether the rollback (if any) went through. -/
def unplanGroup (m : Model S σ τ) (st : MState S σ τ) (done : List (Op S)) :
    List (Nat × List S) → MState S σ τ × Bool × Bool
  | [] => (st, true, true)
  | (v, ins) :: rest =>
    let rm := removeOp st v ins
    match applyOp m st rm with
    | (st', true) => unplanGroup m st' (restoreOp st rm :: done) rest
    | (st', false) =>
      let (st'', ok) := redoAll m st' done
      (st'', false, ok)

end NR.Group
