/-
  NR.Driver — the line protocol (DESIGN §4.2). One operation per input line, one answer per
  line. Each stream (`td`, `emit`, `gen`, …) has its own small state; `step` dispatches on
  the first word. Unknown or malformed lines answer `bad-op` — never a default value.
-/
import NR.Basic
import NR.TimeDep
import NR.Emit
import NR.SpecDriver
import NR.Par
import NR.Format
namespace NR.Driver
open NR

structure TdState where
  durs  : List Rat := []
  chain : Option TimeDep.Chain := none
  pending : List (Rat × Rat × Nat) := []
deriving Inhabited

structure EmitState where
  s0     : Rat := 0
  starts : List Rat := []
  recv   : List Rat := []       -- reversed
  evs    : List Emit.Ev := []   -- reversed
deriving Inhabited

structure State where
  td   : TdState := {}
  sb   : SpecDriver.Builder := {}
  inst : Option Spec.Inst := none
  em   : EmitState := {}
deriving Inhabited

def dursFn (l : List Rat) (i : Nat) : Rat := l.getD i 0

def stepTd (st : TdState) (ws : List String) : TdState × String :=
  match ws with
  | "new" :: ds =>
    match parseRats? ds with
    | some l => ({ durs := l, chain := none, pending := [] }, "td new " ++ toString l.length)
    | none => (st, "bad-op")
  | ["set", s, e, x] =>
    match parseRat? s, parseRat? e, x.toNat? with
    | some s, some e, some x =>
      match TimeDep.setExpr st.chain s e x with
      | .ok c => ({ st with chain := some c }, "td set ok")
      | .overlap => (st, "td set overlap")
      | .badArg => (st, "td set badarg")
    | _, _, _ => (st, "bad-op")
  | ["trybuild", s, e, x] =>
    match parseRat? s, parseRat? e, x.toNat? with
    | some s, some e, some x => ({ st with pending := st.pending ++ [(s, e, x)] }, "td trybuild")
    | _, _, _ => (st, "bad-op")
  | ["buildverdict"] =>
    match TimeDep.build none st.pending with
    | .ok c => ({ st with chain := c, pending := [] }, "td buildverdict ok")
    | .error e => ({ st with pending := [] }, "td buildverdict " ++ e)
  | ["q", v] =>
    match parseRat? v with
    | some v => (st, "td q " ++ showOptRat (TimeDep.valueAt (dursFn st.durs) st.chain v))
    | none => (st, "bad-op")
  | ["wf"] =>
    match st.chain with
    | none => (st, "td wf true")
    | some c => (st, "td wf " ++ toString (decide (TimeDep.WF c)))
  | _ => (st, "bad-op")

def showRats (l : List Rat) : String := showCsv (l.map showRat)

/-- `emit …`: the aggregator (C06). `start s0 starts…`, `recv x`, `end` prints what is delivered. -/
def stepEmit (st : EmitState) (ws : List String) : EmitState × String :=
  match ws with
  | "start" :: s0 :: rest =>
    match parseRat? s0, parseRats? rest with
    | some s0, some l => ({ s0 := s0, starts := l, recv := [], evs := [] }, "emit start")
    | _, _ => (st, "bad-op")
  | ["recv", x] =>
    match parseRat? x with
    | some x => ({ st with recv := x :: st.recv }, "emit recv")
    | none => (st, "bad-op")
  | ["end"] => (st, "emit end " ++ showRats (Emit.channel st.s0 st.starts st.recv.reverse))
  | ["op", w, ci] =>
    match parseRat? w with
    | some w => ({ st with evs := .op w (ci = "1") :: st.evs }, "emit op")
    | none => (st, "bad-op")
  | ["reset", r] =>
    match parseRat? r with
    | some r => ({ st with evs := .reset r :: st.evs }, "emit reset")
    | none => (st, "bad-op")
  | ["send"] =>
    (st, "emit send " ++ showRats (Emit.schannel st.s0 st.evs.reverse) ++ " best " ++
      showRat (Emit.sfinalBest st.s0 st.evs.reverse))
  | _ => (st, "bad-op")

/-- `par budget <I> <requests in the order the workers asked>`: total iterations granted (order
independent by `c15_total_grant_order_independent`, so comparable with the code's total whatever the
actual arrival order at the counter was). -/
def stepPar (ws : List String) : String :=
  match ws with
  | "budget" :: b :: reqs =>
    match parseInt? b, parseNats? reqs with
    | some b, some rs => "par budget total " ++ toString (Par.sumNat (Par.grants b rs))
    | _, _ => "bad-op"
  | _ => "bad-op"

/-- `fmt route <t0> <travel:arrival:start:finish>…`: the derived route waiting duration. -/
def stepFmt (ws : List String) : String :=
  match ws with
  | "route" :: t0 :: legs =>
    match parseInt? t0, allSome (legs.map (fun w => match (w.splitOn ":").map parseInt? with
        | [some a, some b, some c, some d] => some ({ travel := a, arrival := b, start := c, finish := d } : Format.Leg)
        | _ => none)) with
    | some t0, some ls => "fmt route " ++ toString (Format.routeWaiting t0 ls)
    | _, _ => "bad-op"
  | _ => "bad-op"

def step (st : State) (line : String) : State × String :=
  match words line with
  | "par" :: ws => (st, stepPar ws)
  | "fmt" :: ws => (st, stepFmt ws)
  | "td" :: ws => let (t, o) := stepTd st.td ws; ({ st with td := t }, o)
  | "emit" :: ws => let (t, o) := stepEmit st.em ws; ({ st with em := t }, o)
  | "inst" :: ws =>
    let sb := if ws.head? = some "begin" then {} else st.sb
    match SpecDriver.stepInst sb ws with
    | .ok b =>
      if ws = ["end"] then ({ st with sb := b, inst := some b.inst }, "inst")
      else ({ st with sb := b, inst := if ws.head? = some "begin" then none else st.inst }, "inst")
    | .error e => ({ st with inst := none }, "inst-error " ++ e)
  | "obs" :: ws =>
    match st.inst, SpecDriver.parseObs ws with
    | some inst, some o =>
      match SpecDriver.verdict inst o with
      | [] => (st, "obs ok")
      | l => (st, "obs " ++ " ".intercalate l)
    | none, _ => (st, "obs no-instance")
    | _, none => (st, "bad-op")
  | [] => (st, "")
  | [w, _] => if w = "crash" ∨ w = "copyrace" ∨ w = "parrace" ∨ w = "detsched" ∨ w = "repro" then (st, w) else (st, "bad-op")
  | _ => (st, "bad-op")

end NR.Driver
