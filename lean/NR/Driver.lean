/-
  NR.Driver — the line protocol (DESIGN §4.2). One operation per input line, one answer per
  line. Each stream (`td`, `emit`, `gen`, …) has its own small state; `step` dispatches on
  the first word. Unknown or malformed lines answer `bad-op` — never a default value.
-/
import NR.Basic
import NR.TimeDep
import NR.Emit
import NR.SpecDriver
import NR.Par
import NR.Format
import NR.Gen
import NR.Coll
import NR.Estimate
import NR.WaitEst
import NR.Seq
import NR.StopGen
import NR.Links
import NR.RangeCheck
import NR.Sched
import NR.Mix
import NR.Front
import NR.LatestEst
import NR.Init
import NR.Closest
import NR.Units
namespace NR.Driver
open NR

structure TdState where
  durs  : List Rat := []
  chain : Option TimeDep.Chain := none
  pending : List (Rat × Rat × Nat) := []
deriving Inhabited

structure EmitState where
  s0     : Rat := 0
  starts : List Rat := []
  recv   : List Rat := []       -- reversed
  evs    : List Emit.Ev := []   -- reversed
deriving Inhabited

structure CollSt where
  units : Coll.Units := { kind := [], parent := [], fixed := [] }
  st    : Coll.CState := {}
deriving Inhabited

structure EngSt where
  st   : Option (Engine.MState Sched.Node Sched.CV Spec.Terms) := none
  live : List Nat := []        -- resources whose cumulative value the code keeps (capacity constraint registered)
  dist : Bool := false         -- the code keeps a cumulative distance (distance limit registered)
deriving Inhabited

structure State where
  eng  : EngSt := {}
  rc   : List RangeCheck.Iv := []
  coll : CollSt := {}
  td   : TdState := {}
  sb   : SpecDriver.Builder := {}
  inst : Option Spec.Inst := none
  em   : EmitState := {}
deriving Inhabited

def dursFn (l : List Rat) (i : Nat) : Rat := l.getD i 0

def stepTd (st : TdState) (ws : List String) : TdState × String :=
  match ws with
  | "new" :: ds =>
    match parseRats? ds with
    | some l => ({ durs := l, chain := none, pending := [] }, "td new " ++ toString l.length)
    | none => (st, "bad-op")
  | ["set", s, e, x] =>
    match parseRat? s, parseRat? e, x.toNat? with
    | some s, some e, some x =>
      match TimeDep.setExpr st.chain s e x with
      | .ok c => ({ st with chain := some c }, "td set ok")
      | .overlap => (st, "td set overlap")
      | .badArg => (st, "td set badarg")
    | _, _, _ => (st, "bad-op")
  | ["trybuild", s, e, x] =>
    match parseRat? s, parseRat? e, x.toNat? with
    | some s, some e, some x => ({ st with pending := st.pending ++ [(s, e, x)] }, "td trybuild")
    | _, _, _ => (st, "bad-op")
  | ["buildverdict"] =>
    match TimeDep.build none st.pending with
    | .ok c => ({ st with chain := c, pending := [] }, "td buildverdict ok")
    | .error e => ({ st with pending := [] }, "td buildverdict " ++ e)
  | ["q", v] =>
    match parseRat? v with
    | some v => (st, "td q " ++ showOptRat (TimeDep.valueAt (dursFn st.durs) st.chain v))
    | none => (st, "bad-op")
  | ["wf"] =>
    match st.chain with
    | none => (st, "td wf true")
    | some c => (st, "td wf " ++ toString (decide (TimeDep.WF c)))
  | _ => (st, "bad-op")

def showRats (l : List Rat) : String := showCsv (l.map showRat)

/-- `emit …`: the aggregator (C06). `start s0 starts…`, `recv x`, `end` prints what is delivered. -/
def stepEmit (st : EmitState) (ws : List String) : EmitState × String :=
  match ws with
  | "start" :: s0 :: rest =>
    match parseRat? s0, parseRats? rest with
    | some s0, some l => ({ s0 := s0, starts := l, recv := [], evs := [] }, "emit start")
    | _, _ => (st, "bad-op")
  | ["recv", x] =>
    match parseRat? x with
    | some x => ({ st with recv := x :: st.recv }, "emit recv")
    | none => (st, "bad-op")
  | ["end"] => (st, "emit end " ++ showRats (Emit.channel st.s0 st.starts st.recv.reverse))
  | ["op", w, ci] =>
    match parseRat? w with
    | some w => ({ st with evs := .op w (ci = "1") :: st.evs }, "emit op")
    | none => (st, "bad-op")
  | ["reset", r] =>
    match parseRat? r with
    | some r => ({ st with evs := .reset r :: st.evs }, "emit reset")
    | none => (st, "bad-op")
  | ["send"] =>
    (st, "emit send " ++ showRats (Emit.schannel st.s0 st.evs.reverse) ++ " best " ++
      showRat (Emit.sfinalBest st.s0 st.evs.reverse))
  | _ => (st, "bad-op")

/-- `par budget <I> <requests in the order the workers asked>`: total iterations granted (order
independent by `c15_total_grant_order_independent`, so comparable with the code's total whatever the
actual arrival order at the counter was). -/
def stepPar (ws : List String) : String :=
  match ws with
  | "budget" :: b :: reqs =>
    match parseInt? b, parseNats? reqs with
    | some b, some rs => "par budget total " ++ toString (Par.sumNat (Par.grants b rs))
    | _, _ => "bad-op"
  | _ => "bad-op"

/-- `fmt route <t0> <travel:arrival:start:finish>…`: the derived route waiting duration. -/
def stepFmt (ws : List String) : String :=
  match ws with
  | "route" :: t0 :: legs =>
    match parseInt? t0, allSome (legs.map (fun w => match (w.splitOn ":").map parseInt? with
        | [some a, some b, some c, some d] => some ({ travel := a, arrival := b, start := c, finish := d } : Format.Leg)
        | _ => none)) with
    | some t0, some ls => "fmt route " ++ toString (Format.routeWaiting t0 ls)
    | _, _ => "bad-op"
  | _ => "bad-op"

/-- `gen <n> <m> <gaps that split a direct pair of the target> <unit positions tied to their predecessor>`:
the placements `generate` enumerates, in its order. -/
def stepGen (ws : List String) : String :=
  match ws with
  | [n, m, bad, same] =>
    match n.toNat?, m.toNat?, (if bad = "-" then some [] else parseNats? (bad.splitOn ",")),
          (if same = "-" then some [] else parseNats? (same.splitOn ",")) with
    | some n, some m, some bad, some same =>
      let cs := Gen.generate n m (fun g => bad.contains g) (fun j => same.contains j)
      if cs.isEmpty then "gen -"
      else "gen " ++ ";".intercalate (cs.map (fun c => ".".intercalate (c.map toString)))
    | _, _, _, _ => "bad-op"
  | _ => "bad-op"

/-- `gend <unit stops csv> <target stops csv> <a:b,…>`: the position generator under disallowed successors (NR.Gen.genDis). -/
def stepGenD (ws : List String) : String :=
  match ws with
  | [src, tgt, dis] =>
    let pairs : Option (List (Nat × Nat)) :=
      allSome ((parseCsv dis).map (fun x => match x.splitOn ":" with
        | [a, b] => (match a.toNat?, b.toNat? with
          | some a, some b => some (a, b)
          | _, _ => none)
        | _ => none))
    match parseNats? (parseCsv src), parseNats? (parseCsv tgt), pairs with
    | some src, some tgt, some ps =>
      let cs := Gen.genDis (fun a b => ps.contains (a, b)) src tgt
      if cs.isEmpty then "gend -"
      else "gend " ++ ";".intercalate (cs.map (fun c => ".".intercalate (c.map toString)))
    | _, _, _ => "bad-op"
  | _ => "bad-op"

/-- `closest <n> <self> <key:index,…>`: NearestStops as repaired (NR.Closest.nearest); keys = ranks of the squared distances. -/
def stepClosest (ws : List String) : String :=
  match ws with
  | [n, self, cs] =>
    let pairs : Option (List (Nat × Nat)) :=
      allSome ((parseCsv cs).map (fun x => match x.splitOn ":" with
        | [a, b] => (match a.toNat?, b.toNat? with
          | some a, some b => some (a, b)
          | _, _ => none)
        | _ => none))
    match n.toNat?, self.toNat?, pairs with
    | some n, some self, some ps => "closest " ++ Closest.render (Closest.nearest n self ps)
    | _, _, _ => "bad-op"
  | _ => "bad-op"

/-- `units <a:b,…>`: the factory's grouping of precedence relations into plan units (NR.Units.run), relations in the
order the factory processes them. -/
def stepUnits (ws : List String) : String :=
  match ws with
  | [rs] =>
    let pairs : Option (List (Nat × Nat)) :=
      allSome ((parseCsv rs).map (fun x => match x.splitOn ":" with
        | [a, b] => (match a.toNat?, b.toNat? with
          | some a, some b => some (a, b)
          | _, _ => none)
        | _ => none))
    match pairs with
    | some ps => "units " ++ Units.render (Units.run ps)
    | none => "bad-op"
  | _ => "bad-op"

def sortNats (l : List Nat) : List Nat := (l.toArray.qsort (· < ·)).toList

def showNats (l : List Nat) : String := if l.isEmpty then "-" else ",".intercalate ((sortNats l).map toString)

def parseNatsCsv (s : String) : Option (List Nat) := if s = "-" then some [] else parseNats? (s.splitOn ",")

def parseField (pre : String) (w : String) : Option (List Nat) :=
  if w.startsWith pre then parseNatsCsv ((w.drop pre.length).toString) else none

def showColl (c : Coll.CState) : String :=
  s!"R={showNats c.onRoute} P={showNats c.planned} U={showNats c.unplanned} F={showNats c.fixedC}"

/-- `m:b,m:b` pairs. -/
def parsePairs (s : String) : Option (List (Nat × Bool)) :=
  if s = "-" then some [] else
  allSome ((s.splitOn ",").map (fun w => match w.splitOn ":" with
    | [m, b] => m.toNat?.map (fun m => (m, b = "1"))
    | _ => none))

def parseKind (s : String) : Option Coll.UK :=
  if s = "s" then some .stops
  else if s.startsWith "o" then (parseNats? (((s.drop 1).toString).splitOn ".")).map .oneOf
  else if s.startsWith "a" then (parseNats? (((s.drop 1).toString).splitOn ".")).map .all
  else none

/-- `coll …`: the bookkeeping state machine NR.Coll replayed on the operations of the real history. -/
def stepColl (c : CollSt) (ws : List String) : CollSt × String :=
  match ws with
  | ["init", kinds, parents, fixed] =>
    match allSome ((kinds.splitOn ",").map parseKind),
          allSome ((parents.splitOn ",").map (fun p => if p = "-" then some none else p.toNat?.map some)) with
    | some ks, some ps =>
      ({ units := { kind := ks, parent := ps, fixed := (fixed.splitOn ",").map (· = "1") }, st := {} }, "coll init")
    | _, _ => (c, "bad-op")
  | ["set", r, p, u, f] =>
    match parseField "R=" r, parseField "P=" p, parseField "U=" u, parseField "F=" f with
    | some r, some p, some u, some f => ({ c with st := { onRoute := r, planned := p, unplanned := u, fixedC := f } }, "coll set")
    | _, _, _, _ => (c, "bad-op")
  | ["execStops", u, ok] =>
    match u.toNat? with
    | some u => let s' := (Coll.execStops c.units c.st u (ok = "1")).1; ({ c with st := s' }, "coll " ++ showColl s')
    | none => (c, "bad-op")
  | ["unplanStops", u, ok] =>
    match u.toNat? with
    | some u => let s' := (Coll.unplanStops c.units c.st u (ok = "1")).1; ({ c with st := s' }, "coll " ++ showColl s')
    | none => (c, "bad-op")
  | ["execUnits", p, moves, undo] =>
    match p.toNat?, parsePairs moves, parsePairs undo with
    | some p, some ms, some un =>
      let s' := (Coll.execUnits c.units c.st p ms (un.map (·.2))).1; ({ c with st := s' }, "coll " ++ showColl s')
    | _, _, _ => (c, "bad-op")
  | ["unplanUnits", p, bits] =>
    match p.toNat?, parsePairs bits with
    | some p, some bs =>
      let s' := (Coll.unplanUnits c.units c.st p (bs.map (·.2))).1; ({ c with st := s' }, "coll " ++ showColl s')
    | _, _ => (c, "bad-op")
  | ["unplanUnitsR", p, bits] =>
    -- with the Boolean result (all-or-nothing for plan-all units, "was a member rejected" for one-of units)
    match p.toNat?, parsePairs bits with
    | some p, some bs =>
      let r := Coll.unplanUnits c.units c.st p (bs.map (·.2))
      ({ c with st := r.1 }, "coll " ++ showColl r.1 ++ " ok=" ++ (if r.2 then "1" else "0"))
    | _, _ => (c, "bad-op")
  | ["vehicleUnplan", us, ok] =>
    match parseNatsCsv us with
    | some us => let s' := (Coll.vehicleUnplan c.units c.st us (ok = "1")).1; ({ c with st := s' }, "coll " ++ showColl s')
    | none => (c, "bad-op")
  | _ => (c, "bad-op")

/-- `est max <regime> <max> <base> <win> <tail> <oldCumNext> <oldLast> <hasNeg> <delta>`: the verdict of
`maximumImpl.EstimateIsViolated` recomputed by NR.Estimate (1 = violated). -/
def parseWaitItem (s : String) : Option WaitEst.Item :=
  match s.splitOn ";" with
  | [tr, du, pl, mw, ca, ce, cp, ws] =>
    let wins : Option (List (Rat × Rat)) :=
      if ws = "-" then some []
      else allSome ((ws.splitOn ",").map (fun w =>
        match w.splitOn "~" with
        | [a, b] => (match parseRat? a, parseRat? b with
          | some a, some b => some (a, b)
          | _, _ => none)
        | _ => none))
    match parseRat? tr, parseRat? du, parseRat? mw, parseRat? ca, parseRat? ce, parseRat? cp, wins with
    | some tr, some du, some mw, some ca, some ce, some cp, some wins =>
      some { travel := tr, windows := wins, dur := du, planned := (pl = "1"), maxWait := mw, cArr := ca, cEnd := ce, cPrevAcc := cp }
    | _, _, _, _, _, _, _ => none
  | _ => none

/-- `est waitv <max> <lastAcc> <timeDep> <pe> <acc> <cnt> <items>` / `est waits <timeDep> <pe> <cnt> <items>`:
the verdicts of the two waiting-time estimates recomputed by NR.WaitEst (1 = violated). -/
def stepEstWait (ws : List String) : String :=
  match ws with
  | "waitv" :: mx :: la :: td :: pe :: acc :: cnt :: items =>
    match parseRat? mx, parseRat? la, parseRat? pe, parseRat? acc, cnt.toNat?, allSome (items.map parseWaitItem) with
    | some mx, some la, some pe, some acc, some cnt, some items =>
      "est " ++ (if WaitEst.estVehicle mx la (td = "1") pe acc cnt items then "1" else "0")
    | _, _, _, _, _, _ => "bad-op"
  | "latest" :: ref :: pe :: lat :: items =>
    let r? : Option LatestEst.Ref := if ref = "start" then some .start else if ref = "finish" then some .finish
      else if ref = "arrival" then some .arrival else none
    match r?, parseRat? pe, parseRats? (lat.splitOn ","), allSome (items.map parseWaitItem) with
    | some r, some pe, some lat, some items =>
      if lat.length ≠ items.length then "bad-op"
      else "est " ++ (if LatestEst.est r pe (List.zip items lat) then "1" else "0")
    | _, _, _, _ => "bad-op"
  | "waits" :: td :: pe :: cnt :: items =>
    match parseRat? pe, cnt.toNat?, allSome (items.map parseWaitItem) with
    | some pe, some cnt, some items =>
      "est " ++ (if WaitEst.estStop (td = "1") pe cnt items then "1" else "0")
    | _, _, _ => "bad-op"
  | _ => "bad-op"

def stepEst (ws : List String) : String :=
  match ws with
  | "waitv" :: _ => stepEstWait ws
  | "waits" :: _ => stepEstWait ws
  | "latest" :: _ => stepEstWait ws
  | ["max", regime, mx, base, win, tail, ocn, ol, hn, delta] =>
    match parseRat? mx, parseRat? base, (if win = "-" then some [] else parseRats? (win.splitOn ",")),
          (if tail = "-" then some [] else parseRats? (tail.splitOn ",")), parseRat? ocn, parseRat? ol, parseRat? delta with
    | some mx, some base, some win, some tail, some ocn, some ol, some delta =>
      let v := if regime = "noeffect" then false
        else if regime = "allnegative" then true
        else if regime = "const" then Estimate.maxEstimateConst mx ol delta
        else Estimate.maxEstimate mx base win tail ocn ol (hn = "1")
      "est " ++ (if v then "1" else "0")
    | _, _, _, _, _, _, _ => "bad-op"
  | _ => "bad-op"

/-- `seq <cap> <stops csv> <arcs o>d>D,… | -> <the code's sequences a.b.c|… | ->`: the sequences delivered by
`SequenceGeneratorChannel` against NR.Seq.orders: the same set when the unit has at most `cap` orders, otherwise `cap`
distinct ones of them. -/
def stepSeq (ws : List String) : String :=
  match ws with
  | [cap, stops, arcs, code] =>
    let parseArc (a : String) : Option Seq.Arc :=
      match a.splitOn ">" with
      | [o, d, dir] => (match o.toNat?, d.toNat? with
        | some o, some d => some ⟨o, d, dir = "1"⟩
        | _, _ => none)
      | _ => none
    let arcs? : Option (List Seq.Arc) := if arcs = "-" then some [] else allSome ((arcs.splitOn ",").map parseArc)
    let code? : Option (List (List Nat)) :=
      if code = "-" then some [] else allSome ((code.splitOn "|").map (fun q => allSome ((q.splitOn ".").map String.toNat?)))
    match cap.toNat?, parseNatsCsv stops, arcs?, code? with
    | some cap, some stops, some arcs, some code =>
      let total := Seq.orders arcs (fun _ => stops) stops.length
      let distinct := code.eraseDups.length == code.length
      let sub := code.all (fun c => total.contains c)
      let ok := if total.length ≤ cap then distinct && sub && code.length == total.length
                else distinct && sub && code.length == cap
      if ok then "seq ok" else "seq differs model=" ++ toString total
    | _, _, _, _ => "bad-op"
  | _ => "bad-op"

/-- `sgen <route csv> <gap:stop,…> <prev:stop:next,…> <startAtFirst> <endAtLast>`: what
`NewSolutionStopGenerator` yields for the move against NR.StopGen.generate on the move's own stop positions, and the
move's stop positions against NR.StopGen.positions of its gaps. -/
def stepSgen (ws : List String) : String :=
  match ws with
  | [route, ins, poss, a, b] =>
    let pair (q : String) : Option (Nat × Nat) :=
      match q.splitOn ":" with
      | [x, y] => (match x.toNat?, y.toNat? with
        | some x, some y => some (x, y)
        | _, _ => none)
      | _ => none
    let triple (q : String) : Option StopGen.Pos :=
      match q.splitOn ":" with
      | [x, y, z] => (match x.toNat?, y.toNat?, z.toNat? with
        | some x, some y, some z => some ⟨x, y, z⟩
        | _, _, _ => none)
      | _ => none
    match parseNatsCsv route, allSome ((ins.splitOn ",").map pair), allSome ((poss.splitOn ",").map triple) with
    | some route, some ins, some poss =>
      let out := StopGen.generate route poss (a = "1") (b = "1")
      let posOk := StopGen.positions route ins == poss
      "sgen " ++ showCsv (out.map toString) ++ " pos=" ++ (if posOk then "1" else "0")
    | _, _, _ => "bad-op"
  | _ => "bad-op"

/-- `links <attach|rollback|detach|reattach> <next csv> <prev csv> <inVeh csv> <prev:stop:next,…> <stops csv>`: the
arrays after the operation according to NR.Links (attachMove / detachAll on the arrays before it). -/
def stepLinks (ws : List String) : String :=
  match ws with
  | [op, nx, pv, iv, poss, stops] =>
    let ints (s : String) : Option (List Int) := allSome ((s.splitOn ",").map String.toInt?)
    let triple (q : String) : Option StopGen.Pos :=
      match q.splitOn ":" with
      | [x, y, z] => (match x.toNat?, y.toNat?, z.toNat? with
        | some x, some y, some z => some ⟨x, y, z⟩
        | _, _, _ => none)
      | _ => none
    match parseNatsCsv nx, parseNatsCsv pv, ints iv, allSome ((poss.splitOn ",").map triple), parseNatsCsv stops with
    | some nx, some pv, some iv, some poss, some stops =>
      let a : Links.Arr := { next := fun i => nx.getD i i, prev := fun i => pv.getD i i, inVeh := fun i => iv.getD i (-1) }
      let b : Links.Arr :=
        if op = "attach" then (Links.attachMove a poss).1
        else if op = "rollback" then Links.detachAll (Links.attachMove a poss).1 stops
        else if op = "detach" then Links.detachAll a stops
        else (Links.attachMove (Links.detachAll a stops) poss).1
      let idx := List.range nx.length
      "links " ++ showCsv (idx.map (fun i => toString (b.next i))) ++ " " ++ showCsv (idx.map (fun i => toString (b.prev i))) ++ " " ++
        showCsv (idx.map (fun i => toString (b.inVeh i)))
    | _, _, _, _, _ => "bad-op"
  | _ => "bad-op"

/-- `rc new <start:end,…>`: does `SetWindows` accept the list (NR.RangeCheck.accepts); `rc q <t>`: the
earliest start for arrival `t` read from the minute-slot table (`panic` = the table indexes out of range). -/
def stepRc (cur : List RangeCheck.Iv) (ws : List String) : List RangeCheck.Iv × String :=
  match ws with
  | ["new", l] =>
    let pair (q : String) : Option RangeCheck.Iv :=
      match q.splitOn ":" with
      | [x, y] => (match parseRat? x, parseRat? y with
        | some x, some y => some (x, y)
        | _, _ => none)
      | _ => none
    match allSome ((l.splitOn ",").map pair) with
    | some ivs =>
      if RangeCheck.accepts ivs then
        -- the table is built when the windows are set: an index out of range shows here
        let built := ivs.all (fun w => (RangeCheck.check ivs w.1).isSome && (RangeCheck.check ivs w.2).isSome)
        (ivs, if built then "rc new ok" else "rc new panic")
      else ([], "rc new err")
    | none => (cur, "bad-op")
  | ["q", t] =>
    match parseRat? t with
    | some t =>
      (cur, "rc q " ++ (match RangeCheck.toEarliestStart cur t with | some v => showRat v | none => "panic"))
    | none => (cur, "bad-op")
  | _ => (cur, "bad-op")

/-- Build the engine state of the given routes by a full propagation of every vehicle; `none` if an exact check fails. -/
def engBuild (inst : Spec.Inst) (routes : List (List Nat)) : Option (Engine.MState Sched.Node Sched.CV Spec.Terms) :=
  let m := Sched.model inst
  let rs := (List.range routes.length).map (fun v => Sched.nodes v (routes.getD v []))
  let start : Engine.MState Sched.Node Sched.CV Spec.Terms := { routes := rs.map (fun _ => []), vals := fun _ => default, score := default }
  let (st, ok) := (List.range rs.length).foldl (fun (acc : Engine.MState Sched.Node Sched.CV Spec.Terms × Bool) v =>
      let (s', r) := Engine.applyOp m acc.1 ⟨v, 0, rs.getD v []⟩
      (s', acc.2 && r)) (start, true)
  if ok then some st else none

/-- One node of a vehicle's digest `arrival:start:end:cumTravel:pos:levels:dist` of the code against the model's value. -/
def engNodeSame (es : EngSt) (hasLimit : Bool) (c : Sched.CV) (d : String) : Bool :=
  match d.splitOn ":" with
  | [a, s, f, ct, pos, lv, di] =>
    match parseRat? a, parseRat? s, parseRat? f, parseRat? ct, pos.toNat? with
    | some a, some s, some f, some ct, some pos =>
      SpecDriver.near a c.t.arrival && SpecDriver.near s c.t.start && SpecDriver.near f c.t.finish &&
      SpecDriver.near ct c.t.cumTravel && pos == c.pos &&
      (match parseRats? (if lv = "-" then [] else lv.splitOn ";") with
       | some l => l == es.live.map (fun r => c.lv.getD r 0)
       | none => false) &&
      -- the composed distance expression is 0 for vehicles without an own limit
      (if es.dist then (match parseRat? di with
          | some x => if hasLimit then SpecDriver.near x c.dist else x == 0
          | none => false) else di = "-")
    | _, _, _, _, _ => false
  | _ => false

/-- `eng set R=<routes> live=<csv|-> dist=<0|1>`: the state before an operation, built by full propagation.
`eng op <v> <k> <new stops csv|-> <result 0|1> <digest of vehicle v after the operation>`: the operation replayed by the
concrete engine (NR.Sched over NR.Engine.applyOp: propagate with early exit, roll back on a violation): its result and
every cached value of the vehicle's stops must be the code's. -/
def stepEng (inst? : Option Spec.Inst) (es : EngSt) (ws : List String) : EngSt × String :=
  match inst?, ws with
  | some inst, ["set", r, live, dist] =>
    match SpecDriver.field "R=" [r], SpecDriver.field "live=" [live], SpecDriver.field "dist=" [dist] with
    | some r, some live, some dist =>
      match allSome ((r.splitOn "|").map SpecDriver.parseRoute), parseNatsCsv live with
      | some routes, some live =>
        match engBuild inst routes with
        | some st => ({ st := some st, live := live, dist := dist = "1" }, "eng set ok")
        | none => ({ es with st := none }, "eng set infeasible")
      | _, _ => (es, "bad-op")
    | _, _, _ => (es, "bad-op")
  | some inst, ["op", v, k, nw, res, dig] =>
    match es.st, v.toNat?, k.toNat?, parseNatsCsv nw with
    | some st, some v, some k, some nw =>
      let op : Engine.Op Sched.Node := ⟨v, k, nw.map Sched.Node.stop ++ [Sched.Node.last v]⟩
      let (st', r) := Engine.applyOp (Sched.model inst) st op
      let route := st'.routes.getD v []
      let ds := if dig = "-" then [] else dig.splitOn ","
      let same := ds.length == route.length &&
        (List.zip route ds).all (fun (n, d) => engNodeSame es ((inst.vehicles.getD v {}).maxDist.isSome) (st'.vals n) d)
      ({ es with st := some st' },
        "eng " ++ (if r then "1" else "0") ++ (if (if r then "1" else "0") = res then "" else " result-differs") ++
        (if same then " same" else " values-differ"))
    | none, _, _, _ => (es, "eng no-state")
    | _, _, _, _ => (es, "bad-op")
  | none, _ => (es, "eng no-instance")
  | _, _ => (es, "bad-op")

/-- `hyp <tag> v=<vehicle> R=<route>`: the route an EXECUTABLE move would produce, judged by the specification
(every clause of C01 and C02 on that vehicle): a verdict here means the estimates admitted a move whose result
violates a constraint (C09), whether or not the move is ever executed. -/
def stepHyp (inst? : Option Spec.Inst) (ws : List String) : String :=
  match inst?, ws with
  | some inst, [_, v, r] =>
    match (SpecDriver.field "v=" [v]).bind String.toNat?, (SpecDriver.field "R=" [r]).bind SpecDriver.parseRoute with
    | some v, some route =>
      let a := match Spec.staticOK inst v route with
        | some c => [s!"C09:executable-contradicts-spec:{c}:veh{v}"]
        | none => []
      let b := match Spec.temporalOK inst v route with
        | some c => [s!"C09:executable-contradicts-spec:{c}:veh{v}"]
        | none => []
      match a ++ b with
      | [] => "hyp ok"
      | l => "hyp " ++ " ".intercalate l
    | _, _ => "bad-op"
  | none, _ => "hyp no-instance"
  | _, _ => "bad-op"

/-- Items of the no-mix lines: `n` (none), `i:<name>:<q>`, `r:<name>:<q>`. -/
def parseMixItem (w : String) : Option Mix.Item :=
  match w.splitOn ":" with
  | ["n"] => some .none
  | ["i", n, q] => q.toNat?.map (Mix.Item.ins n)
  | ["r", n, q] => q.toNat?.map (Mix.Item.rem n)
  | _ => none

def parseMixItems (s : String) : Option (List Mix.Item) :=
  if s = "-" then some [] else allSome ((s.splitOn ",").map parseMixItem)

/-- `mix st <items of a route>`: what is on board after every stop according to NR.Mix.upd (`name:qty`, the name only
while something is on board), `error` if the updater fails.
`mix est <items of the route> <items of the unit in move order> <planned stops in front of each>`: NR.Mix.est on the
positions of that placement (1 = violated), and whether the updater succeeds on the route the move produces. -/
def stepMix (ws : List String) : String :=
  match ws with
  | ["st", items] =>
    match parseMixItems items with
    | some its =>
      match Mix.states Mix.init its with
      | some sts => "mix st " ++ showCsv (sts.map (fun s => (if s.qty = 0 then "" else s.name) ++ ":" ++ toString s.qty))
      | none => "mix st error"
    | none => "bad-op"
  | ["est", old, xs, gaps] =>
    match parseMixItems old, parseMixItems xs, parseNatsCsv gaps with
    | some old, some xs, some gaps =>
      match Mix.states Mix.init old with
      | some sts =>
        let e := Mix.est (Mix.positions sts xs gaps)
        let ok := (Mix.run Mix.init (Mix.newRoute old xs gaps 0)).isSome
        "mix est " ++ (if e then "1" else "0") ++ (if !e && !ok then " accepted-but-updater-fails" else "")
      | none => "mix est old-route-invalid"
    | _, _, _ => "bad-op"
  | _ => "bad-op"

/-- `front ids <vehicle ids csv> <ids of matrix 1 separated by . | ids of matrix 2 | …>` (`-` = a matrix without ids):
does `validateTimeDependentMatricesAndIDs` accept the assignment of matrices to vehicles (NR.Front.validateIds). -/
def stepFront (ws : List String) : String :=
  match ws with
  | ["ids", vs, mats] =>
    let vehicles := vs.splitOn ","
    let ms := (mats.splitOn "|").map (fun m => if m = "-" then [] else m.splitOn ".")
    "front ids " ++ (if Front.validateIds vehicles ms then "accept" else "reject")
  | _ => "bad-op"

/-- `init <L> <stops> <stop:unit,…> <unit:root,…> <fixed stops> <est> <nt> <ntAfter a:b,…> <t> <tAfter> <tVeh>`: what
`addInitialSolution` makes of one vehicle's initial stops under scripted constraints (NR.Init.run). -/
def stepInit (ws : List String) : String :=
  let nats (w : String) : Option (List Nat) := parseNats? (parseCsv w)
  let pairs (w : String) : Option (List (Nat × Nat)) :=
    allSome ((parseCsv w).map (fun x => match x.splitOn ":" with
      | [a, b] => (match a.toNat?, b.toNat? with
        | some a, some b => some (a, b)
        | _, _ => none)
      | _ => none))
  let go (l stops uo ro fx est nt nta t ta tv oo : String) : String :=
    match nats l, nats stops, pairs uo, pairs ro, nats fx, nats est, nats nt, pairs nta, nats t, pairs ta, nats tv, nats oo with
    | some l, some stops, some uo, some ro, some fx, some est, some nt, some nta, some t, some ta, some tv, some oo =>
      let look (m : List (Nat × Nat)) (k : Nat) : Nat := ((m.find? (fun p => p.1 = k)).map (·.2)).getD k
      Init.render { L := l, stops := stops, unitOf := look uo, rootOf := look ro, fixedStops := fx, oneOf := oo,
                    sc := { est := est, nt := nt, ntAfter := nta, t := t, tAfter := ta, tVeh := tv } }
    | _, _, _, _, _, _, _, _, _, _, _, _ => "bad-op"
  match ws with
  | [l, stops, uo, ro, fx, est, nt, nta, t, ta, tv] => go l stops uo ro fx est nt nta t ta tv "-"
  | [l, stops, uo, ro, fx, est, nt, nta, t, ta, tv, oo] => go l stops uo ro fx est nt nta t ta tv oo
  | _ => "bad-op"

def step (st : State) (line : String) : State × String :=
  match words line with
  | "init" :: ws => (st, stepInit ws)
  | "front" :: ws => (st, stepFront ws)
  | "mix" :: ws => (st, stepMix ws)
  | "hyp" :: ws => (st, stepHyp st.inst ws)
  | "eng" :: ws => let (e, o) := stepEng st.inst st.eng ws; ({ st with eng := e }, o)
  | "rc" :: ws => let (r, o) := stepRc st.rc ws; ({ st with rc := r }, o)
  | "seq" :: ws => (st, stepSeq ws)
  | "links" :: ws => (st, stepLinks ws)
  | "sgen" :: ws => (st, stepSgen ws)
  | "est" :: ws => (st, stepEst ws)
  | "coll" :: ws => let (c, o) := stepColl st.coll ws; ({ st with coll := c }, o)
  | "gen" :: ws => (st, stepGen ws)
  | "gend" :: ws => (st, stepGenD ws)
  | "closest" :: ws => (st, stepClosest ws)
  | "units" :: ws => (st, stepUnits ws)
  | "par" :: ws => (st, stepPar ws)
  | "fmt" :: ws => (st, stepFmt ws)
  | "td" :: ws => let (t, o) := stepTd st.td ws; ({ st with td := t }, o)
  | "emit" :: ws => let (t, o) := stepEmit st.em ws; ({ st with em := t }, o)
  | "inst" :: ws =>
    let sb := if ws.head? = some "begin" then {} else st.sb
    match SpecDriver.stepInst sb ws with
    | .ok b =>
      if ws = ["end"] then ({ st with sb := b, inst := some b.inst }, "inst")
      else ({ st with sb := b, inst := if ws.head? = some "begin" then none else st.inst }, "inst")
    | .error e => ({ st with inst := none }, "inst-error " ++ e)
  | "obs" :: ws =>
    match st.inst, SpecDriver.parseObs ws with
    | some inst, some o =>
      match SpecDriver.verdict inst o with
      | [] => (st, "obs ok")
      | l => (st, "obs " ++ " ".intercalate l)
    | none, _ => (st, "obs no-instance")
    | _, none => (st, "bad-op")
  | [] => (st, "")
  | [w, _] => if w = "crash" ∨ w = "copyrace" ∨ w = "parrace" ∨ w = "detsched" ∨ w = "repro" then (st, w) else (st, "bad-op")
  | _ => (st, "bad-op")

end NR.Driver
