/-
  NR.Driver — the line protocol (DESIGN §4.2). One operation per input line, one answer per
  line. Each stream (`td`, `emit`, `gen`, …) has its own small state; `step` dispatches on
  the first word. Unknown or malformed lines answer `bad-op` — never a default value.
-/
import NR.Basic
import NR.TimeDep
namespace NR.Driver
open NR

structure TdState where
  durs  : List Rat := []
  chain : Option TimeDep.Chain := none
  pending : List (Rat × Rat × Nat) := []
deriving Inhabited

structure State where
  td : TdState := {}
deriving Inhabited

def dursFn (l : List Rat) (i : Nat) : Rat := l.getD i 0

def stepTd (st : TdState) (ws : List String) : TdState × String :=
  match ws with
  | "new" :: ds =>
    match parseRats? ds with
    | some l => ({ durs := l, chain := none, pending := [] }, "td new " ++ toString l.length)
    | none => (st, "bad-op")
  | ["set", s, e, x] =>
    match parseRat? s, parseRat? e, x.toNat? with
    | some s, some e, some x =>
      match TimeDep.setExpr st.chain s e x with
      | .ok c => ({ st with chain := some c }, "td set ok")
      | .overlap => (st, "td set overlap")
      | .badArg => (st, "td set badarg")
    | _, _, _ => (st, "bad-op")
  | ["trybuild", s, e, x] =>
    match parseRat? s, parseRat? e, x.toNat? with
    | some s, some e, some x => ({ st with pending := st.pending ++ [(s, e, x)] }, "td trybuild")
    | _, _, _ => (st, "bad-op")
  | ["buildverdict"] =>
    match TimeDep.build none st.pending with
    | .ok c => ({ st with chain := c, pending := [] }, "td buildverdict ok")
    | .error e => ({ st with pending := [] }, "td buildverdict " ++ e)
  | ["q", v] =>
    match parseRat? v with
    | some v => (st, "td q " ++ showOptRat (TimeDep.valueAt (dursFn st.durs) st.chain v))
    | none => (st, "bad-op")
  | ["wf"] =>
    match st.chain with
    | none => (st, "td wf true")
    | some c => (st, "td wf " ++ toString (decide (TimeDep.WF c)))
  | _ => (st, "bad-op")

def step (st : State) (line : String) : State × String :=
  match words line with
  | "td" :: ws => let (t, o) := stepTd st.td ws; ({ st with td := t }, o)
  | [] => (st, "")
  | _ => (st, "bad-op")

end NR.Driver
