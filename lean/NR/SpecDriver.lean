/-
  NR.SpecDriver — reads `inst …` lines into a `Spec.Inst` and evaluates every Spec predicate on
  `obs …` lines (snapshots of the *real* solution). The answer is `obs ok` or a list of
  `<property>:<clause>:<detail>` items — one per property whose clause fails on the code's values.
-/
import NR.Basic
import NR.Spec
namespace NR.SpecDriver
open NR NR.Spec

structure Builder where
  inst   : Inst := {}
  mats   : List (String × Nat × Array Rat) := []     -- (name, row, values) in reverse order
  frames : List (Nat × Rat × Rat × Nat) := []        -- travel, s, e, x
deriving Inhabited

def dash (s : String) : Bool := s = "-"

def optNat (s : String) : Option (Option Nat) := if dash s then some none else s.toNat?.map some
def optRat (s : String) : Option (Option Rat) := if dash s then some none else (parseRat? s).map some

def csvRats (s : String) : Option (List Rat) := if dash s then some [] else parseRats? (s.splitOn ",")
def csvNats (s : String) : Option (List Nat) := if dash s then some [] else parseNats? (s.splitOn ",")
def csvStrs (s : String) : List String := if dash s then [] else s.splitOn ","

def parseWindows (s : String) : Option (List (Rat × Rat)) :=
  if dash s then some [] else
  allSome ((s.splitOn ";").map (fun w => match w.splitOn ":" with
    | [a, b] => match parseRat? a, parseRat? b with
      | some a, some b => some (a, b)
      | _, _ => none
    | _ => none))

def parseMix (s : String) : Option (List MixItem) :=
  if dash s then some [] else
  allSome ((s.splitOn ";").map (fun w => match w.splitOn ":" with
    | [r, n, q] => (parseInt? q).map (fun q => ({ res := r, name := n, qty := q } : MixItem))
    | _ => none))

def parseArcs (s : String) : Option (List (StopIx × StopIx × Bool)) :=
  if dash s then some [] else
  allSome ((s.splitOn ";").map (fun w => match w.splitOn ":" with
    | [ab, d] => match ab.splitOn ">" with
      | [a, b] => match a.toNat?, b.toNat? with
        | some a, some b => some (a, b, d = "1")
        | _, _ => none
      | _ => none
    | _ => none))

def b01 (s : String) : Bool := s = "1"

def setAt {α} (a : Array α) (i : Nat) (x : α) (dflt : α) : Array α :=
  let a := if a.size ≤ i then a ++ Array.replicate (i + 1 - a.size) dflt else a
  a.set! i x

/-- Assemble matrices and time-dependent chains once the instance is complete. -/
def finish (b : Builder) : Except String Inst := do
  let rowsOf (name : String) : Array (Array Rat) :=
    let rs := (b.mats.filter (fun m => m.1 = name)).reverse
    rs.foldl (fun acc (_, i, r) => setAt acc i r #[]) #[]
  let dist := rowsOf "dist"
  let ntravel := 1
  let mut travels : Array Travel := #[]
  for k in List.range ntravel do
    let plain := rowsOf s!"t{k}"
    if plain.size > 0 then
      travels := travels.push (.matrix plain)
    else
      let d := rowsOf s!"t{k}d"
      let frs := (b.frames.filter (fun f => f.1 = k)).reverse
      let mats := (List.range frs.length).map (fun j => rowsOf s!"t{k}f{j}")
      match TimeDep.build none (frs.map (fun (_, s, e, x) => (s, e, x))) with
      | .ok chain => travels := travels.push (.td d mats.toArray chain)
      | .error e => throw s!"time frames rejected by the model: {e}"
  return { b.inst with dist := dist, travels := travels }

def stepInst (b : Builder) (ws : List String) : Except String Builder :=
  match ws with
  | ["begin", _, _, nres, _, _] =>
    match nres.toNat? with
    | some r => .ok { inst := { nres := r } }
    | none => .error "begin"
  | ["opt", a, b1, c, d, e, f, g, h, i] =>
    .ok { b with inst := { b.inst with cCapacity := b01 a, cDistance := b01 b1, cMaxStops := b01 c, cAttrs := b01 d,
                                        cWindows := b01 e, cLatestEnd := b01 f, cWaitStop := b01 g, cWaitVeh := b01 h,
                                        cMix := b01 i } }
  | ["fac", a, b1, c, d, e, f, g, h] =>
    match parseRats? [a, b1, c, d, e, f, g, h] with
    | some [a, b1, c, d, e, f, g, h] =>
      .ok { b with inst := { b.inst with fVehDur := a, fTravel := b1, fUnplanned := c, fActivation := d,
                                          fMinStops := e, fEarly := f, fLate := g, fBalance := h } }
    | _ => .error "fac"
  | ["soft", spec] =>
    match allSome ((parseCsv spec).map (fun w => match w.splitOn ":" with
      | [r, f, o] => (match r.toNat?, parseRat? f, parseRat? o with
        | some r, some f, some o => some (r, f, o)
        | _, _, _ => none)
      | _ => none)) with
    | some l => .ok { b with inst := { b.inst with soft := l } }
    | none => .error "soft"
  | ["gdur", g] =>
    match csvRats g with
    | some l => .ok { b with inst := { b.inst with groupDur := l.toArray } }
    | none => .error "gdur"
  | ["stop", idx, mIdx, dur, dg, win, mw, delta, attrs, altOf, mix, target, early, late, pen, fixed, ini] =>
    match idx.toNat?, mIdx.toNat?, parseRat? dur, optNat dg, parseWindows win, optRat mw, csvRats delta,
          optNat altOf, parseMix mix, optRat target, parseRat? early, parseRat? late, parseRat? pen, optNat ini with
    | some idx, some mIdx, some dur, some dg, some win, some mw, some delta, some altOf, some mix, some target,
      some early, some late, some pen, some ini =>
      let st : Stop := { mIdx := mIdx, dur := dur, dgroup := dg, windows := win, maxWait := mw, delta := delta,
                         attrs := csvStrs attrs, altOf := altOf, mix := mix, target := target, early := early,
                         late := late, penalty := pen, fixed := b01 fixed, initial := ini }
      .ok { b with inst := { b.inst with stops := setAt b.inst.stops idx st {} } }
    | _, _, _, _, _, _, _, _, _, _, _, _, _, _ => .error "stop"
  | ["veh", idx, start, fm, lm, tr, mult, caps, sl, ms, md, le, mw, attrs, act, minS, minP] =>
    match idx.toNat?, parseRat? start, optNat fm, optNat lm, tr.toNat?, parseRat? mult, csvRats caps, csvRats sl,
          optNat ms, optRat md, optRat le, optRat mw, parseRat? act, minS.toNat?, parseRat? minP with
    | some idx, some start, some fm, some lm, some tr, some mult, some caps, some sl, some ms, some md, some le,
      some mw, some act, some minS, some minP =>
      let v : Vehicle := { start := start, firstM := fm, lastM := lm, travel := tr, mult := mult, caps := caps,
                           startLevel := sl, maxStops := ms, maxDist := md, latestEnd := le, maxWait := mw,
                           attrs := csvStrs attrs, activation := act, minStops := minS, minPenalty := minP }
      .ok { b with inst := { b.inst with vehicles := setAt b.inst.vehicles idx v {} } }
    | _, _, _, _, _, _, _, _, _, _, _, _, _, _, _ => .error "veh"
  | ["mat", name, row, vals] =>
    match row.toNat?, csvRats vals with
    | some r, some l => .ok { b with mats := (name, r, l.toArray) :: b.mats }
    | _, _ => .error "mat"
  | ["tdframe", k, s, e, x] =>
    match k.toNat?, parseRat? s, parseRat? e, x.toNat? with
    | some k, some s, some e, some x => .ok { b with frames := (k, s, e, x) :: b.frames }
    | _, _, _, _ => .error "tdframe"
  | ["unit", idx, kind, members, arcs, par] =>
    match idx.toNat?, csvNats members, parseArcs arcs, optNat par with
    | some idx, some ms, some arcs, some par =>
      let u : PlanU := if kind = "stops" then .stops ms arcs else .units (kind = "oneof") ms
      .ok { b with inst := { b.inst with units := setAt b.inst.units idx u (.stops [] []),
                                          parent := setAt b.inst.parent idx par none,
                                          loose := if kind = "allloose" then idx :: b.inst.loose else b.inst.loose } }
    | _, _, _, _ => .error "unit"
  | ["end"] => (finish b).map (fun i => { b with inst := i })
  | _ => .error "inst?"

/-! ### Observations -/

structure Obs where
  routes : List (List StopIx)
  times  : List (List Times)        -- per vehicle: one entry per stop, then the end stop
  scores : List Rat                 -- 9 terms (incl. `other`) then the total
  books  : Books
deriving Inhabited

def parseRoute (s : String) : Option (List StopIx) := csvNats s

def parseTimes (s : String) : Option (List Times) :=
  allSome ((s.splitOn ",").map (fun w => match (w.splitOn ":").map parseRat? with
    | [some a, some b, some c, some d, some e] =>
      some ({ travel := a, arrival := b, start := c, finish := d, cumTravel := e } : Times)
    | _ => none))

def field (pre : String) (ws : List String) : Option String :=
  (ws.find? (·.startsWith pre)).map (fun w => (w.drop pre.length).toString)

def parseObs (ws : List String) : Option Obs := do
  let r ← field "R=" ws
  let t ← field "T=" ws
  let s ← field "S=" ws
  let bk ← field "B=" ws
  let routes ← allSome ((r.splitOn "|").map parseRoute)
  let times ← allSome ((t.splitOn "|").map parseTimes)
  let scores ← parseRats? (s.splitOn ",")
  match bk.splitOn "/" with
  | [p, u, f] =>
    let p ← csvNats p
    let u ← csvNats u
    let f ← csvNats f
    pure { routes, times, scores, books := { planned := p, unplanned := u, fixed := f } }
  | _ => none

def near (a b : Rat) : Bool :=
  let d := if a ≥ b then a - b else b - a
  let m := (if a ≥ 0 then a else -a) + (if b ≥ 0 then b else -b) + 1
  decide (d * 100000000 ≤ m)

def timesNear (a b : Times) : Bool :=
  near a.travel b.travel && near a.arrival b.arrival && near a.start b.start && near a.finish b.finish &&
  near a.cumTravel b.cumTravel

def showTimes (t : Times) : String :=
  s!"{showRat t.travel}/{showRat t.arrival}/{showRat t.start}/{showRat t.finish}/{showRat t.cumTravel}"

/-- All failing clauses on one observation, as `PROP:clause:detail`. -/
def verdict (inst : Inst) (o : Obs) : List String := Id.run do
  let mut out : List String := []
  let vs := List.range inst.vehicles.size
  if o.routes.length ≠ inst.vehicles.size then
    return ["C03:route-count:-:" ++ toString o.routes.length]
  -- C01 / C02 per vehicle
  for vi in vs do
    let r := o.routes.getD vi []
    match staticOK inst vi r with
    | some c => out := out ++ [s!"C01:{c}:-:veh{vi}"]
    | none => pure ()
    match temporalOK inst vi r with
    | some c => out := out ++ [s!"C02:{c}:-:veh{vi}"]
    | none => pure ()
  -- C03
  match unitsOK inst o.routes with
  | some c => out := out ++ [s!"C03:{c}:-:-"]
  | none => pure ()
  -- C04: reported times = forward propagation of the input
  for vi in vs do
    let r := o.routes.getD vi []
    let (ts, e) := schedule inst vi r
    let mine := ts ++ [e]
    let theirs := o.times.getD vi []
    if mine.length ≠ theirs.length then
      out := out ++ [s!"C04:times-length:-:veh{vi}"]
    else
      match (List.zip mine theirs).findIdx? (fun (a, b) => !(timesNear a b)) with
      | some k =>
        let a := mine.getD k default
        let b := theirs.getD k default
        let clause := if !(near a.travel b.travel) then "travel-duration"
          else if !(near a.arrival b.arrival) then "arrival"
          else if !(near a.start b.start) then "service-start"
          else if !(near a.finish b.finish) then "service-duration"
          else "cumulative-travel"
        out := out ++ [s!"C04:{clause}:-:veh{vi}-pos{k}-spec={showTimes a}-code={showTimes b}"]
      | none => pure ()
  -- C05
  let t := objective inst o.routes
  let mine := [t.vehDur, t.travel, t.unplanned, t.activation, t.minStops, t.early, t.late, t.balance]
  let names := ["vehicles-duration", "travel-duration", "unplanned-penalty", "activation", "min-stops", "early", "late", "balance"]
  let theirs := o.scores
  for k in List.range 8 do
    if !(near (mine.getD k 0) (theirs.getD k 0)) then
      if k = 2 then
        -- the unplanned term: does the code's value at least follow its own bookkeeping?
        let listed := inst.fUnplanned * sumRat (o.books.unplanned.map (unitCost inst))
        let roots := (List.range inst.units.size).filter (isRoot inst)
        let wrong := roots.filter (fun u => o.books.unplanned.contains u == unitPlanned inst o.routes u)
        let ks := wrong.map (unitKind inst)
        let kinds := (["oneof", "all", "allloose", "stops-multi", "stops-single"].filter (fun k => ks.contains k))
        let sigd := if near listed (theirs.getD k 0) then "follows-bookkeeping-of-" ++ "+".intercalate kinds else "independent-of-bookkeeping"
        out := out ++ [s!"C05:unplanned-penalty:{sigd}:spec={showRat (mine.getD k 0)}-code={showRat (theirs.getD k 0)}"]
      else
        out := out ++ [s!"C05:{names.getD k ""}:-:spec={showRat (mine.getD k 0)}-code={showRat (theirs.getD k 0)}"]
  -- the ninth slot: every term the specification's `Terms` does not know — the soft capacities, or nothing
  let soft := softCap inst o.routes
  if !(near soft (theirs.getD 8 0)) then
    out := out ++ [s!"C05:soft-capacity:-:spec={showRat soft}-code={showRat (theirs.getD 8 0)}"]
  let total := theirs.getD 9 0
  if !(near (sumRat (theirs.take 9)) total) then
    out := out ++ [s!"C05:total-not-sum-of-terms:-:total={showRat total}"]
  -- C08
  match bookkeepingBad inst o.routes o.books with
  | some (c, u) => out := out ++ [s!"C08:{c}:{unitKind inst u}:unit{u}"]
  | none => pure ()
  return out

end NR.SpecDriver
