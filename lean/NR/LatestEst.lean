/-
  NR.LatestEst — `latestImpl.EstimateIsViolated` (model_latest.go; latest start = close of the last window, latest end =
  the vehicle's end time), C09. The estimate walks the WHOLE hypothetical route behind the first inserted stop with
  `TemporalValues` and answers "violated" at the first stop whose reference time (arrival, start or end) is after its
  latest value — there is no early exit, so the estimate is the exact check of the walked stops (`est_iff_exact`).
  The walk is abstracted as in NR.WaitEst: per stop the travel duration from its predecessor in the walk, its windows and
  its process duration given that predecessor.
-/
import NR.Basic
import NR.WaitEst
namespace NR.LatestEst
open NR.WaitEst (Item arrOf startOf endOf)

inductive Ref | arrival | start | finish
deriving Repr, DecidableEq

def refOf (r : Ref) (it : Item) (arr : Rat) : Rat :=
  match r with
  | .arrival => arr
  | .start => startOf it arr
  | .finish => endOf it arr

/-- `estimateDeltaScore(move, asConstraint = true) != 0`; `latest[i]` = the latest value of the i-th stop of the walk. -/
def est (r : Ref) : (pe : Rat) → List (Item × Rat) → Bool
  | _, [] => false
  | pe, (it, latest) :: rest =>
    let arr := arrOf pe it
    if refOf r it arr > latest then true else est r (endOf it arr) rest

/-- The exact check (`DoesStopHaveViolations` at every stop of the walk after the move was executed). -/
def exactOK (r : Ref) : (pe : Rat) → List (Item × Rat) → Bool
  | _, [] => true
  | pe, (it, latest) :: rest =>
    let arr := arrOf pe it
    decide (refOf r it arr ≤ latest) && exactOK r (endOf it arr) rest

theorem est_iff_exact (r : Ref) (pe : Rat) (walk : List (Item × Rat)) : est r pe walk = !exactOK r pe walk := by
  induction walk generalizing pe with
  | nil => simp [est, exactOK]
  | cons x rest ih =>
    obtain ⟨it, latest⟩ := x
    simp only [est, exactOK]
    by_cases h : refOf r it (arrOf pe it) > latest
    · have : ¬ refOf r it (arrOf pe it) ≤ latest := Rat.not_le.mpr h
      simp [h, this]
    · have : refOf r it (arrOf pe it) ≤ latest := Rat.not_lt.mp h
      simp [h, this, ih]

end NR.LatestEst
