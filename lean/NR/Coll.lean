/-
  NR.Coll — the hand-maintained planned / unplanned / fixed collections (C08) as a state machine.
  Numerics are abstracted away: the outcome of every feasibility check (`isFeasible` returned no
  violation) is an *input bit* of the operation, so the theorems hold whatever the constraints do.

  Call sites mirrored (DESIGN §5 C08; `Facts.collectionSites` lists them):
    execStops     solution_move_stops.go  Execute        (root: unplanned→planned before the check, back on failure;
                                                          member of a units-unit: collections untouched)
    unplanStops   solution_plan_stops_unit.go UnPlan     (member: moves the PARENT planned→unplanned, back on failure)
    execUnits     solution_move_units.go  Execute        (parent moved first; members executed in order; on a
                                                          failing member the parent is moved back and the executed
                                                          members are un-planned in reverse order)
    unplanUnits   solution_plan_units_unit.go UnPlan     (parent moved; every planned member un-planned; a failing
                                                          member moves the parent back; returns true regardless)
    vehicleUnplan solution_vehicle.go Unplan             (files the root units of the vehicle's stops under unplanned;
                                                          on failure files them back under planned, returns false)
-/
namespace NR.Coll

inductive UK
  | stops
  | oneOf (ms : List Nat)
  | all (ms : List Nat)
deriving Repr, DecidableEq, Inhabited

structure Units where
  kind   : List UK                 -- index = unit id
  parent : List (Option Nat)
  fixed  : List Bool               -- stops-units containing a fixed stop
deriving Repr, Inhabited

structure CState where
  onRoute   : List Nat := []       -- stops-units whose stops are on a route
  planned   : List Nat := []
  unplanned : List Nat := []
  fixedC    : List Nat := []
deriving Repr, DecidableEq, Inhabited

def add (l : List Nat) (u : Nat) : List Nat := if l.contains u then l else l ++ [u]
def rem (l : List Nat) (u : Nat) : List Nat := l.filter (· ≠ u)

def kindOf (U : Units) (u : Nat) : UK := U.kind.getD u .stops
def parentOf (U : Units) (u : Nat) : Option Nat := (U.parent.getD u none)

def isPlanned (U : Units) (s : CState) (u : Nat) : Bool :=
  match kindOf U u with
  | .stops => s.onRoute.contains u
  | .oneOf ms => ms.any (fun m => s.onRoute.contains m)
  | .all ms => !ms.isEmpty && ms.all (fun m => s.onRoute.contains m)

def isFixed (U : Units) (u : Nat) : Bool :=
  match kindOf U u with
  | .stops => U.fixed.getD u false
  | .oneOf ms => ms.any (fun m => U.fixed.getD m false)
  | .all ms => ms.any (fun m => U.fixed.getD m false)

/-- `solutionMoveStopsImpl.Execute` on stops-unit `u`; `ok` = the exact checks passed. -/
def execStops (U : Units) (s : CState) (u : Nat) (ok : Bool) : CState × Bool :=
  if isPlanned U s u || isFixed U u then (s, false) else
  let root := (parentOf U u).isNone
  let s1 := if root then { s with unplanned := rem s.unplanned u, planned := add s.planned u } else s
  if ok then ({ s1 with onRoute := add s1.onRoute u }, true)
  else
    let s2 := if root then { s1 with unplanned := add s1.unplanned u, planned := rem s1.planned u } else s1
    (s2, false)

/-- `solutionPlanStopsUnitImpl.UnPlan` on stops-unit `u`; `ok` = un-planning was feasible. A member of a unit that is
fixed through ANOTHER member is refused as well (as repaired, E44: it used to be taken off, and the fixed root was then
listed as unplanned too). -/
def unplanStops (U : Units) (s : CState) (u : Nat) (ok : Bool) : CState × Bool :=
  if !(isPlanned U s u) || isFixed U u || isFixed U ((parentOf U u).getD u) then (s, false) else
  let tgt := (parentOf U u).getD u
  let s1 := { s with planned := rem s.planned tgt, unplanned := add s.unplanned tgt }
  if ok then ({ s1 with onRoute := rem s1.onRoute u }, true)
  else ({ s1 with unplanned := rem s1.unplanned tgt, planned := add s1.planned tgt }, false)

/-- as it was until E44 was repaired: only the member's own fixed stops were looked at -/
def unplanStopsGiven (U : Units) (s : CState) (u : Nat) (ok : Bool) : CState × Bool :=
  if !(isPlanned U s u) || isFixed U u then (s, false) else
  let tgt := (parentOf U u).getD u
  let s1 := { s with planned := rem s.planned tgt, unplanned := add s.unplanned tgt }
  if ok then ({ s1 with onRoute := rem s1.onRoute u }, true)
  else ({ s1 with unplanned := rem s1.unplanned tgt, planned := add s1.planned tgt }, false)

/-- Un-plan already executed members in reverse order (`for i := idx-1; i >= 0; i--`). Stops at the
first failure (the Go returns an error). -/
def undoMembers (U : Units) : CState → List Nat → List Bool → CState
  | s, [], _ => s
  | s, m :: ms, bits =>
    let b := bits.headD true
    let (s', r) := unplanStops U s m b
    if r then undoMembers U s' ms bits.tail else s'

/-- Members executed so far (in order), remaining moves `(member, ok)`. -/
def execMembers (U : Units) (p : Nat) : CState → List Nat → List (Nat × Bool) → List Bool → CState × Bool
  | s, _, [], _ => (s, true)
  | s, done, (m, ok) :: rest, undo =>
    let (s', r) := execStops U s m ok
    if r then execMembers U p s' (done ++ [m]) rest undo
    else
      let s1 := { s' with unplanned := add s'.unplanned p, planned := rem s'.planned p }
      (undoMembers U s1 done.reverse undo, false)

/-- `solutionMoveUnitsImpl.Execute` on units-unit `p`. -/
def execUnits (U : Units) (s : CState) (p : Nat) (moves : List (Nat × Bool)) (undo : List Bool) : CState × Bool :=
  if isPlanned U s p || isFixed U p then (s, false) else
  let s1 := { s with unplanned := rem s.unplanned p, planned := add s.planned p }
  execMembers U p s1 [] moves undo

def membersOf (U : Units) (p : Nat) : List Nat :=
  match kindOf U p with
  | .stops => []
  | .oneOf ms => ms
  | .all ms => ms

/-- as it was until E16 was repaired: goes on after a rejected member (and the unit-level result is `true`) -/
def unplanMembersGiven (U : Units) (p : Nat) : CState → List Nat → List Bool → CState
  | s, [], _ => s
  | s, m :: ms, bits =>
    if isPlanned U s m then
      let b := bits.headD true
      let (s', r) := unplanStops U s m b
      let s'' := if r then s' else { s' with planned := add s'.planned p, unplanned := rem s'.unplanned p }
      unplanMembersGiven U p s'' ms bits.tail
    else unplanMembersGiven U p s ms bits

def unplanUnitsGiven (U : Units) (s : CState) (p : Nat) (bits : List Bool) : CState × Bool :=
  if !(isPlanned U s p) || isFixed U p then (s, false) else
  let s1 := { s with planned := rem s.planned p, unplanned := add s.unplanned p }
  (unplanMembersGiven U p s1 (membersOf U p) bits, true)

/-- the planned members are un-planned one after the other; `none`: a member's un-plan was rejected -/
def unplanMembers (U : Units) (p : Nat) : CState → List Nat → List Bool → Option CState
  | s, [], _ => some s
  | s, m :: ms, bits =>
    if isPlanned U s m then
      let b := bits.headD true
      let (s', r) := unplanStops U s m b
      if r then unplanMembers U p s' ms bits.tail else none
    else unplanMembers U p s ms bits

/-- `solutionPlanUnitsUnitImpl.UnPlan` on units-unit `p`. A plan-all unit is un-planned as a whole or not at all: when a
member's un-plan is rejected the members un-planned before are planned again where they were (last one first) and the
result is `false` — the state is the one before the call. A one-of unit has one planned member; nothing to roll back. -/
def unplanUnits (U : Units) (s : CState) (p : Nat) (bits : List Bool) : CState × Bool :=
  if !(isPlanned U s p) || isFixed U p then (s, false) else
  match kindOf U p with
  | .all _ =>
    let s1 := { s with planned := rem s.planned p, unplanned := add s.unplanned p }
    match unplanMembers U p s1 (membersOf U p) bits with
    | some s' => (s', true)
    | none => (s, false)
  | _ =>
    -- one-of: the planned member is un-planned; a rejected un-plan is reported (E16, one-of part: it used to say `true`)
    let s1 := { s with planned := rem s.planned p, unplanned := add s.unplanned p }
    ((unplanUnitsGiven U s p bits).1, (unplanMembers U p s1 (membersOf U p) bits).isSome)

/-- `SolutionVehicle.Unplan` with the (non-fixed) stops-units `us` of that vehicle. As repaired
(KNOWN_FINDINGS `fixed: property=C08`): the ROOT unit of every stops-unit is filed, and a rolled
back un-plan reports failure. -/
def vehicleUnplan (U : Units) (s : CState) (us : List Nat) (ok : Bool) : CState × Bool :=
  if us.isEmpty then (s, false) else
  let roots := us.map (fun u => (parentOf U u).getD u)
  let s1 := roots.foldl (fun s u => { s with unplanned := add s.unplanned u, planned := rem s.planned u }) s
  if ok then ({ s1 with onRoute := us.foldl rem s1.onRoute }, true)
  else (roots.foldl (fun s u => { s with unplanned := rem s.unplanned u, planned := add s.planned u }) s1, false)

inductive COp
  | execStops (u : Nat) (ok : Bool)
  | unplanStops (u : Nat) (ok : Bool)
  | execUnits (p : Nat) (moves : List (Nat × Bool)) (undo : List Bool)
  | unplanUnits (p : Nat) (bits : List Bool)
  | vehicleUnplan (us : List Nat) (ok : Bool)
deriving Repr

def step (U : Units) (s : CState) : COp → CState × Bool
  | .execStops u ok => execStops U s u ok
  | .unplanStops u ok => unplanStops U s u ok
  | .execUnits p ms undo => execUnits U s p ms undo
  | .unplanUnits p bits => unplanUnits U s p bits
  | .vehicleUnplan us ok => vehicleUnplan U s us ok

def runOps (U : Units) (s : CState) : List COp → CState
  | [] => s
  | o :: os => runOps U (step U s o).1 os

/-! ### The property -/

def isRoot (U : Units) (u : Nat) : Bool := (parentOf U u).isNone

/-- Some stop of the unit is on a route. -/
def touched (U : Units) (s : CState) (u : Nat) : Bool :=
  match kindOf U u with
  | .stops => s.onRoute.contains u
  | .oneOf ms => ms.any (fun m => s.onRoute.contains m)
  | .all ms => ms.any (fun m => s.onRoute.contains m)

/-- C08 on a state: every root unit in exactly one collection, members in none, a unit is listed
planned (or fixed) exactly when it is planned, and a unit listed unplanned has no stop on a route. -/
def BooksOK (U : Units) (s : CState) : Bool :=
  (List.range U.kind.length).all (fun u =>
    let cnt := s.planned.count u + s.unplanned.count u + s.fixedC.count u
    if isRoot U u then
      cnt = 1 && ((s.planned.contains u || s.fixedC.contains u) == isPlanned U s u) &&
      (!(s.unplanned.contains u) || !(touched U s u))
    else cnt = 0)

/-- Well-formed unit forest of depth ≤ 2, as the factory builds it: members are stops-units whose
parent is the units-unit, each stops-unit has at most one parent, roots have no parent. -/
def WFUnits (U : Units) : Bool :=
  U.parent.length = U.kind.length && U.fixed.length = U.kind.length &&
  (List.range U.kind.length).all (fun u =>
    (match kindOf U u with
     | .stops => true
     | .oneOf ms => parentOf U u = none && ms.Nodup && ms.all (fun m => m < U.kind.length && kindOf U m = .stops && parentOf U m = some u)
     | .all ms => parentOf U u = none && ms.Nodup && ms.all (fun m => m < U.kind.length && kindOf U m = .stops && parentOf U m = some u)) &&
    (match parentOf U u with
     | none => true
     | some p => p < U.kind.length && (membersOf U p).contains u))

/-- The start state of `NewSolution`: every root unit unplanned, nothing on a route. -/
def start (U : Units) : CState :=
  { unplanned := (List.range U.kind.length).filter (isRoot U) }

/-- The sub-alphabet on which the property is proved: operations on ROOT units only, units of units
are plan-all units executed with exactly their members; the undo steps of a rejected group MOVE are never rejected
(`undo.all id`, a theorem of the engine: C07G); the member un-plans of a group UN-PLAN may be accepted or rejected in any
pattern (as repaired, E16). -/
def GoodOp (U : Units) : COp → Bool
  | .execStops u _ => isRoot U u && kindOf U u = .stops
  | .unplanStops u _ => isRoot U u && kindOf U u = .stops
  | .execUnits p ms undo =>
    (match kindOf U p with
     | .all members => (ms.map (·.1)).Perm members |> decide
     | _ => false) && undo.all id
  | .unplanUnits p _ => (match kindOf U p with | .all _ => true | _ => false)
  | .vehicleUnplan _ _ => false

end NR.Coll
