/-
  NR.RangeCheck — the start-time-window lookup (common/rangecheck.go, C02): windows are
  discretised into minute slots (`toSlotInfo`), `Check(t)` reads the slot of `t`'s minute.
  Transcribed branch for branch, including the two index guards that test the MINUTE index `i`
  where the interval index was meant (`i-1 >= 0`, `i+1 < len(intervals)`), and
  `stopImpl.ToEarliestStartValue` on top of it (model_stop.go).

  Times are rationals ≥ 0 (seconds since the model epoch); an interval is `[min, max)`.
  `none` = the Go indexes out of range (possible only for a first window that does not start on a
  minute boundary — `stopImpl.SetWindows` rejects such windows before building the checker).
-/
namespace NR.RangeCheck

abbrev Iv := Rat × Rat

/-- `int(x / 60)` for `x ≥ 0`. -/
def minuteOf (x : Rat) : Int := (x / 60).floor

structure Slot where
  inInterval : Bool
  next : Option Rat   -- `slot.next.Min`
deriving Repr, DecidableEq

def ivAt (ivs : List Iv) (k : Int) : Option Iv := if k < 0 then none else ivs[k.toNat]?

/-- The inner loop of `toSlotInfo` for minute `i`, from interval index `k` on. -/
def slotLoop (ivs : List Iv) (i : Int) : Nat → Nat → Option Slot
  | 0, _ => some ⟨false, none⟩
  | fuel + 1, k =>
    match ivs[k]? with
    | none => some ⟨false, none⟩                      -- loop ends: not in an interval, no next
    | some iv =>
      let second : Rat := i * 60
      if second ≥ iv.1 ∧ second < iv.2 then some ⟨true, none⟩
      else if second < iv.1 ∧ i - 1 ≥ 0 then
        -- `second >= intervals[interval-1].Max` is evaluated: index -1 panics
        match ivAt ivs (k - 1 : Int) with
        | none => none
        | some pv =>
          if second ≥ pv.2 then some ⟨false, some iv.1⟩
          else slotLoop3 ivs i fuel k iv second
      else slotLoop3 ivs i fuel k iv second
where
  /-- third test of the loop body, then the next iteration -/
  slotLoop3 (ivs : List Iv) (i : Int) (fuel k : Nat) (iv : Iv) (second : Rat) : Option Slot :=
    if second ≥ iv.2 ∧ i + 1 < (ivs.length : Int) then
      match ivs[k + 1]? with
      | none => none                                   -- `intervals[interval+1]` out of range
      | some nx => if second < nx.1 then some ⟨false, some nx.1⟩ else slotLoop ivs i fuel (k + 1)
    else slotLoop ivs i fuel (k + 1)

/-- `toSlotInfo` + `Check`: (in interval?, next opening or -1). `ivs` sorted by start, non-empty. -/
def check (ivs : List Iv) (t : Rat) : Option (Bool × Rat) :=
  match ivs.head?, ivs.getLast? with
  | some first, some last =>
    let minimum := minuteOf first.1
    let maximum := minuteOf last.2 + 1
    let idx := minuteOf t - minimum
    if idx < 0 then some (false, first.1)
    else if idx ≥ maximum - minimum then some (false, -1)
    else
      match slotLoop ivs (minuteOf t) (ivs.length + 1) 0 with
      | none => none
      | some s => some (s.inInterval, s.next.getD (-1))
  | _, _ => none

/-- `stopImpl.ToEarliestStartValue` for a stop with windows. -/
def toEarliestStart (ivs : List Iv) (arrival : Rat) : Option Rat :=
  match check ivs arrival with
  | none => none
  | some (inW, opening) => some (if inW then arrival else if opening > 0 then opening else arrival)

/-! ### Specification -/

/-- The definition used by NR.Spec and NR.WaitEst. -/
def earliestStart (ws : List Iv) (a : Rat) : Rat :=
  if ws.any (fun w => decide (w.1 ≤ a ∧ a < w.2)) then a
  else match ws.find? (fun w => decide (a < w.1)) with
    | some w => w.1
    | none => a

/-- Windows as `SetWindows` accepts them: non-empty, each non-empty-or-degenerate with `min ≤ max`,
sorted and non-overlapping, starting after the epoch, on minute boundaries. -/
def WF (ws : List Iv) : Prop :=
  ws ≠ [] ∧ (∀ w ∈ ws, 0 < w.1 ∧ w.1 ≤ w.2 ∧ (∃ m : Int, w.1 = m * 60) ∧ (∃ m : Int, w.2 = m * 60)) ∧
  ws.Pairwise (fun a b => a.2 ≤ b.1)

end NR.RangeCheck
