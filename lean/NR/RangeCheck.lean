/-
  NR.RangeCheck — the start-time-window lookup (common/rangecheck.go, C02): windows are
  discretised into minute slots (`toSlotInfo`), `Check(t)` reads the slot of `t`'s minute.
  Transcribed branch for branch — the loop is parametrised by which index its two neighbour guards test:
  the given code tested the MINUTE index `i` where the interval index was meant (`i-1 >= 0`,
  `i+1 < len(intervals)`; E26: three zero-length windows in the second minute of the epoch index out of
  range), the repaired code tests the interval index — and `stopImpl.ToEarliestStartValue` on top of it
  (model_stop.go).

  Times are rationals ≥ 0 (seconds since the model epoch); an interval is `[min, max)`.
  `none` = the Go indexes out of range.
-/
namespace NR.RangeCheck

abbrev Iv := Rat × Rat

/-- `int(x / 60)` for `x ≥ 0`. -/
def minuteOf (x : Rat) : Int := (x / 60).floor

structure Slot where
  inInterval : Bool
  next : Option Rat   -- `slot.next.Min`
deriving Repr, DecidableEq

def ivAt (ivs : List Iv) (k : Int) : Option Iv := if k < 0 then none else ivs[k.toNat]?

/-- Outcome of one test of the loop body: leave the loop with a slot, index out of range, or go on. -/
inductive Step
  | done (s : Slot)
  | panic
  | next
deriving Repr, DecidableEq

/-- Third test of the loop body (`second >= intervals[interval].Max && g+1 < len && second < intervals[interval+1].Min`). -/
def third (ivs : List Iv) (k : Nat) (iv : Iv) (second : Rat) (g : Int) : Step :=
  if second ≥ iv.2 ∧ g + 1 < (ivs.length : Int) then
    match ivs[k + 1]? with
    | none => .panic                                   -- `intervals[interval+1]` out of range
    | some nx => if second < nx.1 then .done ⟨false, some nx.1⟩ else .next
  else .next

/-- Second test (`second < intervals[interval].Min && g-1 >= 0 && second >= intervals[interval-1].Max`), then the third. -/
def secondThird (ivs : List Iv) (k : Nat) (iv : Iv) (second : Rat) (g : Int) : Step :=
  if second < iv.1 ∧ g - 1 ≥ 0 then
    match ivAt ivs (k - 1 : Int) with
    | none => .panic                                   -- `intervals[interval-1]` out of range
    | some pv => if second ≥ pv.2 then .done ⟨false, some iv.1⟩ else third ivs k iv second g
  else third ivs k iv second g

/-- The inner loop of `toSlotInfo` for minute `i`, from interval index `k` on. `guardByMinute = true`
is the loop as it was before the repair of E26: the two index guards test the MINUTE `i` where the
interval index was meant; `false` is the repaired loop (`interval-1 >= 0`, `interval+1 < len`).
`none` = the Go indexes out of range. -/
def slotLoopG (guardByMinute : Bool) (ivs : List Iv) (i : Int) : Nat → Nat → Option Slot
  | 0, _ => some ⟨false, none⟩
  | fuel + 1, k =>
    match ivs[k]? with
    | none => some ⟨false, none⟩                      -- loop ends: not in an interval, no next
    | some iv =>
      let second : Rat := i * 60
      let g := if guardByMinute then i else (k : Int)
      if second ≥ iv.1 ∧ second < iv.2 then some ⟨true, none⟩
      else match secondThird ivs k iv second g with
        | .done s => some s
        | .panic => none
        | .next => slotLoopG guardByMinute ivs i fuel (k + 1)

/-- `toSlotInfo` + `Check`: (in interval?, next opening or -1). `ivs` sorted by start, non-empty. -/
def checkG (guardByMinute : Bool) (ivs : List Iv) (t : Rat) : Option (Bool × Rat) :=
  match ivs.head?, ivs.getLast? with
  | some first, some last =>
    let minimum := minuteOf first.1
    let maximum := minuteOf last.2 + 1
    let idx := minuteOf t - minimum
    if idx < 0 then some (false, first.1)
    else if idx ≥ maximum - minimum then some (false, -1)
    else
      match slotLoopG guardByMinute ivs (minuteOf t) (ivs.length + 1) 0 with
      | none => none
      | some s => some (s.inInterval, s.next.getD (-1))
  | _, _ => none

/-- the code as it is now (E26 repaired) -/
abbrev check := checkG false
/-- the code as it was given -/
abbrev checkOld := checkG true

/-- `stopImpl.ToEarliestStartValue` for a stop with windows. -/
def toEarliestStart (ivs : List Iv) (arrival : Rat) : Option Rat :=
  match check ivs arrival with
  | none => none
  | some (inW, opening) => some (if inW then arrival else if opening > 0 then opening else arrival)

/-! ### Specification -/

/-- The definition used by NR.Spec and NR.WaitEst. -/
def earliestStart (ws : List Iv) (a : Rat) : Rat :=
  if ws.any (fun w => decide (w.1 ≤ a ∧ a < w.2)) then a
  else match ws.find? (fun w => decide (a < w.1)) with
    | some w => w.1
    | none => a

/-- Windows as `SetWindows` accepts them (a superset, see `accepts`): non-empty, each with
`0 ≤ min ≤ max`, sorted and non-overlapping, on minute boundaries. -/
def WF (ws : List Iv) : Prop :=
  ws ≠ [] ∧ (∀ w ∈ ws, 0 ≤ w.1 ∧ w.1 ≤ w.2 ∧ (∃ m : Int, w.1 = m * 60) ∧ (∃ m : Int, w.2 = m * 60)) ∧
  ws.Pairwise (fun a b => a.2 ≤ b.1)

/-! ### What the stop API accepts (`stopImpl.SetWindows`, then `processIntervals`) -/

/-- `t.Second() == 0 && t.Nanosecond() == 0` for a time `x` seconds after the (minute aligned) epoch. -/
def aligned (x : Rat) : Bool := decide (((x / 60).floor : Rat) * 60 = x)

/-- The validation loop of `SetWindows`: start not after end, start not before the previous end, both
on a minute boundary. -/
def setWindowsLoop : Option Iv → List Iv → Bool
  | _, [] => true
  | prev, w :: rest =>
    decide (w.1 ≤ w.2) &&
    (match prev with | some p => decide (p.2 ≤ w.1) | none => true) &&
    aligned w.1 && aligned w.2 && setWindowsLoop (some w) rest

def inIv (w : Iv) (t : Rat) : Bool := decide (w.1 ≤ t ∧ t < w.2)

/-- `processIntervals`: no window contains another window's start or its last second; no negative time.
(Its sort is the identity on what `setWindowsLoop` lets through.) -/
def processOK (ws : List Iv) : Bool :=
  (List.range ws.length).all (fun i => (List.range ws.length).all (fun j =>
    i == j || match ws[i]?, ws[j]? with
      | some a, some b => !(inIv a b.1 || inIv a (b.2 - 1))
      | _, _ => true)) &&
  ws.all (fun w => decide (0 ≤ w.1 ∧ 0 ≤ w.2))

/-- `SetWindows` returns nil and installs the lookup table. -/
def accepts (ws : List Iv) : Bool := !ws.isEmpty && setWindowsLoop none ws && processOK ws

end NR.RangeCheck
