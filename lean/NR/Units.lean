/-
  NR.Units — how the factory groups the precedence relations of an input into plan units (`allSequences`, `mergeUnits`,
  `toExistingUnit` in factory/plan_units.go), with the INDEX bookkeeping of the code: `units` is the slice of units found
  so far (their stops), `inUnit` the table stop ↦ index into `units`. A relation (a, b) — a precedes b — is handled by
  what the table says of its two stops: both unknown → a new unit at the end; one known → the relation joins that unit;
  both known, same unit → nothing changes; both known, different units → the unit with the higher index is cut out of the
  slice (every unit behind it moves forward by one, so the table is refreshed for all remaining units) and its stops go
  to the unit with the lower index.

  C16 rides on the table being right: `units[inUnit[s]]` is an index expression without a bounds check. The round-9 seeded
  change C16-merge-refreshes-only-the-units-behind broke the refresh by one and made `factory.NewModel` panic for a
  particular order of relations.
-/
namespace NR.Units

structure St where
  units  : List (List Nat) := []
  /-- stop ↦ unit index; the latest entry for a stop counts -/
  inUnit : List (Nat × Nat) := []
deriving Repr, DecidableEq, Inhabited

def look (m : List (Nat × Nat)) (s : Nat) : Option Nat := (m.find? (fun p => p.1 == s)).map (·.2)

/-- a unit's stops are a set -/
def ins (u : List Nat) (s : Nat) : List Nat := if u.contains s then u else u ++ [s]

/-- `toExistingUnit` -/
def toExisting (st : St) (i a b : Nat) : St :=
  { units := st.units.modify i (fun u => ins (ins u a) b), inUnit := (b, i) :: (a, i) :: st.inUnit }

/-- the refresh loop of `mergeUnits`: every stop of every remaining unit gets that unit's index -/
def refresh (units : List (List Nat)) (m : List (Nat × Nat)) : List (Nat × Nat) :=
  ((List.range units.length).flatMap (fun i => (units.getD i []).map (fun s => (s, i)))) ++ m

/-- `mergeUnits` -/
def merge (st : St) (i j : Nat) : St :=
  let i1 := min i j
  let i2 := max i j
  let old := st.units.getD i2 []
  let units := st.units.eraseIdx i2
  let m := refresh units st.inUnit
  { units := units.modify i1 (fun u => old.foldl ins u), inUnit := old.map (fun s => (s, i1)) ++ m }

/-- one relation of `allSequences` -/
def step (st : St) (r : Nat × Nat) : St :=
  match look st.inUnit r.1, look st.inUnit r.2 with
  | some i, none => toExisting st i r.1 r.2
  | none, some j => toExisting st j r.1 r.2
  | some i, some j => if i = j then st else merge st i j
  | none, none =>
    { units := st.units ++ [ins [r.1] r.2],
      inUnit := (r.2, st.units.length) :: (r.1, st.units.length) :: st.inUnit }

def run (rels : List (Nat × Nat)) : St := rels.foldl step {}

/-- the table is right: a stop's entry is the index of the (one) unit that holds it, and only stops of units have one -/
def TableOK (st : St) : Prop :=
  ∀ s i, look st.inUnit s = some i ↔ (i < st.units.length ∧ s ∈ st.units.getD i [])

/-- the units are sets and pairwise disjoint -/
def Disjoint (st : St) : Prop :=
  (∀ u ∈ st.units, u.Nodup) ∧
  ∀ i j s, i < st.units.length → j < st.units.length → s ∈ st.units.getD i [] → s ∈ st.units.getD j [] → i = j

/-- s and t are linked by the relations (in either direction, through any number of stops) -/
inductive Conn (rels : List (Nat × Nat)) : Nat → Nat → Prop
  | rel {a b} : (a, b) ∈ rels → Conn rels a b
  | symm {a b} : Conn rels a b → Conn rels b a
  | trans {a b c} : Conn rels a b → Conn rels b c → Conn rels a c

/-- the outcome as the harness compares it: the units as sorted lists, sorted by their smallest stop -/
def render (st : St) : String :=
  let us := (st.units.map (fun u => u.mergeSort (fun a b => a ≤ b))).mergeSort (fun a b => a.headD 0 ≤ b.headD 0)
  if us.isEmpty then "-" else ";".intercalate (us.map (fun u => ",".intercalate (u.map toString)))

end NR.Units
