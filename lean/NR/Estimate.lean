/-
  NR.Estimate — the fast feasibility estimates (C09), written branch for branch after the Go, as
  functions of the numbers the estimate reads:

  `maximumImpl.EstimateIsViolated` (`model_maximum.go`), used for every capacity resource and for
  the distance limit. The hypothetical route walked by `solutionStopGenerator` is abstracted to the
  list of expression values along it:
      base        cumulative value at the stop before the first inserted stop,
      win         values of the stops from the first inserted stop up to and including the planned
                  stop that follows the last inserted stop (`move.next()`),
      tail        values of the planned stops after that one (the end stop included, value 0),
      oldCumNext  cumulative value currently stored at `move.next()`,
      oldLast     cumulative value currently stored at the vehicle's last stop.
  Three regimes, as in the Go: (1) stop expression without negative values — constant time;
  (2) general walk over `win`; then (2a) no negative values: one comparison for the tail,
  (2b) otherwise walk the tail unless the level at `move.next()` is unchanged.
  `true` = violated.
-/
import NR.Basic
namespace NR.Estimate

def bad (max x : Rat) : Bool := decide (x > max ∨ x < 0)

def levelsFrom (base : Rat) : List Rat → List Rat
  | [] => []
  | v :: vs => (base + v) :: levelsFrom (base + v) vs

def total (base : Rat) (vs : List Rat) : Rat := vs.foldl (· + ·) base

/-- Regime (1): `hasStopExpressionAndNoNegativeValues`: `cumulative(last) + delta(unit) > maximum`. -/
def maxEstimateConst (max oldLast delta : Rat) : Bool := decide (oldLast + delta > max)

/-- Regime (2). -/
def maxEstimate (max base : Rat) (win tail : List Rat) (oldCumNext oldLast : Rat) (hasNeg : Bool) : Bool :=
  if (levelsFrom base win).any (bad max) then true
  else
    let level := total base win
    if !hasNeg then decide (level - oldCumNext + oldLast > max)
    else if oldCumNext ≠ level then (levelsFrom level tail).any (bad max)
    else false

/-- The exact check of the whole new route from the insertion point on
(`DoesStopHaveViolations` at every re-propagated stop). -/
def exactOK (max base : Rat) (win tail : List Rat) : Bool :=
  !((levelsFrom base (win ++ tail)).any (bad max))

end NR.Estimate
