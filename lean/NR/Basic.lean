/-
  NR.Basic — small core-only helpers shared by the executable model and the line driver.
  No Mathlib imports anywhere below NR.Proofs / NR.Props, so that the driver links as a lean_exe.
-/
namespace NR

/-- Parse a signed integer. -/
def parseInt? (s : String) : Option Int :=
  if s.startsWith "-" then (s.drop 1).toNat?.map (fun n => - (Int.ofNat n))
  else s.toNat?.map Int.ofNat

/-- Parse a rational written as `n`, `-n` or `n/d` (what the Go harness prints with `big.Rat`). -/
def parseRat? (s : String) : Option Rat :=
  match s.splitOn "/" with
  | [n] => (parseInt? n).map (fun i => (i : Rat))
  | [n, d] =>
    match parseInt? n, d.toNat? with
    | some i, some k => if k = 0 then none else some ((i : Rat) / (k : Rat))
    | _, _ => none
  | _ => none

/-- Canonical printing of a rational: `n` or `n/d` in lowest terms. -/
def showRat (r : Rat) : String :=
  if r.den = 1 then toString r.num else toString r.num ++ "/" ++ toString r.den

def showOptRat : Option Rat → String
  | none => "none"
  | some r => showRat r

def parseOptRat? (s : String) : Option (Option Rat) :=
  if s = "none" then some none else (parseRat? s).map some

def words (s : String) : List String :=
  (s.splitOn " ").filter (· ≠ "")

/-- All of a list of optional values, or none. -/
def allSome {α} : List (Option α) → Option (List α)
  | [] => some []
  | none :: _ => none
  | some a :: r => (allSome r).map (a :: ·)

def parseRats? (ws : List String) : Option (List Rat) := allSome (ws.map parseRat?)
def parseNats? (ws : List String) : Option (List Nat) := allSome (ws.map String.toNat?)

/-- A comma separated list (`-` is the empty list). -/
def parseCsv (s : String) : List String :=
  if s = "-" then [] else s.splitOn ","

def showCsv (xs : List String) : String :=
  if xs.isEmpty then "-" else ",".intercalate xs

def sumRat (xs : List Rat) : Rat := xs.foldl (· + ·) 0

end NR
