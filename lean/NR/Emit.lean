/-
  NR.Emit — best-solution tracking (C06), as functions of score sequences.

  * `emit`      : the aggregator goroutine of `solve_solver_parallel.go` (skip when
                  `score >= best`, else deliver and update) applied to the scores in the
                  order they are received from `syncResultChannel`;
  * `minStart`  : the choice of the initial best among the start solutions (`<`);
  * `sstep`     : one event of a single solver (`solve_solver.go`): an operator left the work
                  solution at score `w` (`invoke`: `delta := work - best; if delta >= 0 …`), or
                  an operator called `Reset` with a solution of score `r` (`<`).
  The comparison operators are facts extracted from the source (FactThms/SolverFacts).
-/
import NR.Basic
namespace NR.Emit

def emit (best : Rat) : List Rat → List Rat
  | [] => []
  | x :: xs => if x ≥ best then emit best xs else x :: emit x xs

def minStart (b : Rat) : List Rat → Rat
  | [] => b
  | x :: xs => if x < b then minStart x xs else minStart b xs

/-- What a consumer reads from the parallel solver's result channel. -/
def channel (s0 : Rat) (starts recv : List Rat) : List Rat :=
  let b := minStart s0 starts
  b :: emit b recv

inductive Ev
  | op (work : Rat) (canImprove : Bool)
  | reset (r : Rat)
deriving Repr

structure SState where
  best : Rat
  work : Rat
deriving Repr

def sstep (s : SState) : Ev → SState × Option Rat
  | .op w ci =>
    if !ci then ({ s with work := w }, none)
    else if w - s.best ≥ 0 then ({ s with work := w }, none)
    else ({ best := w, work := w }, some w)
  | .reset r =>
    if r < s.best then ({ best := r, work := r }, none) else ({ s with work := r }, none)

def srun (s : SState) : List Ev → SState × List Rat
  | [] => (s, [])
  | e :: es =>
    let (s', o) := sstep s e
    let (s'', os) := srun s' es
    (s'', match o with | some x => x :: os | none => os)

/-- What a consumer reads from a single solver's channel started at score `b`. -/
def schannel (b : Rat) (es : List Ev) : List Rat := b :: (srun ⟨b, b⟩ es).2

def sfinalBest (b : Rat) (es : List Ev) : Rat := (srun ⟨b, b⟩ es).1.best

/-- No `Reset` is ever called with a solution strictly better than the best at that time
(true of the built-in restart operator, which resets to the best solution). -/
def NoImprovingReset (s : SState) : List Ev → Prop
  | [] => True
  | e :: es =>
    (match e with | .reset r => s.best ≤ r | _ => True) ∧ NoImprovingReset (sstep s e).1 es

/-! Versions parameterised by the comparison operators as they are extracted from the source
(`NR.Facts`); `FactThms/SolverFacts.lean` shows that with the operators the code has *now*
they coincide with the definitions above. -/

def cmpOf (op : String) (a b : Rat) : Bool :=
  if op = ">=" then decide (a ≥ b) else if op = ">" then decide (a > b)
  else if op = "<" then decide (a < b) else if op = "<=" then decide (a ≤ b)
  else if op = "==" then decide (a = b) else if op = "!=" then decide (a ≠ b) else false

def emitG (skip : Rat → Rat → Bool) (best : Rat) : List Rat → List Rat
  | [] => []
  | x :: xs => if skip x best then emitG skip best xs else x :: emitG skip x xs

def minStartG (better : Rat → Rat → Bool) (b : Rat) : List Rat → Rat
  | [] => b
  | x :: xs => if better x b then minStartG better x xs else minStartG better b xs

def sstepG (skip better : Rat → Rat → Bool) (s : SState) : Ev → SState × Option Rat
  | .op w ci =>
    if !ci then ({ s with work := w }, none)
    else if skip (w - s.best) 0 then ({ s with work := w }, none)
    else ({ best := w, work := w }, some w)
  | .reset r =>
    if better r s.best then ({ best := r, work := r }, none) else ({ s with work := r }, none)

def lmin (b : Rat) (xs : List Rat) : Rat := xs.foldl min b

def StrictDesc : List Rat → Prop
  | [] => True
  | [_] => True
  | x :: y :: r => y < x ∧ StrictDesc (y :: r)

end NR.Emit
