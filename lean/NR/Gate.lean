/-
  NR.Gate — constraints WITHOUT an exact check (C01: maximum stops, compatibility attributes).
  `Facts.exactChecks` (regenerated from the source) shows these constraint types implement no
  `Does…HaveViolations`; they are enforced by the estimate alone. The model of the two estimates
  (constant-time formulas in `model_constraint_maximum_stops.go` / `model_constraint_attributes.go`)
  and the invariant argument: a route only ever changes by (a) an insertion admitted by the
  estimate, or (b) a removal; the predicate is closed under removals.
-/
namespace NR.Gate

/-- `maximumStopsConstraintImpl.EstimateIsViolated`: `NumberOfStops + len(stopPositions) > max`. -/
def maxStopsViolated (onVehicle new max : Nat) : Bool := decide (onVehicle + new > max)

/-- `attributesConstraintImpl.Lock`/`EstimateIsViolated`: a unit is compatible with a vehicle type
iff every stop is; a stop is iff it has no attributes or shares one with the vehicle type. -/
def stopCompatible (stopAttrs vehAttrs : List String) : Bool :=
  stopAttrs.isEmpty || stopAttrs.any (fun a => vehAttrs.contains a)

def attrsViolated (unit : List (List String)) (vehAttrs : List String) : Bool :=
  !(unit.all (fun s => stopCompatible s vehAttrs))

/-- One change of a route: either an insertion of `ins` (the old route is a sublist of the new one
and the new stops are exactly `ins`), admitted by a gate, or a removal. -/
inductive Step {S : Type} (gate : List S → List S → Bool) : List S → List S → Prop
  | insert (r r' ins : List S) (hsub : r.Sublist r') (hperm : r'.Perm (r ++ ins))
      (hgate : gate r ins = false) : Step gate r r'
  | remove (r r' : List S) (hsub : r'.Sublist r) : Step gate r r'
  | stay (r : List S) : Step gate r r

inductive Reach {S : Type} (gate : List S → List S → Bool) : List S → List S → Prop
  | refl (r : List S) : Reach gate r r
  | step (r r' r'' : List S) (h : Reach gate r r') (s : Step gate r' r'') : Reach gate r r''

end NR.Gate
