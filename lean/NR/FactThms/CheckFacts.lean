/-
  Fact theorems for C01/C02/C09: which constraint types have an exact check (regenerated from the
  source). C01's argument for maximum stops and attributes goes through the estimate gate BECAUSE they
  have no exact check; C02's argument goes through the engine invariant BECAUSE every temporal
  constraint the factory registers has one, and because JSON-built models never claim the triangle
  inequality (which would switch `Latest`'s stop check off).
-/
import NRFacts.Generated
namespace NR.FactThms.CheckFacts

def row (t : String) : Option (List String) := NR.Facts.exactChecks.find? (fun r => r.getD 0 "" = t)

def hasExact (t : String) : Bool :=
  match row t with
  | some r => r.getD 1 "" = "yes" || r.getD 2 "" = "yes" || r.getD 3 "" = "yes"
  | none => false

/-- Enforced by the estimate alone. -/
theorem estimate_gated_only :
    hasExact "maximumStopsConstraintImpl" = false ∧ hasExact "attributesConstraintImpl" = false ∧
    hasExact "noMixConstraintImpl" = false ∧ hasExact "clusterImpl" = false := by decide

/-- Re-checked exactly after every change. -/
theorem exactly_checked :
    hasExact "maximumImpl" = true ∧ hasExact "latestImpl" = true ∧ hasExact "maximumWaitStopConstraintImpl" = true ∧
    hasExact "maximumWaitVehicleConstraintImpl" = true ∧ hasExact "maximumDurationConstraintImpl" = true := by decide

/-- JSON-built models never switch `Latest`'s stop check off. -/
theorem json_models_keep_latest_check : NR.Facts.factorySetsTriangleInequality = "never" := by decide

/-- No-mix turns a violation into an engine error through its stop-data updater. -/
theorem nomix_has_updater : (row "noMixConstraintImpl").map (fun r => r.getD 4 "") = some "yes" := by decide

/-- The per-resource capacity constraints are created while ranging over a map (factory/constraint_capacity.go), so the
order in which they are asked differs from model to model; the search passes the hint of the FIRST violated constraint
on (and draws from the random source or not accordingly). That is harmless as long as every `Maximum` answers a
violation of one cost class with the same hint: "skip the vehicle" in the position-independent regimes (all values
negative; a constant per-stop value above the limit), "no hint" wherever it walks the route. The returns of
`maximumImpl.EstimateIsViolated`, in source order — a skip-vehicle answer added to the walking regime (the seeded change
C12-maximum-peak-hint) makes the result depend on map order. -/
theorem maximum_hints_are_uniform_per_regime :
    NR.Facts.estimateHints.find? (fun r => r.head? = some "maximumImpl") = some
      ["maximumImpl", "false/constNoPositionsHint", "true/constSkipVehiclePositionsHint", "true/constSkipVehiclePositionsHint",
       "false/constNoPositionsHint", "true/constSkipVehiclePositionsHint", "false/constNoPositionsHint",
       "true/constNoPositionsHint", "violated/constNoPositionsHint", "true/constNoPositionsHint", "false/constNoPositionsHint"] := by
  decide

end NR.FactThms.CheckFacts
