/-
  Fact theorems for C11: compiled on every run against the field list of `solutionImpl`, the
  treatment `Copy` gives each field, the carved field lists and the chunk size expressions as
  regenerated from /repo's working tree.
-/
import NRFacts.Generated
import NR.Props.C11
namespace NR.FactThms.CopyFacts
open NR.Heap

/-- Per-vehicle int fields; all other carved int fields have one entry per stop. -/
def isV (f : String) : Bool := f = "first" || f = "last" || f = "vehicleIndices"

/-- Does the field's Go type hold `Copier` objects (per-stop or per-solution data of constraints and objectives)?
Decided by the extractor (substring test on the type), fourth column of the table. -/
def holdsCopiers (r : List String) : Bool := r.getD 3 "" = "holds-copiers"

/-- Treatments under which a field of the copy shares nothing mutable with the original. A fresh map or slice
whose elements are `Copier` objects must be filled with `.Copy()` of each element ("elems:deep") and by nothing
else — a generic map copy helper or a plain assignment shares the objects between original and copy. -/
def okTreatment (field ty how : String) (hc : Bool) : Bool :=
  how = "carved:ints" || how = "carved:floats" || how = "carved-per-expression:floats" ||
  (how = "fresh-make" && !hc) ||
  (how = "fresh-make+elems:deep" && hc) ||
  (how = "fresh-make+elems:assigned" && ty = "map[ModelObjective]float64") ||
  how = "fresh-collection" || how = "fresh-collection+units-recreated" ||
  how = "cloned" || how = "fresh-random" ||
  (field = "model" && how = "shared-model") ||          -- the model is read-only once locked
  (field = "randomMutex" && how = "NOT-HANDLED")        -- a mutex must not be copied: zero value

/-- Every field of `solutionImpl` is given an independent value by `Copy` — a field added to the
struct and forgotten in `Copy` shows up here as NOT-HANDLED and breaks this theorem. -/
theorem every_field_handled :
    NR.Facts.copyFields.all (fun r => okTreatment (r.getD 0 "") (r.getD 1 "") (r.getD 2 "") (holdsCopiers r)) = true := by
  decide

/-- The four data tables of constraints and objectives are deep-copied element by element. -/
theorem copier_tables_deep_copied :
    (NR.Facts.copyFields.filter holdsCopiers).map (fun r => (r.getD 0 "", r.getD 2 "")) =
      [("constraintSolutionData", "fresh-make+elems:deep"), ("constraintStopData", "fresh-make+elems:deep"),
       ("objectiveSolutionData", "fresh-make+elems:deep"), ("objectiveStopData", "fresh-make+elems:deep")] := by
  decide

/-- All 30 fields are accounted for (the table is not empty by accident). -/
theorem field_count : NR.Facts.copyFields.length = NR.Facts.solutionImplFields.length ∧ 0 < NR.Facts.copyFields.length := by
  decide

/-- The carved int fields fit the `ints` chunk exactly, for all sizes. -/
theorem ints_chunk_fits (nS nV : Nat) :
    NR.Facts.copyIntsChunkSize = "5*nrStops + 3*nrVehicles" ∧
    total (lengths isV nS nV NR.Facts.copyIntsCarved) = 5 * nS + 3 * nV := by
  refine ⟨by decide, ?_⟩
  exact NR.Props.C11.c11_ints_fit isV NR.Facts.copyIntsCarved nS nV (by decide) (by decide)

/-- The carved float fields: five per-stop slices, then per expression `cumulativeValues` and `values`. -/
theorem floats_chunk_fits :
    NR.Facts.copyFloatsChunkSize = "(5 + 2*nrExpressions) * nrStops" ∧
    NR.Facts.copyFloatsCarved =
      ["start", "end", "arrival", "slack", "cumulativeTravelDuration", "cumulativeValues[expr]", "values[expr]"] := by
  decide

end NR.FactThms.CopyFacts
