/-
  Fact theorem for C12 (same model, seed and options ⇒ same result): every place in the library and the factory where the
  iteration ORDER of a Go map could reach a result is on a reviewed list. The table `NR.Facts.mapRanges` is regenerated
  from the source on every run (tools/nrfacts/maprange.go: every `for … range` over an expression that is syntactically
  a map, every call of common.Keys / common.Values / maps.Keys / maps.Values; packages nextroute, factory, common, check,
  schema). A site that is not on the list — a new loop over a map, as in the seeded change
  C12-precedence-relations-deduplicated-through-a-map — breaks the theorem, whatever Go's map order happens to be in the
  runs of the repetition differential (which catches such a change only when two builds of the same model differ).

  The list: (package directory, file, function, expression) and why the order cannot reach a result there.
-/
import NRFacts.Generated
namespace NR.FactThms.MapOrderFacts

def reviewed : List (List String × String) := [
  ([".", "model.go", "modelImpl.Expressions", "range m.expressions"], "public accessor; callers inside the library read the expressions by index"),
  ([".", "model.go", "modelImpl.lock", "common.Keys(m.stopVehicles)"], "validation only: the order decides which of several input errors is reported"),
  ([".", "model_constraint_no_mix.go", "NewNoMixConstraint", "range deltas"], "validation only (error text)"),
  ([".", "model_constraint_no_mix.go", "validate", "range insert"], "validation only (error text)"),
  ([".", "model_constraint_no_mix.go", "validate", "range remove"], "validation only (error text)"),
  ([".", "model_constraint_no_mix.go", "validate", "range deltaPerPlanUnit"], "validation only (error text)"),
  ([".", "model_constraint_no_mix.go", "noMixConstraintImpl.Insert", "range l.insert"], "copies a map into a map"),
  ([".", "model_constraint_no_mix.go", "noMixConstraintImpl.Remove", "range l.remove"], "copies a map into a map"),
  ([".", "model_constraint_successors.go", "successorConstraintImpl.Lock", "range modelImpl.disallowedSuccessors"], "fills tables indexed by stop"),
  ([".", "model_constraint_successors.go", "successorConstraintImpl.Lock", "range l.disallowedSuccessors"], "fills tables indexed by stop"),
  ([".", "model_directed_acyclic_graph.go", "directedAcyclicGraphImpl.IndependentDirectedAcyclicGraphs", "range d.adjacencyList"], "public method, not called by the library or the factory"),
  ([".", "model_expression_composed.go", "composedPerVehicleTypeExpressionImpl.HasNegativeValues", "range t.expressions"], "existential over the entries"),
  ([".", "model_expression_composed.go", "composedPerVehicleTypeExpressionImpl.HasPositiveValues", "range t.expressions"], "existential over the entries"),
  ([".", "model_expression_sum.go", "sumExpressionImpl.String", "range n.expressions"], "a slice (same field name as a map field elsewhere); text only"),
  ([".", "model_expression_sum.go", "sumExpressionImpl.Value", "range n.expressions"], "a slice (same field name as a map field elsewhere)"),
  ([".", "model_expression_time_dependent.go", "timeDependentDurationExpressionImpl.HasNegativeValues", "range t.expressions"], "existential over the entries"),
  ([".", "model_expression_time_dependent.go", "timeDependentDurationExpressionImpl.HasPositiveValues", "range t.expressions"], "existential over the entries"),
  ([".", "solution.go", "NewSolution", "range model.expressions"], "allocates one array per expression, keyed by the expression's index"),
  ([".", "solution.go", "solutionImpl.Copy", "range model.expressions"], "copies per-expression arrays / the score map, keyed"),
  ([".", "solution.go", "solutionImpl.Copy", "range s.scores"], "copies per-expression arrays / the score map, keyed"),
  ([".", "solution.go", "solutionImpl.newVehicle", "range model.expressions"], "writes per-expression cells, keyed"),
  ([".", "solution.go", "solutionImpl.isFeasible", "range model.expressions"], "each expression's values are computed independently of the others"),
  (["factory", "constraint_capacity.go", "stringAnyMap", "range parsed"], "map to map"),
  (["factory", "constraint_capacity.go", "addMaximumConstraint", "range names"], "collects the resource names, which are SORTED before the constraints are added (as repaired, E46: added in map order, a resource in the skip-the-vehicle regime next to one outside it made the number of tie-break draws depend on the build); see no_registration_in_map_order"),
  (["factory", "constraint_capacity.go", "setExpressionValues", "range names"], "sets values keyed by resource name"),
  (["factory", "constraint_capacity.go", "setExpressionValues", "range names"], "sets values keyed by resource name"),
  (["factory", "constraint_no_mix.go", "addNoMixConstraint", "range mixingItems"], "one no-mix constraint per item type, ADDED in map order: harmless only because every no-mix estimate answers with the same hint (no_mix_hints_are_uniform) and the constraints form one contiguous block"),
  (["factory", "constraint_no_mix.go", "addMixingItems", "range parsed"], "map to map"),
  (["factory", "plan_units.go", "mergeUnits", "range ui.stops"], "writes into maps keyed by stop id"),
  (["factory", "plan_units.go", "mergeUnits", "range oldUnit.stops"], "writes into maps keyed by stop id"),
  (["factory", "services.go", "addDurationMultipliers", "range durationGroupsExpression.Durations()"], "sets values keyed by stop"),
  (["factory", "validate.go", "validateResources", "range resourcesInfo"], "validation only (error text)"),
  (["common", "location.go", "Locations.Unique", "range unique"], "its only caller (sweep construction) requires exactly one location")
]

def allowed (r : List String) : Bool := reviewed.any (fun a => a.1 == r)

/-- Every map-order site of the source is on the reviewed list. -/
theorem every_map_order_site_is_reviewed : NR.Facts.mapRanges.all allowed = true := by decide

/-- The only loop over a map that REGISTERS something with the model (a constraint, an objective term — the order of
registration is the order in which estimates are asked and terms are summed) is the one that adds the no-mix constraints.
A second one (the capacity constraints until E46 was repaired; the capacity objectives in the round-10 seeded change)
breaks this theorem. -/
theorem no_registration_in_map_order :
    NR.Facts.mapRangesRegistering = [["factory", "constraint_no_mix.go", "addNoMixConstraint", "AddConstraint"]] := by decide

/-- … and that one is harmless: whichever no-mix constraint is asked first, the hint is the same. -/
theorem no_mix_hints_are_uniform : NR.Facts.noMixEstimateHints = ["constNoPositionsHint"] := by decide

end NR.FactThms.MapOrderFacts

#print axioms NR.FactThms.MapOrderFacts.every_map_order_site_is_reviewed
#print axioms NR.FactThms.MapOrderFacts.no_registration_in_map_order
#print axioms NR.FactThms.MapOrderFacts.no_mix_hints_are_uniform
