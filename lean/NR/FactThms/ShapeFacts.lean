/-
  Fact theorems that tie three modelling assumptions to the Go source, decided on tables regenerated
  from /repo on every run (tools/nrfacts/shape.go).

  C12  NR.Rng assumes that inside ONE run the helper goroutines only hand values over: every draw from
       a solution's random source happens in the goroutine that owns the solution. The table lists,
       per `go` statement, the functions called inside its closure.
  C15  NR.Par.grab transcribes the budget grab of a worker: ONE atomic add whose result decides the
       grant. The table is the printed statement list between the two hook sites.
  C19  The engine theorems quantify over the exact checks the model registers for a constraint; the
       table shows that AddConstraint registers each of the three check levels in an `if` of its own
       (no else, no switch), keyed on the interface that level calls.
-/
import NRFacts.Generated
namespace NR.FactThms.ShapeFacts

def fileOf (r : List String) : String := r.getD 0 ""
def fnOf (r : List String) : String := r.getD 1 ""
def calls (r : List String) : List String := r.drop 2

/-- Names through which a random source is read (directly or one call away) in the package. -/
def drawing : List String :=
  ["Random", "Perm", "Intn", "Int63", "Float64", "Shuffle", "sequenceGenerator", "RandomElement", "RandomElements",
   "RandomDraw", "RandomIndex", "takeBestInPlace", "takeBest", "BestMove", "bestMove"]

/-- The goroutines of the generator channels and of the collection iterator — the ones a single run
spawns while it searches — call nothing that draws. -/
theorem helper_goroutines_draw_nothing :
    (NR.Facts.goClosureCalls.filter (fun r =>
        fileOf r = "solution_sequence_generator.go" || fileOf r = "solution_move_stops_generator.go" ||
        fileOf r = "solution_plan_unit_collection.go")).all
      (fun r => (calls r).all (fun c => !drawing.contains c)) = true := by
  decide

/-- The stop-order generator's goroutine only closes the channel (and sends on it). -/
theorem sequence_goroutine_only_hands_over :
    (NR.Facts.goClosureCalls.filter (fun r => fnOf r = "SequenceGeneratorChannel")).map calls = [["close"]] := by
  decide

/-- The single solver's goroutine (solve_solver.go) runs the search itself; it is the only one of a
single run that does. -/
theorem single_solver_goroutine :
    (NR.Facts.goClosureCalls.filter (fun r => fileOf r = "solve_solver.go")).map calls =
      [["Done", "Trigger", "Update", "cancel", "close", "invoke"]] := by
  decide

/-- The budget grab is one atomic add; the grant is computed from its result. -/
theorem budget_grab_is_one_atomic_add :
    NR.Facts.budgetGrab =
      ["updatedIterations := iterationsLeft.Add(int64(opt.Iterations) * -1)",
       "if updatedIterations+int64(opt.Iterations) <= 0 { <-ctx.Done() return }",
       "if updatedIterations < 0 { opt.Iterations = int(updatedIterations + int64(opt.Iterations)) }"] := by
  decide

/-- Every check level is registered by an `if` of its own on the matching interface. -/
theorem every_check_level_registered_independently :
    NR.Facts.checkRegistration =
      [["AtEachStop", "SolutionStopViolationCheck", "IfStmt", "3"],
       ["AtEachVehicle", "SolutionVehicleViolationCheck", "IfStmt", "4"],
       ["AtEachSolution", "SolutionViolationCheck", "IfStmt", "5"]] := by
  decide

/-- C18: `check.SolutionCheck` plans and un-plans on a COPY of the solution it is given (the repair E39): whatever its
probing leaves behind, the caller's solution is not the object it happened to — "never alters" then rests on C11 (a copy
is independent of its original). -/
theorem check_probes_a_copy : NR.Facts.checkProbes = "solution.Copy()" := by decide

end NR.FactThms.ShapeFacts

#print axioms NR.FactThms.ShapeFacts.helper_goroutines_draw_nothing
#print axioms NR.FactThms.ShapeFacts.sequence_goroutine_only_hands_over
#print axioms NR.FactThms.ShapeFacts.single_solver_goroutine
#print axioms NR.FactThms.ShapeFacts.budget_grab_is_one_atomic_add
#print axioms NR.FactThms.ShapeFacts.every_check_level_registered_independently
#print axioms NR.FactThms.ShapeFacts.check_probes_a_copy
