/-
  Fact theorems for C16 (and C04's E1/E14 repairs): compiled on every run against
  NRFacts/Generated.lean as regenerated from /repo's working tree. A size or index expression is
  mapped to the symbolic quantity it denotes (`denote`); the C16 theorems are then instantiated
  with what the source says NOW. An expression the table does not know denotes nothing and the
  theorem fails to check — a broken tie (the runner then searches for a crashing input).
-/
import NRFacts.Generated
import NR.Props.C16
namespace NR.FactThms.FrontFacts
open NR.Front

/-- Symbolic sizes. -/
inductive Qty | planUnits | stopsUnits | vehicles | vehicleTypes
deriving DecidableEq, Repr

def denote (s : String) : Option Qty :=
  if s = "len(model.PlanUnits())" then some .planUnits
  else if s = "len(planUnits)" ∨ s = "len(model.PlanStopsUnits())" then some .stopsUnits
  else if s = "len(model.Vehicles())" then some .vehicles
  else if s = "len(vehicleTypes)" ∨ s = "len(model.VehicleTypes())" then some .vehicleTypes
  else none

/-- `Maximum`'s per-plan-unit tables are sized by all plan units (E12 repaired) … -/
theorem maximum_tables_by_all_plan_units :
    denote NR.Facts.maximumHasNoEffectSize = some .planUnits ∧ denote NR.Facts.maximumDeltasSize = some .planUnits := by
  decide

/-- … hence safe for every model (instantiating `c16_plan_unit_tables`). -/
theorem maximum_tables_safe (nStopsUnits nUnitsUnits : Nat) :
    TableSafe (nStopsUnits + nUnitsUnits) (nStopsUnits + nUnitsUnits) :=
  (NR.Props.C16.c16_plan_unit_tables nStopsUnits nUnitsUnits).1

/-- The vehicles-duration objective's table is sized by vehicles (E7 repaired). -/
theorem vehicles_duration_table_by_vehicles : denote NR.Facts.vehiclesDurationTableSize = some .vehicles := by
  decide

/-- The composed per-vehicle-type expression skips vehicle types without an own expression (E13). -/
theorem composed_skips_nil :
    NR.Facts.composedHasNegativeValuesGuard = "skips-nil" ∧ NR.Facts.composedHasPositiveValuesGuard = "skips-nil" := by
  decide

/-- Start/end matrix rows follow the documented layout for EVERY vehicle once the input has
alternate stops (E14 repaired): the index expressions are the layout's, the guard is on the input. -/
theorem vehicle_measure_indices_follow_layout :
    NR.Facts.vehicleFirstMeasureIndex = "len(input.Stops) + len(*input.AlternateStops) + idx*2" ∧
    NR.Facts.vehicleLastMeasureIndex = "len(input.Stops) + len(*input.AlternateStops) + idx*2 + 1" ∧
    NR.Facts.vehicleMeasureIndexGuard = "input.AlternateStops != nil" := by
  decide

/-- One stop-duration expression per vehicle (E1 repaired), sized as `c16_duration_tables_safe` assumes. -/
theorem duration_expression_per_vehicle :
    NR.Facts.durationExpressionScope = "per-vehicle" ∧
    NR.Facts.durationExpressionArgs = "model.NumberOfStops(), len(input.Vehicles)" ∧
    NR.Facts.durationTableSizeExpr = "numberOfStops + 2*numberOfVehicles" := by
  decide

end NR.FactThms.FrontFacts
