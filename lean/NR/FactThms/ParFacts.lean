/-
  Fact theorems for C14: the lockset discipline of the parallel solver, decided on the table of
  accesses to shared variables from goroutine and callback closures of
  `parallelSolverImpl.Solve`, regenerated from the source on every run: any two accesses to the
  same variable from different closures, at least one of them a write, hold a common mutex (or are
  both atomic operations). A new unguarded access, a removed Lock/Unlock pair or a new `go`
  statement in the package breaks a theorem here.
-/
import NRFacts.Generated
namespace NR.FactThms.ParFacts

def closure (r : List String) : String := r.getD 0 ""
def var (r : List String) : String := r.getD 1 ""
def kind (r : List String) : String := r.getD 2 ""
def locks (r : List String) : List String := r.drop 3

def compatible (a b : List String) : Bool :=
  var a ≠ var b || closure a = closure b ||
  (kind a = "r" && kind b = "r") ||
  (kind a = "atomic" && kind b = "atomic") ||
  (locks a).any (fun l => (locks b).contains l)

def lockDiscipline (rows : List (List String)) : Bool :=
  rows.all (fun a => rows.all (fun b => compatible a b))

/-- Every pair of conflicting accesses from different closures is ordered by a common mutex. -/
theorem parallel_solver_lock_discipline : lockDiscipline NR.Facts.parallelSharedAccesses = true := by
  decide

/-- The shared best solution is only ever replaced under its mutex, and read by the workers under it. -/
theorem best_solution_guarded :
    (NR.Facts.parallelSharedAccesses.filter (fun r => var r = "bestSolution" && (kind r = "w" || closure r = "g3"))).all
      (fun r => (locks r).contains "bestSolutionMutex") = true := by
  decide

/-- The goroutines of the package are the ones the model accounts for: the two generator channels and
the collection iterator (hand-over only, no shared random source since the repair of E5), one per
single solver, dispatcher + workers + collector of the parallel solver, the start-solution builders. -/
theorem go_statements_known :
    NR.Facts.goStatements =
      ["solution_move_stops_generator.go:SolutionMoveStopsGeneratorChannel:1",
       "solution_plan_unit_collection.go:Iterator:1",
       "solution_sequence_generator.go:SequenceGeneratorChannel:1",
       "solve_solver.go:Solve:1", "solve_solver_parallel.go:Solve:3", "solver_parallel.go:Solve:1"] := by
  decide

end NR.FactThms.ParFacts
