/-
  Fact theorems for C06: compiled on every run against NR/Facts/Generated.lean as regenerated
  from /repo's working tree.  They show that the comparison operators the source has *now*
  make the parameterised definitions coincide with the model the C06 theorems are about, and
  restate the delivery theorems for the source-derived functions.
-/
import NRFacts.Generated
import NR.Proofs.Emit
namespace NR.FactThms.SolverFacts
open NR.Emit NR.Proofs.Emit

theorem aggregator_skip (x b : Rat) : cmpOf NR.Facts.aggregatorSkipOp x b = decide (x ≥ b) := by
  simp [cmpOf, NR.Facts.aggregatorSkipOp]

theorem start_select (x b : Rat) : cmpOf NR.Facts.startSelectOp x b = decide (x < b) := by
  simp [cmpOf, NR.Facts.startSelectOp]

theorem invoke_skip (x b : Rat) : cmpOf NR.Facts.invokeSkipOp x b = decide (x ≥ b) := by
  simp [cmpOf, NR.Facts.invokeSkipOp]

theorem reset_improve (x b : Rat) : cmpOf NR.Facts.resetImproveOp x b = decide (x < b) := by
  simp [cmpOf, NR.Facts.resetImproveOp]

/-- `delta` is still `work - best`, compared with `0`. -/
theorem invoke_delta : NR.Facts.invokeDelta = "s.workSolution.Score() - s.bestSolution.Score()" ∧
    NR.Facts.invokeSkipCond = "delta >= 0.0" := by decide

/-- The aggregator as the source has it now delivers strictly decreasing scores, for every
arrival order of the runs' solutions. -/
theorem source_aggregator_strict (b : Rat) (xs : List Rat) :
    StrictDesc (b :: emitG (cmpOf NR.Facts.aggregatorSkipOp) b xs) := by
  rw [emitG_eq_emit _ aggregator_skip]; exact emit_strict b xs

theorem source_aggregator_last (b : Rat) (xs : List Rat) :
    (emitG (cmpOf NR.Facts.aggregatorSkipOp) b xs).getLastD b = lmin b xs := by
  rw [emitG_eq_emit _ aggregator_skip]; exact emit_last b xs

theorem source_start_select (b : Rat) (xs : List Rat) :
    minStartG (cmpOf NR.Facts.startSelectOp) b xs ≤ b ∧
    ∀ x ∈ xs, minStartG (cmpOf NR.Facts.startSelectOp) b xs ≤ x := by
  rw [minStartG_eq _ start_select]; exact minStart_le b xs

theorem source_solver_step (s : SState) (e : Ev) :
    sstepG (cmpOf NR.Facts.invokeSkipOp) (cmpOf NR.Facts.resetImproveOp) s e = sstep s e :=
  sstepG_eq _ _ invoke_skip reset_improve s e

end NR.FactThms.SolverFacts
