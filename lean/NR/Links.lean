/-
  NR.Links — the route arrays of `solutionImpl` (`next`, `previous`, `inVehicle`) and the primitives
  every operation is built from (solution_stop.go `attach` / `detach`, solution_move_stops.go
  `solutionMoveStopsImpl.attach`, the rollback loop of `Execute`, the detach loops of `unplan` and
  `SolutionVehicle.Unplan`), transcribed assignment for assignment.

  A stop that is on no route is its own successor and predecessor (`IsPlanned` is `next ≠ previous`);
  a vehicle's first stop is its own predecessor, its last stop its own successor.
-/
import NR.StopGen
namespace NR.Links

structure Arr where
  next : Nat → Nat
  prev : Nat → Nat
  inVeh : Nat → Int

def upd {β : Type} (f : Nat → β) (i : Nat) (v : β) : Nat → β := fun j => if j = i then v else f j

/-- `SolutionStop.attach(after)`. -/
def attach (a : Arr) (s after : Nat) : Arr :=
  let prev1 := upd a.prev s after
  let next1 := upd a.next s (a.next after)
  let prev2 := upd prev1 (next1 after) s
  let next2 := upd next1 after s
  { next := next2, prev := prev2, inVeh := upd a.inVeh s (a.inVeh after) }

/-- `SolutionStop.detach()`. -/
def detach (a : Arr) (s : Nat) : Arr :=
  let p := a.prev s
  let n := a.next s
  let next1 := upd a.next p n
  let prev1 := upd a.prev n p
  { next := upd next1 s s, prev := upd prev1 s s, inVeh := upd a.inVeh s (-1) }

def isPlanned (a : Arr) (s : Nat) : Bool := a.next s != a.prev s

/-- `solutionMoveStopsImpl.attach`: positions from the last to the first, each stop attached behind
the CURRENT predecessor of its position's next stop. Returns the arrays and `startPropagate`. -/
def attachMove (a : Arr) (ps : List StopGen.Pos) : Arr × Nat :=
  ps.reverse.foldl (fun (acc : Arr × Nat) p =>
    let after := acc.1.prev p.next
    (attach acc.1 p.stop after, after)) (a, 0)

/-- The rollback loop of `Execute` / the detach loop of `unplan`: detach every stop, in order. -/
def detachAll (a : Arr) (ss : List Nat) : Arr := ss.foldl detach a

/-- Follow `next` from `s` (at most `fuel` steps) up to the stop that is its own successor. -/
def walk (a : Arr) : Nat → Nat → List Nat
  | 0, s => [s]
  | fuel + 1, s => if a.next s = s then [s] else s :: walk a fuel (a.next s)

/-- The arrays represent `route` (first … last) of vehicle `v`; every stop of `off` is on no route. -/
def Repr (a : Arr) (v : Int) (route : List Nat) (off : List Nat) : Prop :=
  route.Nodup ∧ 2 ≤ route.length ∧
  (∀ i, i + 1 < route.length → a.next (route.getD i 0) = route.getD (i + 1) 0 ∧ a.prev (route.getD (i + 1) 0) = route.getD i 0) ∧
  a.prev (route.headD 0) = route.headD 0 ∧ a.next (route.getLastD 0) = route.getLastD 0 ∧
  (∀ s ∈ route, a.inVeh s = v) ∧
  (∀ s ∈ off, s ∉ route ∧ a.next s = s ∧ a.prev s = s ∧ a.inVeh s = -1)

/-- Arrays agree on every stop outside `dom`. -/
def SameOutside (a b : Arr) (dom : List Nat) : Prop :=
  ∀ s, s ∉ dom → a.next s = b.next s ∧ a.prev s = b.prev s ∧ a.inVeh s = b.inVeh s

/-- `l` with `x` inserted so that it becomes element number `i`. -/
def insertAt (l : List Nat) (i : Nat) (x : Nat) : List Nat := l.take i ++ x :: l.drop i

end NR.Links
