import NR.Basic
import NR.TimeDep
import NR.Driver
