import NR.Basic
import NR.TimeDep
import NR.Emit
import NR.Spec
import NR.Driver
import NR.Props.C06
import NR.Props.C17
import NR.FactThms.SolverFacts
