package main

// Stream `rc` (C02, C16): the start-time-window lookup. Sets window lists on a stop through the public
// API (`ModelStop.SetWindows`, which builds the minute-slot table of common/rangecheck.go) and queries
// `ToEarliestStartValue` at every window boundary, around it, inside minutes (fractional seconds) and
// far outside. The Lean model (NR.RangeCheck: `accepts`, `toEarliestStart`) answers the same lines.
// Window lists are placed in the first minutes of the epoch (where the table's index guards matter —
// E26) as well as at realistic dates; a share is malformed (unaligned, overlapping, reversed, negative).

import (
	"fmt"
	"math/rand"
	"strings"
	"time"

	"github.com/nextmv-io/nextroute"
	"github.com/nextmv-io/nextroute/common"
)

func init() { streams["rc"] = runRc }

type rcCase struct {
	Windows [][2]int64 `json:"windows"` // seconds since the epoch
	Shape   string     `json:"shape"`
}

func genRcCase(rng *rand.Rand) rcCase {
	c := rcCase{}
	var t int64
	switch rng.Intn(3) {
	case 0:
		t = int64(rng.Intn(4)) * 60 // the first minutes of the epoch
		c.Shape = "epoch"
	case 1:
		t = int64(rng.Intn(3000)) * 60
		c.Shape = "early"
	default:
		t = tdBase + int64(rng.Intn(100000))*60
		c.Shape = "dated"
	}
	n := 1 + rng.Intn(6)
	degenerate := 0
	for i := 0; i < n; i++ {
		gap := int64(0)
		if rng.Intn(3) != 0 {
			gap = int64(rng.Intn(40)) * 60
		}
		l := int64(rng.Intn(50)) * 60
		switch rng.Intn(5) {
		case 0:
			l = 0
		case 1:
			l = 60
		}
		if c.Shape == "epoch" && rng.Intn(2) == 0 {
			l, gap = 0, 0
		}
		if l == 0 {
			degenerate++
		}
		s := t + gap
		c.Windows = append(c.Windows, [2]int64{s, s + l})
		t = s + l
	}
	c.Shape += fmt.Sprintf(" n=%d degenerate=%d", n, degenerate)
	if rng.Intn(6) == 0 {
		k := rng.Intn(len(c.Windows))
		switch rng.Intn(5) {
		case 0:
			c.Windows[k][0] += int64(1 + rng.Intn(59))
			if c.Windows[k][1] < c.Windows[k][0] {
				c.Windows[k][1] = c.Windows[k][0]
			}
			c.Shape += " +unaligned-start"
		case 1:
			c.Windows[k][1] += int64(1 + rng.Intn(59))
			c.Shape += " +unaligned-end"
		case 2:
			c.Windows[k][0], c.Windows[k][1] = c.Windows[k][1]+60, c.Windows[k][0]
			c.Shape += " +reversed"
		case 3:
			if k > 0 {
				c.Windows[k][0] = c.Windows[k-1][0]
				c.Shape += " +overlap"
			}
		default:
			c.Windows[0][0] -= int64(1+rng.Intn(3)) * 60 * int64(1+rng.Intn(3000))
			c.Shape += " +maybe-negative"
		}
	}
	return c
}

func rcQueryTimes(rng *rand.Rand, c rcCase, thorough bool) []float64 {
	var ts []float64
	add := func(x float64) {
		if x >= 0 {
			ts = append(ts, x)
		}
	}
	for _, w := range c.Windows {
		for _, b := range w {
			for _, d := range []float64{-61, -60, -59.5, -1, -0.25, 0, 0.5, 1, 30, 59, 59.75, 60, 61} {
				add(float64(b) + d)
			}
		}
	}
	first, last := c.Windows[0][0], c.Windows[len(c.Windows)-1][1]
	add(0)
	add(float64(first) - 3600)
	add(float64(last) + 3600)
	add(float64(last) + 120)
	n := 20
	if thorough {
		n = 120
	}
	span := last - first + 600
	if span < 600 {
		span = 600
	}
	for i := 0; i < n; i++ {
		x := float64(first-300) + float64(rng.Int63n(span*4))/4
		add(x)
	}
	return ts
}

func runRc(o *Out, rng *rand.Rand, thorough bool) {
	n := 400
	if thorough {
		n = 4000
	}
	if replayFile != "" {
		n = 1
	}
	o.Meta.Rule = "a window list counts as non-trivial per (shape class, accepted?, number of windows, has zero-length window)"
	for ci := 0; ci < n; ci++ {
		crng := o.CaseRng(ci)
		c := genRcCase(crng)
		if replayFile != "" {
			loadReplay(&c)
		}
		if !o.BeginCase(ci, c) {
			continue
		}
		o.Meta.Cases++
		model, err := nextroute.NewModel()
		must(err)
		stop, err := model.NewStop(common.NewInvalidLocation())
		must(err)
		ws := make([][2]time.Time, len(c.Windows))
		var parts []string
		for i, w := range c.Windows {
			ws[i] = [2]time.Time{time.Unix(w[0], 0).UTC(), time.Unix(w[1], 0).UTC()}
			parts = append(parts, fmt.Sprintf("%d:%d", w[0], w[1]))
		}
		res := "ok"
		func() {
			defer func() {
				if r := recover(); r != nil {
					res = "panic"
					o.Violate(Violation{Property: "C16", Clause: "panic-in-set-windows", Sig: "C16|panic-in-set-windows",
						Detail: fmt.Sprintf("SetWindows(%v): %v", c.Windows, r), Replay: c})
				}
			}()
			if e := stop.SetWindows(ws); e != nil {
				res = "err"
			}
		}()
		o.Op("rc new "+strings.Join(parts, ","), "rc new "+res)
		o.Count("set-windows:" + res)
		o.Count("shape:" + strings.Fields(c.Shape)[0])
		zero := false
		for _, w := range c.Windows {
			if w[0] == w[1] {
				zero = true
			}
		}
		o.Distinct(fmt.Sprintf("%s|%s|n=%d|zero=%v", strings.Fields(c.Shape)[0], res, len(c.Windows), zero))
		if res != "ok" {
			continue
		}
		o.Sample(c)
		for _, t := range rcQueryTimes(crng, c, thorough) {
			ans := ""
			func() {
				defer func() {
					if r := recover(); r != nil {
						ans = "panic"
						o.Violate(Violation{Property: "C16", Clause: "panic-in-window-lookup", Sig: "C16|panic-in-window-lookup",
							Detail: fmt.Sprintf("ToEarliestStartValue(%v) with windows %v: %v", t, c.Windows, r), Replay: c})
					}
				}()
				ans = rat(stop.ToEarliestStartValue(t))
			}()
			o.Op("rc q "+rat(t), "rc q "+ans)
			// the property's own clause on the code's value: the start is the arrival if it is inside a
			// window, else the next opening, else the arrival
			if ans != "panic" {
				want := t
				in := false
				for _, w := range c.Windows {
					if float64(w[0]) <= t && t < float64(w[1]) {
						in = true
					}
				}
				if !in {
					for _, w := range c.Windows {
						if t < float64(w[0]) {
							want = float64(w[0])
							break
						}
					}
				}
				if rat(want) != ans {
					o.Violate(Violation{Property: "C02", Clause: "window-lookup", Sig: "C02|window-lookup",
						Detail: fmt.Sprintf("windows %v arrival %v: earliest start %s, expected %s", c.Windows, t, ans, rat(want)), Replay: c})
				}
			}
		}
	}
}
