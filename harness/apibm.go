package main

// `apibm` stream (C10, C16): best-move search on models assembled through the public API, where SEVERAL vehicles share
// one vehicle type (the factory makes one type per vehicle, so no JSON input reaches this): vehicles of a type start and
// end at the same coordinates more often than not and differ in what is per vehicle — the shift start, now and then the
// depot; stops carry a latest start (a hard constraint or a lateness term), units are single stops and a pair with an
// arc. A short random history of BestMove / Execute / UnPlan; every BestMove is compared with the exhaustive
// enumeration over all vehicles, allowed orders and positions (bestMoveOracle, as in the hist stream).

import (
	"context"
	"fmt"
	"math/rand"
	"os"
	"strings"
	"time"

	"github.com/nextmv-io/nextroute"
	"github.com/nextmv-io/nextroute/common"
)

func init() { streams["apibm"] = runAPIBM }

type apibmVehicle struct {
	Type  int   `json:"type"`
	Start int64 `json:"start"` // seconds after the base time
	Depot int   `json:"depot"` // index into a small set of coordinates
}

type apibmCase struct {
	Types    int            `json:"types"`
	Vehicles []apibmVehicle `json:"vehicles"`
	Stops    int            `json:"stops"`
	Pair     bool           `json:"pair,omitempty"` // stops 0 and 1 form one unit, 0 before 1
	Latest   []int64        `json:"latest"`         // per stop, seconds after the base time; 0 = none
	Hard     bool           `json:"hard"`
	Travel   [][3]int       `json:"travel,omitempty"`   // (from stop, to stop, seconds) overrides of the default
	Triple   bool           `json:"triple,omitempty"`   // stops 0, 1, 2 form one unit (0 before 1, 2 free) instead of the pair
	Disallow [][2]int       `json:"disallow,omitempty"` // successor constraint: (stop, stop that must not come directly behind it); -1 = the first vehicle's end
	Ops      []int          `json:"ops"`
}

func genAPIBMCase(rng *rand.Rand) apibmCase {
	c := apibmCase{Types: 1 + rng.Intn(2), Stops: 3 + rng.Intn(4), Pair: rng.Intn(3) == 0, Hard: rng.Intn(2) == 0}
	nv := 2 + rng.Intn(3)
	for v := 0; v < nv; v++ {
		d := 0
		if rng.Intn(4) == 0 {
			d = 1 + rng.Intn(2)
		}
		c.Vehicles = append(c.Vehicles, apibmVehicle{Type: v % c.Types, Start: int64(rng.Intn(4)) * 3600, Depot: d})
	}
	if rng.Intn(2) == 0 {
		// the lower-indexed vehicle is the later shift
		c.Vehicles[0].Start = 3 * 3600
		c.Vehicles[1].Start = 0
	}
	for s := 0; s < c.Stops; s++ {
		l := int64(0)
		if rng.Intn(3) != 0 {
			l = int64(1+rng.Intn(8)) * 1800
		}
		c.Latest = append(c.Latest, l)
	}
	for k := rng.Intn(5); k > 0; k-- {
		c.Travel = append(c.Travel, [3]int{rng.Intn(c.Stops), rng.Intn(c.Stops), 60 * (1 + rng.Intn(30))})
	}
	if c.Pair && c.Stops >= 4 && rng.Intn(2) == 0 {
		c.Triple = true
	}
	if rng.Intn(3) == 0 {
		// disallowed successors: the position generator prunes by them stop by stop
		for k := 1 + rng.Intn(4); k > 0; k-- {
			a, b := rng.Intn(c.Stops), rng.Intn(c.Stops+1)-1
			if a != b {
				c.Disallow = append(c.Disallow, [2]int{a, b})
			}
		}
	}
	for k := 0; k < 14; k++ {
		c.Ops = append(c.Ops, rng.Intn(1000))
	}
	return c
}

func buildAPIBM(c *apibmCase) (nextroute.Model, error) {
	model, err := nextroute.NewModel()
	if err != nil {
		return nil, err
	}
	loc := func(i int) common.Location {
		l, _ := common.NewLocation(5.0+float64(i)*0.01, 52.0)
		return l
	}
	var stops nextroute.ModelStops
	for i := 0; i < c.Stops; i++ {
		s, e := model.NewStop(loc(10 + i))
		if e != nil {
			return nil, e
		}
		s.SetID(fmt.Sprintf("s%d", i))
		stops = append(stops, s)
	}
	travel := nextroute.NewFromToExpression("travel", 600)
	for _, t := range c.Travel {
		if t[0] != t[1] {
			travel.SetValue(stops[t[0]], stops[t[1]], float64(t[2]))
		}
	}
	var types []nextroute.ModelVehicleType
	for t := 0; t < c.Types; t++ {
		vt, e := model.NewVehicleType(
			nextroute.NewTimeIndependentDurationExpression(nextroute.NewDurationExpression("travelDuration", travel, common.Second)),
			nextroute.NewConstantDurationExpression("stopDuration", time.Duration(t)*time.Minute))
		if e != nil {
			return nil, e
		}
		types = append(types, vt)
	}
	start := 0
	if c.Pair && c.Stops >= 2 {
		dag := nextroute.NewDirectedAcyclicGraph()
		if e := dag.AddArc(stops[0], stops[1]); e != nil {
			return nil, e
		}
		unit := nextroute.ModelStops{stops[0], stops[1]}
		start = 2
		if c.Triple && c.Stops >= 4 {
			unit = append(unit, stops[2])
			start = 3
		}
		if _, e := model.NewPlanMultipleStops(unit, dag); e != nil {
			return nil, e
		}
	}
	for i := start; i < c.Stops; i++ {
		if _, e := model.NewPlanSingleStop(stops[i]); e != nil {
			return nil, e
		}
	}
	base := time.Unix(baseTime, 0).UTC()
	for i, v := range c.Vehicles {
		first, e := model.NewStop(loc(v.Depot))
		if e != nil {
			return nil, e
		}
		last, e := model.NewStop(loc(v.Depot))
		if e != nil {
			return nil, e
		}
		ve, e := model.NewVehicle(types[v.Type%len(types)], base.Add(time.Duration(v.Start)*time.Second), first, last)
		if e != nil {
			return nil, e
		}
		ve.SetID(fmt.Sprintf("v%d", i))
	}
	if len(c.Disallow) > 0 {
		sc, e := nextroute.NewSuccessorConstraint()
		if e != nil {
			return nil, e
		}
		for _, d := range c.Disallow {
			to := model.Vehicles()[0].Last()
			if d[1] >= 0 {
				to = stops[d[1]]
			}
			if e := sc.DisallowSuccessors(stops[d[0]], nextroute.ModelStops{to}); e != nil {
				return nil, e
			}
		}
		if e := model.AddConstraint(sc); e != nil {
			return nil, e
		}
	}
	lse := nextroute.NewStopTimeExpression("latestStart", model.MaxTime())
	for i, l := range c.Latest {
		if l > 0 && i < len(stops) {
			lse.SetTime(stops[i], base.Add(time.Duration(l)*time.Second))
		}
	}
	ls, err := nextroute.NewLatestStart(lse)
	if err != nil {
		return nil, err
	}
	if _, err = model.Objective().NewTerm(1.0, nextroute.NewTravelDurationObjective()); err != nil {
		return nil, err
	}
	if c.Hard {
		err = model.AddConstraint(ls)
	} else {
		_, err = model.Objective().NewTerm(1.0, ls)
	}
	if err != nil {
		return nil, err
	}
	if _, err = model.Objective().NewTerm(100000.0, nextroute.NewUnPlannedObjective(nextroute.NewStopExpression("penalty", 1.0))); err != nil {
		return nil, err
	}
	return model, nil
}

func runAPIBM(o *Out, rng *rand.Rand, thorough bool) {
	n := 3000
	if thorough {
		n = 40000
	}
	if replayFile != "" {
		n = 1
	}
	o.Meta.Rule = "a case counts as non-trivial when at least one BestMove query was compared with the enumeration; distinct by " +
		"(vehicle types, vehicles, two empty vehicles of one type with different shift starts, hard/soft, pair)"
	for ci := 0; ci < n; ci++ {
		crng := o.CaseRng(ci)
		c := genAPIBMCase(crng)
		if replayFile != "" {
			c = apibmCase{} // a replay is the whole case: nothing of the generated one may shine through fields the file omits
			loadReplayInto(replayFile, &c)
		}
		if !o.BeginCase(ci, c) {
			continue
		}
		o.Meta.Cases++
		runAPIBMCase(o, &c)
	}
}

func runAPIBMCase(o *Out, c *apibmCase) {
	defer func() {
		if os.Getenv("VERIF_NORECOVER") != "" {
			return
		}
		if r := recover(); r != nil {
			o.Violate(Violation{Property: "C16", Clause: "panic-in-operation", Sig: "C16|panic-in-operation|api-best-move", Detail: fmt.Sprint(r), Replay: c})
		}
	}()
	model, err := buildAPIBM(c)
	if err != nil {
		o.Count("apibm:model-rejected")
		return
	}
	sol, err := nextroute.NewSolution(model)
	if err != nil {
		o.Count("apibm:solution-rejected")
		return
	}
	sameTypeDifferentStart := false
	for i, a := range c.Vehicles {
		for _, b := range c.Vehicles[i+1:] {
			if a.Type%c.Types == b.Type%c.Types && a.Depot == b.Depot && a.Start != b.Start {
				sameTypeDifferentStart = true
			}
		}
	}
	o.Distinct(fmt.Sprintf("types=%d vehicles=%d same-type-other-shift=%v hard=%v pair=%v triple=%v disallow=%v", c.Types, len(c.Vehicles), sameTypeDifferentStart, c.Hard, c.Pair, c.Triple, len(c.Disallow) > 0))
	queries := 0
	for _, op := range c.Ops {
		un := sol.UnPlannedPlanUnits().SolutionPlanUnits()
		pl := sol.PlannedPlanUnits().SolutionPlanUnits()
		if len(pl) > 0 && (len(un) == 0 || op%4 == 0) {
			u := pl[(op/4)%len(pl)]
			if _, e := u.UnPlan(); e != nil {
				o.Violate(Violation{Property: "C16", Clause: "engine-error", Sig: "C16|engine-error|UnPlan|api-best-move", Detail: e.Error(), Replay: c})
				return
			}
			o.Count("apibm:unplan")
			continue
		}
		if len(un) == 0 {
			continue
		}
		u := un[(op/4)%len(un)]
		su, ok := u.(nextroute.SolutionPlanStopsUnit)
		if !ok {
			continue
		}
		mv := sol.BestMove(context.Background(), u)
		bestMoveOracle(o, c, sol, su, mv, "api-shared-type")
		if len(c.Disallow) > 0 {
			genDisCorrespondence(o, c, sol, su, op)
		}
		queries++
		o.Count(fmt.Sprintf("apibm:bestmove-executable=%v", mv.IsExecutable()))
		if mv.IsExecutable() && op%3 != 0 {
			okx, e := mv.Execute(context.Background())
			if e != nil {
				o.Violate(Violation{Property: "C16", Clause: "engine-error", Sig: "C16|engine-error|Execute|api-best-move", Detail: e.Error(), Replay: c})
				return
			}
			if !okx {
				o.Violate(Violation{Property: "C09", Clause: "executable-move-rejected", Sig: "C09|executable-move-rejected|api-shared-type",
					Detail: "BestMove was executable, Execute returned false", Replay: c})
			}
			o.Count("apibm:execute")
		}
	}
	if queries > 0 {
		o.Sample(c)
	}
}

// genDisCorrespondence: the position generator of the real code (public test entry point) under disallowed successors,
// on one vehicle and one allowed order of the unit, next to NR.Gen.genDis (`gend` lines).
func genDisCorrespondence(o *Out, c *apibmCase, sol nextroute.Solution, su nextroute.SolutionPlanStopsUnit, op int) {
	orders := allowedOrders(su)
	if len(orders) == 0 {
		return
	}
	order := orders[op%len(orders)]
	vs := sol.Vehicles()
	v := vs[(op/7)%len(vs)]
	target := v.SolutionStops()
	var combos []string
	nextroute.SolutionMoveStopsGeneratorTest(v, su, func(mv nextroute.SolutionMoveStops) {
		sps := mv.StopPositions()
		gaps := make([]int, len(sps))
		for i := len(sps) - 1; i >= 0; i-- {
			if sps[i].Next().IsPlanned() {
				gaps[i] = sps[i].Next().Position()
			} else if i+1 < len(sps) {
				gaps[i] = gaps[i+1]
			}
		}
		ss := make([]string, len(gaps))
		for i, g := range gaps {
			ss[i] = fmt.Sprint(g)
		}
		combos = append(combos, strings.Join(ss, "."))
	}, nextroute.SolutionStops(order), nextroute.NewPreAllocatedMoveContainer(su), func() bool { return false })
	var src, tgt []int
	for _, st := range order {
		src = append(src, st.ModelStop().Index())
	}
	for _, st := range target {
		tgt = append(tgt, st.ModelStop().Index())
	}
	// the disallowed pairs as model stop indices (the end of the FIRST vehicle for -1)
	stops := sol.Model().Stops()
	var ps []string
	for _, d := range c.Disallow {
		to := sol.Model().Vehicles()[0].Last().Index()
		if d[1] >= 0 {
			to = stops[d[1]].Index()
		}
		ps = append(ps, fmt.Sprintf("%d:%d", stops[d[0]].Index(), to))
	}
	ans := "-"
	if len(combos) > 0 {
		ans = strings.Join(combos, ";")
	}
	o.Op(fmt.Sprintf("gend %s %s %s", csvI(src), csvI(tgt), strings.Join(ps, ",")), "gend "+ans)
	o.Count("gend-correspondence")
	o.Count(fmt.Sprintf("gend-correspondence:unit-stops=%d", len(src)))
}
