package main

// `init` stream (C03, C08, C19): what NewSolution makes of a vehicle's initial stops, under SCRIPTED constraints.
// The models are assembled through the public API: plain single-stop units, two-stop units (no order required), stop
// groups (plan-all, same vehicle) of two or three units; one vehicle whose initial stops list a random selection of
// the stops in a random order with random fixed flags. Two user constraints follow a script (see NR.Init): a
// non-temporal one (estimate rejects listed units; at-each-stop check rejects listed stops, or a stop b when a stop a
// is somewhere in front of it) and a TEMPORAL one (same at-each-stop rules, an at-each-vehicle rule; its estimate says
// "violated" for everything — the initial-solution code must not ask it). The code's outcome (error, or route / roots
// filed as planned / roots filed as fixed) is compared with NR.Init.run on the same script, and judged directly:
// groups whole, filing = routes, fixed stops kept, no scripted exact check violated.

import (
	"fmt"
	"math/rand"
	"os"
	"sort"
	"strings"
	"time"

	"github.com/nextmv-io/nextroute"
	"github.com/nextmv-io/nextroute/common"
)

func init() { streams["init"] = runInit }

type initCase struct {
	Stops   int      `json:"stops"`
	Pairs   [][2]int `json:"pairs,omitempty"`   // two-stop units
	Groups  [][]int  `json:"groups,omitempty"`  // groups of UNITS, each unit named by its first stop
	OneOfs  [][]int  `json:"one_ofs,omitempty"` // one-of units (alternatives): groups of UNITS, at most one of which may be planned
	L       []int    `json:"initial"`
	Fixed   []int    `json:"fixed,omitempty"`
	Est     []int    `json:"est,omitempty"` // units (named by their first stop) the estimate rejects
	NT      []int    `json:"nt,omitempty"`
	NTAfter [][2]int `json:"nt_after,omitempty"`
	T       []int    `json:"t,omitempty"`
	TAfter  [][2]int `json:"t_after,omitempty"`
	TVeh    []int    `json:"t_veh,omitempty"`
}

type initScript struct {
	temporal bool
	est      map[int]bool // stops-unit index
	at       map[int]bool // model stop index
	after    [][2]int
	veh      map[int]bool
	asked    *int
}

func (s *initScript) String() string {
	if s.temporal {
		return "scripted_temporal"
	}
	return "scripted"
}
func (s *initScript) IsTemporal() bool { return s.temporal }
func (s *initScript) EstimateIsViolated(mv nextroute.SolutionMoveStops) (bool, nextroute.StopPositionsHint) {
	*s.asked++
	if s.temporal {
		return true, nextroute.NoPositionsHint()
	}
	return s.est[mv.PlanStopsUnit().ModelPlanUnit().Index()], nextroute.NoPositionsHint()
}
func (s *initScript) DoesStopHaveViolations(st nextroute.SolutionStop) bool {
	if st.IsFirst() || st.IsLast() {
		return false
	}
	me := st.ModelStop().Index()
	if s.at[me] {
		return true
	}
	for _, p := range s.after {
		if p[1] != me {
			continue
		}
		for q := st.Previous(); !q.IsFirst(); q = q.Previous() {
			if q.ModelStop().Index() == p[0] {
				return true
			}
		}
	}
	return false
}

type initScriptVeh struct{ *initScript }

func (s initScriptVeh) DoesVehicleHaveViolations(v nextroute.SolutionVehicle) bool {
	for _, st := range v.SolutionStops() {
		if !st.IsFirst() && !st.IsLast() && s.veh[st.ModelStop().Index()] {
			return true
		}
	}
	return false
}

func genInitCase(rng *rand.Rand) initCase {
	c := initCase{Stops: 3 + rng.Intn(6)}
	perm := rng.Perm(c.Stops)
	// partition the stops into units
	var unitFirst []int
	i := 0
	for i < len(perm) {
		if i+1 < len(perm) && rng.Intn(4) == 0 {
			c.Pairs = append(c.Pairs, [2]int{perm[i], perm[i+1]})
			unitFirst = append(unitFirst, perm[i])
			i += 2
		} else {
			unitFirst = append(unitFirst, perm[i])
			i++
		}
	}
	// groups of units
	j := 0
	for j+1 < len(unitFirst) {
		if rng.Intn(3) == 0 {
			k := 2
			if j+2 < len(unitFirst) && rng.Intn(3) == 0 {
				k = 3
			}
			c.Groups = append(c.Groups, append([]int(nil), unitFirst[j:j+k]...))
			j += k
		} else {
			j++
		}
	}
	// one-of units over units that are in no group (a third of the cases): the initial stops may list several alternatives
	if rng.Intn(3) == 0 {
		inGroup := map[int]bool{}
		for _, g := range c.Groups {
			for _, f := range g {
				inGroup[f] = true
			}
		}
		var free []int
		for _, f := range unitFirst {
			if !inGroup[f] {
				free = append(free, f)
			}
		}
		for k := 0; k+1 < len(free); {
			if rng.Intn(2) == 0 {
				n := 2
				if k+2 < len(free) && rng.Intn(3) == 0 {
					n = 3
				}
				c.OneOfs = append(c.OneOfs, append([]int(nil), free[k:k+n]...))
				k += n
			} else {
				k++
			}
		}
	}
	// initial stops: most of the stops, random order; now and then a stop is left out (a group or a pair listed in part)
	for _, s := range rng.Perm(c.Stops) {
		if rng.Intn(8) != 0 {
			c.L = append(c.L, s)
		}
	}
	for _, s := range c.L {
		if rng.Intn(6) == 0 {
			c.Fixed = append(c.Fixed, s)
		}
	}
	pick := func(p int) []int {
		var out []int
		for s := 0; s < c.Stops; s++ {
			if rng.Intn(p) == 0 {
				out = append(out, s)
			}
		}
		return out
	}
	pairs := func(p int) [][2]int {
		var out [][2]int
		for a := 0; a < c.Stops; a++ {
			for b := 0; b < c.Stops; b++ {
				if a != b && rng.Intn(p) == 0 {
					out = append(out, [2]int{a, b})
				}
			}
		}
		return out
	}
	switch rng.Intn(5) {
	case 0: // estimates only
		for _, u := range unitFirst {
			if rng.Intn(4) == 0 {
				c.Est = append(c.Est, u)
			}
		}
	case 1:
		c.NT = pick(6)
		c.NTAfter = pairs(14)
	case 2:
		c.T = pick(6)
		c.TAfter = pairs(14)
		if rng.Intn(3) == 0 {
			c.TVeh = pick(8)
		}
	default:
		for _, u := range unitFirst {
			if rng.Intn(8) == 0 {
				c.Est = append(c.Est, u)
			}
		}
		c.NT = pick(10)
		c.NTAfter = pairs(24)
		c.T = pick(10)
		c.TAfter = pairs(24)
		if rng.Intn(4) == 0 {
			c.TVeh = pick(10)
		}
	}
	return c
}

func csvPairs(ps [][2]int) string {
	if len(ps) == 0 {
		return "-"
	}
	var out []string
	for _, p := range ps {
		out = append(out, fmt.Sprintf("%d:%d", p[0], p[1]))
	}
	return strings.Join(out, ",")
}

func csvOrDash(xs []int) string {
	if len(xs) == 0 {
		return "-"
	}
	return csvI(xs)
}

func runInit(o *Out, rng *rand.Rand, thorough bool) {
	n := 3000
	if thorough {
		n = 40000
	}
	if replayFile != "" {
		n = 1
	}
	o.Meta.Rule = "a case counts as non-trivial per (has group, has pair, lists a group in part, fixed stops, kinds of script rules, outcome)"
	for ci := 0; ci < n; ci++ {
		crng := o.CaseRng(ci)
		c := genInitCase(crng)
		if replayFile != "" {
			c = initCase{} // a replay is the whole case: nothing of the generated one may shine through fields the file omits
			loadReplayInto(replayFile, &c)
		}
		if !o.BeginCase(ci, c) {
			continue
		}
		o.Meta.Cases++
		runInitCase(o, &c)
	}
}

func runInitCase(o *Out, c *initCase) {
	model, err := nextroute.NewModel()
	must(err)
	vt, err := model.NewVehicleType(
		nextroute.NewTimeIndependentDurationExpression(nextroute.NewConstantDurationExpression("travel", time.Minute)),
		nextroute.NewStopDurationExpression("service", time.Minute))
	must(err)
	loc := func(i int) common.Location {
		l, _ := common.NewLocation(4.0+float64(i)*0.01, 52.0)
		return l
	}
	var stops nextroute.ModelStops
	for i := 0; i < c.Stops; i++ {
		s, e := model.NewStop(loc(i))
		must(e)
		s.SetID(fmt.Sprintf("s%d", i))
		stops = append(stops, s)
	}
	inPair := map[int]bool{}
	unitByFirst := map[int]nextroute.ModelPlanUnit{}
	for _, p := range c.Pairs {
		inPair[p[0]], inPair[p[1]] = true, true
		u, e := model.NewPlanMultipleStops(nextroute.ModelStops{stops[p[0]], stops[p[1]]}, nextroute.NewDirectedAcyclicGraph())
		must(e)
		unitByFirst[p[0]] = u
	}
	for i := 0; i < c.Stops; i++ {
		if !inPair[i] {
			u, e := model.NewPlanSingleStop(stops[i])
			must(e)
			unitByFirst[i] = u
		}
	}
	for _, g := range c.Groups {
		var us nextroute.ModelPlanUnits
		for _, f := range g {
			us = append(us, unitByFirst[f])
		}
		_, e := model.NewPlanAllPlanUnits(true, us...)
		must(e)
	}
	var oneOfRoots []int
	for _, g := range c.OneOfs {
		var us nextroute.ModelPlanUnits
		for _, f := range g {
			us = append(us, unitByFirst[f])
		}
		u, e := model.NewPlanOneOfPlanUnits(us...)
		must(e)
		oneOfRoots = append(oneOfRoots, u.Index())
	}
	first, e := model.NewStop(loc(100))
	must(e)
	last, e := model.NewStop(loc(101))
	must(e)
	ve, e := model.NewVehicle(vt, time.Unix(baseTime, 0).UTC(), first, last)
	must(e)
	ve.SetID("v0")
	fixed := map[int]bool{}
	for _, f := range c.Fixed {
		fixed[f] = true
	}
	for _, s := range c.L {
		must(ve.AddStop(stops[s], fixed[s]))
	}
	asked := 0
	set := func(xs []int) map[int]bool {
		m := map[int]bool{}
		for _, x := range xs {
			m[stops[x].Index()] = true
		}
		return m
	}
	idxPairs := func(ps [][2]int) [][2]int {
		var out [][2]int
		for _, p := range ps {
			out = append(out, [2]int{stops[p[0]].Index(), stops[p[1]].Index()})
		}
		return out
	}
	est := map[int]bool{}
	for _, f := range c.Est {
		if u, ok := unitByFirst[f]; ok {
			est[u.Index()] = true
		}
	}
	nt := &initScript{est: est, at: set(c.NT), after: idxPairs(c.NTAfter), asked: new(int)}
	tt := &initScript{temporal: true, at: set(c.T), after: idxPairs(c.TAfter), veh: set(c.TVeh), asked: &asked}
	must(model.AddConstraint(nt))
	must(model.AddConstraint(initScriptVeh{tt}))

	// the line for the model: stops by model index, units and roots by plan unit index
	var sIdx, fx []int
	var uo, ro []string
	seenU := map[int]bool{}
	for _, s := range stops {
		sIdx = append(sIdx, s.Index())
		u := s.PlanStopsUnit()
		uo = append(uo, fmt.Sprintf("%d:%d", s.Index(), u.Index()))
		if !seenU[u.Index()] {
			seenU[u.Index()] = true
			ro = append(ro, fmt.Sprintf("%d:%d", u.Index(), rootIndex(u)))
		}
	}
	var l []int
	for _, s := range c.L {
		l = append(l, stops[s].Index())
	}
	for _, s := range c.Fixed {
		fx = append(fx, stops[s].Index())
	}
	var estU []int
	for u := range est {
		estU = append(estU, u)
	}
	sort.Ints(estU)
	toIdx := func(xs []int) []int {
		var out []int
		for _, x := range xs {
			out = append(out, stops[x].Index())
		}
		return out
	}
	line := fmt.Sprintf("init %s %s %s %s %s %s %s %s %s %s %s", csvOrDash(l), csvI(sIdx), strings.Join(uo, ","), strings.Join(ro, ","),
		csvOrDash(fx), csvOrDash(estU), csvOrDash(toIdx(c.NT)), csvPairs(idxPairs(c.NTAfter)), csvOrDash(toIdx(c.T)),
		csvPairs(idxPairs(c.TAfter)), csvOrDash(toIdx(c.TVeh)))
	if len(oneOfRoots) > 0 {
		line += " " + csvOrDash(oneOfRoots)
	}

	var sol nextroute.Solution
	var serr error
	panicked := false
	func() {
		defer func() {
			if r := recover(); r != nil {
				panicked = true
				o.Violate(Violation{Property: "C16", Clause: "panic-in-operation", Sig: "C16|panic-in-operation|new-solution(scripted)",
					Detail: fmt.Sprint(r), Replay: c})
			}
		}()
		sol, serr = nextroute.NewSolution(model)
	}()
	if panicked {
		o.Op(line, "init panic")
		return
	}
	partGroup := false
	inL := map[int]bool{}
	for _, s := range c.L {
		inL[s] = true
	}
	for _, g := range c.Groups {
		some, all := false, true
		for _, f := range g {
			if inL[f] {
				some = true
			} else {
				all = false
			}
		}
		if some && !all {
			partGroup = true
		}
	}
	altsListed := 0
	for _, g := range c.OneOfs {
		n := 0
		for _, f := range g {
			if inL[f] {
				n++
			}
		}
		if n > altsListed {
			altsListed = n
		}
	}
	kinds := fmt.Sprintf("oneof-listed=%d ", altsListed) + fmt.Sprintf("group=%v pair=%v part=%v fixed=%v est=%v nt=%v t=%v tveh=%v", len(c.Groups) > 0, len(c.Pairs) > 0, partGroup,
		len(c.Fixed) > 0, len(c.Est) > 0, len(c.NT)+len(c.NTAfter) > 0, len(c.T)+len(c.TAfter) > 0, len(c.TVeh) > 0)
	if serr != nil {
		if p := os.Getenv("VERIF_DEBUG"); p != "" {
			if f, e := os.OpenFile(p, os.O_APPEND|os.O_CREATE|os.O_WRONLY, 0o644); e == nil {
				fmt.Fprintln(f, line, "=>", serr)
				f.Close()
			}
		}
		o.Op(line, "init err")
		o.Count("init:error")
		o.Count("init:error:" + errClass(serr))
		o.Distinct(kinds + " err")
		return
	}
	if asked > 0 {
		o.Violate(Violation{Property: "C19", Clause: "temporal-estimate-asked-for-initial-stops", Sig: "C19|temporal-estimate-asked-for-initial-stops",
			Detail: fmt.Sprintf("the temporal constraint's estimate was asked %d times while the initial stops were attached", asked), Replay: c})
	}
	v := sol.Vehicles()[0]
	route := routeIdx(v)
	onRoute := map[int]bool{}
	for _, s := range route {
		onRoute[s] = true
	}
	var pl, fxd []int
	for _, u := range sol.PlannedPlanUnits().SolutionPlanUnits() {
		pl = append(pl, u.ModelPlanUnit().Index())
	}
	for _, u := range sol.FixedPlanUnits().SolutionPlanUnits() {
		fxd = append(fxd, u.ModelPlanUnit().Index())
	}
	sort.Ints(pl)
	sort.Ints(fxd)
	o.Op(line, fmt.Sprintf("init ok R=%s P=%s F=%s", engRoute(route), csvOrDash(pl), csvOrDash(fxd)))
	o.Count("init:ok")
	o.Count(fmt.Sprintf("init:route-length=%d-of-%d", len(route), len(c.L)))
	o.Distinct(kinds + fmt.Sprintf(" ok kept=%v", len(route) == len(c.L)))
	o.Sample(c)

	viol := func(prop, clause, detail string) {
		o.Violate(Violation{Property: prop, Clause: clause, Sig: prop + "|" + clause + "|new-solution(scripted)", Detail: detail, Replay: c})
	}
	// judged directly on the code's result
	if !booksConsistent(sol) {
		viol("C08", "books-inconsistent", "planned / unplanned / fixed collections do not match the route "+engRoute(route))
	}
	rootStops := map[int][]int{}
	for _, s := range stops {
		r := rootIndex(s.PlanStopsUnit())
		rootStops[r] = append(rootStops[r], s.Index())
	}
	isOneOf := map[int]bool{}
	for _, r := range oneOfRoots {
		isOneOf[r] = true
	}
	for r, ss := range rootStops {
		n := 0
		for _, s := range ss {
			if onRoute[s] {
				n++
			}
		}
		if isOneOf[r] {
			// at most one alternative, and that one whole
			members := map[int][]int{}
			for _, s := range ss {
				for _, ms := range stops {
					if ms.Index() == s {
						members[ms.PlanStopsUnit().Index()] = append(members[ms.PlanStopsUnit().Index()], s)
					}
				}
			}
			planned := 0
			for _, mss := range members {
				k := 0
				for _, s := range mss {
					if onRoute[s] {
						k++
					}
				}
				if k != 0 && k != len(mss) {
					viol("C03", "unit-partly-planned", fmt.Sprintf("an alternative of one-of unit %d has %d of its %d stops on the route %s", r, k, len(mss), engRoute(route)))
				}
				if k > 0 {
					planned++
				}
			}
			if planned > 1 {
				viol("C03", "more-than-one-alternate", fmt.Sprintf("%d alternatives of one-of unit %d are on the route %s", planned, r, engRoute(route)))
			}
			continue
		}
		if n != 0 && n != len(ss) {
			viol("C03", "group-partly-planned", fmt.Sprintf("unit %d has %d of its %d stops on the route %s", r, n, len(ss), engRoute(route)))
		}
	}
	for _, f := range c.Fixed {
		if !onRoute[stops[f].Index()] {
			viol("C03", "fixed-stop-moved", fmt.Sprintf("fixed initial stop %d is not on the route %s", stops[f].Index(), engRoute(route)))
		}
	}
	pos := map[int]int{}
	for i, s := range l {
		pos[s] = i
	}
	for i := 1; i < len(route); i++ {
		if pos[route[i-1]] > pos[route[i]] {
			viol("C03", "initial-order-changed", fmt.Sprintf("route %s does not keep the order of the initial stops %v", engRoute(route), l))
			break
		}
	}
	for _, st := range v.SolutionStops() {
		if nt.DoesStopHaveViolations(st) || tt.DoesStopHaveViolations(st) {
			viol("C19", "user-constraint-violated", fmt.Sprintf("scripted at-each-stop check violated at stop %d on the route %s", st.ModelStop().Index(), engRoute(route)))
			break
		}
	}
	if (initScriptVeh{tt}).DoesVehicleHaveViolations(v) {
		viol("C19", "user-constraint-violated", "scripted at-each-vehicle check violated on the route "+engRoute(route))
	}
}

// errClass: the first words of an error (input-independent part), for the distribution in the evidence.
func errClass(e error) string {
	w := strings.Fields(e.Error())
	if len(w) > 6 {
		w = w[:6]
	}
	return strings.Join(w, " ")
}
