package main

// Array-level correspondence (NR.Links): the solution's next / previous / in-vehicle arrays before and after
// an Execute of a stops move (accepted: the stops are attached; rejected: attached, then detached again) and
// an un-plan of a stops unit (accepted: detached; rejected: detached, then re-attached by the inverse move),
// against the transcription of attach / detach in NR.Links.

import (
	"fmt"
	"strconv"
	"strings"

	"github.com/nextmv-io/nextroute"
)

type linksSnap struct {
	next, prev, inVeh []int
}

func linksOf(sol nextroute.Solution) linksSnap {
	type row struct{ n, p, v int }
	rows := map[int]row{}
	max := -1
	add := func(st nextroute.SolutionStop) {
		v := -1
		if st.IsPlanned() {
			v = st.VehicleIndex()
		}
		rows[st.Index()] = row{st.NextIndex(), st.PreviousIndex(), v}
		if st.Index() > max {
			max = st.Index()
		}
	}
	for _, v := range sol.Vehicles() {
		add(v.First())
		add(v.Last())
	}
	for _, u := range sol.Model().PlanStopsUnits() {
		for _, st := range sol.SolutionPlanStopsUnit(u).SolutionStops() {
			add(st)
		}
	}
	s := linksSnap{}
	for i := 0; i <= max; i++ {
		r, ok := rows[i]
		if !ok {
			r = row{i, i, -1}
		}
		s.next, s.prev, s.inVeh = append(s.next, r.n), append(s.prev, r.p), append(s.inVeh, r.v)
	}
	return s
}

func (s linksSnap) String() string {
	j := func(l []int) string {
		var p []string
		for _, x := range l {
			p = append(p, strconv.Itoa(x))
		}
		return strings.Join(p, ",")
	}
	return j(s.next) + " " + j(s.prev) + " " + j(s.inVeh)
}

type linksOp struct {
	pre   linksSnap
	poss  string // prev:stop:next,…
	stops string // stop,…
}

// linksBeforeExecute: nil unless the move is a plain stops move with valid positions.
func linksBeforeExecute(sol nextroute.Solution, mv nextroute.SolutionMove) *linksOp {
	m, ok := mv.(nextroute.SolutionMoveStops)
	if !ok || !mv.IsExecutable() || len(m.StopPositions()) == 0 {
		return nil
	}
	var poss, stops []string
	for _, sp := range m.StopPositions() {
		if sp.Stop().IsPlanned() {
			return nil // a stale move for a unit that was planned since: Execute errors before attaching anything
		}
		poss = append(poss, fmt.Sprintf("%d:%d:%d", sp.Previous().Index(), sp.Stop().Index(), sp.Next().Index()))
		stops = append(stops, strconv.Itoa(sp.Stop().Index()))
	}
	return &linksOp{pre: linksOf(sol), poss: strings.Join(poss, ","), stops: strings.Join(stops, ",")}
}

func (l *linksOp) afterExecute(o *Out, sol nextroute.Solution, ok bool) {
	if l == nil {
		return
	}
	op := "attach"
	if !ok {
		op = "rollback"
	}
	o.Op(fmt.Sprintf("links %s %s %s %s", op, l.pre, l.poss, l.stops), "links "+linksOf(sol).String())
	o.Count("links-correspondence:" + op)
}

func linksBeforeUnplan(sol nextroute.Solution, u nextroute.SolutionPlanUnit) *linksOp {
	su, ok := u.(nextroute.SolutionPlanStopsUnit)
	if !ok || !su.IsPlanned() {
		return nil
	}
	var poss, stops []string
	for _, st := range su.SolutionStops() {
		poss = append(poss, fmt.Sprintf("%d:%d:%d", st.PreviousIndex(), st.Index(), st.NextIndex()))
		stops = append(stops, strconv.Itoa(st.Index()))
	}
	return &linksOp{pre: linksOf(sol), poss: strings.Join(poss, ","), stops: strings.Join(stops, ",")}
}

func (l *linksOp) afterUnplan(o *Out, sol nextroute.Solution, ok bool) {
	if l == nil {
		return
	}
	op := "detach"
	if !ok {
		op = "reattach"
	}
	o.Op(fmt.Sprintf("links %s %s %s %s", op, l.pre, l.poss, l.stops), "links "+linksOf(sol).String())
	o.Count("links-correspondence:" + op)
}
