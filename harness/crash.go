package main

// Stream `crash` (C16): no input can crash the library.
//   valid      generated cases, every feature mix (the `gen` generator), solved for a few hundred iterations;
//   malformed  the JSON of a generated case after random structural mutations (fields dropped, nulled,
//              retyped, ids duplicated or dangling, windows reversed, cycles, negative numbers, …);
//   api        models assembled through the public Go API from the same building blocks: several
//              vehicles sharing one vehicle type, limits on a subset of vehicle types, plain contexts.
// Outcome per case: ok | rejected (an error value) | panic | engine-error. A panic or an engine error
// delivered by a model that was built is a violation; a panic inside a goroutine of the library
// kills the child process and is attributed to the case by the parent.

import (
	"sort"
	"context"
	"encoding/json"
	"fmt"
	"math/rand"
	"strings"
	"time"

	"github.com/nextmv-io/nextroute"
	"github.com/nextmv-io/nextroute/common"
	"github.com/nextmv-io/nextroute/factory"
	"github.com/nextmv-io/nextroute/schema"
)

func init() { streams["crash"] = runCrash }

type crashCase struct {
	Kind      string         `json:"kind"`
	JSON      map[string]any `json:"json,omitempty"`
	Mutations []string       `json:"mutations,omitempty"`
	Opt       COptions       `json:"opt"`
	API       *apiCase       `json:"api,omitempty"`
	Ctx       string         `json:"ctx"` // plain | runstart | deadline | cancelled
	Iters     int            `json:"iters"`
	Runs      int            `json:"runs"`
}

type apiCase struct {
	Stops        int   `json:"stops"`
	Vehicles     int   `json:"vehicles"`
	VehicleTypes int   `json:"vehicle_types"` // vehicles are assigned round-robin
	Objectives   []string `json:"objectives"`
	Constraints  []string `json:"constraints"`
	LimitOnTypes []int `json:"limit_on_types"`
	Solver       string `json:"solver"` // parallel | single
	// single solver: where the un-plan / plan operators' unit counts start (0: the defaults) — counts well above the
	// number of units that can be planned at all
	UnplanStart int `json:"unplan_start,omitempty"`
	PlanStart   int `json:"plan_start,omitempty"`
	// LateTypes: vehicle types (with one vehicle each) created AFTER the per-vehicle-type values of the constraints and
	// objectives were written — the tables behind those values were sized by the types that existed then
	LateTypes int `json:"late_types,omitempty"`
}

func pick(rng *rand.Rand, xs []string) string { return xs[rng.Intn(len(xs))] }

// mutate applies one random structural mutation to a decoded JSON document.
func mutate(rng *rand.Rand, doc map[string]any) string {
	arr := func(k string) []any {
		a, _ := doc[k].([]any)
		return a
	}
	stops, vehicles := arr("stops"), arr("vehicles")
	anyStop := func() map[string]any {
		if len(stops) == 0 {
			return nil
		}
		m, _ := stops[rng.Intn(len(stops))].(map[string]any)
		return m
	}
	anyVeh := func() map[string]any {
		if len(vehicles) == 0 {
			return nil
		}
		m, _ := vehicles[rng.Intn(len(vehicles))].(map[string]any)
		return m
	}
	switch rng.Intn(36) {
	case 30, 31, 32:
		// JSON null at a random place of the document (object member or array element, at any depth)
		type slot struct {
			m map[string]any
			k string
			a []any
			i int
			p string
		}
		var slots []slot
		var walk func(x any, path string, depth int)
		walk = func(x any, path string, depth int) {
			if depth > 4 {
				return
			}
			switch v := x.(type) {
			case map[string]any:
				for _, k := range sortedKeysAny(v) {
					slots = append(slots, slot{m: v, k: k, p: path + "." + k})
					walk(v[k], path+"."+k, depth+1)
				}
			case []any:
				for i := range v {
					if i < 3 { // the first elements stand for all (matrices are large)
						slots = append(slots, slot{a: v, i: i, p: path + "[]"})
						walk(v[i], path+"[]", depth+1)
					}
				}
			}
		}
		walk(doc, "", 0)
		if len(slots) == 0 {
			return "none"
		}
		sl := slots[rng.Intn(len(slots))]
		if sl.m != nil {
			sl.m[sl.k] = nil
		} else {
			sl.a[sl.i] = nil
		}
		return "null-at" + stripIDs(sl.p)
	case 33, 34, 35:
		// null as a VALUE inside a quantity / capacity map (or the scalar itself turned into such a map)
		if rng.Intn(2) == 0 {
			if s := anyStop(); s != nil {
				if qm, ok := s["quantity"].(map[string]any); ok && len(qm) > 0 {
					qm[sortedKeysAny(qm)[rng.Intn(len(qm))]] = nil
				} else {
					s["quantity"] = map[string]any{"a": nil}
				}
				return "null-in-quantity-map"
			}
		}
		if v := anyVeh(); v != nil {
			if cm, ok := v["capacity"].(map[string]any); ok && len(cm) > 0 {
				cm[sortedKeysAny(cm)[rng.Intn(len(cm))]] = nil
			} else {
				v["capacity"] = map[string]any{"a": nil}
			}
			return "null-in-capacity-map"
		}
		return "none"
	case 28, 29:
		// an item without a name (the empty string is the stop data's "nothing on board": E32)
		for _, st := range stops {
			sm, _ := st.(map[string]any)
			if sm == nil {
				continue
			}
			if mi, ok := sm["mixing_items"].(map[string]any); ok {
				for _, it := range mi {
					if im, ok := it.(map[string]any); ok {
						im["name"] = ""
					}
				}
				// the partner stops of the unit carry the same name
				for _, st2 := range stops {
					if sm2, _ := st2.(map[string]any); sm2 != nil {
						if mi2, ok := sm2["mixing_items"].(map[string]any); ok {
							for _, it := range mi2 {
								if im, ok := it.(map[string]any); ok {
									im["name"] = ""
								}
							}
						}
					}
				}
				return "mix-empty-name"
			}
		}
		return "none"
	case 24, 25, 26, 27:
		// the list form of duration_matrix: one (time-dependent) matrix per group of vehicle ids — as documented, then
		// with a stale id, an uncovered vehicle, an id listed twice, or ids that merely match in number
		dm, ok := doc["duration_matrix"]
		if !ok || len(vehicles) == 0 {
			return "none"
		}
		tmpl := map[string]any{}
		switch x := dm.(type) {
		case []any:
			tmpl["default_matrix"] = x
		case map[string]any:
			for k, v := range x {
				if k != "vehicle_ids" {
					tmpl[k] = v
				}
			}
		default:
			return "none"
		}
		var list []any
		for _, v := range vehicles {
			vm, _ := v.(map[string]any)
			if vm == nil {
				return "none"
			}
			e := map[string]any{"vehicle_ids": []any{vm["id"]}}
			for k, val := range tmpl {
				e[k] = val
			}
			list = append(list, e)
			if rng.Intn(2) == 0 {
				delete(vm, "speed") // allowed when a duration matrix is given
			}
		}
		kind := "multi-matrix"
		k := rng.Intn(len(list))
		switch rng.Intn(5) {
		case 0:
			list[k].(map[string]any)["vehicle_ids"] = []any{"ghost-vehicle"}
			kind += "-stale-id"
		case 1:
			list = append(list[:k], list[k+1:]...)
			kind += "-uncovered-vehicle"
		case 2:
			if len(list) >= 2 {
				list[k].(map[string]any)["vehicle_ids"] = list[(k+1)%len(list)].(map[string]any)["vehicle_ids"]
				kind += "-id-twice"
			}
		case 3:
			list[k].(map[string]any)["vehicle_ids"] = []any{}
			kind += "-no-ids"
		}
		doc["duration_matrix"] = list
		return kind
	case 0:
		delete(doc, pick(rng, []string{"duration_matrix", "distance_matrix", "vehicles", "stops", "stop_groups", "duration_groups", "alternate_stops"}))
		return "drop-top-level"
	case 1:
		if s := anyStop(); s != nil {
			k := pick(rng, []string{"id", "location", "quantity", "start_time_window", "precedes", "duration", "mixing_items"})
			delete(s, k)
			return "drop-stop-" + k
		}
	case 2:
		if v := anyVeh(); v != nil {
			k := pick(rng, []string{"id", "capacity", "start_time", "end_time", "speed", "start_location", "alternate_stops", "initial_stops"})
			delete(v, k)
			return "drop-vehicle-" + k
		}
	case 3:
		if s := anyStop(); s != nil {
			s["quantity"] = pick(rng, []string{"x", "", "NaN"})
			return "stop-quantity-string"
		}
	case 4:
		if s := anyStop(); s != nil {
			s["precedes"] = pick(rng, []string{"nope", "s999"})
			return "precedes-dangling"
		}
	case 5:
		if len(stops) >= 2 {
			a, _ := stops[0].(map[string]any)
			b, _ := stops[1].(map[string]any)
			if a != nil && b != nil {
				a["precedes"] = b["id"]
				b["precedes"] = a["id"]
				return "precedence-cycle"
			}
		}
	case 6:
		if s := anyStop(); s != nil {
			s["precedes"] = s["id"]
			return "precedes-self"
		}
	case 7:
		if len(stops) >= 2 {
			a, _ := stops[0].(map[string]any)
			b, _ := stops[1].(map[string]any)
			if a != nil && b != nil {
				b["id"] = a["id"]
				return "duplicate-stop-id"
			}
		}
	case 8:
		if len(vehicles) >= 2 {
			a, _ := vehicles[0].(map[string]any)
			b, _ := vehicles[1].(map[string]any)
			if a != nil && b != nil {
				b["id"] = a["id"]
				return "duplicate-vehicle-id"
			}
		}
	case 9:
		if s := anyStop(); s != nil {
			s["start_time_window"] = []any{tstr(baseTime + 3600), tstr(baseTime)}
			return "window-reversed"
		}
	case 10:
		if s := anyStop(); s != nil {
			s["start_time_window"] = []any{[]any{tstr(baseTime), tstr(baseTime + 3600)}, []any{tstr(baseTime + 1800), tstr(baseTime + 7200)}}
			return "windows-overlap"
		}
	case 11:
		if s := anyStop(); s != nil {
			s["start_time_window"] = []any{tstr(baseTime + 17), tstr(baseTime + 3611)}
			return "window-not-on-minute"
		}
	case 12:
		if s := anyStop(); s != nil {
			s["duration"] = -60
			return "negative-duration"
		}
	case 13:
		if v := anyVeh(); v != nil {
			v["capacity"] = pick(rng, []string{"a"})
			return "capacity-string"
		}
	case 14:
		if v := anyVeh(); v != nil {
			v["initial_stops"] = []any{map[string]any{"id": "ghost"}}
			return "initial-stop-unknown"
		}
	case 15:
		if v := anyVeh(); v != nil && len(stops) > 0 {
			s0, _ := stops[0].(map[string]any)
			if s0 != nil {
				v["initial_stops"] = []any{map[string]any{"id": s0["id"], "fixed": true}, map[string]any{"id": s0["id"]}}
				return "initial-stop-twice"
			}
		}
	case 16:
		if len(vehicles) >= 2 && len(stops) > 0 {
			s0, _ := stops[0].(map[string]any)
			a, _ := vehicles[0].(map[string]any)
			b, _ := vehicles[1].(map[string]any)
			if s0 != nil && a != nil && b != nil {
				a["initial_stops"] = []any{map[string]any{"id": s0["id"]}}
				b["initial_stops"] = []any{map[string]any{"id": s0["id"]}}
				return "initial-stop-on-two-vehicles"
			}
		}
	case 17:
		if len(stops) >= 2 {
			ids := []any{}
			for _, s := range stops[:2] {
				if m, ok := s.(map[string]any); ok {
					ids = append(ids, m["id"])
				}
			}
			doc["stop_groups"] = []any{ids, ids}
			return "stop-in-two-groups"
		}
	case 18:
		doc["stop_groups"] = []any{[]any{"ghost", "s0"}}
		return "group-with-unknown-stop"
	case 19:
		if len(stops) >= 2 {
			a, _ := stops[0].(map[string]any)
			if a != nil {
				doc["duration_groups"] = []any{map[string]any{"group": []any{a["id"], a["id"]}, "duration": 60}, map[string]any{"group": []any{a["id"]}, "duration": 30}}
				return "stop-in-two-duration-groups"
			}
		}
	case 20:
		if v := anyVeh(); v != nil {
			v["alternate_stops"] = []any{"ghost"}
			return "alternate-unknown"
		}
	case 21:
		if s := anyStop(); s != nil {
			s["mixing_items"] = map[string]any{"main": map[string]any{"name": "A", "quantity": 2}}
			return "mix-unbalanced"
		}
	case 22:
		if v := anyVeh(); v != nil {
			v["max_stops"] = 0
			v["max_distance"] = 0
			v["max_duration"] = 0
			return "zero-limits"
		}
	case 23:
		doc["stops"] = []any{}
		return "no-stops"
	}
	return "none"
}

func sortedKeysAny(m map[string]any) []string {
	ks := make([]string, 0, len(m))
	for k := range m {
		ks = append(ks, k)
	}
	sort.Strings(ks)
	return ks
}

// stripIDs keeps the shape of a JSON path and drops what varies between cases (resource names and the like stay: they
// come from a small fixed vocabulary).
func stripIDs(p string) string {
	if len(p) > 60 {
		p = p[:60]
	}
	return p
}

func ctxFor(kind string) (context.Context, context.CancelFunc) {
	switch kind {
	case "plain":
		return context.WithCancel(context.Background())
	case "deadline":
		return context.WithTimeout(context.Background(), 150*time.Millisecond)
	case "cancelled":
		ctx, cancel := context.WithCancel(context.Background())
		go func() { time.Sleep(30 * time.Millisecond); cancel() }()
		return ctx, cancel
	}
	return solveCtx(30 * time.Second)
}

func runCrash(o *Out, _ *rand.Rand, thorough bool) {
	o.Meta.Rule = "a case = valid generated input | mutated (malformed) JSON | model assembled through the Go API; " +
		"outcome = ok | rejected | panic | engine-error; non-trivial = a case that was built and solved, or a mutation " +
		"that reached model building; distinct by (kind, mutation or API shape, outcome)"
	ncases := 400
	if thorough {
		ncases = 5000
	}
	seen := map[string]bool{}
	for ci := 0; ci < ncases; ci++ {
		rng := o.CaseRng(ci)
		cc := &crashCase{Ctx: pick(rng, []string{"runstart", "runstart", "plain", "deadline", "cancelled"}),
			Iters: []int{0, 1, 50, 200}[rng.Intn(4)], Runs: []int{1, 1, 2, 3}[rng.Intn(4)]}
		switch {
		case ci%5 == 3:
			cc.Kind = "api"
			cc.API = genAPICase(rng)
		case ci%5 == 1 || ci%5 == 4:
			cc.Kind = "malformed"
		default:
			cc.Kind = "valid"
		}
		if cc.Kind != "api" {
			c := genCase(rng, fullProfile(2+rng.Intn(8), 1+rng.Intn(3)))
			cc.Opt = c.Opt
			b, _ := json.Marshal(c.toJSON())
			var doc map[string]any
			must(json.Unmarshal(b, &doc))
			if cc.Kind == "malformed" {
				for k := 0; k < 1+rng.Intn(2); k++ {
					cc.Mutations = append(cc.Mutations, mutate(rng, doc))
				}
			}
			cc.JSON = doc
		}
		if replayFile != "" {
			cc = loadReplayCrash(replayFile)
			ncases = 1
		}
		if !o.BeginCase(ci, cc) {
			continue
		}
		o.Meta.Cases++
		outcome, detail := runCrashCase(cc)
		shape := cc.Kind
		if len(cc.Mutations) > 0 {
			shape += ":" + strings.Join(cc.Mutations, "+")
		}
		if cc.API != nil {
			shape += fmt.Sprintf(":v%d/t%d:%s", cc.API.Vehicles, cc.API.VehicleTypes, cc.API.Solver)
		}
		o.Count("outcome:" + cc.Kind + ":" + outcome)
		key := shape + "|" + outcome
		if !seen[key] {
			seen[key] = true
			o.Distinct("shape-outcome")
		}
		o.Op(fmt.Sprintf("crash %d", ci), "crash")
		frontIDs(o, cc, outcome, detail)
		if outcome == "panic" || outcome == "engine-error" {
			o.Violate(Violation{Property: "C16", Clause: outcome, Sig: "C16|" + outcome + "|" + cc.Kind + "|" + sigDetail(detail),
				Detail: shape + ": " + detail, Replay: cc})
		}
		o.Sample(map[string]any{"kind": cc.Kind, "mutations": cc.Mutations, "api": cc.API, "ctx": cc.Ctx, "outcome": outcome})
		if replayFile != "" {
			break
		}
	}
}

func sigDetail(d string) string {
	d = strings.ReplaceAll(d, " ", "_")
	for _, k := range []string{"index_out_of_range", "nil_pointer", "interface_conversion", "undoing", "unplanning", "failed_undoing", "divide"} {
		if strings.Contains(d, k) {
			return k
		}
	}
	if len(d) > 40 {
		d = d[:40]
	}
	return d
}

func solveDur(cc *crashCase) time.Duration {
	if cc.Iters == 0 {
		return 120 * time.Millisecond // nobody iterates: the channel closes at the deadline
	}
	return 3 * time.Second
}

func runCrashCase(cc *crashCase) (outcome, detail string) {
	defer func() {
		if r := recover(); r != nil {
			outcome, detail = "panic", fmt.Sprint(r)
		}
	}()
	var model nextroute.Model
	var err error
	if cc.API != nil {
		model, err = buildAPIModel(cc.API)
	} else {
		b, _ := json.Marshal(cc.JSON)
		var in schema.Input
		if e := json.Unmarshal(b, &in); e != nil {
			return "rejected", "decode: " + e.Error()
		}
		c := &Case{Opt: cc.Opt}
		model, err = factory.NewModel(in, c.options())
	}
	if err != nil {
		return "rejected", err.Error()
	}
	ctx, cancel := ctxFor(cc.Ctx)
	defer cancel()
	if cc.API != nil && cc.API.Solver == "single" {
		sol, e := nextroute.NewSolution(model)
		if e != nil {
			return "rejected", e.Error()
		}
		opts := singleSolverOptions()
		if cc.API.UnplanStart > 0 {
			opts.Unplan = nextroute.IntParameterOptions{StartValue: cc.API.UnplanStart, DeltaAfterIterations: 7, Delta: 1, MinValue: 1, MaxValue: 9,
				SnapBackAfterImprovement: true, Zigzag: true}
			opts.Plan = nextroute.IntParameterOptions{StartValue: cc.API.PlanStart, DeltaAfterIterations: 11, Delta: 1, MinValue: 1, MaxValue: 7,
				SnapBackAfterImprovement: true, Zigzag: true}
		}
		solver, e := nextroute.NewSolver(model, opts)
		if e != nil {
			return "rejected", e.Error()
		}
		ch, e := solver.Solve(ctx, nextroute.SolveOptions{Iterations: cc.Iters, Duration: solveDur(cc)}, sol)
		if e != nil {
			return "rejected", e.Error()
		}
		for s := range ch {
			if s.Error != nil {
				return "engine-error", s.Error.Error()
			}
		}
		return "ok", ""
	}
	if _, e := nextroute.NewSolution(model); e != nil {
		return "rejected", e.Error()
	}
	solver, e := nextroute.NewParallelSolver(model)
	if e != nil {
		return "rejected", e.Error()
	}
	ch, e := solver.Solve(ctx, nextroute.ParallelSolveOptions{Iterations: cc.Iters, Duration: solveDur(cc),
		ParallelRuns: cc.Runs, StartSolutions: cc.Runs - 1, RunDeterministically: cc.Runs == 1})
	if e != nil {
		return "rejected", e.Error()
	}
	for s := range ch {
		if s.Error != nil {
			return "engine-error", s.Error.Error()
		}
	}
	return "ok", ""
}

func defaultSingleSolver(model nextroute.Model) (nextroute.Solver, error) {
	return nextroute.NewSolver(model, singleSolverOptions())
}

func singleSolverOptions() nextroute.SolverOptions {
	return nextroute.SolverOptions{
		Unplan:  nextroute.IntParameterOptions{StartValue: 2, DeltaAfterIterations: 125, Delta: 2, MinValue: 2, MaxValue: 2, SnapBackAfterImprovement: true, Zigzag: true},
		Plan:    nextroute.IntParameterOptions{StartValue: 2, DeltaAfterIterations: 1000000000, Delta: 0, MinValue: 2, MaxValue: 2, SnapBackAfterImprovement: true, Zigzag: true},
		Restart: nextroute.IntParameterOptions{StartValue: 150, DeltaAfterIterations: 1000000000, Delta: 0, MinValue: 150, MaxValue: 150, SnapBackAfterImprovement: true, Zigzag: true},
	}
}

func genAPICase(rng *rand.Rand) *apiCase {
	a := &apiCase{Stops: 2 + rng.Intn(6), Vehicles: 1 + rng.Intn(4)}
	a.VehicleTypes = 1 + rng.Intn(a.Vehicles)
	for _, ob := range []string{"vehicles_duration", "travel_duration", "unplanned", "vehicles", "min_stops", "balance"} {
		if rng.Intn(2) == 0 {
			a.Objectives = append(a.Objectives, ob)
		}
	}
	if len(a.Objectives) == 0 {
		a.Objectives = []string{"vehicles_duration"}
	}
	for _, co := range []string{"capacity", "max_stops", "max_duration", "max_wait_vehicle", "attributes", "distance"} {
		if rng.Intn(2) == 0 {
			a.Constraints = append(a.Constraints, co)
		}
	}
	for t := 0; t < a.VehicleTypes; t++ {
		if rng.Intn(2) == 0 {
			a.LimitOnTypes = append(a.LimitOnTypes, t)
		}
	}
	if rng.Intn(3) == 0 {
		a.LateTypes = 1 + rng.Intn(2)
	}
	a.Solver = pick(rng, []string{"parallel", "single", "single"})
	if a.Solver == "single" && rng.Intn(3) != 0 {
		a.UnplanStart = 1 + rng.Intn(8)
		a.PlanStart = 1 + rng.Intn(6)
	}
	return a
}

func has(xs []string, x string) bool {
	for _, y := range xs {
		if x == y {
			return true
		}
	}
	return false
}

func hasI(xs []int, x int) bool {
	for _, y := range xs {
		if x == y {
			return true
		}
	}
	return false
}

// buildAPIModel assembles a model through the public API: vehicle types shared by several vehicles,
// limits set only on some vehicle types.
func buildAPIModel(a *apiCase) (nextroute.Model, error) {
	model, err := nextroute.NewModel()
	if err != nil {
		return nil, err
	}
	travel := nextroute.NewConstantDurationExpression("travel", 5*time.Minute)
	service := nextroute.NewStopDurationExpression("service", 2*time.Minute)
	var types []nextroute.ModelVehicleType
	for t := 0; t < a.VehicleTypes; t++ {
		vt, err := model.NewVehicleType(nextroute.NewTimeIndependentDurationExpression(travel), service)
		if err != nil {
			return nil, err
		}
		types = append(types, vt)
	}
	loc := func(i int) common.Location {
		l, _ := common.NewLocation(4.0+float64(i)*0.01, 52.0)
		return l
	}
	var stops nextroute.ModelStops
	for i := 0; i < a.Stops; i++ {
		s, err := model.NewStop(loc(i))
		if err != nil {
			return nil, err
		}
		s.SetID(fmt.Sprintf("s%d", i))
		stops = append(stops, s)
		if _, err := model.NewPlanSingleStop(s); err != nil {
			return nil, err
		}
	}
	start := time.Unix(baseTime, 0).UTC()
	for v := 0; v < a.Vehicles; v++ {
		first, err := model.NewStop(loc(100 + v))
		if err != nil {
			return nil, err
		}
		last, err := model.NewStop(loc(200 + v))
		if err != nil {
			return nil, err
		}
		ve, err := model.NewVehicle(types[v%a.VehicleTypes], start, first, last)
		if err != nil {
			return nil, err
		}
		ve.SetID(fmt.Sprintf("v%d", v))
	}
	perType := func(name string, dflt float64, val float64) nextroute.VehicleTypeValueExpression {
		e := nextroute.NewVehicleTypeValueExpression(name, dflt)
		for _, t := range a.LimitOnTypes {
			_ = e.SetValue(types[t], val)
		}
		return e
	}
	if has(a.Constraints, "capacity") {
		q := nextroute.NewStopExpression("q", 1)
		m, err := nextroute.NewMaximum(q, perType("cap", 1000, 3))
		if err != nil {
			return nil, err
		}
		if err := model.AddConstraint(m); err != nil {
			return nil, err
		}
	}
	if has(a.Constraints, "max_stops") {
		c, err := nextroute.NewMaximumStopsConstraint(perType("maxstops", 1e9, 2))
		if err != nil {
			return nil, err
		}
		if err := model.AddConstraint(c); err != nil {
			return nil, err
		}
	}
	if has(a.Constraints, "max_duration") {
		e := nextroute.NewVehicleTypeDurationExpression("maxdur", 100*time.Hour)
		for _, t := range a.LimitOnTypes {
			e.SetDuration(types[t], 40*time.Minute)
		}
		c, err := nextroute.NewMaximumDurationConstraint(e)
		if err != nil {
			return nil, err
		}
		if err := model.AddConstraint(c); err != nil {
			return nil, err
		}
	}
	if has(a.Constraints, "max_wait_vehicle") {
		e := nextroute.NewVehicleTypeDurationExpression("maxwait", 100*time.Hour)
		for _, t := range a.LimitOnTypes {
			e.SetDuration(types[t], 10*time.Minute)
		}
		c, err := nextroute.NewMaximumWaitVehicleConstraint(e)
		if err != nil {
			return nil, err
		}
		if err := model.AddConstraint(c); err != nil {
			return nil, err
		}
	}
	if has(a.Constraints, "attributes") {
		c, err := nextroute.NewAttributesConstraint()
		if err != nil {
			return nil, err
		}
		for _, t := range a.LimitOnTypes {
			_ = c.SetVehicleTypeAttributes(types[t], []string{"a"})
		}
		_ = c.SetStopAttributes(stops[0], []string{"a"})
		if err := model.AddConstraint(c); err != nil {
			return nil, err
		}
	}
	if has(a.Constraints, "distance") {
		composed := nextroute.NewComposedPerVehicleTypeExpression(nextroute.NewConstantExpression("zero", 0))
		limit := nextroute.NewVehicleTypeDistanceExpression("limit", common.NewDistance(1e12, common.Meters))
		for _, t := range a.LimitOnTypes {
			composed.Set(types[t], nextroute.NewHaversineExpression())
			_ = limit.SetDistance(types[t], common.NewDistance(5000, common.Meters))
		}
		m, err := nextroute.NewMaximum(composed, limit)
		if err != nil {
			return nil, err
		}
		if err := model.AddConstraint(m); err != nil {
			return nil, err
		}
	}
	for _, ob := range a.Objectives {
		var o nextroute.ModelObjective
		switch ob {
		case "vehicles_duration":
			o = nextroute.NewVehiclesDurationObjective()
		case "travel_duration":
			o = nextroute.NewTravelDurationObjective()
		case "unplanned":
			o = nextroute.NewUnPlannedObjective(nextroute.NewStopExpression("pen", 100000))
		case "vehicles":
			o = nextroute.NewVehiclesObjective(perType("act", 0, 500))
		case "min_stops":
			o = nextroute.NewMinStopsObjective(perType("min", 0, 2), perType("minpen", 0, 100))
		case "balance":
			o = nextroute.NewStopBalanceObjective()
		}
		if _, err := model.Objective().NewTerm(1.0, o); err != nil {
			return nil, err
		}
	}
	for k := 0; k < a.LateTypes; k++ {
		vt, err := model.NewVehicleType(nextroute.NewTimeIndependentDurationExpression(travel), service)
		if err != nil {
			return nil, err
		}
		first, err := model.NewStop(loc(300 + k))
		if err != nil {
			return nil, err
		}
		last, err := model.NewStop(loc(400 + k))
		if err != nil {
			return nil, err
		}
		ve, err := model.NewVehicle(vt, start, first, last)
		if err != nil {
			return nil, err
		}
		ve.SetID(fmt.Sprintf("late%d", k))
	}
	return model, nil
}

func loadReplayCrash(path string) *crashCase {
	cc := &crashCase{}
	loadReplayInto(path, cc)
	return cc
}

// frontIDs: for an input whose duration_matrix is the list form, the vehicle ids and the ids each matrix names, with
// what the code decided about them — accepted (the model was built) or rejected with one of the four id messages of
// validateTimeDependentMatricesAndIDs; any other outcome says nothing about the ids and writes no line (NR.Front.validateIds).
func frontIDs(o *Out, cc *crashCase, outcome, detail string) {
	if cc.JSON == nil {
		return
	}
	list, ok := cc.JSON["duration_matrix"].([]any)
	if !ok || len(list) == 0 {
		return
	}
	var mats []string
	for _, e := range list {
		m, ok := e.(map[string]any)
		if !ok {
			return // a plain matrix (rows), not the list form
		}
		ids, _ := m["vehicle_ids"].([]any)
		var xs []string
		for _, id := range ids {
			s, ok := id.(string)
			if !ok || s == "" || strings.ContainsAny(s, " ,.|") {
				return
			}
			xs = append(xs, s)
		}
		if len(xs) == 0 {
			mats = append(mats, "-")
		} else {
			mats = append(mats, strings.Join(xs, "."))
		}
	}
	vehicles, _ := cc.JSON["vehicles"].([]any)
	var vs []string
	for _, v := range vehicles {
		vm, _ := v.(map[string]any)
		id, _ := vm["id"].(string)
		if id == "" || strings.ContainsAny(id, " ,.|") {
			return
		}
		vs = append(vs, id)
	}
	if len(vs) == 0 {
		return
	}
	verdict := ""
	switch {
	case outcome == "ok":
		verdict = "accept"
	case outcome == "rejected" && (strings.Contains(detail, "vehicle ids are not set for duration matrix") ||
		strings.Contains(detail, "duplicate vehicle id in duration matrices") ||
		strings.Contains(detail, "is not defined in duration matrices") ||
		strings.Contains(detail, "vehicle ids in duration matrices do not match")):
		verdict = "reject"
	default:
		o.Count("front-ids:undecided")
		return
	}
	o.Op("front ids "+strings.Join(vs, ",")+" "+strings.Join(mats, "|"), "front ids "+verdict)
	o.Count("front-ids:" + verdict)
}
