package main

// `eng` lines (C01, C02, C04, C07): every plain Execute / un-plan / vehicle un-plan of a history is replayed by the
// CONCRETE engine model (NR.Sched over NR.Engine.applyOp — propagate from the change point with early exit, roll back
// on a violation). Before the operation the routes are handed over (`eng set`, the model builds its state by a full
// propagation and must find every exact check satisfied); after it, the operation (vehicle, length of the kept prefix,
// new suffix), the code's result and the code's cached values of every stop of that vehicle (arrival, start, end,
// cumulative travel, position, cumulative value per capacity expression, cumulative distance) are compared with the
// model's. Only in histories without user constraints (the model knows the built-in exact checks only).

import (
	"fmt"
	"strconv"
	"strings"

	"github.com/nextmv-io/nextroute"
)

type engCtx struct {
	exprs []nextroute.ModelExpression // per resource (order of the instance), nil when no capacity constraint is registered
	live  []int
	dist  nextroute.ModelExpression
}

func newEngCtx(bt *built) *engCtx {
	e := &engCtx{exprs: make([]nextroute.ModelExpression, len(bt.d.resNames))}
	for _, c := range bt.model.Constraints() {
		mx, ok := c.(nextroute.Maximum)
		if !ok {
			continue
		}
		id := ""
		if idr, ok := c.(nextroute.Identifier); ok {
			id = idr.ID()
		}
		switch {
		case id == "distance_limit":
			e.dist = mx.Expression()
		case strings.HasPrefix(id, "capacity_"):
			for i, r := range bt.d.resNames {
				if r == strings.TrimPrefix(id, "capacity_") {
					e.exprs[i] = mx.Expression()
				}
			}
		}
	}
	for i, x := range e.exprs {
		if x != nil {
			e.live = append(e.live, i)
		}
	}
	return e
}

func engRoutes(sol nextroute.Solution) string {
	var parts []string
	for _, v := range sol.Vehicles() {
		parts = append(parts, engRoute(routeIdx(v)))
	}
	return strings.Join(parts, "|")
}

func routeIdx(v nextroute.SolutionVehicle) []int {
	var r []int
	for _, st := range v.SolutionStops() {
		if !st.IsFirst() && !st.IsLast() {
			r = append(r, st.ModelStop().Index())
		}
	}
	return r
}

func engRoute(r []int) string {
	if len(r) == 0 {
		return "-"
	}
	return csvI(r)
}

func (e *engCtx) digest(v nextroute.SolutionVehicle) string {
	var parts []string
	stops := v.SolutionStops()
	for _, st := range stops[1:] {
		var lv []string
		for _, i := range e.live {
			lv = append(lv, rat(st.CumulativeValue(e.exprs[i])))
		}
		lvs := "-"
		if len(lv) > 0 {
			lvs = strings.Join(lv, ";")
		}
		di := "-"
		if e.dist != nil {
			di = rat(st.CumulativeValue(e.dist))
		}
		parts = append(parts, fmt.Sprintf("%s:%s:%s:%s:%d:%s:%s", rat(st.ArrivalValue()), rat(st.StartValue()), rat(st.EndValue()),
			rat(st.CumulativeTravelDurationValue()), st.Position(), lvs, di))
	}
	return strings.Join(parts, ",")
}

type engOp struct {
	e      *engCtx
	set    string
	v, k   int
	suffix []int
}

func (e *engCtx) before(sol nextroute.Solution, v nextroute.SolutionVehicle, newRoute []int) *engOp {
	old := routeIdx(v)
	k := 0
	for k < len(old) && k < len(newRoute) && old[k] == newRoute[k] {
		k++
	}
	d := "0"
	if e.dist != nil {
		d = "1"
	}
	live := "-"
	if len(e.live) > 0 {
		live = csvI(e.live)
	}
	return &engOp{e: e, set: fmt.Sprintf("eng set R=%s live=%s dist=%s", engRoutes(sol), live, d), v: v.Index(), k: k,
		suffix: append([]int(nil), newRoute[k:]...)}
}

// beforeExecute: nil unless the move is a plain, executable stops move whose stops are all unplanned.
func (e *engCtx) beforeExecute(sol nextroute.Solution, mv nextroute.SolutionMove) *engOp {
	if e == nil {
		return nil
	}
	v, hyp, ok := hypRoute(mv)
	if !ok {
		return nil
	}
	return e.before(sol, v, hyp)
}

// hypLine: the route an executable move would produce, for the specification to judge (`hyp` lines: a move the engine
// offers as executable must lead to a route that satisfies every constraint — C09 on EVERY enumerated placement, not
// only on the ones that are executed).
func hypLine(o *Out, tag string, mv nextroute.SolutionMove) {
	v, hyp, ok := hypRoute(mv)
	if !ok {
		return
	}
	o.Op(fmt.Sprintf("hyp %s v=%d R=%s", tag, v.Index(), engRoute(hyp)), "hyp ok")
	o.Count("hyp-routes-judged")
}

// hypRoute: the vehicle and the route (model stop indices) a plain, executable stops move would produce.
func hypRoute(mv nextroute.SolutionMove) (nextroute.SolutionVehicle, []int, bool) {
	var none nextroute.SolutionVehicle
	m, ok := mv.(nextroute.SolutionMoveStops)
	if !ok || !mv.IsExecutable() || len(m.StopPositions()) == 0 {
		return none, nil, false
	}
	sps := m.StopPositions()
	for _, sp := range sps {
		if sp.Stop().IsPlanned() {
			return none, nil, false
		}
	}
	v := m.Vehicle()
	target := v.SolutionStops()
	gaps := make([]int, len(sps))
	for i := len(sps) - 1; i >= 0; i-- {
		if sps[i].Next().IsPlanned() {
			gaps[i] = sps[i].Next().Position()
		} else if i+1 < len(sps) {
			gaps[i] = gaps[i+1]
		} else {
			return none, nil, false
		}
	}
	var hyp []int
	k := 0
	for pos, st := range target {
		for k < len(sps) && gaps[k] == pos {
			hyp = append(hyp, sps[k].Stop().ModelStop().Index())
			k++
		}
		if !st.IsFirst() && !st.IsLast() {
			hyp = append(hyp, st.ModelStop().Index())
		}
	}
	if k != len(sps) {
		return none, nil, false
	}
	return v, hyp, true
}

// beforeUnplan: un-plan of a planned stops-unit (root or member).
func (e *engCtx) beforeUnplan(sol nextroute.Solution, u nextroute.SolutionPlanUnit) *engOp {
	su, ok := u.(nextroute.SolutionPlanStopsUnit)
	if e == nil || !ok || !su.IsPlanned() || len(su.SolutionStops()) == 0 {
		return nil
	}
	// a fixed unit, or a member of a unit that is fixed through another member, is refused by the bookkeeping before
	// the route is looked at (NR.Coll.unplanStops): nothing for the engine model to follow
	if rootUnitFixed(sol, su) {
		return nil
	}
	mine := map[int]bool{}
	for _, st := range su.SolutionStops() {
		mine[st.ModelStop().Index()] = true
	}
	v := su.SolutionStops()[0].Vehicle()
	var nr []int
	for _, s := range routeIdx(v) {
		if !mine[s] {
			nr = append(nr, s)
		}
	}
	return e.before(sol, v, nr)
}

func (e *engCtx) beforeVehicleUnplan(sol nextroute.Solution, v nextroute.SolutionVehicle) *engOp {
	if e == nil {
		return nil
	}
	var nr []int
	n := 0
	for _, st := range v.SolutionStops() {
		if st.IsFirst() || st.IsLast() {
			continue
		}
		if !removableByVehicleUnplan(sol, st) {
			nr = append(nr, st.ModelStop().Index())
		} else {
			n++
		}
	}
	if n == 0 {
		return nil
	}
	return e.before(sol, v, nr)
}

func (op *engOp) after(o *Out, sol nextroute.Solution, ok bool) {
	if op == nil {
		return
	}
	o.Op(op.set, "eng set ok")
	var v nextroute.SolutionVehicle
	for _, vv := range sol.Vehicles() {
		if vv.Index() == op.v {
			v = vv
		}
	}
	o.Op(fmt.Sprintf("eng op %d %d %s %s %s", op.v, op.k, engRoute(op.suffix), b01(ok), op.e.digest(v)),
		"eng "+b01(ok)+" same")
	o.Count("eng-correspondence:ok=" + strconv.FormatBool(ok))
}

// ---------------------------------------------------------------------------------------------- no-mix (NR.Mix)

func mixItemOf(c nextroute.NoMixConstraint, ins, rem map[nextroute.ModelStop]nextroute.MixItem, st nextroute.ModelStop) string {
	if it, ok := ins[st]; ok {
		return fmt.Sprintf("i:%s:%d", it.Name, it.Quantity)
	}
	if it, ok := rem[st]; ok {
		return fmt.Sprintf("r:%s:%d", it.Name, it.Quantity)
	}
	return "n"
}

func noMixConstraints(model nextroute.Model) []nextroute.NoMixConstraint {
	var out []nextroute.NoMixConstraint
	for _, c := range model.Constraints() {
		if nm, ok := c.(nextroute.NoMixConstraint); ok {
			out = append(out, nm)
		}
	}
	return out
}

// mixStates: for every no-mix constraint and vehicle with at least one item on its route, the items of the route and
// what the code says is on board after every stop (`mix st` lines, NR.Mix.upd).
func mixStates(o *Out, sol nextroute.Solution) {
	for _, c := range noMixConstraints(sol.Model()) {
		ins, rem := c.Insert(), c.Remove()
		for _, v := range sol.Vehicles() {
			stops := v.SolutionStops()
			if len(stops) <= 2 {
				continue
			}
			var items, vals []string
			any := false
			for _, st := range stops[1 : len(stops)-1] {
				it := mixItemOf(c, ins, rem, st.ModelStop())
				if it != "n" {
					any = true
				}
				items = append(items, it)
				val := c.Value(st)
				nm := val.Name
				if val.Quantity == 0 {
					nm = ""
				}
				vals = append(vals, fmt.Sprintf("%s:%d", nm, val.Quantity))
			}
			if !any {
				continue
			}
			o.Op("mix st "+strings.Join(items, ","), "mix st "+strings.Join(vals, ","))
			o.Count("mix-state-lines")
		}
	}
}

// mixEst: the no-mix estimate of a move against NR.Mix.est on the same placement.
func mixEst(o *Out, rec *recorder, mv nextroute.SolutionMoveStops, v nextroute.SolutionVehicle, gaps []int) {
	for i := range rec.ests {
		ev := &rec.ests[i]
		c, ok := ev.Constraint.(nextroute.NoMixConstraint)
		if !ok || ev.Move != nextroute.SolutionMove(mv) {
			continue
		}
		ins, rem := c.Insert(), c.Remove()
		var old, xs []string
		stops := v.SolutionStops()
		for _, st := range stops[1 : len(stops)-1] {
			old = append(old, mixItemOf(c, ins, rem, st.ModelStop()))
		}
		var gs []int
		for k, sp := range mv.StopPositions() {
			xs = append(xs, mixItemOf(c, ins, rem, sp.Stop().ModelStop()))
			gs = append(gs, gaps[k]-1) // gaps[k] = position of the next planned stop; in front of it: gaps[k]-1 planned stops
		}
		olds := "-"
		if len(old) > 0 {
			olds = strings.Join(old, ",")
		}
		o.Op(fmt.Sprintf("mix est %s %s %s", olds, strings.Join(xs, ","), csvI(gs)), "mix est "+b01(ev.Violated))
		o.Count("est-correspondence:no-mix")
	}
}

// rootUnitFixed: the unit or the root unit it belongs to contains a fixed stop.
func rootUnitFixed(sol nextroute.Solution, u nextroute.SolutionPlanUnit) bool {
	if u.IsFixed() {
		return true
	}
	mu := u.ModelPlanUnit()
	for {
		p, ok := mu.PlanUnitsUnit()
		if !ok {
			break
		}
		mu = p
	}
	su := sol.SolutionPlanUnit(mu)
	return su != nil && su.IsFixed()
}
