module verif/harness

go 1.21

require (
	github.com/nextmv-io/nextroute v0.0.0
	github.com/nextmv-io/sdk v1.8.0
)

require (
	github.com/danielgtaylor/huma v1.14.1 // indirect
	github.com/google/uuid v1.3.0 // indirect
	github.com/gorilla/schema v1.4.1 // indirect
	github.com/iancoleman/strcase v0.2.0 // indirect
	github.com/itzg/go-flagsfiller v1.9.1 // indirect
	github.com/xeipuuv/gojsonpointer v0.0.0-20190905194746-02993c407bfb // indirect
	github.com/xeipuuv/gojsonreference v0.0.0-20180127040603-bd5ef7bd5415 // indirect
	github.com/xeipuuv/gojsonschema v1.2.0 // indirect
	golang.org/x/exp v0.0.0-20240205201215-2c58cdc269a3 // indirect
	gonum.org/v1/gonum v0.14.0 // indirect
)

replace github.com/nextmv-io/nextroute => /repo
