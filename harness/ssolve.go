package main

// Stream `ssolve` (C06, single solver): the default single solver WITH the restart operator (NewSolver) on
// generated cases. The sequence of events — every operator execution with the work score it leaves and
// whether the operator can improve, every Reset with the score it resets to — is replayed through
// NR.Emit.srun; the scores read from the channel must be what the model delivers. On the code's own values:
// strictly decreasing, last delivered = BestSolution, not above the start, and a delivered solution never
// changes afterwards.

import (
	"fmt"
	"math/rand"
	"strings"
	"time"

	"github.com/nextmv-io/nextroute"
)

func init() { streams["ssolve"] = runSSolve }

func runSSolve(o *Out, _ *rand.Rand, thorough bool) {
	o.Meta.Rule = "a case = generated instance × single-solver options (restart threshold, iterations); non-trivial = a run in " +
		"which the restart operator fired at least once and at least two solutions were delivered; distinct by feature set"
	ncases := 80
	if thorough {
		ncases = 800
	}
	seen := map[string]bool{}
	for ci := 0; ci < ncases; ci++ {
		rng := o.CaseRng(ci)
		c := genCase(rng, fullProfile(5+rng.Intn(12), 1+rng.Intn(3)))
		restart := 5 + rng.Intn(40)
		iters := 150 + rng.Intn(500)
		c.Solve = &CSolve{Runs: restart, Iters: iters}
		if ci%4 == 3 {
			// the caller cancels from the handler of the k-th improvement: the context is done between the improving operator
			// and the next one of the same iteration — what was found must still be delivered (Starts holds k)
			c.Solve.Starts = 1 + rng.Intn(2)
			c.feature("cancelled-at-an-improvement")
		}
		if replayFile != "" {
			c = loadReplayCase(replayFile)
			restart, iters = c.Solve.Runs, c.Solve.Iters
			ncases = 1
		}
		cancelAt := c.Solve.Starts
		if !o.BeginCase(ci, c) {
			continue
		}
		o.Meta.Cases++
		bt, err, pan := buildCase(c)
		if pan != nil || err != nil {
			continue
		}
		sol, err := nextroute.NewSolution(bt.model)
		if err != nil {
			continue
		}
		opt := singleSolverOptions()
		opt.Restart = nextroute.IntParameterOptions{StartValue: restart, DeltaAfterIterations: 1000000000, Delta: 0, MinValue: restart, MaxValue: restart, SnapBackAfterImprovement: true, Zigzag: true}
		solver, err := nextroute.NewSolver(bt.model, opt)
		if err != nil {
			o.Count("solver-error")
			continue
		}
		var lines []string
		resets := 0
		var announced []float64
		solver.SolveEvents().Reset.Register(func(s nextroute.Solution, _ nextroute.SolveInformation) {
			lines = append(lines, "emit reset "+rat(s.Score()))
			resets++
		})
		solver.SolveEvents().OperatorExecuted.Register(func(info nextroute.SolveInformation) {
			ops := info.SolveOperators()
			ci := "0"
			if len(ops) > 0 && ops[len(ops)-1].CanResultInImprovement() {
				ci = "1"
			}
			lines = append(lines, "emit op "+rat(info.Solver().WorkSolution().Score())+" "+ci)
		})
		ctx, cancel := solveCtx(60 * time.Second)
		solver.SolveEvents().NewBestSolution.Register(func(info nextroute.SolveInformation) {
			announced = append(announced, info.Solver().BestSolution().Score())
			if cancelAt > 0 && len(announced) == cancelAt {
				o.Count("cancelled-at-an-improvement")
				cancel()
			}
		})
		solver.SolveEvents().ContextDone.Register(func(info nextroute.SolveInformation) {
			o.Count("ended-by-context-done")
			if len(o.Meta.Notes) < 5 {
				o.Meta.Notes = append(o.Meta.Notes, fmt.Sprintf("context done in iteration %d of %d", info.Iteration(), iters))
			}
		})
		ch, err := solver.Solve(ctx, nextroute.SolveOptions{Iterations: iters, Duration: 30 * time.Second}, sol)
		if err != nil {
			cancel()
			continue
		}
		var delivered []nextroute.Solution
		var atDelivery []float64
		var serr error
		for s := range ch {
			if s.Error != nil {
				serr = s.Error
				break
			}
			delivered = append(delivered, s.Solution)
			atDelivery = append(atDelivery, s.Solution.Score())
		}
		cancel()
		if serr != nil {
			o.Violate(Violation{Property: "C16", Clause: "engine-error", Sig: "C16|engine-error|single-solver", Detail: serr.Error(), Replay: c})
			continue
		}
		if len(delivered) == 0 {
			continue
		}
		viol := func(clause, detail string) {
			o.Violate(Violation{Property: "C06", Clause: clause, Sig: "C06|" + clause + "|single-solver", Detail: detail, Replay: c})
		}
		for i := 1; i < len(atDelivery); i++ {
			if !(atDelivery[i] < atDelivery[i-1]) {
				viol("not-strictly-decreasing", fmt.Sprintf("delivered %v then %v", atDelivery[i-1], atDelivery[i]))
			}
		}
		for i, s := range delivered {
			if s.Score() != atDelivery[i] {
				viol("delivered-solution-changed-afterwards", fmt.Sprintf("solution %d had score %v when delivered, %v at the end", i, atDelivery[i], s.Score()))
				break
			}
		}
		last := atDelivery[len(atDelivery)-1]
		if best := solver.BestSolution().Score(); best != last {
			viol("last-is-not-best", fmt.Sprintf("last delivered %v, BestSolution %v", last, best))
		}
		if last > atDelivery[0] {
			viol("worse-than-start", fmt.Sprintf("start %v, last %v", atDelivery[0], last))
		}
		// the model
		o.Op("emit start "+rat(atDelivery[0]), "emit start")
		for _, l := range lines {
			o.Op(l, strings.Join(strings.Fields(l)[:2], " "))
		}
		var ds []string
		for _, x := range atDelivery {
			ds = append(ds, rat(x))
		}
		o.Op("emit send", "emit send "+strings.Join(ds, ",")+" best "+rat(solver.BestSolution().Score()))
		o.CountN("resets", resets)
		o.CountN("operator-executions", len(lines)-resets)
		if resets > 0 && len(delivered) >= 2 && !seen[c.featureKey()] {
			seen[c.featureKey()] = true
			o.Distinct("feature-sets-with-restart")
		}
		o.Sample(map[string]any{"features": c.Features, "restart": restart, "iters": iters, "delivered": len(delivered), "resets": resets})
		if replayFile != "" {
			break
		}
	}
}
