package main

// The instance generator (DESIGN §4.1 `gen`). A Case is the harness's *own* description of a
// routing instance: everything numeric is an integer (seconds, metres, units), so that every
// float64 operation of the engine is exact. The Case is rendered to JSON, decoded into
// schema.Input exactly as the CLI does, and — independently of nextroute — written out as the
// `inst …` lines the Lean specification is evaluated on.

import (
	"encoding/json"
	"fmt"
	"math/rand"
	"sort"
	"strings"
	"time"

	"github.com/nextmv-io/nextroute/factory"
	"github.com/nextmv-io/nextroute/schema"
)

const baseTime = int64(1672560000) // 2023-01-01T08:00:00Z

type CPrec struct {
	To     int  `json:"to"`
	Direct bool `json:"direct"`
	// AsSucceeds: written in the JSON on the successor stop (`succeeds`) instead of on this stop (`precedes`)
	AsSucceeds bool `json:"as_succeeds,omitempty"`
	// Both: the relation is stated twice, as `precedes` on this stop AND as `succeeds` on the successor (valid input)
	Both bool `json:"both,omitempty"`
}

type CMix struct {
	Name string `json:"name"`
	Qty  int    `json:"qty"`
}

type CStop struct {
	ID       string          `json:"id"`
	Duration int             `json:"duration"`
	Qty      map[string]int  `json:"qty,omitempty"`
	Windows  [][2]int64      `json:"windows,omitempty"`
	MaxWait  *int            `json:"max_wait,omitempty"`
	Penalty  *int            `json:"penalty,omitempty"`
	Attrs    []string        `json:"attrs,omitempty"`
	Precedes []CPrec         `json:"precedes,omitempty"`
	Target   *int64          `json:"target,omitempty"`
	Early    *int            `json:"early,omitempty"`
	Late     *int            `json:"late,omitempty"`
	Mix      map[string]CMix `json:"mix,omitempty"`
	Custom   any             `json:"custom,omitempty"`
}

type CInitial struct {
	Stop  int  `json:"stop"` // index into Stops, or -(k+1) for alternate k
	Fixed bool `json:"fixed"`
}

type CVehicle struct {
	ID         string         `json:"id"`
	Cap        map[string]int `json:"cap,omitempty"`
	StartLevel map[string]int `json:"start_level,omitempty"`
	Start      *int64         `json:"start,omitempty"`
	End        *int64         `json:"end,omitempty"`
	MaxStops   *int           `json:"max_stops,omitempty"`
	MaxDist    *int           `json:"max_dist,omitempty"`
	MaxDur     *int           `json:"max_dur,omitempty"`
	MaxWait    *int           `json:"max_wait,omitempty"`
	Attrs      []string       `json:"attrs,omitempty"`
	Activation *int           `json:"activation,omitempty"`
	MinStops   *int           `json:"min_stops,omitempty"`
	MinPenalty *int           `json:"min_penalty,omitempty"`
	Mult       *int           `json:"mult,omitempty"`
	StartLoc   bool           `json:"start_loc"`
	EndLoc     bool           `json:"end_loc"`
	Initial    []CInitial     `json:"initial,omitempty"`
	Alternates []int          `json:"alternates,omitempty"` // indices into Alts
	Custom     any            `json:"custom,omitempty"`
}

type CFrame struct {
	S, E   int64
	Scale  *float64 `json:"scale,omitempty"`
	Matrix [][]int  `json:"matrix,omitempty"`
}

type CTD struct {
	Default [][]int  `json:"default"`
	Frames  []CFrame `json:"frames"`
}

type CDurGroup struct {
	Stops []int `json:"stops"`
	Dur   int   `json:"dur"`
}

// CSoft: a capacity that is an objective term instead of a constraint (objectives.capacities).
type CSoft struct {
	Res    string `json:"res"`
	Factor int    `json:"factor"`
	Offset int    `json:"offset"`
}

type COptions struct {
	Soft      []CSoft        `json:"soft,omitempty"`    // soft capacities (the capacity constraint is disabled with them)
	Disable   []string       `json:"disable,omitempty"` // names of constraints.disable.* flags that are set
	Factors   map[string]int `json:"factors"`           // objective factors (integers)
	DisableIS bool           `json:"disable_initial,omitempty"`
}

type Case struct {
	Stops     []CStop     `json:"stops"`
	Alts      []CStop     `json:"alts,omitempty"`
	Vehicles  []CVehicle  `json:"vehicles"`
	Dur       [][]int     `json:"dur,omitempty"`
	TD        *CTD        `json:"td,omitempty"`
	Dist      [][]int     `json:"dist"`
	DurGroups []CDurGroup `json:"dur_groups,omitempty"`
	Groups    [][]int     `json:"groups,omitempty"`
	Opt       COptions    `json:"opt"`
	Features  []string    `json:"features"`
	Solve     *CSolve     `json:"solve,omitempty"` // solver options the `sol` stream used for this case
	// Neutral: (a, x, b) triples of the neutral-detour feature — visiting x between a and b leaves b's times unchanged
	Neutral [][3]int `json:"neutral,omitempty"`
	// Trap: (A, B) of the removal-trap feature — on the first vehicle the route A, B ends in time, the route A alone does not
	Trap []int `json:"trap,omitempty"`
	// Loose: groups of stops whose plan units form a plan-all unit that does NOT require one vehicle
	// (NewPlanAllPlanUnits(false, …): public model API, no JSON equivalent); added to the model after the factory built it
	Loose [][]int `json:"loose,omitempty"`
	// ClaimMetric: the travel durations come from points in the plane (a metric), nothing bends them afterwards, and the
	// harness declares so through the model API (SetSatisfiesTriangleInequality(true) — no JSON equivalent): the engine then
	// skips the latest-start / latest-end exact checks
	ClaimMetric bool `json:"claim_metric,omitempty"`
	// Grid: the stops' coordinates lie on a grid (travel comes from the matrices; the coordinates matter for the
	// closest-stops lists of the un-plan operator only)
	Grid bool `json:"grid,omitempty"`
	// DGScript: the members of a duration group (each waits for its window behind the one before it) and a stop that must
	// start soon after the last member is done; planned in this order at the start of a histw history
	DGScript []int `json:"dg_script,omitempty"`
	// InitUnplan: a stop of a unit that came as initial stops in an order other than that of its stops' indices; the
	// history un-plans that unit first
	InitUnplan []int `json:"init_unplan,omitempty"`
	// FixedMid: a fixed initial stop F and two stops A, B: the histuc history plans A behind F, B in front of F and then
	// un-plans the vehicle with the resulting route forbidden
	FixedMid []int `json:"fixed_mid,omitempty"`
}

type CSolve struct {
	Runs   int  `json:"runs"`
	Starts int  `json:"starts"`
	Det    bool `json:"det"`
	Iters  int  `json:"iters"`
	Slice  int  `json:"slice,omitempty"` // iterations per run handed out by the options factory (0 = the default factory)
	// Mode (repro stream): "" / "parallel" = the parallel solver as shipped; "parallel-norestart" = the parallel solver
	// with a solver factory whose restart operator never fires; "single" = the single solver read by a plain consumer
	Mode string `json:"mode,omitempty"`
	// Explicit (sol stream): number of start solutions BUILT BY THE HARNESS and handed to Solve (0: none); ExplicitSeed
	// drives how many units each of them has planned and their order
	Explicit     int   `json:"explicit,omitempty"`
	ExplicitSeed int64 `json:"explicit_seed,omitempty"`
}

// Profile steers which features a generated case may use.
type Profile struct {
	MaxStops, MaxVehicles                                                           int
	Capacity, Windows, Precedence, Groups, Alternates, Initial, TD, DurGroups, Mult bool
	Attrs, Mix, Limits, Waits, Targets, MinStops, Disable, NonMetric                bool
	Tight                                                                           bool
	ForcePrec                                                                       bool // precedence units always on
	StatedTwice                                                                     bool // some precedence relations are stated from both sides
	ForceMix                                                                        bool // mixing items on most stops, units of three stops with items
	GroupTrap                                                                       bool // a stop group whose members can only be removed in reverse order
	Loose                                                                           bool // plan-all units over several vehicles (API only)
	Metric                                                                          bool // travel durations from points in the plane, declared metric through the API
	OneSidedRes                                                                     bool // with MultiRes: the first resource has quantities of one sign only
	MultiRes                                                                        bool // several capacity resources, quantities of both signs, small and large vehicles
	Trap                                                                            bool // removal trap (see Case.Trap)
	ForceWindows                                                                    bool // windows, wait limits and a non-metric matrix always on
	ForceUnordered                                                                  bool // at least one multi-stop unit with several allowed orders
	SoftCap                                                                         bool // capacities as objective terms (constraint off)
	ForceDurGroups                                                                  bool // a duration group with a long duration whose members wait for a late window
	InitialUnordered                                                                bool // an unordered multi-stop unit as initial stops, not in index order, interleaved
	FixedMiddle                                                                     bool // a fixed initial stop that ends up between two removable stops (see Case.FixedMid)
	MinStopCount                                                                    int  // at least this many stops
}

func fullProfile(maxStops, maxVeh int) Profile {
	return Profile{MaxStops: maxStops, MaxVehicles: maxVeh, Capacity: true, Windows: true, Precedence: true,
		Groups: true, Alternates: true, Initial: true, TD: true, DurGroups: true, Mult: true, Attrs: true,
		Mix: true, Limits: true, Waits: true, Targets: true, MinStops: true, Disable: true, NonMetric: true, StatedTwice: true, Loose: true}
}

func ip(i int) *int       { return &i }
func i64p(i int64) *int64 { return &i }

func (c *Case) feature(f string) { c.Features = append(c.Features, f) }

func (c *Case) measureSize() int { return len(c.Stops) + len(c.Alts) + 2*len(c.Vehicles) }

func genMatrix(rng *rand.Rand, m int, lo, hi int, nonMetric bool) [][]int {
	// points on a line/grid give a metric matrix; nonMetric perturbs entries independently
	xs := make([]int, m)
	ys := make([]int, m)
	for i := range xs {
		xs[i] = rng.Intn(hi)
		ys[i] = rng.Intn(hi)
	}
	out := make([][]int, m)
	for i := range out {
		out[i] = make([]int, m)
		for j := range out[i] {
			if i == j {
				continue
			}
			d := abs(xs[i]-xs[j]) + abs(ys[i]-ys[j]) + lo
			if nonMetric {
				d = lo + rng.Intn(2*hi)
			}
			out[i][j] = d
		}
	}
	return out
}

func abs(x int) int {
	if x < 0 {
		return -x
	}
	return x
}

// genCase draws one case. Every feature is toggled independently (with the given probability
// denominators) so that combinations the goldens never contain do occur.
func genCase(rng *rand.Rand, p Profile) *Case {
	c := &Case{}
	on := func(enabled bool, oneIn int) bool { return enabled && rng.Intn(oneIn) == 0 }
	n := 2 + rng.Intn(p.MaxStops-1)
	if n < p.MinStopCount {
		n = p.MinStopCount
	}
	nv := 1 + rng.Intn(p.MaxVehicles)
	resources := []string{"default"}
	if on(p.Capacity, 3) || p.MultiRes {
		resources = []string{"w", "v"}
		if rng.Intn(2) == 0 {
			resources = append(resources, "z")
		}
	}
	useCap := on(p.Capacity, 2) || p.MultiRes
	useWin := on(p.Windows, 2) || p.ForceWindows
	usePrec := on(p.Precedence, 2)
	if p.ForceUnordered || p.ForcePrec {
		usePrec = true
	}
	useAttrs := on(p.Attrs, 3)
	useMix := on(p.Mix, 5) || p.ForceMix
	useTargets := on(p.Targets, 4)
	useWaitStop := useWin && (on(p.Waits, 3) || (p.ForceWindows && rng.Intn(2) == 0))
	useWaitVeh := useWin && (on(p.Waits, 3) || p.ForceWindows)
	attrsPool := []string{"a", "b", "c"}
	for i := 0; i < n; i++ {
		s := CStop{ID: fmt.Sprintf("s%d", i), Duration: 60 * rng.Intn(6)}
		if rng.Intn(5) == 0 {
			s.Duration = 0
		}
		if rng.Intn(3) == 0 {
			s.Penalty = ip(1000 * (1 + rng.Intn(50)))
		}
		if useCap {
			s.Qty = map[string]int{}
			for _, r := range resources {
				if rng.Intn(4) != 0 {
					q := -(1 + rng.Intn(5)) // JSON quantity < 0 = load increases
					if rng.Intn(3) == 0 {
						q = 1 + rng.Intn(5)
					}
					if p.OneSidedRes && r == resources[0] && q > 0 {
						q = -q // this resource is only ever loaded: its constraint answers in another regime (and with other hints) than the others
					}
					s.Qty[r] = q
				}
			}
			if len(s.Qty) == 0 {
				s.Qty = nil
			}
		}
		if useWin && rng.Intn(3) != 0 {
			nw := 1
			if rng.Intn(3) == 0 {
				nw = 2 + rng.Intn(2)
			}
			t := baseTime + int64(rng.Intn(120))*60
			for k := 0; k < nw; k++ {
				l := int64(10+rng.Intn(120)) * 60
				if p.Tight {
					l = int64(2+rng.Intn(20)) * 60
				}
				s.Windows = append(s.Windows, [2]int64{t, t + l})
				t += l + int64(rng.Intn(90))*60
			}
			if useWaitStop && rng.Intn(2) == 0 {
				s.MaxWait = ip(60 * rng.Intn(40))
				if rng.Intn(4) == 0 {
					s.MaxWait = ip(0) // zero is a legal limit: no waiting at all
				}
			}
		}
		if useAttrs && rng.Intn(2) == 0 {
			s.Attrs = []string{attrsPool[rng.Intn(3)]}
			if rng.Intn(3) == 0 {
				s.Attrs = append(s.Attrs, attrsPool[rng.Intn(3)])
				s.Attrs = uniq(s.Attrs)
			}
		}
		if useTargets && rng.Intn(2) == 0 {
			s.Target = i64p(baseTime + int64(rng.Intn(200))*60)
			if rng.Intn(3) != 0 {
				s.Early = ip(1 + rng.Intn(3))
			}
			if rng.Intn(3) != 0 {
				s.Late = ip(1 + rng.Intn(3))
			}
		}
		c.Stops = append(c.Stops, s)
	}
	if useCap {
		c.feature("capacity")
		if len(resources) > 1 {
			c.feature("multi-resource")
		}
	}
	if useWin {
		c.feature("windows")
	}
	if useAttrs {
		c.feature("attributes")
	}
	if useTargets {
		c.feature("targets")
	}
	// precedence: chains, diamonds, direct arcs over disjoint stop sets
	if usePrec && n >= 3 {
		c.feature("precedence")
		perm := rng.Perm(n)
		i := 0
		for i+1 < n && (rng.Intn(3) != 0 || (p.ForceUnordered && i == 0)) {
			k := 2 + rng.Intn(3)
			if p.ForceUnordered && k < 3 {
				k = 3 + rng.Intn(2)
			}
			if i+k > n {
				k = n - i
			}
			if k < 2 {
				break
			}
			g := perm[i : i+k]
			shape := rng.Intn(4)
			if p.ForceUnordered {
				shape = rng.Intn(2) // diamonds and forks: units with several allowed orders
				if k < 4 {
					shape = 1
				}
			}
			add := func(a, b int, direct bool) {
				pr := CPrec{To: b, Direct: direct, AsSucceeds: rng.Intn(3) == 0}
				if p.StatedTwice && rng.Intn(3) == 0 {
					pr.Both = true
					c.feature("relation-stated-twice")
				}
				c.Stops[a].Precedes = append(c.Stops[a].Precedes, pr)
			}
			switch {
			case shape == 0 && k >= 4: // diamond
				add(g[0], g[1], false)
				add(g[0], g[2], false)
				add(g[1], g[3], false)
				add(g[2], g[3], false)
				c.feature("diamond")
			case shape == 1 && k >= 3: // fork (unordered siblings)
				for j := 1; j < k; j++ {
					add(g[0], g[j], false)
				}
				c.feature("fork")
			case shape == 2 && k >= 3: // vee: several predecessors of one stop, possibly one of them direct
				d := rng.Intn(2) == 0
				if d {
					c.feature("direct")
				}
				add(g[0], g[k-1], d)
				for j := 1; j < k-1; j++ {
					add(g[j], g[k-1], false)
				}
				c.feature("vee")
			default: // chain, possibly with direct arcs
				for j := 0; j+1 < k; j++ {
					d := rng.Intn(3) == 0
					if d {
						c.feature("direct")
					}
					add(g[j], g[j+1], d)
				}
			}
			// pickup-and-delivery flavour: make quantities balance over the unit
			if useCap && rng.Intn(2) == 0 {
				for _, r := range resources {
					q := 1 + rng.Intn(4)
					c.Stops[g[0]].Qty = ensure(c.Stops[g[0]].Qty)
					c.Stops[g[k-1]].Qty = ensure(c.Stops[g[k-1]].Qty)
					c.Stops[g[0]].Qty[r] = -q
					c.Stops[g[k-1]].Qty[r] = q
					for _, mid := range g[1 : k-1] {
						if c.Stops[mid].Qty != nil {
							delete(c.Stops[mid].Qty, r)
						}
					}
				}
			}
			i += k
		}
	}
	// mixing items on pickup/delivery pairs
	if useMix {
		c.feature("mix")
		names := []string{"A", "B"}
		free := func(i int) bool {
			return i < n && len(c.Stops[i].Precedes) == 0 && !isSuccessor(c, i) && c.Stops[i].Mix == nil
		}
		// units of three stops whose precedence leaves one stop unordered: two pickups and one drop-off of their sum
		// (only ONE pickup is forced in front of it), or one pickup and two drop-offs — the orders in which the unit's
		// own running quantity dips below what a drop-off takes are exactly those the estimate has to reason about (E29)
		for i := 0; i+2 < n; i += 3 {
			if (rng.Intn(3) != 0 && !(p.ForceMix && rng.Intn(3) != 0)) || !free(i) || !free(i+1) || !free(i+2) {
				continue
			}
			nm := names[rng.Intn(2)]
			a, b := 1+rng.Intn(2), 1+rng.Intn(2)
			if k := rng.Intn(3); k == 2 {
				// a stop without an item in front of a pickup / drop-off pair of the same unit (E30)
				c.Stops[i].Precedes = append(c.Stops[i].Precedes, CPrec{To: i + 1})
				c.Stops[i+1].Precedes = append(c.Stops[i+1].Precedes, CPrec{To: i + 2})
				c.Stops[i+1].Mix = map[string]CMix{"main": {Name: nm, Qty: a}}
				c.Stops[i+2].Mix = map[string]CMix{"main": {Name: nm, Qty: -a}}
				c.feature("mix-behind-plain-stop")
			} else if k == 0 {
				// first pickup → drop-off, first pickup → second pickup: the drop-off may come before the second pickup
				c.Stops[i].Precedes = append(c.Stops[i].Precedes, CPrec{To: i + 2}, CPrec{To: i + 1, AsSucceeds: true})
				c.Stops[i].Mix = map[string]CMix{"main": {Name: nm, Qty: a}}
				c.Stops[i+1].Mix = map[string]CMix{"main": {Name: nm, Qty: b}}
				c.Stops[i+2].Mix = map[string]CMix{"main": {Name: nm, Qty: -(a + b)}}
				c.feature("mix-two-pickups")
			} else {
				c.Stops[i].Precedes = append(c.Stops[i].Precedes, CPrec{To: i + 1}, CPrec{To: i + 2})
				c.Stops[i].Mix = map[string]CMix{"main": {Name: nm, Qty: a + b}}
				c.Stops[i+1].Mix = map[string]CMix{"main": {Name: nm, Qty: -a}}
				c.Stops[i+2].Mix = map[string]CMix{"main": {Name: nm, Qty: -b}}
				c.feature("mix-two-dropoffs")
			}
		}
		for i := 0; i+1 < n; i += 2 {
			if (rng.Intn(2) == 0 && !p.ForceMix) || c.Stops[i].Mix != nil || c.Stops[i+1].Mix != nil {
				continue
			}
			if len(c.Stops[i].Precedes) == 0 && !isSuccessor(c, i) && len(c.Stops[i+1].Precedes) == 0 && !isSuccessor(c, i+1) {
				c.Stops[i].Precedes = append(c.Stops[i].Precedes, CPrec{To: i + 1})
				nm := names[rng.Intn(2)]
				q := 1 + rng.Intn(3)
				c.Stops[i].Mix = map[string]CMix{"main": {Name: nm, Qty: q}}
				c.Stops[i+1].Mix = map[string]CMix{"main": {Name: nm, Qty: -q}}
			}
		}
	}
	// stop groups: built from whole precedence units (a unit belongs to at most one group)
	if on(p.Groups, 3) && n >= 4 {
		units := c.unitsOfStops()
		if len(units) >= 3 {
			c.feature("stop_groups")
			perm := rng.Perm(len(units))
			k := 2 + rng.Intn(2)
			mk := func(us []int) []int {
				var g []int
				for _, u := range us {
					if rng.Intn(2) == 0 {
						g = append(g, units[u]...)
					} else {
						g = append(g, units[u][rng.Intn(len(units[u]))])
					}
					if len(units[u]) > 1 {
						c.feature("group-of-multistop-units")
					}
				}
				return g
			}
			c.Groups = append(c.Groups, mk(perm[:k]))
			if len(units) >= k+3 && rng.Intn(2) == 0 {
				c.Groups = append(c.Groups, mk(perm[k:k+2]))
			}
		}
	}
	// alternates
	nalt := 0
	if on(p.Alternates, 4) {
		c.feature("alternates")
		nalt = 1 + rng.Intn(3)
		if rng.Intn(3) != 0 && nalt < 2 {
			nalt = 2 // a vehicle with several alternates: at most one of them may be used
		}
		for k := 0; k < nalt; k++ {
			a := CStop{ID: fmt.Sprintf("alt%d", k), Duration: 60 * rng.Intn(4), Penalty: ip(1000 * (1 + rng.Intn(20)))}
			if rng.Intn(3) == 0 {
				a.Custom = map[string]any{"alt": k}
			}
			if useWin && rng.Intn(2) == 0 {
				// alternates with a window of their own (a vehicle may have to wait there)
				t := baseTime + int64(rng.Intn(150))*60
				a.Windows = [][2]int64{{t, t + int64(10+rng.Intn(120))*60}}
				c.feature("alternates-with-window")
			}
			if useCap && rng.Intn(2) == 0 {
				// alternates that load or unload something (one model stop per vehicle that lists the alternate: each of the
				// copies has to carry the quantity)
				a.Qty = map[string]int{}
				for _, r := range resources {
					if rng.Intn(3) != 0 {
						a.Qty[r] = -(1 + rng.Intn(6))
						if rng.Intn(4) == 0 {
							a.Qty[r] = 1 + rng.Intn(3)
						}
					}
				}
				if len(a.Qty) == 0 {
					a.Qty = nil
				} else {
					c.feature("alternates-with-quantity")
				}
			}
			c.Alts = append(c.Alts, a)
		}
	}
	// vehicles
	capOnAll := rng.Intn(3) != 0
	for v := 0; v < nv; v++ {
		ve := CVehicle{ID: fmt.Sprintf("v%d", v), StartLoc: rng.Intn(6) != 0, EndLoc: rng.Intn(6) != 0}
		if rng.Intn(5) != 0 {
			ve.Start = i64p(baseTime + int64(rng.Intn(60))*60)
		}
		if useCap && (capOnAll || rng.Intn(2) == 0) {
			ve.Cap = map[string]int{}
			for _, r := range resources {
				ve.Cap[r] = 4 + rng.Intn(12)
				if p.Tight {
					ve.Cap[r] = 3 + rng.Intn(5)
				}
				if p.MultiRes && v > 0 && rng.Intn(2) == 0 {
					ve.Cap[r] = 1 + rng.Intn(3) // smaller than some single stop's quantity (the first vehicle stays large)
				}
			}
			if rng.Intn(3) == 0 {
				ve.StartLevel = map[string]int{}
				for _, r := range resources {
					if rng.Intn(2) == 0 {
						ve.StartLevel[r] = rng.Intn(ve.Cap[r] + 1)
					}
				}
				if len(ve.StartLevel) == 0 {
					ve.StartLevel = nil
				} else {
					c.feature("start_level")
				}
			}
		}
		if on(p.Limits, 4) {
			ve.MaxStops = ip(rng.Intn(n + 1))
			c.feature("max_stops")
		}
		if on(p.Limits, 4) {
			ve.MaxDist = ip(500 + rng.Intn(4000))
			c.feature("max_distance")
		}
		if on(p.Limits, 4) && ve.Start != nil {
			ve.MaxDur = ip(1800 + 60*rng.Intn(240))
			c.feature("max_duration")
		}
		if on(p.Limits, 3) && ve.Start != nil {
			ve.End = i64p(*ve.Start + int64(3600+60*rng.Intn(300)))
			c.feature("end_time")
		}
		if useWaitVeh && rng.Intn(2) == 0 {
			ve.MaxWait = ip(60 * rng.Intn(60))
			if rng.Intn(5) == 0 {
				ve.MaxWait = ip(0)
			}
			c.feature("max_wait_vehicle")
		}
		if useAttrs && rng.Intn(3) != 0 {
			ve.Attrs = []string{attrsPool[rng.Intn(3)]}
			if rng.Intn(2) == 0 {
				ve.Attrs = uniq(append(ve.Attrs, attrsPool[rng.Intn(3)]))
			}
		}
		if rng.Intn(4) == 0 {
			ve.Activation = ip(100 * (1 + rng.Intn(30)))
			c.feature("activation")
		}
		if on(p.MinStops, 5) {
			ve.MinStops = ip(1 + rng.Intn(3))
			ve.MinPenalty = ip(10 * (1 + rng.Intn(20)))
			c.feature("min_stops")
		}
		if on(p.Mult, 4) {
			ve.Mult = ip(2 + rng.Intn(2))
			c.feature("multiplier")
		}
		if nalt > 0 && rng.Intn(3) != 0 {
			k := 1 + rng.Intn(nalt)
			if k < 2 && nalt >= 2 && rng.Intn(2) == 0 {
				k = 2
			}
			ve.Alternates = rng.Perm(nalt)[:k]
			sort.Ints(ve.Alternates)
		}
		if rng.Intn(4) == 0 {
			ve.Custom = map[string]any{"veh": v, "tag": "x"}
		}
		c.Vehicles = append(c.Vehicles, ve)
	}
	if useWaitStop {
		c.feature("max_wait_stop")
	}
	m := c.measureSize()
	nonMetric := (on(p.NonMetric, 3) || p.ForceWindows) && !p.Metric
	if nonMetric {
		c.feature("non-metric")
	}
	c.Dist = genMatrix(rng, m, 10, 400, nonMetric && rng.Intn(2) == 0)
	if on(p.TD, 5) {
		c.feature("time-dependent")
		td := &CTD{Default: genMatrix(rng, m, 30, 600, nonMetric)}
		t := baseTime + int64(rng.Intn(30))*60
		nf := 1 + rng.Intn(3)
		scales := []float64{0.5, 1.5, 2, 3}
		for k := 0; k < nf; k++ {
			t += int64(rng.Intn(40)) * 60
			l := int64(10+rng.Intn(60)) * 60
			f := CFrame{S: t, E: t + l}
			if rng.Intn(2) == 0 {
				s := scales[rng.Intn(len(scales))]
				f.Scale = &s
			} else {
				f.Matrix = genMatrix(rng, m, 30, 900, nonMetric)
			}
			td.Frames = append(td.Frames, f)
			t += l
		}
		c.TD = td
	} else {
		c.Dur = genMatrix(rng, m, 30, 600, nonMetric)
	}
	if (on(p.DurGroups, 4) || p.ForceDurGroups) && n >= 3 {
		c.feature("duration_groups")
		perm := rng.Perm(n)
		k := 2 + rng.Intn(2)
		g := CDurGroup{Stops: append([]int(nil), perm[:k]...), Dur: 60 * (1 + rng.Intn(10))}
		if p.ForceDurGroups {
			// a long shared duration, and members whose window opens late: a member that is reached early WAITS — put a
			// stranger in front of it and it starts when it started before, pays the group's duration itself and ends later
			g.Dur = 60 * (8 + rng.Intn(15))
			open := baseTime + int64(40+rng.Intn(60))*60
			lastOpen := open
			for _, m := range g.Stops {
				if rng.Intn(5) != 0 {
					c.Stops[m].Windows = [][2]int64{{open, open + int64(30+rng.Intn(90))*60}}
					c.Stops[m].MaxWait = nil
				}
				// the next member opens after the one before it is done: reached from it, it waits
				lastOpen = open
				open += int64(g.Dur) + int64(15+rng.Intn(30))*60
			}
			// and a stop that can only start after the last member has opened and must start soon after it is done: reachable
			// when that member ends without paying the group's duration, too late when it pays it
			lastM := g.Stops[len(g.Stops)-1]
			for i := range c.Stops {
				inG := false
				for _, m := range g.Stops {
					inG = inG || m == i
				}
				if !inG {
					c.Stops[i].Windows = [][2]int64{{lastOpen, lastOpen + int64(c.Stops[lastM].Duration) + 60*int64(5+rng.Intn(g.Dur/60+5))}}
					c.Stops[i].MaxWait = nil
					// the history first plans the members and this stop one behind the other (see hist.go)
					c.DGScript = append(append([]int(nil), g.Stops...), i)
					break
				}
			}
			c.feature("duration-group-members-wait")
		}
		c.DurGroups = append(c.DurGroups, g)
	}
	// arrival-neutral detours: a zero-duration stop x that can be visited between a and b without changing
	// the arrival at b (the branch where the wait estimates stop walking the route early)
	if c.Dur != nil && n >= 3 && !p.Metric && (rng.Intn(3) == 0 || (p.ForceWindows && rng.Intn(2) == 0) || p.ForcePrec) {
		c.feature("neutral-detour")
		for k := 0; k < 1+rng.Intn(3); k++ {
			pm := rng.Perm(n)
			a, x, b := pm[0], pm[1], pm[2]
			if rng.Intn(2) == 0 || p.ForcePrec {
				// the neutral stop is an EARLIER stop of a multi-stop unit (a pickup): its later stops are then
				// inserted behind planned stops whose times the first insertion left unchanged
				for _, cand := range pm {
					if len(c.Stops[cand].Precedes) == 0 {
						continue
					}
					succ := map[int]bool{cand: true}
					for _, pr := range c.Stops[cand].Precedes {
						succ[pr.To] = true
					}
					var rest []int
					for _, t := range pm {
						if !succ[t] {
							rest = append(rest, t)
						}
					}
					if len(rest) >= 2 {
						a, x, b = rest[0], cand, rest[1]
						// the pickup never waits (a wait would shift everything behind it)
						c.Stops[cand].Windows = nil
						c.Stops[cand].MaxWait = nil
						// … and its successors tolerate little waiting, so that their own limit is what decides
						for _, pr := range c.Stops[cand].Precedes {
							if len(c.Stops[pr.To].Windows) > 0 && rng.Intn(2) == 0 {
								w := 60 * rng.Intn(3)
								c.Stops[pr.To].MaxWait = &w
								if rng.Intn(2) == 0 {
									// … and open late: wherever they are placed early in the day they wait too long
									t := baseTime + int64(150+rng.Intn(60))*60
									c.Stops[pr.To].Windows = [][2]int64{{t, t + 7200}}
								}
							}
						}
						c.feature("neutral-detour-first-stop-of-unit")
					}
					break
				}
			}
			if len(c.DurGroups) > 0 && rng.Intn(2) == 0 {
				// the detour leaves and re-enters a duration group: the END of b changes, its arrival does not
				g := c.DurGroups[0].Stops
				in := map[int]bool{}
				for _, s := range g {
					in[s] = true
				}
				for _, s := range pm {
					if !in[s] {
						a, b, x = g[0], g[1], s
						break
					}
				}
			}
			c.Stops[x].Duration = 0
			c.Dur[a][x] = 0
			c.Dur[x][b] = c.Dur[a][b]
			c.Neutral = append(c.Neutral, [3]int{a, x, b})
		}
	}
	// removal trap: two plain stops A, B and the first vehicle's end time chosen so that start → A → B → end just fits
	// while the direct leg A → end is long (a non-metric matrix): un-planning B would make the vehicle finish late
	if p.Trap && c.Dur != nil && n >= 2 && len(c.Vehicles) > 0 {
		var plain []int
		for i := range c.Stops {
			inGroup := false
			for _, g := range c.DurGroups {
				for _, s := range g.Stops {
					if s == i {
						inGroup = true
					}
				}
			}
			incoming := false
			for _, st := range c.Stops {
				for _, pr := range st.Precedes {
					if pr.To == i {
						incoming = true
					}
				}
			}
			if len(c.Stops[i].Precedes) == 0 && !incoming && !inGroup {
				plain = append(plain, i)
			}
		}
		ve := &c.Vehicles[0]
		if len(plain) >= 2 && ve.Start != nil && ve.Mult == nil && len(ve.Initial) == 0 {
			rng.Shuffle(len(plain), func(i, j int) { plain[i], plain[j] = plain[j], plain[i] })
			a, b := plain[0], plain[1]
			c.Stops[a].Windows, c.Stops[a].MaxWait = nil, nil
			c.Stops[b].Windows, c.Stops[b].MaxWait = nil, nil
			ve.StartLoc, ve.EndLoc = true, true
			sIdx := len(c.Stops) + len(c.Alts)
			eIdx := sIdx + 1
			chain := c.Dur[sIdx][a] + c.Stops[a].Duration + c.Dur[a][b] + c.Stops[b].Duration + c.Dur[b][eIdx]
			c.Dur[sIdx][b] = c.Dur[sIdx][a]
			c.Dur[a][eIdx] = c.Dur[a][b] + c.Stops[b].Duration + c.Dur[b][eIdx] + 600
			end := *ve.Start + int64(chain) + 30
			switch rng.Intn(3) {
			case 0:
				ve.End = &end
				ve.MaxDur = nil
			case 1:
				md := chain + 30
				ve.MaxDur = &md
				ve.End = nil
			default: // the same trap for the distance limit
				ve.End, ve.MaxDur = nil, nil
				c.Dist[sIdx][b] = c.Dist[sIdx][a]
				c.Dist[a][eIdx] = c.Dist[a][b] + c.Dist[b][eIdx] + 500
				md := c.Dist[sIdx][a] + c.Dist[a][b] + c.Dist[b][eIdx] + 10
				ve.MaxDist = &md
				c.feature("removal-trap-distance")
			}
			ve.MaxWait = nil
			c.Trap = []int{a, b}
			c.feature("removal-trap")
		}
	}
	// initial stops: a feasible-looking prefix assignment that respects units (unit members together,
	// in precedence order); sometimes fixed
	if p.FixedMiddle {
		// one fixed initial stop on the first vehicle; the history puts a stop behind it and one in front of it and then
		// asks for a vehicle-level un-plan that is rejected: the two must come back on BOTH sides of the stop that stayed
		units := c.unitsOfStops()
		var singles []int
		for _, u := range units {
			if len(u) == 1 && !c.inGroup(u) {
				singles = append(singles, u[0])
			}
		}
		if len(singles) >= 3 {
			c.feature("initial")
			c.feature("fixed")
			c.Vehicles[0].Initial = append(c.Vehicles[0].Initial, CInitial{Stop: singles[0], Fixed: true})
			c.FixedMid = singles[:3]
		}
	} else if p.InitialUnordered {
		// a multi-stop unit whose precedence leaves its order open comes as initial stops in an allowed order that is NOT the
		// order of its stops' indices, with a foreign stop between its stops (B X A C for A, B before C); the history
		// un-plans it first (see hist.go)
		units := c.unitsOfStops()
		var multi, single []int
		for _, u := range units {
			direct := false
			for _, s := range u {
				for _, pr := range c.Stops[s].Precedes {
					direct = direct || pr.Direct
				}
			}
			if c.inGroup(u) || direct {
				continue
			}
			if len(u) >= 3 && multi == nil {
				multi = u
			}
			if len(u) == 1 && single == nil {
				single = u
			}
		}
		if multi != nil && single != nil {
			for try := 0; try < 8; try++ {
				su := append([]int(nil), multi...)
				rng.Shuffle(len(su), func(i, j int) { su[i], su[j] = su[j], su[i] })
				seq := c.topo(su)
				sorted := true
				for i := 1; i < len(seq); i++ {
					sorted = sorted && seq[i-1] < seq[i]
				}
				if sorted && try < 7 {
					continue
				}
				c.feature("initial")
				c.feature("initial-interleaved")
				for i, s := range seq {
					c.Vehicles[0].Initial = append(c.Vehicles[0].Initial, CInitial{Stop: s})
					if i == 0 {
						c.Vehicles[0].Initial = append(c.Vehicles[0].Initial, CInitial{Stop: single[0]})
					}
				}
				c.InitUnplan = []int{seq[0], single[0]}
				break
			}
		}
	} else if on(p.Initial, 4) {
		c.feature("initial")
		units := c.unitsOfStops()
		used := 0
		order := rng.Perm(len(units))
		seqs := map[int][][]CInitial{} // per vehicle: the units' stop sequences
		for _, ui := range order {
			if used >= 3 || rng.Intn(2) == 0 {
				continue
			}
			u := units[ui]
			if c.inGroup(u) {
				continue
			}
			v := rng.Intn(nv)
			fixed := rng.Intn(3) == 0
			if fixed {
				c.feature("fixed")
			}
			// any order the unit's precedence allows, not only the one that follows the stops' indices
			su := append([]int(nil), u...)
			rng.Shuffle(len(su), func(i, j int) { su[i], su[j] = su[j], su[i] })
			var seq []CInitial
			for _, s := range c.topo(su) {
				seq = append(seq, CInitial{Stop: s, Fixed: fixed})
			}
			seqs[v] = append(seqs[v], seq)
			used++
		}
		for v := 0; v < nv; v++ {
			ss := seqs[v]
			direct := false
			for _, seq := range ss {
				for _, in := range seq {
					for _, pr := range c.Stops[in.Stop].Precedes {
						direct = direct || pr.Direct
					}
				}
			}
			if len(ss) >= 2 && !direct && rng.Intn(2) == 0 {
				// the units' stops interleaved (each unit keeps its own order): B X A C for a unit {A, B} before C and a stop X
				c.feature("initial-interleaved")
				for {
					var live []int
					for i, seq := range ss {
						if len(seq) > 0 {
							live = append(live, i)
						}
					}
					if len(live) == 0 {
						break
					}
					k := live[rng.Intn(len(live))]
					c.Vehicles[v].Initial = append(c.Vehicles[v].Initial, ss[k][0])
					ss[k] = ss[k][1:]
				}
			} else {
				for _, seq := range ss {
					c.Vehicles[v].Initial = append(c.Vehicles[v].Initial, seq...)
				}
			}
		}
		// a whole stop group as initial stops of one vehicle, its member units one after the other, each member fixed or
		// not on its own (the repair of an infeasible initial route must treat the group as one unit)
		if len(c.Groups) > 0 && rng.Intn(2) == 0 {
			g := c.Groups[rng.Intn(len(c.Groups))]
			in := map[int]bool{}
			for _, s := range g {
				in[s] = true
			}
			v := rng.Intn(nv)
			anyFixed := false
			for _, u := range units {
				if len(u) == 0 || !in[u[0]] {
					continue
				}
				fixed := rng.Intn(2) == 0
				anyFixed = anyFixed || fixed
				for _, s := range c.topo(u) {
					c.Vehicles[v].Initial = append(c.Vehicles[v].Initial, CInitial{Stop: s, Fixed: fixed})
				}
			}
			c.feature("initial-group")
			if anyFixed {
				c.feature("fixed")
			}
		}
	}
	// options
	c.Opt.Factors = map[string]int{"vehicles_duration": 1, "unplanned_penalty": 1, "vehicle_activation_penalty": 1,
		"min_stops": 1, "early_arrival_penalty": 1, "late_arrival_penalty": 1}
	if rng.Intn(3) == 0 {
		c.Opt.Factors["travel_duration"] = 1 + rng.Intn(3)
	}
	if rng.Intn(5) == 0 {
		c.Opt.Factors["vehicles_duration"] = rng.Intn(3)
	}
	if rng.Intn(6) == 0 {
		c.Opt.Factors["stop_balance"] = 1 + rng.Intn(3)
		c.feature("stop_balance")
	}
	if on(p.Disable, 6) {
		all := []string{"attributes", "capacity", "distance_limit", "maximum_duration", "maximum_stops",
			"maximum_wait_stop", "maximum_wait_vehicle", "vehicle_end_time", "start_time_windows"}
		c.Opt.Disable = []string{all[rng.Intn(len(all))]}
		c.feature("disable:" + c.Opt.Disable[0])
	}
	// soft capacities: the capacity constraint off, the excess over the capacity an objective term (per-stop objective data)
	if on(p.Disable, 5) || p.SoftCap {
		names := map[string]bool{}
		for _, st := range c.Stops {
			for k := range st.Qty {
				names[k] = true
			}
		}
		for _, ve := range c.Vehicles {
			for k := range ve.Cap {
				names[k] = true
			}
		}
		var ns []string
		for k := range names {
			ns = append(ns, k)
		}
		sort.Strings(ns)
		if len(ns) > 0 {
			c.Opt.Disable = []string{"capacity"}
			for _, k := range ns {
				if len(c.Opt.Soft) == 0 || rng.Intn(2) == 0 {
					c.Opt.Soft = append(c.Opt.Soft, CSoft{Res: k, Factor: 1 + rng.Intn(3), Offset: []int{0, 0, 100, 1000}[rng.Intn(4)]})
				}
			}
			c.feature("soft-capacity")
		}
	}
	// loose groups: two or three whole plan units that must be planned together but not on one vehicle
	if p.Loose && rng.Intn(3) == 0 && len(c.Alts) == 0 {
		initial := map[int]bool{}
		for _, ve := range c.Vehicles {
			for _, in := range ve.Initial {
				initial[in.Stop] = true
			}
		}
		var free [][]int
		for _, u := range c.unitsOfStops() {
			ok := !c.inGroup(u)
			for _, st := range u {
				if initial[st] {
					ok = false // a group is planned as a whole or not at all: no member may come as an initial stop
				}
			}
			if ok {
				free = append(free, u)
			}
		}
		if len(free) >= 2 {
			rng.Shuffle(len(free), func(i, j int) { free[i], free[j] = free[j], free[i] })
			k := 2 + rng.Intn(2)
			if k > len(free) {
				k = len(free)
			}
			var g []int
			for _, u := range free[:k] {
				g = append(g, u...)
			}
			c.Loose = append(c.Loose, g)
			c.feature("loose-group")
		}
	}
	// group trap: a stop group of three plain stops a (+q), b (-x), c (-(q-x)) on a resource of capacity q: b and c can
	// only be on a vehicle behind a, so the members can be planned in one order and removed only in the reverse one —
	// the rollback of a group move that fails at its last member must undo the earlier members last-in-first-out
	if p.GroupTrap && n >= 3 {
		var plain []int
		for i := range c.Stops {
			if len(c.Stops[i].Precedes) == 0 && !isSuccessor(c, i) && !c.inGroup([]int{i}) && c.Stops[i].Mix == nil {
				plain = append(plain, i)
			}
		}
		if len(plain) >= 3 {
			rng.Shuffle(len(plain), func(i, j int) { plain[i], plain[j] = plain[j], plain[i] })
			a, b, d := plain[0], plain[1], plain[2]
			q := 2 + rng.Intn(8)
			x := 1 + rng.Intn(q-1)
			for _, i := range []int{a, b, d} {
				if c.Stops[i].Qty == nil {
					c.Stops[i].Qty = map[string]int{}
				}
				c.Stops[i].Windows, c.Stops[i].MaxWait, c.Stops[i].Attrs = nil, nil, nil
			}
			c.Stops[a].Qty["trap"] = -q
			c.Stops[b].Qty["trap"] = x
			c.Stops[d].Qty["trap"] = q - x
			for v := range c.Vehicles {
				if c.Vehicles[v].Cap == nil {
					c.Vehicles[v].Cap = map[string]int{}
				}
				c.Vehicles[v].Cap["trap"] = q
				if c.Vehicles[v].StartLevel != nil {
					delete(c.Vehicles[v].StartLevel, "trap")
				}
			}
			c.Groups = append(c.Groups, []int{a, b, d})
			c.feature("group-trap")
			c.feature("stop_groups")
			c.feature("capacity")
		}
	}
	// distance-matrix entries of absent start / end locations are zero: unlike the duration matrix (TemporalValues
	// skips legs from / to an invalid location) the code READS them (measureByIndexExpression), so what a valid input
	// puts there decides the travelled distance; the haversine default gives 0 for such legs (DESIGN, observation O1)
	for v, ve := range c.Vehicles {
		base := len(c.Stops) + len(c.Alts) + 2*v
		for _, idx := range []int{base, base + 1} {
			if (idx == base && ve.StartLoc) || (idx == base+1 && ve.EndLoc) || idx >= len(c.Dist) {
				continue
			}
			for j := range c.Dist {
				c.Dist[idx][j] = 0
				c.Dist[j][idx] = 0
			}
		}
	}
	hasInitial := false
	for _, ve := range c.Vehicles {
		if len(ve.Initial) > 0 {
			hasInitial = true
		}
	}
	// (not together with initial stops: under the claim the engine does not check initial routes against windows or the
	// vehicle's end at all — E35, kept as a corpus case)
	if !nonMetric && !hasInitial && c.Dur != nil && len(c.DurGroups) == 0 && len(c.Neutral) == 0 && len(c.Trap) == 0 && (rng.Intn(2) == 0 || p.Metric) {
		c.ClaimMetric = true
		c.feature("claims-triangle-inequality")
	}
	c.Features = uniq(c.Features)
	return c
}

func uniq(xs []string) []string {
	sort.Strings(xs)
	out := xs[:0]
	for i, x := range xs {
		if i == 0 || x != xs[i-1] {
			out = append(out, x)
		}
	}
	return out
}

func ensure(m map[string]int) map[string]int {
	if m == nil {
		return map[string]int{}
	}
	return m
}

func isSuccessor(c *Case, i int) bool {
	for _, s := range c.Stops {
		for _, p := range s.Precedes {
			if p.To == i {
				return true
			}
		}
	}
	return false
}

// unitsOfStops: connected components of the precedence relation (the factory's plan units of stops).
func (c *Case) unitsOfStops() [][]int {
	n := len(c.Stops)
	parent := make([]int, n)
	for i := range parent {
		parent[i] = i
	}
	var find func(int) int
	find = func(x int) int {
		if parent[x] != x {
			parent[x] = find(parent[x])
		}
		return parent[x]
	}
	for i, s := range c.Stops {
		for _, p := range s.Precedes {
			parent[find(i)] = find(p.To)
		}
	}
	groups := map[int][]int{}
	for i := 0; i < n; i++ {
		groups[find(i)] = append(groups[find(i)], i)
	}
	var out [][]int
	for i := 0; i < n; i++ {
		if g, ok := groups[i]; ok && find(i) == i {
			out = append(out, g)
		}
	}
	// deterministic order: by smallest member
	sort.Slice(out, func(a, b int) bool { return out[a][0] < out[b][0] })
	return out
}

func (c *Case) inGroup(unit []int) bool {
	for _, g := range append(append([][]int{}, c.Groups...), c.Loose...) {
		for _, s := range g {
			for _, u := range unit {
				if s == u {
					return true
				}
			}
		}
	}
	return false
}

// topo returns the stops of a unit in an order compatible with its arcs (direct successors adjacent
// for chains, which is all the generator produces with direct arcs).
func (c *Case) topo(unit []int) []int {
	in := map[int]int{}
	for _, s := range unit {
		in[s] = 0
	}
	for _, s := range unit {
		for _, p := range c.Stops[s].Precedes {
			in[p.To]++
		}
	}
	var out []int
	done := map[int]bool{}
	for len(out) < len(unit) {
		progressed := false
		for _, s := range unit {
			if !done[s] && in[s] == 0 {
				// follow direct chain
				cur := s
				for {
					out = append(out, cur)
					done[cur] = true
					progressed = true
					next := -1
					for _, p := range c.Stops[cur].Precedes {
						in[p.To]--
						if p.Direct {
							next = p.To
						}
					}
					if next < 0 || done[next] || in[next] != 0 {
						break
					}
					cur = next
				}
				break
			}
		}
		if !progressed {
			break
		}
	}
	return out
}

// ---------------------------------------------------------------------------------- JSON rendering

func tstr(t int64) string { return time.Unix(t, 0).UTC().Format(time.RFC3339) }

func (c *Case) stopJSON(s CStop, idx int, alt bool) map[string]any {
	m := map[string]any{"id": s.ID, "location": map[string]any{"lon": 4.0 + float64(idx)*0.01, "lat": 52.0}}
	if c.Grid {
		// stops on a grid: many stops share a longitude or a latitude and many are equally far from each other
		m["location"] = map[string]any{"lon": 4.0 + float64(idx%8)*0.0025, "lat": 52.0 + float64(idx/8)*0.0025}
	}
	if s.Duration != 0 || idx%2 == 0 {
		m["duration"] = s.Duration
	}
	if s.Qty != nil {
		if v, ok := s.Qty["default"]; ok && len(s.Qty) == 1 {
			m["quantity"] = v
		} else {
			q := map[string]any{}
			for k, v := range s.Qty {
				q[k] = v
			}
			m["quantity"] = q
		}
	}
	if len(s.Windows) == 1 {
		m["start_time_window"] = []any{tstr(s.Windows[0][0]), tstr(s.Windows[0][1])}
	} else if len(s.Windows) > 1 {
		var ws []any
		for _, w := range s.Windows {
			ws = append(ws, []any{tstr(w[0]), tstr(w[1])})
		}
		m["start_time_window"] = ws
	}
	if s.MaxWait != nil {
		m["max_wait"] = *s.MaxWait
	}
	if s.Penalty != nil {
		m["unplanned_penalty"] = *s.Penalty
	}
	if s.Target != nil {
		m["target_arrival_time"] = tstr(*s.Target)
	}
	if s.Early != nil {
		m["early_arrival_time_penalty"] = *s.Early
	}
	if s.Late != nil {
		m["late_arrival_time_penalty"] = *s.Late
	}
	if s.Custom != nil {
		m["custom_data"] = s.Custom
	}
	if alt {
		return m
	}
	if s.Attrs != nil {
		m["compatibility_attributes"] = s.Attrs
	}
	// arcs written on this stop as `succeeds` (declared by some predecessor with AsSucceeds)
	var ss []any
	for pi, ps := range c.Stops {
		for _, p := range ps.Precedes {
			if (p.AsSucceeds || p.Both) && p.To == idx {
				if p.Direct {
					ss = append(ss, map[string]any{"id": c.Stops[pi].ID, "direct": true})
				} else {
					ss = append(ss, c.Stops[pi].ID)
				}
			}
		}
	}
	if len(ss) == 1 {
		if str, ok := ss[0].(string); ok {
			m["succeeds"] = str
		} else {
			m["succeeds"] = ss
		}
	} else if len(ss) > 1 {
		m["succeeds"] = ss
	}
	own := s.Precedes[:0:0]
	for _, p := range s.Precedes {
		if !p.AsSucceeds || p.Both {
			own = append(own, p)
		}
	}
	if len(own) > 0 {
		var ps []any
		for _, p := range own {
			if p.Direct {
				ps = append(ps, map[string]any{"id": c.Stops[p.To].ID, "direct": true})
			} else {
				ps = append(ps, c.Stops[p.To].ID)
			}
		}
		if len(ps) == 1 && !own[0].Direct {
			m["precedes"] = ps[0]
		} else {
			m["precedes"] = ps
		}
	}
	if s.Mix != nil {
		mm := map[string]any{}
		for k, v := range s.Mix {
			mm[k] = map[string]any{"name": v.Name, "quantity": v.Qty}
		}
		m["mixing_items"] = mm
	}
	return m
}

func resMap(m map[string]int) any {
	if v, ok := m["default"]; ok && len(m) == 1 {
		return v
	}
	o := map[string]any{}
	for k, v := range m {
		o[k] = v
	}
	return o
}

func (c *Case) toJSON() map[string]any {
	in := map[string]any{}
	var stops []any
	for i, s := range c.Stops {
		stops = append(stops, c.stopJSON(s, i, false))
	}
	in["stops"] = stops
	if len(c.Alts) > 0 {
		var alts []any
		for i, s := range c.Alts {
			alts = append(alts, c.stopJSON(s, len(c.Stops)+i, true))
		}
		in["alternate_stops"] = alts
	}
	var vs []any
	for _, v := range c.Vehicles {
		m := map[string]any{"id": v.ID, "speed": 10}
		if v.Cap != nil {
			m["capacity"] = resMap(v.Cap)
		}
		if v.StartLevel != nil {
			m["start_level"] = resMap(v.StartLevel)
		}
		if v.Start != nil {
			m["start_time"] = tstr(*v.Start)
		}
		if v.End != nil {
			m["end_time"] = tstr(*v.End)
		}
		if v.MaxStops != nil {
			m["max_stops"] = *v.MaxStops
		}
		if v.MaxDist != nil {
			m["max_distance"] = *v.MaxDist
		}
		if v.MaxDur != nil {
			m["max_duration"] = *v.MaxDur
		}
		if v.MaxWait != nil {
			m["max_wait"] = *v.MaxWait
		}
		if v.Attrs != nil {
			m["compatibility_attributes"] = v.Attrs
		}
		if v.Activation != nil {
			m["activation_penalty"] = *v.Activation
		}
		if v.MinStops != nil {
			m["min_stops"] = *v.MinStops
			m["min_stops_penalty"] = *v.MinPenalty
		}
		if v.Mult != nil {
			m["stop_duration_multiplier"] = *v.Mult
		}
		if v.StartLoc {
			m["start_location"] = map[string]any{"lon": 4.5, "lat": 52.1}
		}
		if v.EndLoc {
			m["end_location"] = map[string]any{"lon": 4.5, "lat": 52.1}
		}
		if v.Alternates != nil {
			var as []any
			for _, a := range v.Alternates {
				as = append(as, c.Alts[a].ID)
			}
			m["alternate_stops"] = as
		}
		if len(v.Initial) > 0 {
			var is []any
			for _, ini := range v.Initial {
				id := ""
				if ini.Stop >= 0 {
					id = c.Stops[ini.Stop].ID
				} else {
					id = c.Alts[-ini.Stop-1].ID
				}
				e := map[string]any{"id": id}
				if ini.Fixed {
					e["fixed"] = true
				}
				is = append(is, e)
			}
			m["initial_stops"] = is
		}
		if v.Custom != nil {
			m["custom_data"] = v.Custom
		}
		vs = append(vs, m)
	}
	in["vehicles"] = vs
	in["distance_matrix"] = c.Dist
	if c.TD != nil {
		var fr []any
		for _, f := range c.TD.Frames {
			e := map[string]any{"start_time": tstr(f.S), "end_time": tstr(f.E)}
			if f.Scale != nil {
				e["scaling_factor"] = *f.Scale
			} else {
				e["matrix"] = f.Matrix
			}
			fr = append(fr, e)
		}
		in["duration_matrix"] = map[string]any{"default_matrix": c.TD.Default, "matrix_time_frames": fr}
	} else {
		in["duration_matrix"] = c.Dur
	}
	if len(c.DurGroups) > 0 {
		var gs []any
		for _, g := range c.DurGroups {
			var ids []any
			for _, s := range g.Stops {
				ids = append(ids, c.Stops[s].ID)
			}
			gs = append(gs, map[string]any{"group": ids, "duration": g.Dur})
		}
		in["duration_groups"] = gs
	}
	if len(c.Groups) > 0 {
		var gs []any
		for _, g := range c.Groups {
			var ids []any
			for _, s := range g {
				ids = append(ids, c.Stops[s].ID)
			}
			gs = append(gs, ids)
		}
		in["stop_groups"] = gs
	}
	return in
}

// input decodes the case the way the CLI decodes a file: JSON text → schema.Input.
func (c *Case) input() (schema.Input, []byte, error) {
	b, err := json.Marshal(c.toJSON())
	if err != nil {
		return schema.Input{}, nil, err
	}
	var in schema.Input
	if err := json.Unmarshal(b, &in); err != nil {
		return schema.Input{}, b, err
	}
	return in, b, nil
}

func (c *Case) options() factory.Options {
	var o factory.Options
	f := func(k string) float64 { return float64(c.Opt.Factors[k]) }
	o.Objectives.VehiclesDuration = f("vehicles_duration")
	o.Objectives.UnplannedPenalty = f("unplanned_penalty")
	o.Objectives.VehicleActivationPenalty = f("vehicle_activation_penalty")
	o.Objectives.MinStops = f("min_stops")
	o.Objectives.EarlyArrivalPenalty = f("early_arrival_penalty")
	o.Objectives.LateArrivalPenalty = f("late_arrival_penalty")
	o.Objectives.TravelDuration = f("travel_duration")
	o.Objectives.StopBalance = f("stop_balance")
	var soft []string
	for _, sc := range c.Opt.Soft {
		soft = append(soft, fmt.Sprintf("name=%s;factor=%d;offset=%d", sc.Res, sc.Factor, sc.Offset))
	}
	o.Objectives.Capacities = strings.Join(soft, ";")
	o.Validate.Disable.StartTime = true
	for _, d := range c.Opt.Disable {
		switch d {
		case "attributes":
			o.Constraints.Disable.Attributes = true
		case "capacity":
			o.Constraints.Disable.Capacity = true
		case "distance_limit":
			o.Constraints.Disable.DistanceLimit = true
		case "maximum_duration":
			o.Constraints.Disable.MaximumDuration = true
		case "maximum_stops":
			o.Constraints.Disable.MaximumStops = true
		case "maximum_wait_stop":
			o.Constraints.Disable.MaximumWaitStop = true
		case "maximum_wait_vehicle":
			o.Constraints.Disable.MaximumWaitVehicle = true
		case "vehicle_end_time":
			o.Constraints.Disable.VehicleEndTime = true
		case "start_time_windows":
			o.Constraints.Disable.StartTimeWindows = true
		case "mixing_items":
			o.Constraints.Disable.MixingItems = true
		case "precedence":
			o.Constraints.Disable.Precedence = true
		case "groups":
			o.Constraints.Disable.Groups = true
		}
	}
	o.Properties.Disable.InitialSolution = c.Opt.DisableIS
	return o
}

func (c *Case) disabled(name string) bool {
	for _, d := range c.Opt.Disable {
		if d == name {
			return true
		}
	}
	return false
}

func (c *Case) featureKey() string { return strings.Join(c.Features, "+") }
