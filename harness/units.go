package main

// Stream `units` (C16, C03): the factory's grouping of precedence relations into plan units (allSequences / mergeUnits /
// toExistingUnit in factory/plan_units.go) on inputs that hold nothing but precedence: forests and DAGs over a random
// permutation of the stops, every relation stated as `precedes` on the predecessor, as `succeeds` on the successor, or
// both — so that many partial chains are open at once, are joined in every order, and grow afterwards. The relations in
// the order the factory processes them go to NR.Units.run (the code's index bookkeeping, proved right for every list of
// relations: Props/C16U); the plan units of the built model (sets of stops) must be the model's units. A panic in
// NewModel / NewSolution is a C16 violation; a relation whose stops end up in different units is a C03 violation.

import (
	"encoding/json"
	"fmt"
	"math/rand"
	"sort"
	"strings"

	"github.com/nextmv-io/nextroute"
	"github.com/nextmv-io/nextroute/factory"
	"github.com/nextmv-io/nextroute/schema"
)

func init() { streams["units"] = runUnits }

type unitsRel struct {
	A    int    `json:"a"`   // predecessor (stop index in input order)
	B    int    `json:"b"`   // successor
	How  string `json:"how"` // precedes | succeeds | both
	Dir  bool   `json:"direct,omitempty"`
	Rank int    `json:"rank"` // position among the relations listed on the same stop
}

type unitsCase struct {
	N    int        `json:"n"`
	Rels []unitsRel `json:"rels"`
}

func genUnitsCase(rng *rand.Rand) unitsCase {
	c := unitsCase{N: 3 + rng.Intn(14)}
	perm := rng.Perm(c.N)
	pLink := []float64{0.5, 0.7, 0.85}[rng.Intn(3)]
	for k := 1; k < c.N; k++ {
		x := rng.Float64()
		switch {
		case x < pLink:
			c.Rels = append(c.Rels, unitsRel{A: perm[k-1], B: perm[k]})
		case x < pLink+0.1:
			// a second predecessor / a branch: any earlier stop of the order (acyclic by construction)
			c.Rels = append(c.Rels, unitsRel{A: perm[rng.Intn(k)], B: perm[k]})
			if k >= 2 && rng.Intn(2) == 0 {
				c.Rels = append(c.Rels, unitsRel{A: perm[rng.Intn(k)], B: perm[k]})
			}
		}
	}
	seen := map[[2]int]bool{}
	out := c.Rels[:0]
	for _, r := range c.Rels {
		if r.A == r.B || seen[[2]int{r.A, r.B}] {
			continue
		}
		seen[[2]int{r.A, r.B}] = true
		r.How = []string{"precedes", "succeeds", "precedes", "succeeds", "both"}[rng.Intn(5)]
		r.Rank = rng.Intn(1000)
		out = append(out, r)
	}
	c.Rels = out
	return c
}

// processed: the relations in the order the factory handles them — stop by stop in input order, a stop's `precedes`
// entries first, then its `succeeds` entries, each in listed order.
func (c *unitsCase) processed() (order [][2]int, doc map[string]any) {
	type ent struct {
		other int
		rank  int
		dir   bool
	}
	prec := map[int][]ent{}
	succ := map[int][]ent{}
	for _, r := range c.Rels {
		if r.How == "precedes" || r.How == "both" {
			prec[r.A] = append(prec[r.A], ent{r.B, r.Rank, r.Dir})
		}
		if r.How == "succeeds" || r.How == "both" {
			succ[r.B] = append(succ[r.B], ent{r.A, r.Rank, r.Dir})
		}
	}
	var stops []any
	for i := 0; i < c.N; i++ {
		m := map[string]any{"id": fmt.Sprintf("s%d", i),
			"location": map[string]any{"lon": 4.0 + 0.001*float64(i%5), "lat": 52.0 + 0.001*float64(i/5)}}
		ps, ss := prec[i], succ[i]
		sort.SliceStable(ps, func(a, b int) bool { return ps[a].rank < ps[b].rank })
		sort.SliceStable(ss, func(a, b int) bool { return ss[a].rank < ss[b].rank })
		if len(ps) > 0 {
			var l []any
			for _, e := range ps {
				l = append(l, fmt.Sprintf("s%d", e.other))
				order = append(order, [2]int{i, e.other})
			}
			if len(l) == 1 {
				m["precedes"] = l[0]
			} else {
				m["precedes"] = l
			}
		}
		if len(ss) > 0 {
			var l []any
			for _, e := range ss {
				l = append(l, fmt.Sprintf("s%d", e.other))
				order = append(order, [2]int{e.other, i})
			}
			if len(l) == 1 {
				m["succeeds"] = l[0]
			} else {
				m["succeeds"] = l
			}
		}
		stops = append(stops, m)
	}
	doc = map[string]any{"stops": stops, "vehicles": []any{map[string]any{"id": "v0", "speed": 10,
		"start_location": map[string]any{"lon": 4.0, "lat": 52.0}}}}
	return order, doc
}

func runUnits(o *Out, _ *rand.Rand, thorough bool) {
	n := 2500
	if thorough {
		n = 60000
	}
	if replayFile != "" {
		n = 1
	}
	o.Meta.Rule = "a case = precedence-only input (forest / DAG over a permutation of the stops, relations stated on either side); " +
		"non-trivial = a case in which two units that already exist are joined (a merge) and a relation is handled after it; " +
		"distinct by (stops, units, merges)"
	for ci := 0; ci < n; ci++ {
		c := genUnitsCase(o.CaseRng(ci))
		if replayFile != "" {
			c = unitsCase{} // a replay is the whole case: nothing of the generated one may shine through fields the file omits
			loadReplayInto(replayFile, &c)
		}
		if !o.BeginCase(ci, c) {
			continue
		}
		o.Meta.Cases++
		runUnitsCase(o, &c)
	}
}

func runUnitsCase(o *Out, c *unitsCase) {
	defer func() {
		if r := recover(); r != nil {
			o.Violate(Violation{Property: "C16", Clause: "panic", Sig: "C16|panic|units|" + sigDetail(fmt.Sprint(r)), Detail: fmt.Sprint(r), Replay: c})
		}
	}()
	order, doc := c.processed()
	b, _ := json.Marshal(doc)
	var in schema.Input
	if e := json.Unmarshal(b, &in); e != nil {
		o.Count("units-decode-error")
		return
	}
	var opt factory.Options
	opt.Validate.Disable.StartTime = true
	model, err := factory.NewModel(in, opt)
	if err != nil {
		o.Count("units-rejected")
		if len(o.Meta.Notes) < 3 {
			o.Meta.Notes = append(o.Meta.Notes, "units rejected: "+err.Error())
		}
		return
	}
	// merges and what follows them (for the coverage record): replay the bookkeeping
	inUnit := map[int]int{}
	next, merges, afterMerge := 0, 0, 0
	for _, r := range order {
		ua, oka := inUnit[r[0]]
		ub, okb := inUnit[r[1]]
		if merges > 0 {
			afterMerge++
		}
		switch {
		case oka && okb && ua != ub:
			merges++
			for s, u := range inUnit {
				if u == ub {
					inUnit[s] = ua
				}
			}
		case oka:
			inUnit[r[1]] = ua
		case okb:
			inUnit[r[0]] = ub
		default:
			inUnit[r[0]], inUnit[r[1]] = next, next
			next++
		}
	}
	var got [][]int
	idx := func(s nextroute.ModelStop) int {
		var i int
		fmt.Sscanf(s.ID(), "s%d", &i)
		return i
	}
	unitOf := map[int]int{}
	for ui, u := range model.PlanStopsUnits() {
		var l []int
		for _, s := range u.Stops() {
			l = append(l, idx(s))
			unitOf[idx(s)] = ui
		}
		sort.Ints(l)
		if len(l) >= 2 {
			got = append(got, l)
		}
	}
	sort.Slice(got, func(i, j int) bool { return got[i][0] < got[j][0] })
	var gs []string
	for _, l := range got {
		gs = append(gs, csvI(l))
	}
	ans := "-"
	if len(gs) > 0 {
		ans = strings.Join(gs, ";")
	}
	var rs []string
	for _, r := range order {
		rs = append(rs, fmt.Sprintf("%d:%d", r[0], r[1]))
	}
	line := "-"
	if len(rs) > 0 {
		line = strings.Join(rs, ",")
	}
	o.Op("units "+line, "units "+ans)
	o.Count("units-built")
	for _, r := range order {
		if unitOf[r[0]] != unitOf[r[1]] {
			o.Violate(Violation{Property: "C03", Clause: "relation-across-units", Sig: "C03|relation-across-units|-|factory",
				Detail: fmt.Sprintf("s%d precedes s%d but they are in different plan units", r[0], r[1]), Replay: c})
			break
		}
	}
	if _, err := nextroute.NewSolution(model); err != nil {
		o.Count("units-new-solution-error")
	}
	o.CountN("units-merges", merges)
	if merges > 0 && afterMerge > 1 {
		o.Count("units-cases-with-a-relation-after-a-merge")
		o.Distinct(fmt.Sprintf("stops=%d:units=%d:merges=%d", c.N, len(got), merges))
	}
}
